"""dev tool: correspondence of the exchange model on N generated cases; prints divergences with both vectors."""
import sys, json, re, time
from fractions import Fraction as F
from harness import common, exchange_driver as xd, exchange_gen as xg
common.ensure_repo_on_path()

def parse_qlist(txt):
    out=[]
    txt=txt.strip()
    if txt.startswith("["): txt=txt[1:]
    if txt.endswith("]"): txt=txt[:-1]
    for tok in txt.split(";"):
        tok=tok.strip().replace("(","").replace(")","").replace("%Q","")
        if not tok: continue
        if "#" in tok:
            a,b=tok.split("#"); out.append(F(int(a.strip()),int(b.strip())))
        else:
            out.append(F(tok))
    return out

def main():
    n=int(sys.argv[1]); seed=int(sys.argv[2]) if len(sys.argv)>2 else 1
    profile=sys.argv[3] if len(sys.argv)>3 else "mixed"
    size=sys.argv[4] if len(sys.argv)>4 else "small"
    rnd=common.rng_for(seed,"excorr")
    items=[];keep=[];inexact=0;t0=time.time();crashed=0
    for i in range(n):
        case=xg.gen_case(rnd,profile,size)
        try:
            tr,exact=xd.run_exact(case)
        except Exception as e:
            crashed+=1
            print("DRIVER CRASH",i,repr(e)); json.dump(case,open(f"/tmp/excrash_{i}.json","w"));
            if crashed>3: raise
            continue
        if not exact: inexact+=1; continue
        items.append(xd.coq_check_item(tr.case,tr)); keep.append((case,tr))
    print(f"impl runs: {time.time()-t0:.1f}s, inexact={inexact}, cases={len(items)}, steps={sum(len(t.steps) for _,t in keep)}")
    t0=time.time()
    res=common.coq_eval_sharded("excorr",xd.EX_HEADER,items,per_file=40)
    print(f"coq: {time.time()-t0:.1f}s")
    nd=0
    from collections import Counter
    kinds=Counter()
    for (case,tr),r in zip(keep,res):
        for s in tr.steps:
            kinds[(s["op"][0], int(s["reply"][0]), int(s["reply"][1]) if s["reply"][0]==3 else 0)]+=1
        if r=="Agree": continue
        nd+=1
        if nd>int(sys.argv[5] if len(sys.argv)>5 else 2): continue
        m=re.match(r"Diverge (\d+)",r); k=int(m.group(1))
        out=common.coq_eval("excorr_dbg", xd.EX_HEADER+xd.coq_trace_item(tr.case,tr,k)+"\n")
        mv=parse_qlist(common.parse_evals(out)[0])
        iv=tr.steps[k]["vec"] if k<len(tr.steps) else tr.event_vec
        print("DIVERGE at step",k, tr.steps[k]["op"] if k<len(tr.steps) else "events", tr.steps[k].get("exc") if k<len(tr.steps) else "")
        diffs=[(i,str(a),str(b)) for i,(a,b) in enumerate(zip(iv,mv)) if a!=b]
        print(" len impl/model:",len(iv),len(mv)," first diffs (idx, impl, model):",diffs[:8])
        json.dump(case,open(f"/tmp/exdiv_{nd}.json","w"))
    print("diverged:",nd,"of",len(keep))
    print(sorted(kinds.items()))
main()
