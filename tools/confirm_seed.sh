#!/bin/bash
# tools/confirm_seed.sh <seed dir>: in a scratch worktree confirm: demo passes on the clean tree, fails with the patch,
# and the 226 baseline tests still pass with the patch.  Prints one JSON line.
seed="$1"; name=$(basename "$seed")
wt=/tmp/wt_confirm_$name
git -C /repo worktree remove --force $wt >/dev/null 2>&1
git -C /repo worktree add -q --detach $wt HEAD || exit 2
cd $wt
clean_rc=$( (PYTHONPATH=$wt timeout 300 /venv/bin/python "$seed/demo.py" >/dev/null 2>&1; echo $?) )
if git apply "$seed/patch.diff" 2>/dev/null; then applied=1; else applied=0; fi
patched_rc=$( (PYTHONPATH=$wt timeout 300 /venv/bin/python "$seed/demo.py" >/dev/null 2>&1; echo $?) )
PYTHONPATH=$wt timeout 1500 /venv/bin/python -m pytest -q -p no:cacheprovider --timeout=900 --continue-on-collection-errors --junitxml=$wt/junit.xml >/dev/null 2>&1
passed=$(python3 - <<PY
import json, xml.etree.ElementTree as ET
b=set(json.load(open('/root/.vp/BASELINE.json'))['stable_pass'])
ok=set()
for tc in ET.parse('$wt/junit.xml').iter('testcase'):
    if not any(c.tag in ('failure','error','skipped') for c in tc): ok.add(tc.get('classname')+'::'+tc.get('name'))
print(len(b-ok))
PY
)
cd /; git -C /repo worktree remove --force $wt
echo "{\"seed\": \"$name\", \"applies\": $applied, \"demo_clean_rc\": $clean_rc, \"demo_patched_rc\": $patched_rc, \"baseline_tests_lost\": $passed}"
