#!/usr/bin/env python3
"""tools/gen_round_prompts.py <prev round dir> <new round dir> <n_prev> <n_new> k1 k2: derive the sub-agent briefs of a new
round from those of the previous one (property text only, nothing from /verif but the one-line descriptions of what earlier
rounds already tried, taken from the seeds' own notes)."""
import os
import re
import sys

prev, new, n_prev, n_new, k1, k2 = sys.argv[1], sys.argv[2], sys.argv[3], sys.argv[4], sys.argv[5], sys.argv[6]
seeded = os.path.join(os.path.dirname(os.path.abspath(__file__)), "..", "seeded")
os.makedirs(new, exist_ok=True)
for i in range(1, 21):
    pid = "C%02d" % i
    txt = open(os.path.join(prev, pid + ".md")).read()
    txt = txt.replace("round %s" % n_prev, "round %s" % n_new).replace("wt_r%s_" % n_prev, "wt_r%s_" % n_new)
    txt = txt.replace(prev.rstrip("/") + "/", new.rstrip("/") + "/")
    txt = re.sub(r"For k in \(\d+, \d+\)", "For k in (%s, %s)" % (k1, k2), txt)
    extra = []
    for k in (int(k1) - 2, int(k2) - 2):
        p = os.path.join(seeded, "%s-%d" % (pid, k), "notes.md")
        if os.path.exists(p):
            note = " ".join(open(p).read().split())[:520]
            extra.append("- (%s-%d) %s" % (pid, k, note))
    marker = "\n## What is known about the tool"
    txt = txt.replace(marker, "\n" + "\n".join(extra) + "\n" + marker, 1)
    open(os.path.join(new, pid + ".md"), "w").write(txt)
print("written", new)
