import sys, json, time, re
from collections import Counter
from harness import common, dispatch_driver as dd, dispatch_gen as dg
common.ensure_repo_on_path()
n=int(sys.argv[1]); seed=int(sys.argv[2])
rnd=common.rng_for(seed,"dcorr")
items=[];keep=[];c=Counter();t0=time.time()
for i in range(n):
    sc=dg.gen_scenario(rnd, jobs_heavy=(i%2==0))
    log,outcome=dd.run_scenario(sc)
    for a in dd.monitor_c12(sc,log,outcome)+dd.monitor_c13(sc,log,outcome):
        c[a[:2]]+=1
        if c[a[:2]]<=2: print("ALARM",a); json.dump(sc,open(f"/tmp/dalarm_{a[1].replace(':','_')}.json","w"))
    items.append(dd.coq_item(sc,log)); keep.append((sc,log))
print("impl",time.time()-t0)
t0=time.time()
res=common.coq_eval_sharded("dcorr",dd.D_HEADER,items,per_file=40)
print("coq",time.time()-t0, Counter(r.split()[0] for r in res))
nd=0
for (sc,log),r in zip(keep,res):
    if r!="Agree":
        nd+=1
        if nd<=2:
            print(r); print(dd.observed_items(log)); json.dump(sc,open(f"/tmp/ddiv_{nd}.json","w"))
print(sorted(c.items()))
