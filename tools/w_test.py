import asyncio, sys
from collections import Counter
from harness import common, wire_driver as wd
common.ensure_repo_on_path()
rnd=common.rng_for(int(sys.argv[1]) if len(sys.argv)>1 else 1,"w")
print("binance inventory", sorted(wd.binance_inventory()))
print("bitstamp inventory", sorted(wd.bitstamp_inventory()))
res=asyncio.run(wd.run_binance(rnd))
keys={c["key"] for c,_,_ in res}
print("uncovered binance:", sorted(wd.binance_inventory()-keys))
c=Counter()
for call,reqs,err in res:
    if err: print("ERR",call["key"],err[:150])
    for r in reqs:
        for a in wd.verify_binance(r, key_only=call["key"][1].endswith("listen_key"))+wd.check_params(call,r,"binance"):
            c[a[0]]+=1
            if c[a[0]]<=3: print(a)
print(sorted(c.items()), len(res))
res=asyncio.run(wd.run_bitstamp(rnd))
keys={c["key"] for c,_,_ in res}
print("uncovered bitstamp:", sorted(wd.bitstamp_inventory()-keys))
c=Counter(); nonces=set()
for call,reqs,err in res:
    if err: print("ERR",call["key"],err[:150])
    for r in reqs:
        for a in wd.verify_bitstamp(r,nonces)+wd.check_params(call,r,"bitstamp"):
            c[a[0]]+=1
            if c[a[0]]<=3: print(a)
print(sorted(c.items()), len(res))
