import sys, time, json
from collections import Counter
from harness import common, realtime_driver as rd
common.ensure_repo_on_path()
rnd=common.rng_for(int(sys.argv[2]) if len(sys.argv)>2 else 1,"r")
n=int(sys.argv[1]); c=Counter(); items=[]; keep=[]
t0=time.time()
for i in range(n):
    model=(i%2==0)
    sc=rd.gen_scenario(rnd, model=model)
    log,outcome=rd.run_scenario(sc)
    for a in rd.monitor(sc,log,outcome):
        c[a[0]]+=1
        if c[a[0]]<=2: print("ALARM",a); json.dump(sc,open("/tmp/ralarm.json","w"))
    if model: items.append(rd.coq_item(sc,log)); keep.append((sc,log))
print("impl",time.time()-t0,sorted(c.items()))
res=common.coq_eval_sharded("rtest",rd.R_HEADER,items,per_file=20)
print(Counter(res))
for (sc,log),r in zip(keep,res):
    if r!="None":
        print(r); print(sc); 
        for e in log[:80]: print(e)
        break
