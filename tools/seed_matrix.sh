#!/bin/bash
# run each seeded change against the registered check of its property; write seeded/<seed>/result.json
cd /verif
for seed in ${@:-$(ls seeded)}; do
  id=${seed%-*}
  patch=/verif/seeded/$seed/patch.diff
  cd /repo; if ! git diff --quiet; then echo "/repo dirty"; exit 2; fi
  if ! git apply "$patch" 2>/dev/null; then echo "$seed: patch does not apply"; continue; fi
  cd /verif
  out=$(timeout 1800 ./check $id --tier quick 2>&1); rc=$?
  git -C /repo checkout -- .
  python3 - "$seed" "$id" "$rc" <<PY
import sys, json, re
seed, pid, rc = sys.argv[1], sys.argv[2], int(sys.argv[3])
out = """$(echo "$out" | grep -E "VIOLATION|^  \(|^\[" | head -12 | sed 's/"/\\"/g')"""
viol = re.findall(r"VIOLATION property=\S+ replay=(\S+)( no-failing-input-found)?", out)
fps = []
for path, nfi in viol:
    try:
        fps.append(json.load(open(path)).get("fingerprint"))
    except Exception:
        fps.append("?")
json.dump({"seed": seed, "property": pid, "check_rc": rc, "detected": rc == 1 and bool(viol),
           "fingerprints": fps, "no_failing_input_found": [bool(n) for _, n in viol],
           "messages": re.findall(r"^  \((.*)\)$", out, re.M)[:3]}, open(f"/verif/seeded/{seed}/result.json", "w"), indent=1)
print(seed, "rc=%d" % rc, fps)
PY
done
# leave the generated tables in sync with the unchanged tree
cd /verif && PYTHONPATH=/repo:/verif /venv/bin/python -m harness.translate_tables >/dev/null
