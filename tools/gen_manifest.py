"""Regenerates /verif/MANIFEST.json from the table below (run from /verif)."""
import json, os
props = [json.loads(l) for l in open('/verif/properties.jsonl')]
EX_NOTE = ("Print Assumptions: closed under the global context for every theorem (no axioms). Trusted: Coq kernel; the "
           "hand-written Gallina model of the exchange (coq/theories/Exchange/Model.v) tied to /repo by the correspondence "
           "harness; Decimal modelled as exact Q (cases whose observations differ between decimal precision 28 and 100 digits with directed rounding "
           "are only monitored); premises: initial balances >= 0, precisions configured, prices available for the "
           "conversions that margin and interest need.")
CLAIMS = {
 "C01": ("Theorem C01_ledger_in_every_reachable_state proves, for every configuration and every sequence of bars, order requests, cancellations, loans, repayments and listings of any length, that in every reachable state of the exchange model balance - borrowed = initial + sum of the fills of all orders (base, quote) + their fees (<= 0) - interest paid, per symbol: every operation is a finite sequence of primitive transactions between well-formed states (C01_every_operation_is_primitive_transactions) and every primitive transaction keeps the ledger. Further theorems give the effect of each account update and loan operation on every total. The model is tied to the code by replaying generated histories through the real exchange (every step compared through a checksum of the full public state) and by an independent ledger monitor.", EX_NOTE),
 "C02": ("Theorems C02_* prove by induction over operation lists of any length that in every reachable state of the exchange model 0 <= hold <= balance, borrowed >= 0 (hence available >= 0) and borrowed = summed principal of the open loans, for every symbol (every mutation goes through AccountBalances.update, which checks the rules on the result; loans are created, repaid and cancelled together with their balance updates); refused updates keep the state.", EX_NOTE),
 "C04": ("Theorems C04_* prove per (order, bar), for every liquidity state, amount and precision: limit/stop-limit fills are never worse than the limit (up to half a quote unit) and only in bars reaching it, stops never trade before a bar reaching the stop, market/stop fills lie in the bar's range and are never better than open/stop, and truncating a partial fill keeps its price. Completeness (filled by the next/first reaching bar) is checked by the monitor on ample-funds histories.", EX_NOTE),
 "C05": ("Theorems C05_* prove: cancelling a closed/unknown order fails and changes nothing, market and stop orders fill the whole pending amount or nothing, a fill closes the order exactly when the filled amount reaches the ordered amount, closed orders are skipped by bar processing, the open-order listing is the filter of the index; and over whole histories of any length: 0 <= filled <= amount and id = position for every order in every reachable state, a closed order never changes again, a fill is never lost between the account update and the order record. Listings across re-indexing (histories of 110-170 bars) and the event sequence are validated by correspondence + monitor (C05_partial).", EX_NOTE),
 "C06": ("Theorems C06_* prove: hold <= balance and hold = sum of the reservations recorded for orders, per symbol, in every reachable state; a hold request is accepted iff every resulting hold is covered by its balance (exact boundary) and a rejected request changes nothing; reserving never moves a total; closing an order releases exactly its remaining holds. That no reservation outlives its order when closing aborts is validated by correspondence + an independent reservation-tracking monitor (C06_partial).", EX_NOTE),
 "C07": ("Theorems C07_* prove that every rejection that happens before anything is mutated (loan creation, repayment, loan cancellation, cancellation of unknown/closed orders, order requests without auto-borrow) leaves the complete model state identical, and that in every reachable state a rejected order request WITH auto-borrow restores balances, holds, borrowed amounts, orders, reservations and the set of open loans exactly (the roll-back cannot itself fail; once the borrowing succeeded the reservation cannot be refused). A cancellation of an open order failing after the up-front pricing of the loans succeeded is C07_partial: correspondence + a before/after snapshot monitor.", EX_NOTE),
 "C08": ("Theorems C08_* prove that fill amounts and fees are on the pair's precision grid (truncate / round / round-up), that taking liquidity keeps 0 <= used <= total and fails instead of exceeding what is left, that market orders need the whole amount to fit, and, in every reachable state, that what one bar fills summed over all orders lies between 0 and the share of the bar's volume granted by the liquidity model (C08_bar_fills_within_liquidity). Balance grids over histories are validated by correspondence + monitor.", EX_NOTE),
 "C09": ("Theorem C09_fees_total proves by induction over ANY list of partial fills (any count and sizes) that the total fee charged equals the fee due on the cumulative traded quote amount (percentage, at least the minimum) rounded up to quote precision once; per-fill charges are never positive and lie on the grid; NoFee charges nothing.", EX_NOTE),
 "C10": ("Theorems C10_* prove that every granted loan (create_loan is the only borrowing path, also for auto-borrow orders) passed the margin gate evaluated on the post-loan account: no margin in use or equity/(used margin + interest) >= 100%, i.e. equity >= requirement; without a lending strategy every request fails and changes nothing.", EX_NOTE),
 "C11": ("Theorems C11_* prove: interest >= configured minimum and >= 0, the same-symbol formula (percentage x principal x elapsed/period), monotonicity in time, truncation to the interest symbol's grid, a repayment moves totals by the interest only, closed/unknown loans cannot be repaid, auto-repay candidates are sorted descending (stable permutation); over whole histories the loan list changes only by a grant, a repayment or the roll-back of a loan granted at the same instant, and closed loans never change again. The float ratio of the code is modelled by the exact ratio (compared on dyadic ratios only); 'as far as funds allow' is monitored.", EX_NOTE),
 "C20": ("Theorems C20_* (coq/props/C20.v) prove, for every configuration, every non-decreasing arrival list of any length and every window, the rate bound capacity + rate*L + 1, non-negative waits, exact burst delays and refill up to capacity, over an exact-rational model of TokenBucketLimiter.consume; the model is tied to the code by running the real class on Fractions with a substituted clock and comparing every returned wait with the model evaluated by vm_compute.",
         "Closed under the global context (no axioms). Trusted: Coq kernel, the correspondence harness; production use on binary floats is compared with the exact run only up to 1e-6 (testing)."),
}
EXTRA = {}
if os.path.exists('/verif/tools/manifest_extra.json'):
    EXTRA = json.load(open('/verif/tools/manifest_extra.json'))
CLAIMS.update({k: tuple(v) for k, v in EXTRA.get("claims", {}).items()})
m = {
 "version": 1,
 "setup_cmd": "cd /verif/coq && coq_makefile -f _CoqProject -o Makefile && timeout 3000 make -j16",
 "hooks": {"guard": "BASANA_VERIF", "enable": "no source hooks: the harness observes the real code through public APIs and module-attribute substitution done in the harness process (BASANA_VERIF=1 is exported by ./check but nothing in /repo reads it)", "baseline_off_cmd": "cd /repo && /venv/bin/python -m pytest -ra -q -p no:cacheprovider --timeout=900 --continue-on-collection-errors", "source_commits": [], "add_only": True},
 "engines": [{"name": "coq-model+correspondence", "path": "/verif/check", "serves_properties": sorted(CLAIMS), "kind_free_text": "Coq 8.16.1 theorems over hand-written Gallina models (coq/theories, coq/props) + differential correspondence check of the models against /repo (harness/) + independent property monitors that supply concrete failing inputs"}],
 "checks": [], "notes": "See DESIGN.md. fix: commits in /repo are listed in known_findings.json.", "not_applicable": [],
}
for p in props:
    pid = p["id"]
    if pid in CLAIMS:
        text, note = CLAIMS[pid]
        m["checks"].append({
            "property_id": pid, "quick_cmd": f"./check {pid} --tier quick", "thorough_cmd": f"./check {pid} --tier thorough",
            "evidence_file": f"/verif/evidence/{pid}.json", "replay_cmd_template": f"./check {pid} --replay {{path}}",
            "engine": "coq-model+correspondence",
            "level_claimed": {"category": "proof", "text": text, "design_ref": f"DESIGN.md section 8, {pid}"},
            "level_note": note,
            "technique": "Coq proof over executable Gallina model + differential correspondence with the Python implementation"})
    else:
        m["not_applicable"].append({"property_id": pid, "reason": "check under construction in this session (DESIGN.md section 12); not a claim that the technique cannot apply"})
json.dump(m, open('/verif/MANIFEST.json', 'w'), indent=1)
print(len(m["checks"]), "checks;", len(m["not_applicable"]), "not yet")
