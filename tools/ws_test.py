import sys, time, json
from collections import Counter
from harness import common, ws_driver as wd
common.ensure_repo_on_path()
rnd=common.rng_for(int(sys.argv[2]) if len(sys.argv)>2 else 1,"ws")
n=int(sys.argv[1]); c=Counter(); items=[]; keep=[]; t0=time.time(); kinds=Counter()
for i in range(n):
    sc0=wd.gen_scenario(rnd)
    sc=wd.concretise(sc0, sc0["client"])
    log,ad=wd.run_scenario(sc)
    kinds[sc["client"]]+=1
    for a in wd.monitor(sc,log,ad):
        c[a[0]]+=1
        if c[a[0]]<=2:
            print("ALARM",a); json.dump(sc,open("/tmp/wsalarm.json","w"))
    items.append(wd.coq_item(sc,log,ad,{})); keep.append((sc,log))
print("impl",time.time()-t0,sorted(c.items()),kinds)
res=common.coq_eval_sharded("wstest",wd.W_HEADER,items,per_file=30)
print(Counter(res))
for (sc,log),r in zip(keep,res):
    if r!="None":
        print(r, sc["client"]); 
        for e in log[:60]: print(e)
        break
