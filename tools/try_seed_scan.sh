#!/bin/bash
patch="$1"; shift
cd /repo || exit 2
if ! git diff --quiet; then echo "/repo is dirty"; exit 2; fi
git apply "$patch" || { echo "patch does not apply"; exit 2; }
for id in "$@"; do (cd /verif && PYTHONPATH=/repo:/verif PYTHONHASHSEED=0 timeout 1800 /venv/bin/python tools/seed_scan.py "$id" 2>&1 | tail -4); done
git -C /repo checkout -- .
