"""dev tool: run monitors on N generated cases"""
import sys, json, time
from collections import Counter
from harness import common, exchange_driver as xd, exchange_gen as xg, exchange_monitors as xm
common.ensure_repo_on_path()
n=int(sys.argv[1]); seed=int(sys.argv[2]); profile=sys.argv[3]; size=sys.argv[4]
rnd=common.rng_for(seed,"exmon")
c=Counter(); shown=0
t0=time.time()
for i in range(n):
    case=xg.gen_case(rnd,profile,size)
    tr=xd.run_case(case)
    for pid,fp,k,msg in xm.run_monitors(tr):
        c[(pid,fp)]+=1
        if shown<int(sys.argv[5] if len(sys.argv)>5 else 6) and c[(pid,fp)]<=1:
            shown+=1
            print("ALARM",pid,fp,"step",k,msg[:700])
            json.dump(case,open(f"/tmp/exalarm_{pid}_{fp.replace(':','_')}.json","w"))
print(time.time()-t0, sorted(c.items()))
