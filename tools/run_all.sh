#!/bin/bash
# run every registered quick check and summarise
cd /verif
for id in $(python3 -c "import json;print(' '.join(c['property_id'] for c in json.load(open('MANIFEST.json'))['checks']))"); do
  s=$(date +%s); out=$(./check $id --tier ${1:-quick} 2>&1); rc=$?; e=$(date +%s)
  echo "$id rc=$rc $((e-s))s $(echo "$out" | grep -E "^\[|VIOLATION|KNOWN" | tr '\n' ' ' | cut -c1-220)"
done
