import sys, time, json
from collections import Counter
from harness import common, lifecycle_driver as ld
common.ensure_repo_on_path()
rnd=common.rng_for(1,"l")
t0=time.time()
scs=ld.lifecycle_scenarios(1)
c=Counter(); items=[]
for sc in scs:
    log,outcome,lok,detail=ld.run_lifecycle(sc)
    al=ld.monitor_lifecycle(sc,log,outcome,lok,detail)
    for a in al:
        c[a[0]]+=1
        if c[a[0]]<=2: print("ALARM",a,sc,log,outcome)
    items.append(ld.coq_lifecycle_item(sc,log,outcome))
print(len(scs),"lifecycle scenarios",time.time()-t0,sorted(c.items()))
res=common.coq_eval_sharded("ltest",ld.L_HEADER,items,per_file=100)
print(Counter(res))
t0=time.time(); c=Counter(); items=[]
for i in range(30):
    sc=ld.gen_pool_scenario(rnd)
    log,outcome,detail,mr=ld.run_pool(sc)
    for a in ld.monitor_pool(sc,log,outcome,detail,mr):
        c[a[0]]+=1
        if c[a[0]]<=2: print("ALARM",a,sc)
    items.append(ld.coq_pool_item(sc,log))
print("pool",time.time()-t0,sorted(c.items()))
res=common.coq_eval_sharded("ptest",ld.L_HEADER,items,per_file=10)
print(Counter(res))
for sc_i,r in enumerate(res):
    if r!="None": print(sc_i,r); break
