import sys, json
from harness import common, exchange_driver as xd, exchange_monitors as xm
common.ensure_repo_on_path()
case=json.load(open(sys.argv[1])); k=int(sys.argv[2]); w=int(sys.argv[3]) if len(sys.argv)>3 else 2
tr=xd.run_case(case)
print({x:case[x] for x in ("pairs","sym_prec","pair_info","default_pair","fee","liq","lend","initial")})
for i in range(max(0,k-w),min(len(tr.steps),k+1)):
    st=tr.steps[i]
    print("---",i,st["op"],st.get("bar"),[str(x) for x in st["reply"]],st.get("exc"))
    print("  bal",{s:tuple(str(b[x]) for x in ("available","hold","borrowed")) for s,b in st["snap"]["balances"].items()})
    for o in st["snap"]["orders"]:
        print("  ord",o["idx"],o["is_open"],o["op"],str(o["amount"]),str(o["filled"]),str(o["qfilled"]),{a:str(b) for a,b in o["fees"].items()},o["limit"] and str(o["limit"]),o["stop"] and str(o["stop"]),o["loans"], tr.case["_order_pairs"][o["idx"]])
    for l in st["snap"]["loans"]:
        print("  loan",{a:(str(b) if not isinstance(b,dict) else {x:str(y) for x,y in b.items()}) for a,b in l.items()})
print(xm.run_monitors(tr)[:3])
