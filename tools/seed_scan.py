"""dev tool: run an exchange-family check without the proof stage (props under construction)"""
import sys, importlib
from harness import common
common.ensure_repo_on_path()
pid=sys.argv[1]
chk=common.Check(pid,"quick")
chk.proof_stage=lambda *a,**k: True
chk.proof_ok=True
mod=importlib.import_module("harness.props."+pid.lower())
mod.run(chk)
for fp,msg,path,nfi in chk.violations:
    print("VIOLATION",pid,fp,"NFI" if nfi else "",msg[:300])
print(pid,"violations:",len(chk.violations),"agree",chk.counters.get("model_agree"),"diverge",chk.counters.get("model_diverge"),"inexact",chk.counters.get("inexact_cases"),"evals",chk.counters.get("evaluations"),"nontrivial",chk.counters.get("distinct_nontrivial"))
