#!/bin/bash
# apply a behaviour-preserving patch to /repo, run the checks of the family it touches, undo; print any alarm
# usage: try_benign.sh <patch> <ids...>
patch=$1; shift
cd /repo; if ! git diff --quiet; then echo "/repo dirty"; exit 2; fi
if ! git apply "$patch" 2>/dev/null; then echo "$(basename $patch): patch does not apply"; exit 3; fi
cd /verif
bad=0
for id in "$@"; do
  out=$(timeout 1800 ./check $id --tier quick 2>&1); rc=$?
  if [ $rc -ne 0 ]; then bad=1; echo "$(basename $patch) $id rc=$rc $(echo "$out" | grep -E "VIOLATION|^  \(" | head -4 | cut -c1-300)"; fi
done
git -C /repo checkout -- .
[ $bad -eq 0 ] && echo "$(basename $patch): quiet on $*"
exit 0
