#!/usr/bin/env python3
"""tools/gen_seed_meta.py: (re)write seeded/<seed>/meta.json from notes.md, the confirmation runs
(tools/confirm_seed.sh -> seeded/confirm*.jsonl) and the detection matrix (tools/seed_matrix.sh -> result.json)."""
import glob
import json
import os
import re

ROOT = os.path.join(os.path.dirname(os.path.abspath(__file__)), "..", "seeded")
confirm = {}
for f in sorted(glob.glob(os.path.join(ROOT, "confirm*.jsonl"))):
    for line in open(f):
        line = line.strip()
        if line.startswith("{"):
            d = json.loads(line)
            confirm[d["seed"]] = d

rows = []
for seed in sorted(os.listdir(ROOT)):
    d = os.path.join(ROOT, seed)
    if not os.path.isdir(d) or not os.path.exists(os.path.join(d, "patch.diff")):
        continue
    pid = seed.split("-")[0]
    notes = ""
    for name in ("notes.md", "NOTES.md"):
        p = os.path.join(d, name)
        if os.path.exists(p):
            notes = open(p).read().strip()
            break
    old = {}
    mp = os.path.join(d, "meta.json")
    if os.path.exists(mp):
        try:
            old = json.load(open(mp))
        except Exception:
            old = {}
    res = {}
    rp = os.path.join(d, "result.json")
    if os.path.exists(rp):
        res = json.load(open(rp))
    files = sorted(set(re.findall(r"^diff --git a/(\S+)", open(os.path.join(d, "patch.diff")).read(), re.M)))
    status = None
    sp = os.path.join(d, "STATUS.md")
    if os.path.exists(sp):
        status = open(sp).read().strip()
    c = confirm.get(seed)
    meta = {
        "property": pid,
        "files_changed": files,
        "breaks_and_needs": old.get("breaks") and (old["breaks"] + " -- needs: " + old.get("needs", "")) or notes[:1500],
        "origin": "independent sub-agent given only the property text and its own scratch worktree",
        "confirmed_in_scratch_worktree": (
            {"cmd": "tools/confirm_seed.sh seeded/%s" % seed, "patch_applies": bool(c["applies"]),
             "demo_rc_clean_tree": c["demo_clean_rc"], "demo_rc_with_patch": c["demo_patched_rc"],
             "baseline_tests_lost": c["baseline_tests_lost"]} if c else None),
        "ran": "tools/seed_matrix.sh %s   (git -C /repo apply; ./check %s --tier quick; git -C /repo checkout -- .)" % (seed, pid),
        "detected": res.get("detected"),
        "detected_by": ["%s %s" % (pid, fp) for fp in res.get("fingerprints", [])],
        "messages": res.get("messages", []),
    }
    if status:
        meta["status"] = status
    json.dump(meta, open(mp, "w"), indent=1)
    rows.append((seed, meta["detected"], ", ".join(res.get("fingerprints", [])), status))

with open(os.path.join(ROOT, "MATRIX.md"), "w") as f:
    f.write("# seeded changes x registered quick checks\n\n| seed | detected | fingerprints |\n|---|---|---|\n")
    for seed, det, fps, status in rows:
        f.write("| %s | %s | %s |\n" % (seed, "n/a (neutralised)" if status else ("yes" if det else "NO"), fps))
print(len(rows), "seeds;", sum(1 for r in rows if r[1]), "detected")
