#!/bin/bash
# tools/try_seed.sh <patch.diff> <check id>... : apply a seeded change to /repo, run the checks, undo.
patch="$1"; shift
cd /repo || exit 2
if ! git diff --quiet; then echo "/repo is dirty"; exit 2; fi
git apply "$patch" || { echo "patch does not apply"; exit 2; }
for id in "$@"; do
  (cd /verif && timeout 1800 ./check "$id" --tier quick 2>&1 | grep -E "VIOLATION|KNOWN|^\[|  \(" | head -8)
done
git -C /repo checkout -- . 
git -C /repo status --short | head -3
