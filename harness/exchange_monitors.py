"""Property monitors for the backtesting exchange: direct encodings of the statements of C01, C02, C04-C11 over
the trace recorded by exchange_driver (public-API snapshots after every operation).  They do not use the Coq
model; they are what supplies a concrete failing history when code and model drift apart."""
from decimal import Decimal
from fractions import Fraction as F

ZERO = F(0)


def D(x):
    return F(Decimal(str(x)))


def floor_div(x, unit):
    n = x / unit
    return n.numerator // n.denominator


def on_grid(x, p):
    return (x * 10 ** p).denominator == 1


def trunc(x, p):
    s = x * 10 ** p
    n = abs(s).numerator // abs(s).denominator
    return F(n if s >= 0 else -n, 10 ** p)


def round_half_even(x, p):
    s = x * 10 ** p
    f = s.numerator // s.denominator
    r = s - f
    if r < F(1, 2):
        z = f
    elif r > F(1, 2):
        z = f + 1
    else:
        z = f if f % 2 == 0 else f + 1
    return F(z, 10 ** p)


def round_up(x, p):
    s = x * 10 ** p
    f = s.numerator // s.denominator
    if s == f:
        z = f
    else:
        z = f + 1 if s > 0 else f
    return F(z, 10 ** p)


class Ctx:
    """Facts about a case and its trace that several monitors need."""

    def __init__(self, tr):
        self.tr = tr
        self.case = case = tr.case
        self.syms = case["syms"]
        self.pairs = case["pairs"]
        self.order_req = {}      # order idx -> create action
        self.order_step = {}     # order idx -> step index of acceptance
        n = 0
        for k, st in enumerate(tr.steps):
            if st["op"][0] == "create" and st["reply"][0] == 1:
                self.order_req[n] = st["op"]
                self.order_step[n] = k
                n += 1
        self.initial = {s: D(case["initial"].get(s, "0")) for s in self.syms}
        # the precision tables in force when each step ran (they change at "reconfig" steps, which apply the exchange's
        # public setters while the backtest runs)
        self.now = None
        self._tables = []
        sp, pinf = dict(case["sym_prec"]), dict(case["pair_info"])
        for st in tr.steps:
            if st["op"][0] == "reconfig":
                sp, pinf = dict(sp), dict(pinf)
                if st["op"][1] == "sym":
                    sp[st["op"][2]] = int(st["op"][3])
                else:
                    pinf[str(int(st["op"][2]))] = [int(st["op"][3][0]), int(st["op"][3][1])]
            self._tables.append((sp, pinf))

    def walk(self):
        """the steps in order; precision lookups made meanwhile answer for the step being visited"""
        for k, st in enumerate(self.tr.steps):
            self.now = k
            yield k, st
        self.now = None

    def tables(self, k=None):
        k = self.now if k is None else k
        if k is None or not self._tables:
            return self.case["sym_prec"], self.case["pair_info"]
        return self._tables[min(k, len(self._tables) - 1)]

    def sym_prec(self, k=None):
        return self.tables(k)[0]

    def prec_of_pair(self, pi, k=None):
        sp, pinf = self.tables(k)
        if str(pi) in pinf:
            return pinf[str(pi)]
        b, q = self.pairs[pi]
        if b in sp and q in sp:
            return [sp[b], sp[q]]
        return self.case["default_pair"]

    def closes_upto(self, k):
        """last close per pair index after the first k+1 steps"""
        out = {}
        for st in self.tr.steps[:k + 1]:
            if st["op"][0] == "bar":
                b = st["bar"]
                out[b[0]] = D(b[5])
        return out

    def convert(self, closes, amount, frm, to):
        if amount == 0 or frm == to:
            return amount
        for pi, (b, q) in enumerate(self.pairs):
            if (b, q) == (frm, to) and pi in closes:
                return amount * closes[pi]
        for pi, (b, q) in enumerate(self.pairs):
            if (b, q) == (to, frm) and pi in closes:
                return amount / closes[pi]
        return None

    def lend_at(self, k=None):
        """the lending configuration in force when step k ran (it changes at "recond" steps)"""
        k = self.now if k is None else k
        lc = self.case["lend"]
        if k is None:
            return lc
        for st in self.tr.steps[:k + 1]:
            if st["op"][0] == "recond":
                lc = st["lend_after"]
        return lc

    def cond_of(self, sym, k=None):
        lc = self.lend_at(k)
        if lc is None:
            return None
        return lc["conds"].get(sym, lc["default"])


def order_by_idx(snap):
    return {o["idx"]: o for o in snap["orders"]}


def loans_ok(snap):
    return all(l.get("error") is None for l in snap["loans"])


def signed(ctx, o, idx):
    """signed (base, quote) amounts of an order's fills"""
    req = ctx.order_req[idx]
    sg = 1 if req[2] == "buy" else -1
    return sg * o["filled"], -sg * o["qfilled"]


# ------------------------------------------------------------------------------------------------
def mon_c01(ctx, out):
    tr = ctx.tr
    prev_tot = dict(ctx.initial)
    for k, st in ctx.walk():
        snap = st["snap"]
        tot = {s: snap["balances"][s]["total"] for s in ctx.syms}
        if loans_ok(snap):
            led = dict(ctx.initial)
            for o in snap["orders"]:
                if o["idx"] not in ctx.order_req:
                    continue
                b, q = ctx.pairs[ctx.order_req[o["idx"]][3]]
                sb, sq = signed(ctx, o, o["idx"])
                led[b] += sb
                led[q] += sq
                for s, f in o["fees"].items():
                    led[s] = led.get(s, ZERO) - f
            for l in snap["loans"]:
                for s, v in l["paid"].items():
                    led[s] = led.get(s, ZERO) - v
            for s in ctx.syms:
                if tot[s] != led.get(s, ZERO):
                    out.append(("C01", "ledger:total-ne-ledger", k,
                                f"{s}: total {tot[s]} but initial + fills - fees - interest = {led.get(s, ZERO)}"))
                    return
        if st["op"][0] in ("create", "loan", "list"):
            for s in ctx.syms:
                if tot[s] != prev_tot[s]:
                    out.append(("C01", "ledger:total-changed-by-" + st["op"][0], k,
                                f"{s}: total moved from {prev_tot[s]} to {tot[s]} on {st['op'][0]}"))
                    return
        prev_tot = tot


def mon_c02(ctx, out):
    for k, st in ctx.walk():
        snap = st["snap"]
        for s in ctx.syms:
            b = snap["balances"][s]
            if b["available"] < 0 or b["hold"] < 0 or b["borrowed"] < 0:
                out.append(("C02", "solvency:negative-balance", k, f"{s}: {b}"))
                return
            if b["total"] != b["available"] + b["hold"] - b["borrowed"]:
                out.append(("C02", "solvency:total-formula", k, f"{s}: {b}"))
                return
        if loans_ok(snap):
            by = {}
            for l in snap["loans"]:
                if l["is_open"]:
                    by[l["sym"]] = by.get(l["sym"], ZERO) + l["amount"]
            for s in ctx.syms:
                if snap["balances"][s]["borrowed"] != by.get(s, ZERO):
                    out.append(("C02", "solvency:borrowed-ne-open-loans", k,
                                f"{s}: borrowed {snap['balances'][s]['borrowed']} but open loans sum to {by.get(s, ZERO)}"))
                    return


# ------------------------------------------------------------------------------------------------
def fills_at(ctx, k):
    """(idx, dbase_abs, dquote_abs, dfee) of orders whose fill changed at step k, in order-index order"""
    tr = ctx.tr
    prev = order_by_idx(tr.steps[k - 1]["snap"]) if k > 0 else {}
    res = []
    for o in tr.steps[k]["snap"]["orders"]:
        p = prev.get(o["idx"])
        pf = p["filled"] if p else ZERO
        pq = p["qfilled"] if p else ZERO
        pfee = sum(p["fees"].values(), ZERO) if p else ZERO
        if o["filled"] != pf or o["qfilled"] != pq:
            res.append((o["idx"], o["filled"] - pf, o["qfilled"] - pq, sum(o["fees"].values(), ZERO) - pfee))
    return res


def mon_c04(ctx, out):
    tr = ctx.tr
    for k, st in ctx.walk():
        if st["op"][0] != "bar":
            if fills_at(ctx, k):
                out.append(("C04", "fill:outside-bar", k, "an order was filled by something other than a bar"))
                return
            continue
        bar = st["bar"]
        o_, h_, l_, c_ = D(bar[2]), D(bar[3]), D(bar[4]), D(bar[5])
        for idx, db, dq, _ in fills_at(ctx, k):
            req = ctx.order_req.get(idx)
            if req is None:
                continue
            _, kind, op, pi, amount, limit, stop, ab, ar = req
            if pi != bar[0]:
                out.append(("C04", "fill:wrong-pair-bar", k, f"order {idx} of pair {pi} filled by a bar of pair {bar[0]}"))
                return
            qp = ctx.prec_of_pair(pi)[1]
            half = F(1, 2 * 10 ** qp)
            buy = op == "buy"
            if db <= 0 or dq <= 0:
                out.append(("C04", "fill:nonpositive-delta", k, f"order {idx}: base {db} quote {dq}"))
                return

            def bad(fp, msg):
                out.append(("C04", fp, k, f"order {idx} ({kind} {op} {amount} limit={limit} stop={stop}) bar o={o_} h={h_} "
                                         f"l={l_} c={c_}: filled {db} for {dq}: {msg}"))
            # never better than the bar's extreme
            if buy and dq < l_ * db - half:
                return bad("price:better-than-extreme", "bought below the bar's low")
            if not buy and dq > h_ * db + half:
                return bad("price:better-than-extreme", "sold above the bar's high")
            if kind in ("limit", "stoplimit"):
                lim = D(limit)
                if buy and dq > lim * db + half:
                    return bad("limit:price-worse-than-limit", "paid more than limit x base")
                if not buy and dq < lim * db - half:
                    return bad("limit:price-worse-than-limit", "received less than limit x base")
                if buy and not l_ <= lim:
                    return bad("limit:bar-does-not-reach-limit", "bar low above the limit")
                if not buy and not h_ >= lim:
                    return bad("limit:bar-does-not-reach-limit", "bar high below the limit")
            if kind in ("stop", "stoplimit"):
                sp = D(stop)
                # bars of the pair since acceptance (stop: this bar; stop-limit: any bar since acceptance)
                first = ctx.order_step[idx]
                cands = [tr.steps[j]["bar"] for j in range(first + 1, k + 1)
                         if tr.steps[j]["op"][0] == "bar" and tr.steps[j]["bar"][0] == pi]
                if kind == "stop":
                    cands = [bar]
                reached = any((D(b[3]) >= sp) if buy else (D(b[4]) <= sp) for b in cands)
                if not reached:
                    return bad("stop:traded-before-trigger", "no bar so far reached the stop price")
            if kind in ("market", "stop"):
                if dq < l_ * db - half or dq > h_ * db + half:
                    return bad("price:outside-bar-range", "market/stop fill outside low-high")
                ref = o_ if kind == "market" else D(stop)
                if buy and dq < ref * db - half:
                    return bad("price:better-than-reference", "bought below the open / stop price")
                if not buy and dq > ref * db + half:
                    return bad("price:better-than-reference", "sold above the open / stop price")
    # completeness with unlimited liquidity and ample funds
    if ctx.case.get("ample") and ctx.case["liq"] is None:
        final = order_by_idx(tr.steps[-1]["snap"]) if tr.steps else {}
        for idx, req in ctx.order_req.items():
            _, kind, op, pi, amount, limit, stop, ab, ar = req
            buy = op == "buy"
            first = ctx.order_step[idx]
            bars_after = [(j, tr.steps[j]["bar"]) for j in range(first + 1, len(tr.steps))
                          if tr.steps[j]["op"][0] == "bar" and tr.steps[j]["bar"][0] == pi]
            cancelled = any(tr.steps[j]["op"] == ["cancel", idx] and tr.steps[j]["reply"][0] == 0
                            for j in range(first + 1, len(tr.steps)))
            if not bars_after:
                continue
            j0, b0 = bars_after[0]
            if any(tr.steps[j]["op"] == ["cancel", idx] and tr.steps[j]["reply"][0] == 0 for j in range(first + 1, j0)):
                continue
            after = order_by_idx(tr.steps[j0]["snap"]).get(idx)
            if kind == "market" and after["filled"] != D(amount):
                out.append(("C04", "complete:market-not-filled-by-next-bar", j0, f"order {idx}"))
                return
            if kind == "stop":
                sp = D(stop)
                reach = D(b0[3]) >= sp if buy else D(b0[4]) <= sp
                if reach and after["filled"] != D(amount):
                    out.append(("C04", "complete:stop-not-filled-by-reaching-bar", j0, f"order {idx}"))
                    return
            if kind == "limit":
                lim = D(limit)
                for j, b in bars_after:
                    if any(tr.steps[x]["op"] == ["cancel", idx] and tr.steps[x]["reply"][0] == 0 for x in range(first + 1, j)):
                        break
                    reach = D(b[4]) <= lim if buy else D(b[3]) >= lim
                    if reach:
                        if order_by_idx(tr.steps[j]["snap"])[idx]["filled"] != D(amount):
                            out.append(("C04", "complete:limit-not-filled-by-reaching-bar", j, f"order {idx}"))
                            return
                        break


# ------------------------------------------------------------------------------------------------
def mon_c05(ctx, out):
    tr = ctx.tr
    if not getattr(tr, "subscribers_agree", True):
        out.append(("C05", "events:subscribers-differ", len(tr.steps),
                    f"a second subscriber to the order events received {len(tr.events2)} events, the strategy's "
                    f"{len(tr.events)}: not the same sequence"))
        return
    closed_at = {}
    closed_info = {}
    cancelled_ok = set()
    prev = {}
    changes = {}        # idx -> list of (is_open, filled, qfilled, fee) after each step where it changed
    for k, st in ctx.walk():
        snap = st["snap"]
        cur = order_by_idx(snap)
        op = st["op"]
        if op[0] == "cancel" and op[1] in prev:
            was_open = prev[op[1]]["is_open"]
            if not was_open and st["reply"][0] != 3:
                out.append(("C05", "cancel:closed-order-cancelled", k, f"cancelling closed order {op[1]} did not fail"))
                return
            if st["reply"][0] == 0:
                cancelled_ok.add(op[1])
                if cur[op[1]]["is_open"]:
                    out.append(("C05", "cancel:still-open", k, f"order {op[1]} still open after a successful cancel"))
                    return
        for idx, o in cur.items():
            p = prev.get(idx)
            if o["filled"] + o["remaining"] != o["amount"] or o["filled"] < 0 or o["filled"] > o["amount"]:
                out.append(("C05", "amounts:filled-plus-remaining", k, f"order {idx}: {o}"))
                return
            if p and o["filled"] < p["filled"]:
                out.append(("C05", "amounts:filled-decreased", k, f"order {idx}: {p['filled']} -> {o['filled']}"))
                return
            if idx in closed_info:
                if o != closed_info[idx]:
                    out.append(("C05", "closed:changed-after-close", k, f"order {idx}: {closed_info[idx]} -> {o}"))
                    return
            key = (o["is_open"], o["filled"], o["qfilled"], sum(o["fees"].values(), ZERO), len(o["loans"]))
            pk = None if p is None else (p["is_open"], p["filled"], p["qfilled"], sum(p["fees"].values(), ZERO),
                                         len(p["loans"]))
            if key != pk:
                changes.setdefault(idx, []).append((k, key))
            req = ctx.order_req.get(idx)
            kind = req[1] if req else None
            if kind in ("market", "stop") and o["filled"] not in (ZERO, o["amount"]):
                out.append(("C05", "partial:market-or-stop-partially-filled", k, f"order {idx}: {o}"))
                return
            if o["filled"] == o["amount"] and o["is_open"]:
                out.append(("C05", "closed-iff:complete-but-open", k, f"order {idx}"))
                return
            if not o["is_open"] and idx not in closed_info:
                closed_info[idx] = o
                closed_at[idx] = k
                reason = o["filled"] == o["amount"] or (op[0] == "cancel" and op[1] == idx and st["reply"][0] == 0)
                if not reason and kind in ("market", "stop") and op[0] == "bar" and req and st["bar"][0] == req[3]:
                    # must be the first bar of its pair after acceptance
                    first = ctx.order_step[idx]
                    earlier = [j for j in range(first + 1, k) if tr.steps[j]["op"][0] == "bar" and
                               tr.steps[j]["bar"][0] == req[3]]
                    reason = not earlier
                if not reason:
                    out.append(("C05", "closed-iff:closed-without-reason", k, f"order {idx} ({kind}) closed: {o}"))
                    return
        # market / stop orders do not survive the first bar of their pair
        if op[0] == "bar":
            for idx, o in cur.items():
                req = ctx.order_req.get(idx)
                if req and req[1] in ("market", "stop") and req[3] == st["bar"][0] and o["is_open"] and \
                        ctx.order_step[idx] < k:
                    out.append(("C05", "closed-iff:market-or-stop-survived-first-bar", k, f"order {idx}"))
                    return
        if op[0] == "list" and st["reply"][0] == 2:
            pi = op[1]
            expect = [o["idx"] for o in snap["orders"] if o["is_open"] and
                      (pi is None or (o["idx"] in ctx.order_req and ctx.order_req[o["idx"]][3] == pi))]
            got = [x[0] for x in st["listing"]]
            if got != expect:
                out.append(("C05", "listing:open-orders-mismatch", k, f"get_open_orders({pi}) returned {got}, expected {expect}"))
                return
            for (i, amount, filled, opn) in st["listing"]:
                if amount != cur[i]["amount"] or filled != cur[i]["filled"] or opn != cur[i]["op"]:
                    out.append(("C05", "listing:open-order-fields", k, f"order {i}"))
                    return
            for name, got, exp in st.get("filters", []):
                if got != exp:
                    out.append(("C05", "listing:get-orders-filter-mismatch", k, f"{name}: got {got}, expected {exp}"))
                    return
        prev = cur
    # events
    by = {}
    last_when = None
    for (w, idx, info) in tr.events:
        if last_when is not None and w < last_when:
            out.append(("C05", "events:time-order", len(tr.steps), f"event at {w} after {last_when}"))
            return
        last_when = w
        fee = sum((F(x) for x in info.fees.values()), ZERO)
        by.setdefault(idx, []).append((info.is_open, F(info.amount_filled), F(info.quote_amount_filled), fee,
                                       len(info.loan_ids)))
    for idx, ch in changes.items():
        exp = [c[1] for c in ch]
        got = by.get(idx, [])
        if got != exp:
            out.append(("C05", "events:sequence-mismatch", ch[0][0],
                        f"order {idx}: events {[(a, str(b), str(c), str(d), n) for a, b, c, d, n in got]} but the order went "
                        f"through {[(a, str(b), str(c), str(d), n) for a, b, c, d, n in exp]} "
                        f"(open, filled, quote, fees, loans)"))
            return
    for idx in by:
        if idx not in changes:
            out.append(("C05", "events:event-for-unknown-order", len(tr.steps), f"order {idx}"))
            return


# ------------------------------------------------------------------------------------------------
def expected_reservation(ctx, k, req):
    """What an accepted order reserves, in the words of the property (estimated with the information available at
    step k, just before the request)."""
    _, kind, op, pi, amount, limit, stop, ab, ar = req
    b, q = ctx.pairs[pi]
    bp, qp = ctx.prec_of_pair(pi)
    amount = D(amount)
    price = D(limit) if kind in ("limit", "stoplimit") else D(stop) if kind == "stop" else None
    if price is None:
        price = ctx.closes_upto(k - 1).get(pi)
    res = {}
    if price is None:
        if op == "sell":
            res[b] = amount
        return res
    cost = round_half_even(amount * price, qp)
    fee = ZERO
    if ctx.case["fee"] is not None and cost != 0:
        pct, mn = D(ctx.case["fee"][0]), D(ctx.case["fee"][1])
        fee = round_up(max(cost * pct / 100, mn), qp)
    if op == "buy":
        if cost + fee > 0:
            res[q] = cost + fee
    else:
        res[b] = amount
        if fee > cost:
            res[q] = fee - cost
    return res


def mon_c06(ctx, out):
    tr = ctx.tr
    R = {}
    prev = None
    for k, st in ctx.walk():
        snap = st["snap"]
        op = st["op"]
        cur = order_by_idx(snap)
        holds = {s: snap["balances"][s]["hold"] for s in ctx.syms}
        if op[0] == "create" and st["reply"][0] in (1, 3):
            valid_err = st["reply"][0] == 3 and st["reply"][1] != 1
            if not valid_err:
                exp = expected_reservation(ctx, k, op)
                pb = prev["balances"] if prev else {s: {"available": ctx.initial[s], "hold": ZERO} for s in ctx.syms}
                if st["reply"][0] == 1:
                    idx = int(st["reply"][1])
                    R[idx] = dict(exp)
                    for s in ctx.syms:
                        ph = pb[s]["hold"]
                        if holds[s] - ph != exp.get(s, ZERO):
                            out.append(("C06", "reserve:amount", k,
                                        f"accepting {op} put {holds[s] - ph} {s} on hold, expected {exp.get(s, ZERO)}"))
                            return
                if not op[7]:        # no auto-borrow: accepted iff covered
                    covered = all(v <= pb[s]["available"] for s, v in exp.items())
                    if covered and st["reply"][0] == 3 and st["reply"][1] == 1:
                        out.append(("C06", "accept:rejected-although-covered", k,
                                    f"{op} needs {dict((s, str(v)) for s, v in exp.items())}, available "
                                    f"{dict((s, str(pb[s]['available'])) for s in exp)}"))
                        return
                    if not covered and st["reply"][0] == 1:
                        out.append(("C06", "accept:accepted-although-not-covered", k,
                                    f"{op} needs {dict((s, str(v)) for s, v in exp.items())}, available "
                                    f"{dict((s, str(pb[s]['available'])) for s in exp)}"))
                        return
        # fills shrink the reservation by what was spent, up to what is left
        if op[0] == "bar":
            for idx, db, dq, dfee in fills_at(ctx, k):
                if idx not in R:
                    continue
                req = ctx.order_req[idx]
                b, q = ctx.pairs[req[3]]
                if req[2] == "buy":
                    spent = {q: dq + dfee}
                else:
                    spent = {b: db}
                    if dfee > dq:
                        spent[q] = dfee - dq
                for s, v in spent.items():
                    if v > 0 and s in R[idx]:
                        R[idx][s] -= min(v, R[idx][s])
        for idx, o in cur.items():
            if not o["is_open"]:
                R.pop(idx, None)
        tot = {}
        for idx, r in R.items():
            for s, v in r.items():
                tot[s] = tot.get(s, ZERO) + v
        for s in ctx.syms:
            if holds[s] != tot.get(s, ZERO):
                anyopen = any(o["is_open"] for o in cur.values())
                fp = "hold:ne-open-reservations" if anyopen else "hold:leak-after-close"
                out.append(("C06", fp, k, f"{s}: {holds[s]} on hold but open orders reserve {tot.get(s, ZERO)} "
                                          f"(open orders: {[i for i, o in cur.items() if o['is_open']]})"))
                return
            if holds[s] > snap["balances"][s]["available"] + holds[s]:
                out.append(("C06", "hold:exceeds-balance", k, s))
                return
        prev = snap


# ------------------------------------------------------------------------------------------------
def observable(snap):
    return (
        {s: (b["available"], b["hold"], b["borrowed"]) for s, b in snap["balances"].items()},
        [o for o in snap["orders"] if o["is_open"]],
        [l for l in snap["loans"] if l.get("is_open", True)],
    )


def mon_c07(ctx, out):
    tr = ctx.tr
    for k, st in ctx.walk():
        if st["op"][0] in ("create", "cancel", "loan", "repay") and st["reply"][0] == 3:
            before = tr.steps[k - 1]["snap"] if k > 0 else None
            if before is None:
                continue
            a, b = observable(before), observable(st["snap"])
            if a != b:
                what = "balances" if a[0] != b[0] else "open orders" if a[1] != b[1] else "open loans"
                out.append(("C07", "atomic:state-changed-by-rejected-call", k,
                            f"{st['op']} raised ({st.get('exc')}) but {what} changed"))
                return


# ------------------------------------------------------------------------------------------------
def mon_c08(ctx, out):
    tr = ctx.tr
    case = ctx.case
    # premise of the balance clause: initial balances and loan amounts are on the precision grid
    grid_premise = case.get("grid_premise", True)
    for s, v in case["initial"].items():
        p = case["sym_prec"].get(s)
        if p is not None and not on_grid(F(Decimal(str(v))), p):
            grid_premise = False
    for i, pi in case.get("pair_info", {}).items():
        b, q = case["pairs"][int(i)]
        if pi[0] > case["sym_prec"].get(b, pi[0]) or pi[1] > case["sym_prec"].get(q, pi[1]):
            grid_premise = False          # a pair traded on a finer grid than its symbols': balances follow the pair
    for acts in case["script"].values():
        for a in acts:
            if a[0] == "loan":
                p = case["sym_prec"].get(a[1])
                if p is not None and not on_grid(F(Decimal(str(a[2]))), p):
                    grid_premise = False
    for k, st in ctx.walk():
        snap = st["snap"]
        if st["op"][0] == "reconfig":
            # the balance clause speaks of an account whose balances are on the grid: from here on that is the account
            # as it stands now, measured on the new grid
            for s2 in ctx.syms:
                p = ctx.sym_prec().get(s2)
                if p is not None and any(not on_grid(snap["balances"][s2][nm], p) for nm in ("available", "hold", "borrowed")):
                    grid_premise = False
            for i, pinf in ctx.tables()[1].items():
                b, q = case["pairs"][int(i)]
                if pinf[0] > ctx.sym_prec().get(b, pinf[0]) or pinf[1] > ctx.sym_prec().get(q, pinf[1]):
                    grid_premise = False
        if st["op"][0] == "loan":
            p = ctx.sym_prec().get(st["op"][1])
            if p is not None and not on_grid(F(Decimal(str(st["op"][2]))), p):
                grid_premise = False
        # grids: what each order gained in this step, on the grid in force during this step
        prev_orders = order_by_idx(tr.steps[k - 1]["snap"]) if k > 0 else {}
        for o in snap["orders"]:
            req = ctx.order_req.get(o["idx"])
            if not req:
                continue
            pp = ctx.prec_of_pair(req[3])
            if pp is None:
                continue
            po = prev_orders.get(o["idx"])
            fee = sum(o["fees"].values(), ZERO)
            d_f = o["filled"] - (po["filled"] if po else ZERO)
            d_q = o["qfilled"] - (po["qfilled"] if po else ZERO)
            d_fee = fee - (sum(po["fees"].values(), ZERO) if po else ZERO)
            if not on_grid(d_f, pp[0]) or not on_grid(d_q, pp[1]) or not on_grid(d_fee, pp[1]):
                out.append(("C08", "grid:fill-off-grid", k, f"order {o['idx']}: filled {d_f} quote {d_q} "
                                                            f"fee {d_fee} in this step, with precision {pp}"))
                return
        if grid_premise:
            for s in ctx.syms:
                p = ctx.sym_prec().get(s)
                if p is None:
                    continue
                b = snap["balances"][s]
                for name in ("available", "hold", "borrowed"):
                    if not on_grid(b[name], p):
                        out.append(("C08", "grid:balance-off-grid", k, f"{s} {name} = {b[name]} with precision {p}"))
                        return
        if st["op"][0] != "bar":
            continue
        bar = st["bar"]
        pi = bar[0]
        fl = fills_at(ctx, k)
        if case["liq"] is not None:
            total = D(bar[6]) * D(case["liq"][0]) / 100
            used = sum((f[1] for f in fl), ZERO)
            if used > total:
                out.append(("C08", "liquidity:cap-exceeded", k, f"bar volume {bar[6]} grants {total}, fills took {used}"))
                return
        else:
            total = None
        # all-or-nothing for market / stop orders, in processing order (insertion order of open orders)
        before = order_by_idx(tr.steps[k - 1]["snap"]) if k > 0 else {}
        left = total
        filled_now = {f[0]: f for f in fl}
        prev_bal = tr.steps[k - 1]["snap"]["balances"] if k > 0 else None
        for idx in sorted(before):
            o = before[idx]
            req = ctx.order_req.get(idx)
            if not o["is_open"] or not req or req[3] != pi:
                continue
            kind, opn = req[1], req[2]
            pend = o["amount"] - o["filled"]
            took = filled_now[idx][1] if idx in filled_now else ZERO
            if kind in ("market", "stop"):
                if left is not None and pend > left and took > 0:
                    out.append(("C08", "liquidity:filled-beyond-what-is-left", k, f"order {idx} needs {pend}, {left} left"))
                    return
                fits = left is None or pend <= left
                tiny = pend * D(bar[4]) < F(2, 10 ** ctx.prec_of_pair(pi)[1]) or pend < F(1, 10 ** ctx.prec_of_pair(pi)[0])
                if fits and took == 0 and kind == "market" and not tiny and prev_bal is not None:
                    # funds clearly sufficient at its turn?  available before the bar, moved by the fills of the
                    # orders processed before it in this bar (hold releases can only add to it)
                    b, q = ctx.pairs[pi]
                    spent_q = ZERO
                    spent_b = ZERO
                    for (j2, db2, dq2, dfee2) in fl:
                        if j2 < idx:
                            r2 = ctx.order_req[j2]
                            if r2[2] == "buy":
                                spent_q += dq2 + dfee2
                            else:
                                spent_b += db2
                                spent_q += max(ZERO, dfee2 - dq2)
                    if opn == "buy":
                        cost = pend * D(bar[3])
                        fee = ZERO
                        if case["fee"] is not None:
                            fee = max(cost * D(case["fee"][0]) / 100, D(case["fee"][1])) + 1
                        if prev_bal[q]["available"] - spent_q >= cost + fee + 1:
                            out.append(("C08", "liquidity:fitting-order-not-filled", k,
                                        f"market buy {idx} for {pend} fits in what is left ({left}) and funds suffice, but "
                                        f"it was not filled"))
                            return
                    else:
                        fee_short = ZERO
                        if case["fee"] is not None:
                            fee_short = D(case["fee"][1]) + 1
                        if prev_bal[b]["available"] - spent_b >= pend and prev_bal[q]["available"] - spent_q >= fee_short:
                            out.append(("C08", "liquidity:fitting-order-not-filled", k,
                                        f"market sell {idx} for {pend} fits in what is left ({left}) and funds suffice, but "
                                        f"it was not filled"))
                            return
            if left is not None:
                left -= took


def _others_spend(ctx, before, idx, pi, sym):
    """is there another open order of this pair, processed earlier, that could spend [sym] in this bar?"""
    for i in sorted(before):
        if i >= idx:
            break
        req = ctx.order_req.get(i)
        if before[i]["is_open"] and req and req[3] == pi and req[2] == "buy":
            return True
    return False


# ------------------------------------------------------------------------------------------------
def mon_c09(ctx, out):
    case = ctx.case
    traded_under = {}       # order -> quote precisions in force when it traded
    for k, st in ctx.walk():
        prev_orders = order_by_idx(ctx.tr.steps[k - 1]["snap"]) if k > 0 else {}
        for o in st["snap"]["orders"]:
            req = ctx.order_req.get(o["idx"])
            if not req:
                continue
            b, q = ctx.pairs[req[3]]
            qp = ctx.prec_of_pair(req[3])[1]
            po = prev_orders.get(o["idx"])
            if o["qfilled"] != (po["qfilled"] if po else ZERO) or o["filled"] != (po["filled"] if po else ZERO):
                traded_under.setdefault(o["idx"], set()).add(qp)
            # the formula names one quote precision: it is the one the order traded under (an order whose fills
            # straddle a change of the quote precision has no single such precision)
            under = traded_under.get(o["idx"], {qp})
            straddles = len(under) > 1
            qp = next(iter(under))
            for s, f in o["fees"].items():
                if s != q and f != 0:
                    out.append(("C09", "fee:not-in-quote-symbol", k, f"order {o['idx']} charged {f} {s}"))
                    return
                if f < 0:
                    out.append(("C09", "fee:negative", k, f"order {o['idx']} fee {f}"))
                    return
            fee = sum(o["fees"].values(), ZERO)
            traded = o["filled"] > 0
            if case["fee"] is None or not traded:
                exp = ZERO
            else:
                exp = round_up(max(o["qfilled"] * D(case["fee"][0]) / 100, D(case["fee"][1])), qp)
            if fee != exp and not straddles:
                out.append(("C09", "fee:total-ne-formula", k,
                            f"order {o['idx']} traded quote {o['qfilled']}: fee {fee}, expected {exp} "
                            f"(scheme {case['fee']}, quote precision {qp})"))
                return


# ------------------------------------------------------------------------------------------------
def mon_c10(ctx, out):
    tr = ctx.tr
    case = ctx.case
    for k, st in ctx.walk():
        snap = st["snap"]
        prev = tr.steps[k - 1]["snap"] if k > 0 else {"loans": []}
        new_loans = [l for l in snap["loans"] if l["idx"] >= len(prev["loans"])]
        granted = [l for l in new_loans if l.get("is_open")]
        if case["lend"] is None:
            if new_loans or (st["op"][0] == "loan" and st["reply"][0] != 3):
                out.append(("C10", "noloans:borrow-succeeded", k, f"{st['op']} borrowed without a lending strategy"))
                return
            continue
        if not granted or st["op"][0] not in ("loan", "create"):
            continue
        closes = ctx.closes_upto(k)
        quote = case["lend"]["quote"]
        equity = ZERO
        required = ZERO
        unknown = False
        for s in ctx.syms:
            b = snap["balances"][s]
            net = b["available"] + b["hold"] - b["borrowed"]
            if net > 0:
                v = ctx.convert(closes, net, s, quote)
                if v is None:
                    unknown = True
                else:
                    equity += v
            if b["borrowed"] > 0:
                cnd = ctx.cond_of(s)
                if cnd is None:
                    unknown = True
                    continue
                v = ctx.convert(closes, D(cnd[4]) * b["borrowed"], s, quote)
                if v is None:
                    unknown = True
                else:
                    required += v
        # a margin level within 1e-20 of the requirement may be decided either way by 28-digit decimal arithmetic
        # (conversions through inverted prices): only a real shortfall is a violation
        if not unknown and equity < required and (getattr(ctx.tr, "exact", True) or
                                                  equity < required * (1 - F(1, 10 ** 20))):
            out.append(("C10", "margin:loan-granted-below-requirement", k,
                        f"{st['op']} granted with equity {equity} < required {required} (quote {quote})"))
            return


# ------------------------------------------------------------------------------------------------
def expected_interest(ctx, k, loan, created_us, now_us):
    cnd = ctx.cond_of(loan["sym"])
    isym, pct, period_s, mn, _ = cnd
    isym = isym
    i = D(pct) / 100 * loan["amount"]
    if int(period_s) != 0:
        i = i * F(now_us - created_us, int(period_s) * 1000000)
    if isym != loan["sym"]:
        i = ctx.convert(ctx.closes_upto(k), i, loan["sym"], isym)
        if i is None:
            return None, isym
    i = max(i, D(mn))
    p = ctx.sym_prec(k).get(isym)
    if p is None:
        return None, isym
    return trunc(i, p), isym


def mon_c11(ctx, out):
    from harness.exchange_driver import when_us
    tr = ctx.tr
    case = ctx.case
    if case["lend"] is None:
        return
    created = {}
    now_us = None
    was_open = {}
    for k, st in ctx.walk():
        snap = st["snap"]
        op = st["op"]
        if op[0] == "bar":
            now_us = when_us(st["bar"][1])
        elif st["op"][0] == "tick":
            now_us = when_us(st["op"][1])
        prev = tr.steps[k - 1]["snap"] if k > 0 else None
        if not loans_ok(snap):
            continue
        for l in snap["loans"]:
            if l["idx"] not in created:
                created[l["idx"]] = now_us
            if l["is_open"]:
                exp, isym = expected_interest(ctx, k, l, created[l["idx"]], now_us)
                got = sum(l["outstanding"].values(), ZERO)
                if any(v < 0 for v in l["outstanding"].values()):
                    out.append(("C11", "interest:negative", k, f"loan {l['idx']}: {l['outstanding']}"))
                    return
                if any(s != isym for s, v in l["outstanding"].items() if v):
                    out.append(("C11", "interest:wrong-symbol", k, f"loan {l['idx']}: {l['outstanding']} expected in {isym}"))
                    return
                # histories in which an inexact decimal operation (a division by a price) influenced something
                # observable are outside the exactness domain: the exact formula is not compared there
                if exp is not None and got != exp and getattr(ctx.tr, "exact", True):
                    out.append(("C11", "interest:ne-formula", k, f"loan {l['idx']} ({l['amount']} {l['sym']}, conditions "
                                                                 f"{ctx.cond_of(l['sym'])}): outstanding {got}, expected {exp}"))
                    return
        # repayments
        if op[0] == "repay":
            pl = {l["idx"]: l for l in prev["loans"]} if prev else {}
            target = pl.get(op[1])
            if (target is None or not target.get("is_open")) and st["reply"][0] != 3:
                out.append(("C11", "repay:closed-or-unknown-loan-repaid", k, f"{op}"))
                return
            if st["reply"][0] == 0 and target is not None and loans_ok(prev):
                after = {l["idx"]: l for l in snap["loans"]}[op[1]]
                interest = dict(target["outstanding"])
                if after["is_open"] or after["paid"] != {s: v for s, v in interest.items() if v}:
                    if after["is_open"] or sum(after["paid"].values(), ZERO) != sum(interest.values(), ZERO):
                        out.append(("C11", "repay:not-closed-or-paid-ne-interest", k,
                                    f"loan {op[1]}: outstanding before {interest}, after {after}"))
                        return
                for s in ctx.syms:
                    pb, cb = prev["balances"][s], snap["balances"][s]
                    dbal = (cb["available"] + cb["hold"]) - (pb["available"] + pb["hold"])
                    dbor = cb["borrowed"] - pb["borrowed"]
                    e_bal = -(target["amount"] if s == target["sym"] else ZERO) - interest.get(s, ZERO)
                    e_bor = -(target["amount"] if s == target["sym"] else ZERO)
                    if dbal != e_bal or dbor != e_bor:
                        out.append(("C11", "repay:debit-ne-principal-plus-interest", k,
                                    f"{s}: balance moved {dbal} (expected {e_bal}), borrowed moved {dbor} (expected {e_bor})"))
                        return
        # who closed loans at this step?
        if prev is not None and loans_ok(prev):
            pl = {l["idx"]: l for l in prev["loans"]}
            po = order_by_idx(prev)
            co = order_by_idx(snap)
            closed_now = [l for l in snap["loans"] if not l["is_open"] and (l["idx"] not in pl or pl[l["idx"]]["is_open"])]
            for l in closed_now:
                fresh = l["idx"] not in pl
                ok = False
                if op[0] == "repay" and op[1] == l["idx"] and st["reply"][0] == 0:
                    ok = True
                elif fresh and op[0] == "create" and st["reply"][0] == 3:
                    ok = True            # rollback of the auto-borrow request that created it
                else:
                    # an auto-repay order that traded closed at this step
                    for idx, o in co.items():
                        req = ctx.order_req.get(idx)
                        if req and req[8] and o["filled"] > 0 and not o["is_open"] and \
                                (idx not in po or po[idx]["is_open"]):
                            credit = ctx.pairs[req[3]][0] if req[2] == "buy" else ctx.pairs[req[3]][1]
                            if credit == l["sym"] and l["idx"] in o["loans"]:
                                ok = True
                if not ok:
                    out.append(("C11", "close:loan-closed-without-cause", k, f"loan {l['idx']} closed by {op}"))
                    return
            # largest first, as far as funds allow
            for idx, o in co.items():
                req = ctx.order_req.get(idx)
                if not (req and req[8] and o["filled"] > 0 and not o["is_open"] and (idx not in po or po[idx]["is_open"])):
                    continue
                credit = ctx.pairs[req[3]][0] if req[2] == "buy" else ctx.pairs[req[3]][1]
                # funds seen after the step bound what was there at the order's turn only if nothing was processed
                # after it in the same bar
                if any(j > idx and (j not in po or po[j] != co[j]) for j in co):
                    continue
                cands = [l for l in prev["loans"] if l["is_open"] and l["sym"] == credit]
                after = {l["idx"]: l for l in snap["loans"]}
                left_open = [l for l in cands if after[l["idx"]]["is_open"]]
                for l in left_open:
                    need = {l["sym"]: l["amount"]}
                    for s, v in after[l["idx"]]["outstanding"].items():
                        need[s] = need.get(s, ZERO) + v
                    if all(snap["balances"][s]["available"] >= v for s, v in need.items()):
                        out.append(("C11", "autorepay:affordable-loan-left-open", k,
                                    f"order {idx} closed; loan {l['idx']} ({l['amount']} {l['sym']}) left open although "
                                    f"funds allow repaying it"))
                        return
                # largest first: a loan left open must not have been affordable at its turn, i.e. with the funds there
                # were before the repayments minus what strictly larger loans took
                prevl = {l["idx"]: l for l in prev["loans"]}
                repaid = [l for l in cands if not after[l["idx"]]["is_open"] and l["idx"] in o["loans"]]
                if len(repaid) != len([l for l in cands if not after[l["idx"]]["is_open"]]):
                    continue          # another order closed in the same step repaid loans too: funds cannot be attributed

                def cost(l):
                    c = {l["sym"]: l["amount"]}
                    for sname, v in after[l["idx"]].get("paid", {}).items():
                        c[sname] = c.get(sname, ZERO) + v - prevl[l["idx"]].get("paid", {}).get(sname, ZERO)
                    return c
                for l in left_open:
                    funds = {sname: b["available"] for sname, b in snap["balances"].items()}
                    for r in repaid:
                        # taken after l's turn (smaller, or equal and created later: the sort is stable): give it back
                        if r["amount"] < l["amount"] or (r["amount"] == l["amount"] and r["idx"] > l["idx"]):
                            for sname, v in cost(r).items():
                                funds[sname] = funds.get(sname, ZERO) + v
                    need = {l["sym"]: l["amount"]}
                    for sname, v in after[l["idx"]]["outstanding"].items():
                        need[sname] = need.get(sname, ZERO) + v
                    smaller_repaid = [r for r in repaid if r["amount"] < l["amount"]]
                    if smaller_repaid and all(funds.get(sname, ZERO) >= v for sname, v in need.items()):
                        out.append(("C11", "autorepay:not-largest-first", k,
                                    f"order {idx} closed; loan {l['idx']} ({l['amount']} {l['sym']}) was left open while the "
                                    f"smaller loan {smaller_repaid[0]['idx']} ({smaller_repaid[0]['amount']}) was repaid, "
                                    f"although the larger one was affordable at its turn"))
                        return


MONITORS = {"C01": mon_c01, "C02": mon_c02, "C04": mon_c04, "C05": mon_c05, "C06": mon_c06, "C07": mon_c07,
            "C08": mon_c08, "C09": mon_c09, "C10": mon_c10, "C11": mon_c11}


def mon_listing_after_failures(tr, out):
    """Listings stay exact after a bar whose processing raised: the open-order listing is compared with the orders
    the exchange itself reports as open (nothing here depends on what the failing bar should have done)."""
    ctx = Ctx(tr)
    for k, st in enumerate(tr.steps):
        op = st["op"]
        if op[0] == "list" and st["reply"][0] == 2:
            pi = op[1]
            expect = [o["idx"] for o in st["snap"]["orders"] if o["is_open"] and
                      (pi is None or (o["idx"] in ctx.order_req and ctx.order_req[o["idx"]][3] == pi))]
            got = [x[0] for x in st["listing"]]
            if got != expect:
                out.append(("C05", "listing:open-orders-mismatch", k,
                            f"get_open_orders({pi}) returned {got}, expected {expect} (after a bar whose processing raised)"))
                return
            for name, g, e in st.get("filters", []):
                if g != e:
                    out.append(("C05", "listing:get-orders-filter-mismatch", k, f"{name}: got {g}, expected {e}"))
                    return


def mon_holds_after_failures(tr, out):
    """"Whenever no order is open nothing is on hold" -- also after a bar whose processing raised half-way: an order
    that got closed has given its reservation back whatever happened afterwards."""
    for k, st in enumerate(tr.steps):
        snap = st["snap"]
        if any(o["is_open"] for o in snap["orders"]):
            continue
        held = {s: b["hold"] for s, b in snap["balances"].items() if b["hold"] != 0}
        if held:
            out.append(("C06", "hold:on-hold-with-no-open-order", k,
                        f"no order is open after {st['op']} and yet {held} is on hold"))
            return


def run_monitors(tr, which=None):
    # A bar whose processing raised (e.g. NoPrice while converting interest: a configuration without the prices its
    # lending conditions need) is outside the premises of the properties: monitor the history up to that bar only.
    full_tr = tr
    for k, st in enumerate(tr.steps):
        if st["op"][0] == "bar" and st["reply"][0] == 3:
            import copy
            t2 = copy.copy(tr)
            t2.steps = tr.steps[:k]
            last_us = None
            from harness.exchange_driver import when_us
            cut = when_us(st["bar"][1])
            # events of earlier bars that carry the same timestamp (other pairs) belong to the monitored prefix: keep
            # those that report a state an order was observed in before the failing bar
            seen = set()
            for j in range(k):
                for o in tr.steps[j]["snap"]["orders"]:
                    seen.add((o["idx"], o["is_open"], o["filled"], o["qfilled"], sum(o["fees"].values(), ZERO)))

            def before_failure(e):
                w, idx, info = e
                if w < cut:
                    return True
                key = (idx, info.is_open, F(info.amount_filled), F(info.quote_amount_filled),
                       sum((F(x) for x in info.fees.values()), ZERO))
                return w == cut and key in seen
            t2.events = [e for e in tr.events if before_failure(e)]
            tr = t2
            break
    ctx = Ctx(tr)
    out = []
    for pid, fn in MONITORS.items():
        if which is None or pid in which:
            fn(ctx, out)
    if full_tr is not tr and (which is None or "C05" in which) and not out:
        mon_listing_after_failures(full_tr, out)
    if (which is None or "C06" in which) and not out:
        mon_holds_after_failures(full_tr, out)
    return out
