"""C14 drivers: (A) life-cycle of EventDispatcher.run under every fault placement / exit path, for both dispatchers;
(B) the handler pool under contention (several concurrent pushers), instrumented from the harness process."""
import asyncio
import datetime
import itertools
import logging
import time
import types

from harness.common import listlit


class ProducerError(Exception):
    pass


def utc_now():
    return datetime.datetime.now(datetime.timezone.utc)


# ------------------------------------------------------------------------------------------------
# (A) life cycle

def lifecycle_scenarios(n_producers, dispatchers=("backtesting", "realtime"), full=True, rnd=None, sample=None):
    behs = list(itertools.product(["ok", "raise"], ["return", "raise", "block"], ["ok", "raise"]))
    out = []
    combos = itertools.product(behs, repeat=n_producers)
    combos = list(combos)
    if sample is not None and rnd is not None and len(combos) > sample:
        combos = rnd.sample(combos, sample)
    for ps in combos:
        for disp in dispatchers:
            # "stop2": stop() is requested once before run() and once more while it is running
            exits = ["stop", "handler_error", "cancel", "stop2"] + (["exhaust"] if disp == "backtesting" else [])
            for x in exits:
                for inflight in ([False, True] if x not in ("exhaust", "stop2") else [False]):
                    if disp == "backtesting" and x == "cancel" and not inflight:
                        continue          # a backtest without anything in flight is over before it can be cancelled
                    out.append({"dispatcher": disp, "producers": [list(p) for p in ps], "exit": x, "inflight": inflight,
                                "mc": 4,
                                # every third scenario: user code wraps the log record factory during the run
                                "wrap_factory": disp == "backtesting" and len(out) % 3 == 1,
                                "user_converter": len(out) % 4 == 2,
                                "thread": len(out) % 5 == 3,
                                # a second stop request arrives while the producers are being finalised (a watchdog,
                                # a finaliser that asks the dispatcher to stop): finalisation is not cancellable
                                "fin_stop": len(out) % 7 == 5})
    return out


async def _run_lifecycle(sc):
    import basana as bs
    from basana.core import event as core_event
    log = []
    disp = sc["dispatcher"]
    d = bs.backtesting_dispatcher(max_concurrent=sc["mc"]) if disp == "backtesting" else \
        bs.realtime_dispatcher(max_concurrent=sc["mc"])
    if disp == "realtime":
        d.idle_sleep = 0.002

    class P(bs.Producer):
        def __init__(self, pid, beh):
            self.pid, self.beh = pid, beh

        async def initialize(self):
            log.append(("I", self.pid))
            user_log.warning("producer %d starting", self.pid)       # applications log before the first event too
            if self.beh[0] == "raise":
                raise ProducerError("init %d" % self.pid)

        async def main(self):
            log.append(("M", self.pid))
            if self.beh[1] == "raise":
                raise ProducerError("main %d" % self.pid)
            if self.beh[1] == "block":
                try:
                    await asyncio.Event().wait()
                except asyncio.CancelledError:
                    log.append(("Mcancelled", self.pid))
                    raise

        async def finalize(self):
            log.append(("F", self.pid))
            if sc.get("fin_stop"):
                await asyncio.sleep(0)
                if self.pid == 0:
                    d.stop()
                await asyncio.sleep(0.005)
                log.append(("Fdone", self.pid))
            if self.beh[2] == "raise":
                raise RuntimeError("finalize %d" % self.pid)

    class Ev(core_event.Event):
        def __init__(self, when, n):
            super().__init__(when)
            self.n = n
    now = utc_now()
    base = datetime.datetime(2022, 1, 1, tzinfo=datetime.timezone.utc) if disp == "backtesting" else \
        now - datetime.timedelta(seconds=5)
    producers = [P(i, b) for i, b in enumerate(sc["producers"])]
    x = sc["exit"]
    if x == "handler_error":
        d.stop_on_handler_exceptions = True

    async def handler(ev):
        log.append(("H", ev.n))
        if ev.n == 0 and sc.get("wrap_factory"):
            inner = logging.getLogRecordFactory()

            def wrapping_factory(*args, **kwargs):
                return inner(*args, **kwargs)
            logging.setLogRecordFactory(wrapping_factory)
        if ev.n == 0 and sc["inflight"]:
            try:
                await asyncio.Event().wait()            # a handler in flight when the run ends
            except asyncio.CancelledError:
                log.append(("Hcancelled", ev.n))
                raise
        if ev.n == 1:
            if x == "stop":
                d.stop()
            elif x == "handler_error":
                raise RuntimeError("handler fails")
    for i, p in enumerate(producers):
        # both events of producer 0 have the same time: they are handled concurrently
        evs = [Ev(base, 0), Ev(base, 1), Ev(base + datetime.timedelta(seconds=1), 2)] if i == 0 else \
            [Ev(base + datetime.timedelta(seconds=2), 10 + i)]
        src = core_event.FifoQueueEventSource(producer=p, events=evs)
        d.subscribe(src, handler)
    factory_before = logging.getLogRecordFactory()
    # logging stays ON during the run (every record is created and formatted with its time), into a sink
    sink = _Sink()
    lg = logging.getLogger("basana")
    saved = [(l, l.level, l.propagate, list(l.handlers)) for l in (lg, user_log)]
    for l in (lg, user_log):
        l.setLevel(logging.DEBUG)
        l.propagate = False
        l.handlers = [sink]
    # an application-wide time converter installed the documented way (a plain function needs staticmethod)
    converter_before = logging.Formatter.__dict__.get("converter")
    if sc.get("user_converter"):
        logging.Formatter.converter = staticmethod(_user_converter)
    converter_installed = logging.Formatter.__dict__.get("converter")
    outcome = None
    detail = ""
    if x == "stop2":
        d.stop()
    task = asyncio.ensure_future(d.run(stop_signals=[]))
    if x == "stop2":
        async def stopper():
            await asyncio.sleep(0.03)
            d.stop()
        asyncio.ensure_future(stopper())
    if x == "cancel":
        async def canceller():
            await asyncio.sleep(0.03)
            task.cancel()
        asyncio.ensure_future(canceller())
    try:
        await asyncio.wait_for(asyncio.shield(task), timeout=3)
        outcome = "Returned"
    except asyncio.TimeoutError:
        outcome = "Timeout"
        task.cancel()
    except ProducerError as e:
        outcome = "RaisedProducerError"
        detail = str(e)
    except asyncio.CancelledError:
        outcome = "RaisedCancelled"
    except BaseException as e:      # noqa
        outcome = "Internal"
        detail = repr(e)
    finally:
        for l, lvl, prop, hs in saved:
            l.setLevel(lvl)
            l.propagate = prop
            l.handlers = hs
    # logging afterwards: the record factory and the time converter are the ones installed before the run, a record can
    # be created and formatted with its time, and that time is the wall clock again
    logging_ok = logging.getLogRecordFactory() is factory_before
    if logging.Formatter.__dict__.get("converter") is not converter_installed:
        logging_ok = False
        detail += " logging: Formatter.converter is not the object installed before the run"
    try:
        rec = logging.getLogRecordFactory()("x", logging.INFO, __file__, 1, "hello", (), None)
        assert rec is not None
        text = logging.Formatter("%(asctime)s %(message)s").format(rec)
        assert "hello" in text
        if abs(rec.created - time.time()) > 60:
            logging_ok = False
            detail += " logging: a record created after the run is dated %r" % rec.created
    except Exception as e:
        logging_ok = False
        detail += " logging: " + repr(e)
    if sink.errors:
        logging_ok = False
        detail += " logging failed during the run: " + sink.errors[0]
    logging.setLogRecordFactory(factory_before)
    if converter_before is None:
        if "converter" in logging.Formatter.__dict__:
            del logging.Formatter.converter
    else:
        logging.Formatter.converter = converter_before
    return log, outcome, logging_ok, detail


user_log = logging.getLogger("harness.user.strategy")


def _user_converter(secs):
    return time.gmtime(secs)


class _Sink(logging.Handler):
    """formats every record with its time and drops it; remembers formatting failures"""

    def __init__(self):
        super().__init__(logging.DEBUG)
        self.errors = []
        self.setFormatter(logging.Formatter("%(asctime)s %(name)s %(message)s"))

    def emit(self, record):
        try:
            self.format(record)
        except Exception as e:      # noqa
            self.errors.append(repr(e))


def run_lifecycle(sc):
    if sc.get("thread"):
        # an application that runs the dispatcher on a worker thread with its own event loop (and therefore asks for no
        # signal handlers: stop_signals=[])
        import threading
        box = {}

        def target():
            try:
                box["r"] = asyncio.run(_run_lifecycle(sc))
            except BaseException as e:      # noqa
                box["e"] = e
        t = threading.Thread(target=target)
        t.start()
        t.join(30)
        if "r" in box:
            return box["r"]
        return [], "Internal", True, "run on a worker thread: " + repr(box.get("e", "did not finish"))
    return asyncio.run(_run_lifecycle(sc))


def monitor_lifecycle(sc, log, outcome, logging_ok, detail):
    out = []
    n = len(sc["producers"])
    calls = [(k, r) for k, r in enumerate(log) if r[0] in ("I", "M", "F")]
    first_main = min((k for k, r in calls if r[0] == "M"), default=None)
    inits = [r[1] for k, r in calls if r[0] == "I"]
    if first_main is not None:
        before = sorted(r[1] for k, r in calls if r[0] == "I" and k < first_main)
        if before != list(range(n)):
            out.append(("lifecycle:main-before-all-initialized", f"main() started after initialize() of {before} only"))
        if any(b[0] == "raise" for b in sc["producers"]):
            out.append(("lifecycle:main-after-failed-initialize", "a main() started although an initialize() failed"))
    fins = sorted(r[1] for k, r in calls if r[0] == "F")
    if fins != list(range(n)):
        out.append(("lifecycle:not-finalized-exactly-once", f"finalize() calls: {fins} for {n} producers"))
    if sc.get("fin_stop") and outcome != "Timeout":
        done = sorted(r[1] for r in log if r[0] == "Fdone")
        if done != fins:
            out.append(("lifecycle:finalize-interrupted",
                        f"finalize() was entered for {fins} but ran to its end for {done} only (a stop request during "
                        f"finalisation must not cancel it)"))
    init_fail = any(b[0] == "raise" for b in sc["producers"])
    main_fail = any(b[1] == "raise" for b in sc["producers"])
    if outcome == "Timeout":
        out.append(("lifecycle:not-prompt", "run() did not end within 3 s"))
    elif outcome == "Internal":
        out.append(("lifecycle:internal-error", f"run() raised {detail}"))
    else:
        if init_fail or main_fail:
            exp = "RaisedProducerError"
        elif sc["exit"] == "cancel":
            exp = "RaisedCancelled"
        else:
            exp = "Returned"
        if outcome != exp:
            out.append(("lifecycle:wrong-outcome", f"run() ended with {outcome}, expected {exp} ({detail})"))
    if not logging_ok:
        out.append(("logging:not-restored", f"the log record factory was not restored / logging fails after the run ({detail})"))
    # in-flight handler: cancelled, not awaited
    started = any(r == ("H", 0) for r in log)
    if sc["inflight"] and started and ("Hcancelled", 0) not in log and outcome != "Timeout":
        out.append(("lifecycle:inflight-handler-not-cancelled", "the handler in flight was not cancelled"))
    return out


def coq_lifecycle_item(sc, log, outcome):
    def beh(i, b):
        return (f"(mkP {i}%nat {'IOk' if b[0] == 'ok' else 'IRaise'} "
                f"{ {'return': 'MReturn', 'raise': 'MRaise', 'block': 'MBlock'}[b[1]]} {'FOk' if b[2] == 'ok' else 'FRaise'})")
    ps = listlit([beh(i, b) for i, b in enumerate(sc["producers"])])
    x = {"exhaust": "XExhaust", "stop": "XStop", "stop2": "XStop", "handler_error": "XHandlerError",
         "cancel": "XCancel"}[sc["exit"]]
    oi = listlit([f"(CInit {r[1]}%nat)" for r in log if r[0] == "I"])
    om = listlit([f"(CMain {r[1]}%nat)" for r in log if r[0] == "M"])
    of = listlit([f"(CFin {r[1]}%nat)" for r in log if r[0] == "F"])
    oo = outcome if outcome in ("Returned", "RaisedProducerError", "RaisedCancelled") else "Internal"
    return f"Eval vm_compute in (check_lifecycle {ps} {x} {oi} {om} {of} {oo})."


L_HEADER = ("From Coq Require Import List. Import ListNotations.\n"
            "From Basana Require Import Dispatch.Lifecycle Dispatch.Pool.\n")


# ------------------------------------------------------------------------------------------------
# (B) pool contention under the realtime dispatcher

async def _run_pool(sc):
    import basana as bs
    from basana.core import event as core_event, helpers
    log = []          # (kind, payload, pool size after)
    running = [0]
    max_running = [0]
    tid_counter = itertools.count()
    pools = []

    orig_push = helpers.TaskPool.push
    # the pool's size is read from its internals; when they are not where they used to be the scenario still runs and
    # the bound on concurrently running tasks is still monitored, only the comparison with the pool model is skipped
    orig_wait_impl = getattr(helpers.TaskPool, "_wait_impl", None)
    real_asyncio = getattr(helpers, "asyncio", None)
    task_ids = {}

    def size(pool):
        t = getattr(pool, "_tasks", None)
        return len(t) if t is not None else -1

    async def push(self, coro):
        tid = next(tid_counter)
        pool = self

        async def wrapped():
            task_ids[id(asyncio.current_task())] = tid
            running[0] += 1
            max_running[0] = max(max_running[0], running[0])
            try:
                return await coro
            finally:
                running[0] -= 1
                log.append(("end", tid, size(pool)))
        await orig_push(self, wrapped())
        log.append(("add", tid, size(self)))

    async def wait_proxy(fs, *, timeout=None, return_when="ALL_COMPLETED"):
        done, pending = await real_asyncio.wait(fs, timeout=timeout, return_when=return_when)
        log.append(("wake", sorted(task_ids.get(id(t), -1) for t in done), None))
        return done, pending

    async def _wait_impl(self, timeout, return_when):
        n0 = len(log)
        r = await orig_wait_impl(self, timeout, return_when)
        # the collection happened atomically after the last wake of this call: stamp it with the size
        for k in range(len(log) - 1, n0 - 1, -1):
            if log[k][0] == "wake" and log[k][2] is None:
                log[k] = ("wake", log[k][1], size(self))
                break
        return r
    helpers.TaskPool.push = push
    hooked = orig_wait_impl is not None and real_asyncio is not None
    if hooked:
        helpers.TaskPool._wait_impl = _wait_impl
        helpers.asyncio = types.SimpleNamespace(**{k: getattr(real_asyncio, k) for k in dir(real_asyncio)
                                                   if not k.startswith("__")})
        helpers.asyncio.wait = wait_proxy
    else:
        log.append(("unhooked", None, None))
    outcome = "Returned"
    detail = ""
    try:
        d = bs.realtime_dispatcher(max_concurrent=sc["mc"])
        d.idle_sleep = 0.001
        now = utc_now()

        class Ev(core_event.Event):
            pass

        async def handler(ev):
            for _ in range(sc["susp"]):
                await asyncio.sleep(0)
            if sc["sleep"]:
                await asyncio.sleep(sc["sleep"])
        for i in range(sc["n_sources"]):
            evs = [Ev(now - datetime.timedelta(seconds=10 - k)) for k in range(sc["n_events"])]
            d.subscribe(core_event.FifoQueueEventSource(events=evs), handler)

        def make_job(k):
            async def job():
                for _ in range(sc["susp"]):
                    await asyncio.sleep(0)
                if sc["sleep"]:
                    await asyncio.sleep(sc["sleep"])
            return job
        for k in range(sc["n_jobs"]):
            d.schedule(now - datetime.timedelta(seconds=5 - k * 0.01), make_job(k))
        for k in range(sc["n_idle"]):
            async def idle():
                await asyncio.sleep(0)
            # distinct objects
            d.subscribe_idle((lambda f: (lambda: f()))(idle))

        async def stopper():
            d.stop()
        d.schedule(now + datetime.timedelta(seconds=sc["run_for"]), stopper)
        lg = logging.getLogger("basana")
        old = lg.level
        lg.setLevel(logging.CRITICAL + 1)
        try:
            await asyncio.wait_for(d.run(stop_signals=[]), timeout=5)
        except asyncio.TimeoutError:
            outcome = "Timeout"
        except asyncio.CancelledError:
            outcome = "RaisedCancelled"
        except BaseException as e:   # noqa
            outcome = "Internal"
            detail = repr(e)
        finally:
            lg.setLevel(old)
    finally:
        helpers.TaskPool.push = orig_push
        if hooked:
            helpers.TaskPool._wait_impl = orig_wait_impl
            helpers.asyncio = real_asyncio
    return log, outcome, detail, max_running[0]


def run_pool(sc):
    return asyncio.run(_run_pool(sc))


def monitor_pool(sc, log, outcome, detail, max_running):
    out = []
    if outcome == "Internal":
        out.append(("pool:internal-error", f"run() raised {detail}"))
    if outcome == "Timeout":
        out.append(("lifecycle:not-prompt", "run() did not end within 5 s"))
    if max_running > sc["mc"]:
        out.append(("pool:concurrency-exceeded", f"{max_running} handlers/jobs ran at the same time with "
                                                 f"max_concurrent={sc['mc']}"))
    return out


def coq_pool_item(sc, log, limit=400):
    acts = []
    for kind, payload, size in log[:limit]:
        if size is None:
            break
        if kind == "add":
            acts.append(f"(AAdd {payload}%nat, {size}%nat)")
        elif kind == "end":
            acts.append(f"(AEnd {payload}%nat, {size}%nat)")
        elif kind == "wake":
            if any(t < 0 for t in payload):
                break
            acts.append(f"(ACollect {listlit([str(t) + '%nat' for t in payload])}, {size}%nat)")
    return f"Eval vm_compute in (check_sizes {sc['mc']}%nat empty_pool 0 {listlit(acts)})."


def gen_pool_scenario(rnd):
    return {"mc": rnd.choice([1, 1, 2, 3]), "n_sources": rnd.randint(1, 3), "n_events": rnd.randint(1, 4),
            "n_jobs": rnd.randint(0, 4), "n_idle": rnd.choice([0, 0, 1, 2, 4]), "susp": rnd.choice([0, 1, 2, 3]),
            "sleep": rnd.choice([0, 0, 0.001, 0.003]), "run_for": 0.03}


# ------------------------------------------------------------------------------------------------
# real stop signals, delivered twice (Ctrl-C twice, a supervisor repeating SIGTERM) while finalisation is slow
def signal_main(disp):
    """sub-process: a dispatcher with the default stop signals; prints READY once it runs, F<k> / Fdone<k> around each
    finalisation, RETURNED when run() has returned"""
    import sys
    from harness import common
    common.ensure_repo_on_path()

    async def go():
        import basana as bs
        from basana.core import event as core_event
        d = bs.backtesting_dispatcher() if disp == "backtesting" else bs.realtime_dispatcher()

        class P(bs.Producer):
            def __init__(self, k):
                self.k = k

            async def main(self):
                if self.k == 0:
                    print("READY", flush=True)
                await asyncio.Event().wait()

            async def finalize(self):
                print("F%d" % self.k, flush=True)
                await asyncio.sleep(0.5)
                print("Fdone%d" % self.k, flush=True)

        class Ev(core_event.Event):
            pass
        base = datetime.datetime(2022, 1, 1, tzinfo=datetime.timezone.utc)

        class Endless(core_event.FifoQueueEventSource):
            """keeps the backtest busy: one event per second of simulated time, for ever"""
            def __init__(self, producer):
                super().__init__(producer=producer)
                self.n = 0

            def pop(self):
                self.n += 1
                return Ev(base + datetime.timedelta(seconds=self.n))

        async def handler(ev):
            await asyncio.sleep(0.001)
        for k in range(2):
            src = Endless(P(k)) if disp == "backtesting" else core_event.FifoQueueEventSource(producer=P(k))
            d.subscribe(src, handler)
        logging.getLogger("basana").setLevel(logging.CRITICAL + 1)
        await d.run()
        print("RETURNED", flush=True)
    asyncio.run(go())
    sys.exit(0)


def signal_probe(disp, signame):
    """Returns [] if a stop signal delivered twice ends the run in an orderly way, else [(fingerprint, message)]."""
    import signal
    import subprocess
    import sys
    from harness import common
    sig = getattr(signal, signame)
    pr = subprocess.Popen([sys.executable, "-u", "-c",
                           "from harness import lifecycle_driver as ld; ld.signal_main(%r)" % disp],
                          stdout=subprocess.PIPE, stderr=subprocess.PIPE, text=True, cwd=common.VERIF)
    try:
        line = pr.stdout.readline()
        if "READY" not in line:
            pr.kill()
            return [("lifecycle:signal-probe-crashed", f"{disp}: the probe did not start: {pr.stderr.read()[-800:]}")]
        time.sleep(0.1)
        pr.send_signal(sig)
        time.sleep(0.2)                      # finalisation (0.5 s) is in progress
        if pr.poll() is None:
            pr.send_signal(sig)
        out, err = pr.communicate(timeout=20)
    except Exception as e:      # noqa
        pr.kill()
        return [("lifecycle:not-prompt", f"{disp} / {signame} twice: the process did not end ({e!r})")]
    lines = out.split()
    bad = []
    if pr.returncode != 0 or "RETURNED" not in lines:
        bad.append(("lifecycle:wrong-outcome",
                    f"{disp} dispatcher, {signame} delivered twice (the second during finalisation): the process ended "
                    f"with status {pr.returncode}, output {lines}; run() has to return"))
    elif sorted(x for x in lines if x.startswith("Fdone")) != ["Fdone0", "Fdone1"] or \
            sorted(x for x in lines if x.startswith("F") and not x.startswith("Fdone")) != ["F0", "F1"]:
        bad.append(("lifecycle:not-finalized-exactly-once",
                    f"{disp} dispatcher, {signame} delivered twice: finalisation output {lines}"))
    return bad
