"""Generator of dispatcher scenarios for harness/dispatch_driver.py."""


def gen_scenario(rnd, size="small", jobs_heavy=False):
    n_prim = rnd.randint(1, 4 if size == "small" else 6)
    n_der = rnd.choice([0, 1, 1, 2])
    future = rnd.random() < 0.3
    kinds = ["prim"] * n_prim + ["der"] * n_der + (["future"] if future else [])
    rnd.shuffle(kinds)
    times = sorted(rnd.sample(range(10, 200, 10), rnd.randint(2, 6 if size == "small" else 12)))
    next_eid = [0]
    next_jid = [0]

    def eid():
        next_eid[0] += 1
        return next_eid[0]

    def jid():
        next_jid[0] += 1
        return next_jid[0]
    sources = []
    for k in kinds:
        evs = []
        if k == "prim":
            for t in times:
                r = rnd.random()
                if r < 0.7:
                    evs.append([t, eid()])
                    if rnd.random() < 0.15:
                        evs.append([t, eid()])          # tie within the source
        sources.append(evs)
    der_idx = [i for i, k in enumerate(kinds) if k == "der"]
    fut_idx = [i for i, k in enumerate(kinds) if k == "future"]
    bev, bjob = {}, {}
    job_susp, job_raise = {}, {}

    def job_effects(w, depth):
        effs = []
        if der_idx and rnd.random() < 0.4:
            e = eid()
            effs.append(["push", rnd.choice(der_idx), w, e])
            bev[str(e)] = event_effects(w, depth + 1, derived=True)
        if depth < 2 and rnd.random() < 0.3:
            j = jid()
            w2 = w + rnd.choice([0, 3, 10, 1000])
            effs.append(["sched", w2, j])
            new_job(j, w2, depth + 1)
        return effs

    def new_job(j, w, depth):
        bjob[str(j)] = job_effects(w, depth)
        job_susp[str(j)] = rnd.choice([0, 0, 1, 2])
        job_raise[str(j)] = rnd.random() < 0.15

    def event_effects(w, depth, derived=False):
        effs = []
        if der_idx and depth < 2 and rnd.random() < (0.5 if not derived else 0.25):
            e = eid()
            effs.append(["push", rnd.choice(der_idx), w, e])
            bev[str(e)] = event_effects(w, depth + 1, derived=True)
        if fut_idx and not derived and rnd.random() < 0.3:
            e = eid()
            effs.append(["push", fut_idx[0], w + 1000, e])
            bev[str(e)] = []
        if rnd.random() < (0.5 if jobs_heavy else 0.25):
            j = jid()
            w2 = w + rnd.choice([0, 0, 5, 10, 50, 3000])
            effs.append(["sched", w2, j])
            new_job(j, w2, depth + 1)
        return effs
    for evs in sources:
        for w, e in evs:
            bev[str(e)] = event_effects(w, 0)
    jobs = []
    nj = rnd.randint(0, 7 if jobs_heavy else 4)
    choices = [-5, 5] + times + [t + 5 for t in times] + [times[-1] + 50, times[-1] + 20, 5000, 4000]
    for _ in range(nj):
        j = jid()
        w = rnd.choice(choices)
        jobs.append([w, j])
        new_job(j, w, 0)
    # twins: the same callable scheduled twice for the same instant (the second takes the next job id)
    twins = {}
    if jobs and rnd.random() < 0.25:
        w, lead = rnd.choice(jobs)
        if not bjob.get(str(lead)) and not job_raise.get(str(lead)):
            j2 = jid()
            jobs.append([w, j2])
            bjob[str(j2)] = []
            job_susp[str(lead)] = 0
            twins[str(j2)] = lead
    handlers = []
    for _ in kinds:
        n = rnd.randint(1, 3)
        handlers.append({"n": n, "susp": [rnd.choice([0, 0, 1, 2, 3]) for _ in range(n)],
                         "raise": [rnd.random() < 0.15 for _ in range(n)], "dup": rnd.random() < 0.3,
                         "flavour": [rnd.choice(["method", "method", "function", "partial", "object"]) for _ in range(n)]})
    job_flavour = {k: rnd.choice(["function", "function", "partial", "object"]) for k in bjob}
    pre = [{"susp": rnd.choice([0, 1, 2]), "raise": rnd.random() < 0.1, "dup": rnd.random() < 0.3}
           for _ in range(rnd.choice([0, 0, 1, 2]))]
    post = [{"susp": rnd.choice([0, 1, 2]), "raise": rnd.random() < 0.1} for _ in range(rnd.choice([0, 0, 1, 2]))]
    return {"sources": sources, "kinds": kinds, "jobs": jobs, "bev": bev, "bjob": bjob, "handlers": handlers,
            "pre": pre, "post": post, "mc": rnd.choice([1, 1, 2, 3, 50]), "job_susp": job_susp, "job_raise": job_raise,
            "twins": twins, "job_flavour": job_flavour,
            # handlers / jobs that fail raise exceptions without arguments in half of the scenarios
            "raise_noargs": rnd.random() < 0.5}


def gen_long(rnd, n=1300):
    """One source with more than a thousand events (a few ties), a derived source fed by every seventh event, a
    few jobs: long enough for chunked / capped containers to wrap around."""
    evs, t, e = [], 10, 0
    bev = {}
    for i in range(n):
        e += 1
        evs.append([t, e])
        if rnd.random() < 0.85:
            t += rnd.choice([1, 2, 5])
    der = []
    next_e = e
    for w, ev in evs:
        if ev % 7 == 0:
            next_e += 1
            bev[str(ev)] = [["push", 1, w, next_e]]
            bev[str(next_e)] = []
    # late in the history, handlers also push to the long source itself (events dated after everything it holds)
    t_end = evs[-1][0]
    for k, idx in enumerate([n - 250, n - 120, n - 40]):
        if idx > 0:
            next_e += 1
            t_end += 7
            cur = bev.get(str(evs[idx][1]), [])
            bev[str(evs[idx][1])] = cur + [["push", 0, t_end, next_e]]
            bev[str(next_e)] = []
    jobs = [[rnd.choice([5, evs[n // 2][0], evs[-1][0] + 3]), j + 1] for j in range(3)]
    return {"sources": [evs, der], "kinds": ["prim", "der"], "jobs": jobs, "bev": bev, "bjob": {},
            "handlers": [{"n": 1, "susp": [0], "raise": [False], "dup": False},
                         {"n": 1, "susp": [0], "raise": [False], "dup": False}],
            "pre": [], "post": [], "mc": rnd.choice([1, 3, 50]), "job_susp": {}, "job_raise": {}}


def gen_job_permutation(times_ins, events_at=(5,)):
    """Only jobs, inserted in the given order, after (or around) a few events: for the exhaustive sweep of C13."""
    sources = [[[t, i + 1] for i, t in enumerate(events_at)]]
    jobs = [[w, j + 1] for j, w in enumerate(times_ins)]
    return {"sources": sources, "kinds": ["prim"], "jobs": jobs, "bev": {}, "bjob": {},
            "handlers": [{"n": 1, "susp": [0], "raise": [False], "dup": False}], "pre": [], "post": [], "mc": 50,
            "job_susp": {}, "job_raise": {}}
