"""Fail-closed translator: regenerates coq/gen/Tables.v from tables that live as literals in /repo's source, so that
the theorems about them are re-checked against what the code says now.  It only understands the shapes it expects
(dict / list literals of constants, enum attributes and codecs BOM constants) and raises on anything else."""
import ast
import codecs
import os

from harness import common

ENC_IDS = {"utf-8": 0, "utf-32-le": 1, "utf-32-be": 2, "utf-16-le": 3, "utf-16-be": 4, "utf-8-sig": 5}


class TranslateError(Exception):
    pass


def _parse(rel):
    path = os.path.join(common.REPO, rel)
    return ast.parse(open(path).read(), filename=path)


def _find_func(tree, name):
    for node in ast.walk(tree):
        if isinstance(node, (ast.FunctionDef, ast.AsyncFunctionDef)) and node.name == name:
            return node
    raise TranslateError(f"function {name} not found")


def _coq_str(s):
    return '"' + s.replace('"', '""') + '"'


def bom_table():
    """the BOM table of core/event_sources/csv.py: the one list / tuple literal of (codecs.BOM_*, "encoding") pairs of the
    module (inside the function that opens the file or at module level), which must be scanned by a loop that stops at the
    first entry the file's first bytes start with"""
    tree = _parse("basana/core/event_sources/csv.py")
    tables = []
    for node in ast.walk(tree):
        if isinstance(node, ast.Assign) and len(node.targets) == 1 and isinstance(node.targets[0], ast.Name) \
                and isinstance(node.value, (ast.List, ast.Tuple)) and node.value.elts \
                and all(isinstance(e, ast.Tuple) and len(e.elts) == 2 and isinstance(e.elts[0], ast.Attribute)
                        and isinstance(e.elts[0].value, ast.Name) and e.elts[0].value.id == "codecs"
                        and e.elts[0].attr.startswith("BOM") for e in node.value.elts):
            tables.append(node)
    if len(tables) != 1:
        raise TranslateError(f"expected exactly one BOM table in csv.py, found {len(tables)}")
    node = tables[0]
    name = node.targets[0].id
    out = []
    for elt in node.value.elts:
        b, e = elt.elts
        if not (isinstance(e, ast.Constant) and isinstance(e.value, str)):
            raise TranslateError("encoding is not a string literal")
        if e.value not in ENC_IDS:
            raise TranslateError(f"unknown encoding {e.value}")
        out.append((list(getattr(codecs, b.attr)), ENC_IDS[e.value], e.value))
    # the loop that uses the table must be the first-match prefix scan
    scans = 0
    for loop in ast.walk(tree):
        if not (isinstance(loop, ast.For) and isinstance(loop.iter, ast.Name) and loop.iter.id == name
                and isinstance(loop.target, ast.Tuple) and len(loop.target.elts) == 2
                and isinstance(loop.target.elts[0], ast.Name)):
            continue
        var = loop.target.elts[0].id
        for st in loop.body:
            if isinstance(st, ast.If) and isinstance(st.test, ast.Call) and isinstance(st.test.func, ast.Attribute) \
                    and st.test.func.attr == "startswith" and len(st.test.args) == 1 \
                    and isinstance(st.test.args[0], ast.Name) and st.test.args[0].id == var \
                    and any(isinstance(x, (ast.Break, ast.Return)) for x in st.body):
                scans += 1
    if scans != 1:
        raise TranslateError("the BOM table is not used by exactly one first-match prefix scan any more")
    return out


def dict_table(rel, func, expect_key_type=str):
    """the single dict literal inside function [func] of file [rel]: list of (key, value-as-name-or-constant)"""
    fn = _find_func(_parse(rel), func)
    dicts = [n for n in ast.walk(fn) if isinstance(n, ast.Dict)]
    if len(dicts) != 1:
        raise TranslateError(f"{func}: expected exactly one dict literal, found {len(dicts)}")
    out = []
    for k, v in zip(dicts[0].keys, dicts[0].values):
        if not (isinstance(k, ast.Constant) and isinstance(k.value, expect_key_type)) and \
                not (isinstance(k, ast.Attribute)):
            raise TranslateError(f"{func}: unexpected key {ast.dump(k)}")
        key = k.value if isinstance(k, ast.Constant) else k.attr
        if isinstance(v, ast.Constant):
            val = v.value
        elif isinstance(v, ast.Attribute):
            val = v.attr
        else:
            raise TranslateError(f"{func}: unexpected value {ast.dump(v)}")
        out.append((key, val))
    return out


def render():
    """(text, errors): errors maps the property whose theorems use a table to what went wrong translating it; a table
    that cannot be translated keeps its previous text, so that the theorems of the other properties still build"""
    path = os.path.join(common.COQ, "gen", "Tables.v")
    previous = open(path).read() if os.path.exists(path) else ""

    def previous_block(marker):
        i = previous.find(marker)
        if i < 0:
            return None
        j = previous.find("\n\n", i)
        return previous[i:j if j >= 0 else len(previous)].split("\n")
    errors = {}
    lines = ["(* GENERATED by harness/translate_tables.py from /repo -- do not edit *)",
             "From Coq Require Import NArith List String Bool.", "Import ListNotations.", "Open Scope string_scope.", ""]
    marker = "(* core/event_sources/csv.py: open_file_with_detected_encoding, in source order *)"
    try:
        boms = bom_table()
        lines.append(marker)
        lines.append("Definition bom_table : list (list N * nat) := [")
        lines.append(";\n".join("  ([" + "; ".join(f"{b}%N" for b in bs) + f"], {eid}%nat) (* {name} *)"
                                for bs, eid, name in boms))
        lines.append("].")
    except (TranslateError, SyntaxError, OSError) as e:
        errors["C19"] = f"{type(e).__name__}: {e}"
        blk = previous_block(marker)
        if blk is None:
            raise
        lines += blk
    lines.append("")
    for name, rel, func, kt in [
        ("binance_order_status_is_open", "basana/external/binance/helpers.py", "order_status_is_open", str),
        ("binance_oco_status_is_open", "basana/external/binance/helpers.py", "oco_order_status_is_open", str),
        ("binance_operation_to_side", "basana/external/binance/helpers.py", "order_operation_to_side", str),
        ("binance_side_to_operation", "basana/external/binance/helpers.py", "side_to_order_operation", str),
        ("bitstamp_order_type_to_operation", "basana/external/bitstamp/helpers.py", "order_type_to_order_operation", int),
    ]:
        marker = f"(* {rel}: {func} *)"

        def lit(x):
            if isinstance(x, bool):
                return '"true"' if x else '"false"'
            return _coq_str(str(x))
        try:
            tbl = dict_table(rel, func, kt)
            lines.append(marker)
            lines.append(f"Definition {name} : list (string * string) := [")
            lines.append(";\n".join(f"  ({lit(k)}, {lit(v)})" for k, v in tbl))
            lines.append("].")
        except (TranslateError, SyntaxError, OSError) as e:
            errors.setdefault("C17", f"{type(e).__name__}: {e}")
            blk = previous_block(marker)
            if blk is None:
                raise
            lines += blk
        lines.append("")
    return "\n".join(lines) + "\n", errors


def regenerate():
    """writes coq/gen/Tables.v if its content changed; returns (changed?, {property: error})"""
    path = os.path.join(common.COQ, "gen", "Tables.v")
    try:
        txt, errors = render()
    except (TranslateError, SyntaxError, OSError) as e:
        return False, {"*": f"{type(e).__name__}: {e}"}
    old = open(path).read() if os.path.exists(path) else None
    if old != txt:
        with open(path, "w") as f:
            f.write(txt)
        return True, errors
    return False, errors


if __name__ == "__main__":
    print(regenerate())
