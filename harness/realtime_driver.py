"""C15 driver: the real RealtimeDispatcher under a virtual clock (virtual-time event loop; basana.core.dt.utc_now
substituted), with producers that push events over time (on time, future-dated, out of order), scheduled jobs, idle
handlers and handlers of various durations."""
import asyncio
import datetime
import logging

from harness.common import zlit, listlit
from harness import vloop

T0 = datetime.datetime(2023, 1, 1, tzinfo=datetime.timezone.utc)
MS = 1000       # model time unit: milliseconds


class FoldZone(datetime.tzinfo):
    """A time zone that observes daylight saving time until a given instant: one hour ahead of UTC before it, on UTC from
    then on, so the wall-clock hour that follows the transition happens twice (PEP 495 fold).  Every event gets its own
    instance: datetimes that share a tzinfo object are compared by their wall-clock fields, which is not what the code
    under test is asked to do."""
    HOUR = datetime.timedelta(hours=1)

    def __init__(self, transition_utc):
        self._t = transition_utc.replace(tzinfo=None)

    def utcoffset(self, dt):
        wall = dt.replace(tzinfo=None)
        if wall < self._t:
            return self.HOUR
        if wall >= self._t + self.HOUR:
            return datetime.timedelta(0)
        return datetime.timedelta(0) if dt.fold else self.HOUR

    def dst(self, dt):
        return self.utcoffset(dt)

    def tzname(self, dt):
        return "FOLD"

    def fromutc(self, dt):
        u = dt.replace(tzinfo=None)
        if u < self._t - self.HOUR:
            return (u + self.HOUR).replace(tzinfo=self)
        if u < self._t:
            return (u + self.HOUR).replace(tzinfo=self, fold=0)
        return u.replace(tzinfo=self, fold=1 if u < self._t + self.HOUR else 0)


def ms(dt):
    d = dt - T0
    return int(round(d.total_seconds() * MS))


async def _run(loop, sc):
    import basana as bs
    from basana.core import event as core_event, dt as core_dt, dispatcher as core_disp
    log = []
    running = [0]

    def fake_now():
        return T0 + datetime.timedelta(seconds=loop.time())
    orig_now = core_dt.utc_now
    core_dt.utc_now = fake_now
    # iteration boundaries are observed by wrapping an internal method; without it the scenario still runs and is
    # monitored through handlers and jobs, only the per-iteration comparison with the model is not possible
    orig_push_events = getattr(core_disp.RealtimeDispatcher, "_push_events", None)

    async def push_events(self, dt):
        if len(log) > 200000:
            raise RuntimeError("runaway scenario: the virtual clock does not advance")
        log.append(("iter", ms(dt)))
        return await orig_push_events(self, dt)
    if orig_push_events is not None:
        core_disp.RealtimeDispatcher._push_events = push_events
    outcome = "returned"
    try:
        d = bs.realtime_dispatcher(max_concurrent=sc["mc"])
        d.idle_sleep = 0.01

        class Ev(core_event.Event):
            def __init__(self, when, eid, dur):
                super().__init__(when)
                self.eid, self.dur = eid, dur

        errors = []
        d.on_error = lambda e: (errors.append(e), log.append(("drop", ms(fake_now()))))
        srcs = []

        class P(bs.Producer):
            def __init__(self, i, arrivals):
                self.i, self.arrivals = i, arrivals
                self.src = None

            async def main(self):
                for at, when, eid, dur in self.arrivals:
                    delay = at / MS - loop.time()
                    if delay > 0:
                        await asyncio.sleep(delay)
                    stamp = T0 + datetime.timedelta(milliseconds=when)
                    if sc.get("fold_ms") is not None and self.i in sc.get("fold_srcs", []):
                        # this feed stamps its events in a zone whose daylight saving time ends during the scenario
                        stamp = stamp.astimezone(FoldZone(T0 + datetime.timedelta(milliseconds=sc["fold_ms"])))
                    self.src.push(Ev(stamp, eid, dur))
                    log.append(("arrive", self.i, when, eid, ms(fake_now())))

        def when_dt(when_ms, jid):
            """the instant of a job, expressed in the time zone the scenario gives that job (the same instant)"""
            dt_utc = T0 + datetime.timedelta(milliseconds=when_ms)
            off = sc.get("job_tz", {}).get(str(jid), 0)
            return dt_utc.astimezone(datetime.timezone(datetime.timedelta(minutes=off))) if off else dt_utc

        def make_handler(i):
            async def handler(ev):
                running[0] += 1
                log.append(("ev", i, ev.eid, ms(ev.when), ms(fake_now()), running[0]))
                try:
                    for f in sc["bev"].get(str(ev.eid), []):
                        d.schedule(when_dt(f[0], f[1]), make_job(f[1], f[0], f[2]))
                        log.append(("sched", f[0], f[1], ms(fake_now())))
                    if ev.dur:
                        await asyncio.sleep(ev.dur / MS)
                    if sc["raise"].get(str(ev.eid)):
                        raise RuntimeError("handler fails")
                finally:
                    running[0] -= 1
            return handler

        def make_job(jid, when, dur):
            async def job():
                running[0] += 1
                log.append(("job", jid, when, ms(fake_now()), running[0]))
                try:
                    if dur:
                        await asyncio.sleep(dur / MS)
                finally:
                    running[0] -= 1
            return job
        class SharedProducer(bs.Producer):
            """one connection feeding several channels: a single producer object behind all the sources"""
            def __init__(self, per_source):
                self.merged = sorted(((at, i, when, eid, dur) for i, arr in enumerate(per_source)
                                      for at, when, eid, dur in arr), key=lambda x: (x[0], x[1]))
                self.srcs = []

            async def main(self):
                for at, i, when, eid, dur in self.merged:
                    delay = at / MS - loop.time()
                    if delay > 0:
                        await asyncio.sleep(delay)
                    self.srcs[i].push(Ev(T0 + datetime.timedelta(milliseconds=when), eid, dur))
                    log.append(("arrive", i, when, eid, ms(fake_now())))

        if sc.get("shared_producer") and len(sc["sources"]) >= 2:
            sp = SharedProducer(sc["sources"])
            for i, arr in enumerate(sc["sources"]):
                src = core_event.FifoQueueEventSource(producer=sp)
                sp.srcs.append(src)
                srcs.append(src)
                d.subscribe(src, make_handler(i))
        else:
            for i, arr in enumerate(sc["sources"]):
                p = P(i, arr)
                p.src = core_event.FifoQueueEventSource(producer=p)
                srcs.append(p.src)
                d.subscribe(p.src, make_handler(i))
        class TwinJob:
            """one callable scheduled several times for the same instant: each run takes the next job id"""
            def __init__(self, jids, when):
                self.jids, self.when = list(jids), when

            async def run(self):
                jid = self.jids.pop(0)
                running[0] += 1
                log.append(("job", jid, self.when, ms(fake_now()), running[0]))
                running[0] -= 1
        twins = sc.get("twins", {})
        twin_objs = {}
        for when, jid, dur in sc["jobs"]:
            lead = twins.get(str(jid))
            is_lead = any(int(v) == jid for v in twins.values())
            if lead is not None or is_lead:
                key = int(lead) if lead is not None else jid
                if key not in twin_objs:
                    twin_objs[key] = TwinJob([key] + [int(k) for k, v in twins.items() if int(v) == key], when)
                d.schedule(when_dt(when, jid), twin_objs[key].run)
            else:
                d.schedule(when_dt(when, jid), make_job(jid, when, dur))
            log.append(("sched", when, jid, 0))
        for k in range(sc["n_idle"]):
            def mk(k):
                calls = [0]

                async def idle():
                    log.append(("idle", k, running[0], ms(fake_now())))
                    calls[0] += 1
                    if sc.get("idle_raises") and calls[0] <= 3:
                        raise RuntimeError("idle handler fails")       # a failing idle handler is nobody else's problem
                    await asyncio.sleep(0.005)
                return idle
            d.subscribe_idle(mk(k))

        async def stopper():
            await asyncio.sleep(sc["end"] / MS)
            d.stop()
        st = asyncio.ensure_future(stopper())
        lg = logging.getLogger("basana")
        old = lg.level
        lg.setLevel(logging.CRITICAL + 1)
        try:
            await d.run(stop_signals=[])
        except asyncio.CancelledError:
            outcome = "cancelled"
        except BaseException as e:     # noqa
            outcome = "raised:" + repr(e)
        finally:
            lg.setLevel(old)
            st.cancel()
    finally:
        core_dt.utc_now = orig_now
        if orig_push_events is not None:
            core_disp.RealtimeDispatcher._push_events = orig_push_events
    return log, outcome


def run_scenario(sc):
    # tasks whose exception nobody retrieves (a failing idle handler) are reported by asyncio when they are collected
    alog = logging.getLogger("asyncio")
    old = alog.level
    alog.setLevel(logging.CRITICAL + 1)
    try:
        return vloop.run_virtual(_run, sc)
    except vloop.Livelock as ex:
        return [], "livelock:" + str(ex)
    finally:
        import gc
        gc.collect()
        alog.setLevel(old)


# ------------------------------------------------------------------------------------------------
def monitor(sc, log, outcome):
    out = []
    if outcome != "returned":
        out.append(("run:did-not-return", f"run() {outcome}"))
        return out
    arrivals = {}
    for r in log:
        if r[0] == "arrive":
            arrivals[r[3]] = (r[1], r[2], r[4])         # eid -> (src, when, arrived at)
    delivered = {}
    last_by_src = {}
    jobs_sched = {}
    jobs_ran = {}
    for r in log:
        if r[0] == "sched":
            jobs_sched[r[2]] = r[1]
        elif r[0] == "ev":
            _, i, eid, when, now, run = r
            if eid in delivered:
                out.append(("realtime:delivered-twice", f"event {eid}"))
                return out
            delivered[eid] = now
            if now < when:
                out.append(("realtime:event-dispatched-early", f"event {eid} dated {when} ms dispatched at {now} ms"))
                return out
            if i in last_by_src and when < last_by_src[i]:
                out.append(("realtime:source-order", f"source {i}: event {eid} dated {when} delivered after an event "
                                                     f"dated {last_by_src[i]}"))
                return out
            last_by_src[i] = when
            if run > sc["mc"]:
                out.append(("realtime:concurrency-exceeded", f"{run} running with max_concurrent={sc['mc']}"))
                return out
        elif r[0] == "job":
            _, jid, when, now, run = r
            if jid in jobs_ran:
                out.append(("realtime:job-ran-twice", f"job {jid}"))
                return out
            jobs_ran[jid] = now
            if now < when:
                out.append(("realtime:job-dispatched-early", f"job {jid} scheduled for {when} ms ran at {now} ms"))
                return out
        elif r[0] == "idle":
            if r[2] != 0:
                out.append(("realtime:idle-while-busy", f"idle handler {r[1]} ran while {r[2]} handlers were running"))
                return out
    # A source is a FIFO and the multiplexer prefetches one event per source: an event is only looked at once its
    # predecessors have been popped.  effective due time = max(own time, arrival, effective due time of predecessor).
    # expected drops: events older than the newest event delivered before them from the same source
    newest = {}
    expected_drop = set()
    eff_due = {}
    for i, arr in enumerate(sc["sources"]):
        prev_due = None
        for at, when, eid, dur in arr:
            if eid not in arrivals:
                continue
            due = max(when, arrivals[eid][2])
            if prev_due is not None:
                due = max(due, prev_due)
            eff_due[eid] = due
            prev_due = due
            if i in newest and when < newest[i]:
                expected_drop.add(eid)
            else:
                newest[i] = when
    ndrops = sum(1 for r in log if r[0] == "drop")
    slack = 300
    for eid, (i, when, at) in arrivals.items():
        due = eff_due[eid]
        if eid in expected_drop:
            if eid in delivered:
                out.append(("realtime:stale-event-delivered", f"event {eid} (dated {when}, older than its predecessors "
                                                              f"from source {i}) was delivered"))
                return out
        elif due <= sc["end"] - slack and eid not in delivered:
            out.append(("realtime:due-event-not-dispatched", f"event {eid} due at {due} ms was never dispatched "
                                                             f"(run ended at {sc['end']} ms)"))
            return out
    due_drops = sum(1 for eid in expected_drop if eff_due[eid] <= sc["end"] - slack)
    if ndrops < due_drops:
        out.append(("realtime:drop-not-reported", f"{due_drops} stale events should have been reported, {ndrops} were"))
        return out
    for jid, when in jobs_sched.items():
        if when <= sc["end"] - slack and jid not in jobs_ran:
            out.append(("realtime:due-job-not-dispatched", f"job {jid} due at {when} ms never ran"))
            return out
    return out


# ------------------------------------------------------------------------------------------------
def coq_item(sc, log):
    """iterations for the model (only meaningful when pushes never block: max_concurrent large)"""
    iters = []
    cur = None
    pend_arr, pend_jobs = [], []
    for r in log:
        if r[0] == "arrive":
            pend_arr.append((r[1], r[2], r[3]))
        elif r[0] == "sched":
            pend_jobs.append((r[1], r[2]))
        elif r[0] == "iter":
            if cur is not None:
                iters.append(cur)
            cur = {"now": r[1], "arr": pend_arr, "jobs": pend_jobs, "items": [], "drops": 0}
            pend_arr, pend_jobs = [], []
        elif r[0] == "ev" and cur is not None:
            cur["items"].append(("ev", r[1], r[3], r[2]))
        elif r[0] == "job" and cur is not None:
            cur["items"].append(("job", r[1], r[2]))
        elif r[0] == "drop" and cur is not None:
            cur["drops"] += 1
    if cur is not None:
        iters.append(cur)
    # handlers start after the iteration that created them, before the next "iter" mark: attribution above is by
    # log position, which is right because tasks start before the loop's next iteration begins
    # jobs scheduled by handlers arrive in the NEXT iteration's pending list: move them
    out = []
    for it in iters:
        if not it["arr"] and not it["jobs"] and not it["items"] and not it["drops"]:
            continue
        arr = listlit([f"({i}%nat, mkEv {zlit(w)} {e}%nat)" for i, w, e in it["arr"]])
        jobs = listlit([f"({zlit(w)}, {j}%nat)" for w, j in it["jobs"]])
        oracle = listlit([f"{x[1]}%nat" for x in it["items"] if x[0] == "job"])
        obs = listlit([f"(REv {x[1]}%nat (mkEv {zlit(x[2])} {x[3]}%nat))" if x[0] == "ev" else
                       f"(RJob {x[1]}%nat {zlit(x[2])})" for x in it["items"]])
        out.append(f"({zlit(it['now'])}, {arr}, {jobs}, {oracle}, {obs}, {it['drops']}%nat)")
    return f"Eval vm_compute in (check_rt (rt_init {len(sc['sources'])}%nat) 0 {listlit(out)})."


R_HEADER = ("From Coq Require Import ZArith List. Import ListNotations. Open Scope Z_scope.\n"
            "From Basana Require Import Dispatch.Backtest Dispatch.Realtime.\n")


def gen_contention(rnd):
    """due jobs and due events competing for a small pool while idle handlers are registered"""
    sources = []
    eid = 0
    for i in range(rnd.randint(1, 2)):
        arr = []
        for k in range(rnd.randint(2, 4)):
            eid += 1
            arr.append([0, -10 + k, eid, rnd.choice([5, 40, 120])])
        sources.append(arr)
    jobs = [[-20 + k, 200 + k, rnd.choice([5, 40, 200])] for k in range(rnd.randint(2, 4))]
    # events and jobs that become due only after the idle handlers had their turns (some of which fail)
    eid += 1
    sources[0].append([300, 300, eid, 5])
    jobs.append([320, 200 + len(jobs), 5])
    return {"sources": sources, "jobs": jobs, "bev": {}, "raise": {}, "n_idle": rnd.choice([1, 2, 3]),
            "mc": rnd.choice([1, 1, 2]), "end": 1500, "idle_raises": eid % 2 == 0}


def gen_scenario(rnd, model=False):
    if not model and rnd.random() < 0.3:
        return gen_contention(rnd)
    n_src = rnd.randint(1, 3)
    eid = [0]
    jid = [0]
    sources = []
    bev = {}
    rz = {}
    end = 1500
    for i in range(n_src):
        arr = []
        t = rnd.randint(0, 200)
        last_when = None
        for _ in range(rnd.randint(1, 7)):
            t += rnd.choice([0, 0, 5, 20, 60, 150])
            r = rnd.random()
            if r < 0.55:
                when = t - rnd.choice([0, 1, 10])            # just happened
            elif r < 0.75:
                when = t + rnd.choice([50, 200, 5000])       # future-dated
            elif last_when is not None:
                when = last_when - rnd.choice([1, 30, 100])  # out of order: older than its predecessor
            else:
                when = t
            eid[0] += 1
            dur = 0 if model else rnd.choice([0, 0, 5, 40])
            arr.append([t, when, eid[0], dur])
            last_when = when
            if rnd.random() < 0.2:
                jid[0] += 1
                bev[str(eid[0])] = [[when + rnd.choice([0, 30, 400, 9000]), 100 + jid[0], 0 if model else rnd.choice([0, 10])]]
            if rnd.random() < 0.1 and not model:
                rz[str(eid[0])] = True
        sources.append(arr)
    jobs = []
    for _ in range(rnd.randint(0, 5)):
        jid[0] += 1
        jobs.append([rnd.choice([-50, 0, 30, 100, 100, 400, 800, 9000]), jid[0], 0 if model else rnd.choice([0, 0, 20])])
    job_tz = {str(j[1]): rnd.choice([0, 0, -300, 330, 60]) for j in jobs}
    for fs in bev.values():
        for f in fs:
            job_tz[str(f[1])] = rnd.choice([0, 0, -300, 330])
    fold_ms, fold_srcs = None, []
    if rnd.random() < 0.3:
        # a feed in a zone whose daylight saving time ends in the middle of the scenario
        fold_ms = rnd.choice([100, 250, 400])
        fold_srcs = [i for i in range(n_src) if rnd.random() < 0.7] or [0]
    return {"sources": sources, "jobs": jobs, "bev": bev, "raise": rz, "n_idle": rnd.choice([0, 1, 2]),
            "mc": 50 if model else rnd.choice([1, 2, 5, 50]), "end": end, "job_tz": job_tz,
            "fold_ms": fold_ms, "fold_srcs": fold_srcs,
            # one producer object behind all the sources (the channels of one connection)
            "shared_producer": (not model) and n_src >= 2 and rnd.random() < 0.4}


def gen_stale(rnd, n=150):
    """One source that keeps producing events older than the newest one already delivered: every one of them has to be
    dropped and reported, not only the first few."""
    arr = [[0, 1000, 1, 0]]
    for k in range(n):
        arr.append([5 + 2 * k, 900 - k, 2 + k, 0])
    twin = rnd.choice([50, 200])
    # the same callable scheduled twice for the same instant: both runs are due
    return {"sources": [arr], "jobs": [[twin, 1, 0], [twin, 2, 0], [400, 3, 0]], "bev": {}, "raise": {}, "n_idle": 0,
            "mc": rnd.choice([5, 50]), "end": 1500, "job_tz": {}, "twins": {"2": 1}}


def gen_burst(rnd, n=700):
    """A backlog: hundreds of events that all just happened when the dispatcher starts, from two sources."""
    sources, eid = [], 0
    for i in range(2):
        arr = []
        for k in range(n):
            eid += 1
            arr.append([0, -1 - (n - k), eid, 0])
        sources.append(arr)
    return {"sources": sources, "jobs": [[100, 1, 0]], "bev": {}, "raise": {}, "n_idle": 0, "mc": rnd.choice([5, 50]),
            "end": 600, "job_tz": {}}


# ------------------------------------------------------------------------------------------------
# the real clock, in a process whose local time zone is not UTC (run as a sub-process with TZ set)
def real_clock_main():
    """half a second of the real RealtimeDispatcher on the real clock: what is due runs, what is hours away does not,
    whatever the local time zone of the process.  Prints one JSON object."""
    import json
    import sys
    import time
    time.tzset()
    from harness import common
    common.ensure_repo_on_path()

    async def go():
        import basana as bs
        from basana.core import event as core_event
        d = bs.realtime_dispatcher()
        d.idle_sleep = 0.01
        ref = datetime.datetime.now(datetime.timezone.utc)
        t0 = time.time()
        ran = {}

        def job(name):
            async def run():
                ran["job_" + name] = round(time.time() - t0, 3)
            return run
        d.schedule(ref - datetime.timedelta(seconds=1), job("past"))
        d.schedule(ref + datetime.timedelta(seconds=0.15), job("soon"))
        d.schedule(ref + datetime.timedelta(hours=2), job("far"))
        d.schedule(ref + datetime.timedelta(hours=20), job("tomorrow"))

        class Ev(core_event.Event):
            def __init__(self, when, name):
                super().__init__(when)
                self.name = name

        src = core_event.FifoQueueEventSource(events=[Ev(ref - datetime.timedelta(seconds=2), "past"),
                                                      Ev(ref + datetime.timedelta(hours=1), "future")])

        async def handler(ev):
            ran["event_" + ev.name] = round(time.time() - t0, 3)
        d.subscribe(src, handler)

        async def stopper():
            await asyncio.sleep(1.5)
            d.stop()
        st = asyncio.ensure_future(stopper())
        lg = logging.getLogger("basana")
        lg.setLevel(logging.CRITICAL + 1)
        await d.run(stop_signals=[])
        st.cancel()
        return ran
    out = asyncio.run(go())
    out["tz"] = time.tzname[0]
    sys.stdout.write(json.dumps(out) + "\n")


def real_clock_probe(tz):
    import json
    import os
    import subprocess
    import sys
    from harness import common
    env = dict(os.environ)
    env["TZ"] = tz
    pr = subprocess.run([sys.executable, "-c", "from harness import realtime_driver as rd; rd.real_clock_main()"],
                        capture_output=True, text=True, env=env, cwd=common.VERIF, timeout=120)
    if pr.returncode != 0 or not pr.stdout.strip():
        return None, (pr.stderr or "")[-1500:]
    return json.loads(pr.stdout.strip().splitlines()[-1]), ""


def monitor_real_clock(tz, ran):
    out = []
    for k in ("job_past", "job_soon", "event_past"):
        if k not in ran:
            out.append(("realtime:due-item-not-dispatched",
                        f"TZ={tz}: {k} was due within 0.15 s of the start and had not run after 1.5 s of real time"))
    for k in ("job_far", "job_tomorrow", "event_future"):
        if k in ran:
            out.append(("realtime:dispatched-early",
                        f"TZ={tz}: {k} is due hours from now and ran {ran[k]} s after the start"))
    if "job_soon" in ran and ran["job_soon"] < 0.1:
        out.append(("realtime:dispatched-early", f"TZ={tz}: the job due at +0.15 s ran at +{ran['job_soon']} s"))
    return out
