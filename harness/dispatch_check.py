"""Shared pipeline of the backtesting-dispatcher checks (C12, C13): proof stage, corpus, generated scenarios through
the real BacktestingDispatcher, monitors, correspondence with Dispatch/Backtest.v."""
import copy
import itertools
import json
import os

from harness import common, dispatch_driver as dd, dispatch_gen as dg

TRUSTED_EXTRA = [
    "dispatcher family: asyncio itself is not modelled; the model works at the granularity of dispatcher decisions (a "
    "batch is popped before its handlers run; effects of a batch are applied when all its handlers are done), validated "
    "against the real dispatcher for max_concurrent in {1,2,3,50} and handlers with 0-3 suspension points",
    "heapq is modelled as a multiset; which minimal job it returns among equal times is taken from the observed run and "
    "checked to be a minimum",
    "scripted handlers perform their effects (pushes, schedules) before their first suspension point, so the order of "
    "effects within a batch is the delivery order",
]
MON = {"C12": dd.monitor_c12, "C13": dd.monitor_c13}


def shrink(sc, pred, budget=60):
    sc = copy.deepcopy(sc)
    runs = 0
    changed = True
    while changed and runs < budget:
        changed = False
        for i in range(len(sc["sources"])):
            for k in range(len(sc["sources"][i]) - 1, -1, -1):
                cand = copy.deepcopy(sc)
                del cand["sources"][i][k]
                runs += 1
                if pred(cand):
                    sc = cand
                    changed = True
        for k in range(len(sc["jobs"]) - 1, -1, -1):
            cand = copy.deepcopy(sc)
            del cand["jobs"][k]
            runs += 1
            if pred(cand):
                sc = cand
                changed = True
        for key in ("pre", "post"):
            if sc[key]:
                cand = copy.deepcopy(sc)
                cand[key] = []
                runs += 1
                if pred(cand):
                    sc = cand
                    changed = True
    return sc


def run_family(chk, pid, n_quick, n_thorough, extra=()):
    chk.proof_stage()
    chk.coverage["rule"] = (
        "scenarios = (sources with initial events incl. ties, derived sources, scripted effects per event/job, handler "
        "counts, suspension points, raising handlers, sniffers, duplicate subscriptions, max_concurrent) from one PRNG, "
        "run through the real BacktestingDispatcher; non-trivial = at least 2 sources or a scheduled job, and at "
        "least one effect applied; distinct by full scenario")
    mon = MON[pid]
    rnd = common.rng_for(chk.seed, pid, "dispatch")
    scs = []
    cdir = os.path.join(common.VERIF, "corpus", pid)
    if os.path.isdir(cdir):
        for fn in sorted(os.listdir(cdir)):
            if fn.endswith(".json"):
                scs.append(("corpus", json.load(open(os.path.join(cdir, fn)))))
    for sc in extra:
        scs.append(("sweep", sc))
    n = common.tier_n(chk.tier, n_quick, n_thorough)
    for i in range(n):
        scs.append(("gen", dg.gen_scenario(rnd, size="small" if i % 3 else "medium", jobs_heavy=(pid == "C13" or i % 2 == 0))))
    for _ in range(common.tier_n(chk.tier, 1, 4)):
        scs.append(("long", dg.gen_long(rnd)))
    items, owners = [], []
    for label, sc in scs:
        log, outcome = dd.run_scenario(sc)
        n_eff = sum(1 for r in log if r[0] == "eff")
        nontrivial = (len(sc["sources"]) >= 2 or sc["jobs"]) and (n_eff > 0 or label != "gen")
        chk.note_case(json.dumps(sc, sort_keys=True), nontrivial)
        chk.count("scenarios_" + label)
        chk.count("mc_%d" % sc["mc"])
        chk.count("deliveries", sum(1 for it in dd.observed_items(log) if it[0] == "ev"))
        chk.count("job_runs", sum(1 for it in dd.observed_items(log) if it[0] == "job"))
        chk.count("effects_applied", n_eff)
        if len(log) <= 30 and n_eff:
            chk.sample({"scenario": sc, "observed": dd.observed_items(log)}, limit=3)
        for (p, fp, msg) in mon(sc, log, outcome):
            if any(v[0] == fp for v in chk.violations):
                continue

            def pred(c):
                lg, oc = dd.run_scenario(c)
                return any(a[1] == fp for a in mon(c, lg, oc))
            small = shrink(sc, pred)
            lg, oc = dd.run_scenario(small)
            al = [a for a in mon(small, lg, oc) if a[1] == fp]
            chk.violation(fp, al[0][2] if al else msg, {"kind": "monitor", "monitor": fp, "scenario": small,
                                                       "observed": dd.observed_items(lg)})
        if outcome == "returned":
            items.append(dd.coq_item(sc, log))
            owners.append((sc, log))
    if pid == "C12":
        for fp, msg, details in dd.usage_probes():
            chk.count("usage_probes")
            if not any(v[0] == fp for v in chk.violations):
                details = dict(details, kind="monitor", monitor=fp, how_to_replay="harness.dispatch_driver.usage_probes()")
                chk.violation(fp, msg, details)
    res = common.coq_eval_sharded(pid.lower() + "_d", dd.D_HEADER, items, balance=True) if items else []
    diverged = []
    for (sc, log), v in zip(owners, res):
        if v == "Agree":
            chk.count("model_agree")
        else:
            chk.count("model_diverge")
            diverged.append((sc, log, v))
    chk.coverage["traces_validated_against_impl"] = chk.counters.get("model_agree", 0)
    if diverged and not chk.violations:
        rnd2 = common.rng_for(chk.seed, pid, "search")
        for i in range(1500):
            sc = dg.gen_scenario(rnd2, jobs_heavy=(i % 2 == 0))
            log, outcome = dd.run_scenario(sc)
            al = mon(sc, log, outcome)
            if al:
                chk.violation(al[0][1], al[0][2], {"kind": "monitor", "monitor": al[0][1], "scenario": sc})
                break
    if diverged and not chk.violations:
        sc, log, v = diverged[0]
        chk.violation("correspondence:Dispatch.Backtest",
                      "the Coq model of the backtesting dispatcher and the implementation disagree on the delivery / job "
                      "sequence; no scenario violating the property statement was found",
                      {"broken": "correspondence Dispatch.Backtest.run <-> basana.core.dispatcher.BacktestingDispatcher "
                                 f"(the theorems of coq/props/{pid}.v are about the model)",
                       "scenario": sc, "observed": dd.observed_items(log), "model_says": v,
                       "diverging_scenarios": len(diverged)}, no_failing_input=True)


def replay(chk, pid, path):
    d = json.load(open(path))
    sc = d["scenario"]
    log, outcome = dd.run_scenario(sc)
    print(outcome)
    for it in dd.observed_items(log):
        print(it)
    for (p, fp, msg) in MON[pid](sc, log, outcome):
        print("ALARM", fp, msg)
        chk.violation(fp, msg, {"kind": "monitor", "monitor": fp, "scenario": sc})
    chk.note_case("replay-a")
    chk.note_case("replay-b")
    return chk.finish(TRUSTED_EXTRA)


def job_permutation_sweep(tier):
    """every insertion order of up to 5 (quick) / 6 (thorough) distinct job times, after the last event; plus around it"""
    out = []
    times = [10, 20, 30, 40, 50, 60]
    k = 6 if tier == "thorough" else 5
    for perm in itertools.permutations(times[:k]):
        out.append(dg.gen_job_permutation(list(perm), events_at=(5,)))
    for perm in itertools.permutations([10, 20, 30, 40]):
        out.append(dg.gen_job_permutation(list(perm), events_at=(5, 25, 45)))
    return out
