"""Drives the real BacktestingDispatcher on scripted scenarios (sources, events, handlers with suspension points,
sniffers, raising handlers, scheduled jobs that push events / schedule jobs), records a detailed log, renders the
scenario for the Coq model (Dispatch/Backtest.v) and monitors C12 / C13 directly on the log.

Scenario (JSON-serialisable):
  sources: [[ [when_s, eid], ... ], ...]      initial events per source, in multiplexer (subscription) order
  jobs:    [[when_s, jid], ...]               jobs scheduled before run(), in this insertion order
  bev:     {"eid": [effect...]}  bjob: {"jid": [effect...]}      effect = ["push", src, when_s, eid] | ["sched", when_s, jid]
  handlers: per source: {"n": k, "susp": [..k..], "raise": [..k bools..], "dup": bool}
  pre: [{"susp": n, "raise": b}], post: [...]      catch-all handlers
  mc: max_concurrent
"""
import asyncio
import datetime
import logging

from harness.common import zlit, listlit

T0 = datetime.datetime(2021, 1, 1, tzinfo=datetime.timezone.utc)


# one scenario time unit is a quarter of a second: several distinct instants fall inside one wall-clock second
UNIT_US = 250000


def T(s):
    return T0 + datetime.timedelta(microseconds=UNIT_US * s)


def TZ(s, jid):
    """the instant of a job as its owner wrote it: the same instant, in the owner's time zone (every third job is given
    in a zone west or east of UTC: "at 16:00 New York")"""
    dt = T(s)
    off = [0, -300, 0, 330, 0, 60][jid % 6]
    return dt.astimezone(datetime.timezone(datetime.timedelta(minutes=off))) if off else dt


def S(dt):
    us = (dt - T0) // datetime.timedelta(microseconds=1)
    return us // UNIT_US if us % UNIT_US == 0 else us / UNIT_US


async def _run(sc):
    import basana as bs
    from basana.core import event as core_event
    d = bs.backtesting_dispatcher(max_concurrent=sc["mc"])
    log = []                      # ("h", phase, stage, hidx, src, eid, now) | ("job", phase, jid, when, now) | ("eff", ...)
    srcs = []
    ev_src = {}

    class Ev(core_event.Event):
        def __init__(self, when, eid):
            super().__init__(when)
            self.eid = eid

    class Batch(Ev):
        """an event that is also a (possibly empty) container: its truth value is that of its payload"""
        def __len__(self):
            return self.eid % 2

    class SizedSource(core_event.FifoQueueEventSource):
        """a user-defined source that reports how many events it still holds (falsy once drained)"""
        def __init__(self, events):
            super().__init__(events=events)
            self._held = len(events)

        def push(self, event):
            self._held += 1
            super().push(event)

        def pop(self):
            ev = super().pop()
            if ev is not None:
                self._held -= 1
            return ev

        def __len__(self):
            return self._held

    # a third of the scenarios use such sources / events: the dispatcher must treat them like any other
    n_total = sum(len(evs) for evs in sc["sources"]) + len(sc["jobs"])
    sized = sc.get("sized", n_total % 3 == 1)
    for i, evs in enumerate(sc["sources"]):
        if sized:
            src = SizedSource(events=[(Batch if i % 2 == 0 else Ev)(T(w), e) for w, e in evs])
        else:
            src = core_event.FifoQueueEventSource(events=[Ev(T(w), e) for w, e in evs])
        srcs.append(src)
    src_index = {id(s): i for i, s in enumerate(srcs)}

    def now():
        try:
            return S(d.now())
        except Exception:
            return None

    def apply_effects(effs):
        for f in effs:
            if f[0] == "push":
                srcs[f[1]].push((Batch if (sized and f[1] % 2 == 0) else Ev)(T(f[2]), f[3]))
                log.append(("eff", "push", f[1], f[2], f[3], now()))
            else:
                d.schedule(TZ(f[1], f[2]), make_job(f[2], f[1]))
                log.append(("eff", "sched", f[1], f[2], now()))

    def make_job(jid, when):
        return flavoured(make_plain_job(jid, when), sc.get("job_flavour", {}).get(str(jid), "function"), jid)

    def make_plain_job(jid, when):
        async def job():
            log.append(("job", "start", jid, when, now()))
            apply_effects(sc["bjob"].get(str(jid), []))
            for _ in range(sc.get("job_susp", {}).get(str(jid), 0)):
                await asyncio.sleep(0)
            if sc.get("job_raise", {}).get(str(jid)):
                log.append(("job", "raise", jid, when, now()))
                if sc.get("raise_noargs") and jid % 3 == 1:
                    raise asyncio.CancelledError()       # a job that gives up by cancelling itself fails too
                raise (AssertionError() if sc.get("raise_noargs") else RuntimeError("job %d fails" % jid))
            log.append(("job", "end", jid, when, now()))
        return job

    def make_handler(stage, hidx, src_i, susp, raises, first):
        async def handler(event):
            si = src_i
            log.append(("h", "start", stage, hidx, si, event.eid, S(event.when), now()))
            if first:
                apply_effects(sc["bev"].get(str(event.eid), []))
            for _ in range(susp):
                await asyncio.sleep(0)
            if raises:
                log.append(("h", "raise", stage, hidx, si, event.eid, S(event.when), now()))
                raise (RuntimeError() if sc.get("raise_noargs") else RuntimeError("handler fails"))
            log.append(("h", "end", stage, hidx, si, event.eid, S(event.when), now()))
        return handler

    class Bound:
        """handlers are bound methods: two accesses give two objects that are equal but not identical"""
        def __init__(self, fn):
            self.fn = fn

        async def handle(self, event):
            await self.fn(event)

    class CallableObject:
        """a handler / job that is an instance with an async __call__ (no __name__ / __qualname__)"""
        def __init__(self, fn):
            self.fn = fn

        async def __call__(self, *args):
            await self.fn(*args)

    class Deferred:
        """an awaitable that is not a coroutine object: awaiting it runs the coroutine function it wraps"""
        def __init__(self, fn, args):
            self.fn, self.args = fn, args

        def __await__(self):
            return self.fn(*self.args).__await__()

    def flavoured(fn, flavour, salt=0):
        """the same behaviour as a plain function, a functools.partial, a callable object, or a plain (non-async)
        callable returning an awaitable object -- all of them are Callable[..., Awaitable]"""
        if flavour == "partial":
            import functools
            return functools.partial(fn)
        if flavour == "object":
            if salt % 2 == 1:
                return lambda *args: Deferred(fn, args)
            return CallableObject(fn)
        return fn

    for i, src in enumerate(srcs):
        hc = sc["handlers"][i]
        fl = hc.get("flavour", ["method"] * hc["n"])
        hs = []
        for k in range(hc["n"]):
            fn = make_handler("src", k, i, hc["susp"][k], hc["raise"][k], k == 0)
            hs.append(Bound(fn) if fl[k] == "method" else flavoured(fn, fl[k], k + i))

        def sub(h):
            return h.handle if isinstance(h, Bound) else h
        for h in hs:
            d.subscribe(src, sub(h))
        if hc.get("dup") and hs:
            d.subscribe(src, sub(hs[-1]))          # duplicate subscription must be ignored
            d.subscribe(src, sub(hs[0]))
    # catch-all handlers do not know the source index: resolve through the event id table
    eid_src = {}
    for i, evs in enumerate(sc["sources"]):
        for w, e in evs:
            eid_src[e] = i
    for fs in list(sc["bev"].values()) + list(sc["bjob"].values()):
        for f in fs:
            if f[0] == "push":
                eid_src[f[3]] = f[1]

    def make_sniffer(stage, k, susp, raises):
        async def sniffer(event):
            si = eid_src.get(event.eid, -1)
            log.append(("h", "start", stage, k, si, event.eid, S(event.when), now()))
            for _ in range(susp):
                await asyncio.sleep(0)
            if raises:
                log.append(("h", "raise", stage, k, si, event.eid, S(event.when), now()))
                raise (RuntimeError() if sc.get("raise_noargs") else RuntimeError("sniffer fails"))
            log.append(("h", "end", stage, k, si, event.eid, S(event.when), now()))
        return sniffer
    for k, p in enumerate(sc["pre"]):
        sn = Bound(make_sniffer("pre", k, p["susp"], p["raise"]))
        d.subscribe_all(sn.handle, front_run=True)
        if p.get("dup"):
            d.subscribe_all(sn.handle, front_run=True)
    for k, p in enumerate(sc["post"]):
        d.subscribe_all(make_sniffer("post", k, p["susp"], p["raise"]), front_run=False)
    class TwinJob:
        """one callable scheduled several times for the same instant (equal bound methods): each run takes the next id"""
        def __init__(self, jids, when):
            self.jids, self.when = list(jids), when

        async def run(self):
            jid = self.jids.pop(0)
            log.append(("job", "start", jid, self.when, now()))
            log.append(("job", "end", jid, self.when, now()))
    twins = sc.get("twins", {})            # job id -> id of the job whose callable it shares
    twin_objs = {}
    for w, j in sc["jobs"]:
        lead = twins.get(str(j))
        if lead is not None or str(j) in twins.values() or j in [int(v) for v in twins.values()]:
            key = int(lead) if lead is not None else j
            if key not in twin_objs:
                twin_objs[key] = TwinJob([key] + [int(k) for k, v in twins.items() if int(v) == key], w)
            d.schedule(TZ(w, key), twin_objs[key].run)
        else:
            d.schedule(TZ(w, j), make_job(j, w))
    lg = logging.getLogger("basana")
    old = lg.level
    lg.setLevel(logging.CRITICAL + 1)
    outcome = "returned"
    try:
        await asyncio.wait_for(d.run(stop_signals=[]), timeout=20)
    except asyncio.TimeoutError:
        outcome = "timeout"
    except Exception as ex:          # run() must not raise on these scenarios
        outcome = "raised:" + repr(ex)
    except asyncio.CancelledError as ex:
        # nobody cancelled run(): a cancellation that belongs to a job's own task escaped into the dispatch loop
        outcome = "raised:" + repr(ex)
    finally:
        lg.setLevel(old)
    return log, outcome


class _Hang(BaseException):
    pass


_ALARM_S = [10]      # once a run has hung, later runs (shrinking, further scenarios) get one second only


def run_scenario(sc):
    """One scenario, under a watchdog: a dispatcher that spins without ever yielding to the event loop (so that no asyncio
    time-out can fire) is interrupted after 10 s of real time, and while it runs the address space may grow by 3 GB at most
    -- a loop that keeps collecting the same event is an outcome to report, not a reason for the check to hang."""
    import resource
    import signal
    import threading
    guard = threading.current_thread() is threading.main_thread()
    old_handler = old_limit = None
    if guard:
        def on_alarm(signum, frame):
            raise _Hang()
        old_handler = signal.signal(signal.SIGALRM, on_alarm)
        signal.alarm(_ALARM_S[0])
        try:
            old_limit = resource.getrlimit(resource.RLIMIT_AS)
            with open("/proc/self/statm") as f:
                vm_now = int(f.read().split()[0]) * resource.getpagesize()
            want = vm_now + 3 * 1024 ** 3
            if old_limit[1] != resource.RLIM_INFINITY:
                want = min(want, old_limit[1])
            resource.setrlimit(resource.RLIMIT_AS, (want, old_limit[1]))
        except (OSError, ValueError):
            old_limit = None
    try:
        return asyncio.run(_run(sc))
    except _Hang:
        waited, _ALARM_S[0] = _ALARM_S[0], 1
        return [], "hang: run() was still spinning after %d s of real time without yielding to the event loop" % waited
    except MemoryError:
        _ALARM_S[0] = 1
        return [], "raised:MemoryError() (run() kept allocating without yielding to the event loop)"
    finally:
        if guard:
            signal.alarm(0)
            signal.signal(signal.SIGALRM, old_handler)
            if old_limit is not None:
                try:
                    resource.setrlimit(resource.RLIMIT_AS, old_limit)
                except (OSError, ValueError):
                    pass


# ------------------------------------------------------------------------------------------------
def observed_items(log):
    """delivery / job-run sequence as the model sees it: first callback of an event = its delivery"""
    seen = set()
    items = []
    for r in log:
        if r[0] == "h" and r[1] == "start" and r[5] not in seen:
            seen.add(r[5])
            items.append(("ev", r[4], r[6], r[5], r[7]))
        elif r[0] == "job" and r[1] == "start":
            items.append(("job", r[2], r[3], r[4]))
    return items


def g_ev(w, e):
    return f"(mkEv {zlit(w)} {int(e)}%nat)"


def g_eff(f):
    if f[0] == "push":
        return f"(EPush {int(f[1])}%nat {g_ev(f[2], f[3])})"
    return f"(ESched {zlit(f[1])} {int(f[2])}%nat)"


def coq_item(sc, log):
    items = observed_items(log)
    srcs = listlit([listlit([g_ev(w, e) for w, e in evs]) for evs in sc["sources"]])
    jobs = listlit([f"({zlit(w)}, {int(j)}%nat)" for w, j in sc["jobs"]])
    bev = listlit([f"({int(k)}%nat, {listlit([g_eff(f) for f in v])})" for k, v in sc["bev"].items()])
    bjob = listlit([f"({int(k)}%nat, {listlit([g_eff(f) for f in v])})" for k, v in sc["bjob"].items()])
    oracle = listlit([f"{int(it[1])}%nat" for it in items if it[0] == "job"])
    obs = []
    for it in items:
        if it[0] == "ev":
            obs.append(f"(IEv {int(it[1])}%nat {g_ev(it[2], it[3])} {zlit(it[4] if it[4] is not None else -1)})")
        else:
            obs.append(f"(IJob {int(it[1])}%nat {zlit(it[2])} {zlit(it[3] if it[3] is not None else -1)})")
    n = sum(len(e) for e in sc["sources"]) + len(sc["jobs"]) + sum(len(v) for v in sc["bev"].values()) + \
        sum(len(v) for v in sc["bjob"].values())
    return (f"Eval vm_compute in (check_case {srcs} {jobs} {bev} {bjob} {oracle} {listlit(obs)} "
            f"{6 * n + 40}%nat).")


D_HEADER = ("From Coq Require Import ZArith List. Import ListNotations. Open Scope Z_scope.\n"
            "From Basana Require Import Dispatch.Backtest.\n")


# ------------------------------------------------------------------------------------------------
# monitors

def all_events(sc):
    out = {}
    for i, evs in enumerate(sc["sources"]):
        for w, e in evs:
            out[e] = (i, w)
    return out


def monitor_c12(sc, log, outcome):
    out = []
    if outcome != "returned":
        out.append(("C12", "run:did-not-return", f"run() {outcome}"))
        return out
    expected = dict(all_events(sc))
    # events pushed by effects that were actually applied
    for r in log:
        if r[0] == "eff" and r[1] == "push":
            expected[r[4]] = (r[2], r[3])
    starts = {}
    ends = {}
    clocks = []
    for r in log:
        if r[0] == "h":
            _, phase, stage, k, si, eid, when, nw = r
            clocks.append(nw)
            if phase == "start":
                starts.setdefault(eid, []).append((stage, k, si))
                if nw != when:
                    out.append(("C12", "clock:ne-event-time", f"handler {stage}{k} of event {eid} (time {when}) ran "
                                                              f"with now()={nw}"))
                    return out
            else:
                ends.setdefault(eid, []).append((stage, k, phase))
                if nw != when:
                    out.append(("C12", "clock:ne-event-time", f"handler {stage}{k} of event {eid} (time {when}) finished "
                                                              f"with now()={nw}"))
                    return out
        elif r[0] == "job":
            clocks.append(r[4])
    cl = [c for c in clocks if c is not None]
    if any(b < a for a, b in zip(cl, cl[1:])):
        out.append(("C12", "clock:moved-backwards", f"now() samples {cl}"))
        return out
    # exactly once per distinct handler
    for eid, (si, w) in expected.items():
        hc = sc["handlers"][si]
        want = sorted([("pre", k) for k in range(len(sc["pre"]))] + [("src", k) for k in range(hc["n"])] +
                      [("post", k) for k in range(len(sc["post"]))])
        got = sorted((st, k) for st, k, _ in starts.get(eid, []))
        if got != want:
            out.append(("C12", "delivery:not-exactly-once", f"event {eid} (source {si}, time {w}): handlers run {got}, "
                                                           f"expected {want}"))
            return out
    for eid in starts:
        if eid not in expected:
            out.append(("C12", "delivery:unknown-event", f"event {eid}"))
            return out
    # global time order of deliveries
    first = [it for it in observed_items(log) if it[0] == "ev"]
    times = [it[2] for it in first]
    if any(b < a for a, b in zip(times, times[1:])):
        out.append(("C12", "order:time-order", f"delivery times {times}"))
        return out
    # stage order per event
    pos = {}
    for n, r in enumerate(log):
        if r[0] == "h":
            pos.setdefault(r[5], []).append((n, r[1], r[2], r[3]))
    for eid, rs in pos.items():
        pre_end = [n for n, ph, st, k in rs if st == "pre" and ph in ("end", "raise")]
        src_start = [(n, k) for n, ph, st, k in rs if st == "src" and ph == "start"]
        src_end = [n for n, ph, st, k in rs if st == "src" and ph in ("end", "raise")]
        post_start = [n for n, ph, st, k in rs if st == "post" and ph == "start"]
        if pre_end and src_start and max(pre_end) > min(n for n, _ in src_start):
            out.append(("C12", "stages:source-handler-before-front-runners-finished", f"event {eid}"))
            return out
        if [k for _, k in src_start] != sorted(k for _, k in src_start):
            out.append(("C12", "stages:handlers-not-in-subscription-order", f"event {eid}: {[k for _, k in src_start]}"))
            return out
        if post_start and (src_end or pre_end) and max(src_end + pre_end) > min(post_start):
            out.append(("C12", "stages:post-handler-before-handlers-finished", f"event {eid}"))
            return out
    return out


def monitor_c13(sc, log, outcome):
    out = []
    if outcome != "returned":
        out.append(("C13", "run:did-not-return", f"run() {outcome}"))
        return out
    pending = {}                 # jid -> (when, scheduled_at_clock, by)
    for w, j in sc["jobs"]:
        pending[j] = (w, None, "init")
    ran = {}
    delivered_times = []
    known_events = {e: w for e, (i, w) in all_events(sc).items()}
    delivered = set()
    last_event_seen = False
    in_job = None
    total_events = len(known_events)
    for r in log:
        if r[0] == "eff" and r[1] == "sched":
            _, _, w, j, nw = r
            pending[j] = (w, nw, in_job)
        elif r[0] == "eff" and r[1] == "push":
            known_events[r[4]] = r[3]
        elif r[0] == "h" and r[1] == "start":
            if r[5] not in delivered:
                delivered.add(r[5])
                delivered_times.append(r[6])
            in_job = None
        elif r[0] == "job" and r[1] == "start":
            _, _, j, w, nw = r
            in_job = j
            if j in ran:
                out.append(("C13", "sched:job-ran-twice", f"job {j}"))
                return out
            if j not in pending:
                out.append(("C13", "sched:unknown-job-ran", f"job {j}"))
                return out
            ran[j] = nw
            pw, at, by = pending.pop(j)
            if nw is None or nw < w:
                out.append(("C13", "sched:ran-before-its-time", f"job {j} scheduled for {w} ran with now()={nw}"))
                return out
            smaller = [(k, v[0]) for k, v in pending.items() if v[0] < w]
            if smaller:
                out.append(("C13", "sched:not-min-first", f"job {j} (time {w}) ran while {smaller} were pending"))
                return out
            not_past = at is None or w >= at
            if not_past:
                early = [(e, t) for e, t in known_events.items() if t < w and e not in delivered]
                if early:
                    out.append(("C13", "sched:job-before-earlier-event", f"job {j} (time {w}) ran before events {early}"))
                    return out
                late = [t for t in delivered_times if t > w]
                if late and at is not None and all(t <= at for t in late):
                    late = []
                if late:
                    out.append(("C13", "sched:job-after-later-event", f"job {j} (time {w}) ran after events at {late}"))
                    return out
    # every job scheduled no later than the handling of the last event must have run.  "The last event" is the last
    # one before the sources first run dry: jobs scheduled after the final drain has begun (by drain jobs, or by the
    # handlers of events those jobs produce) are not required to run (the drain bound is fixed when it starts, so
    # that self-rescheduling jobs cannot make a backtest endless).
    drain_start = _drain_start(sc, log)
    for j, (w, at, by) in pending.items():
        idx = next((n for n, r in enumerate(log) if r[0] == "eff" and r[1] == "sched" and r[3] == j), -1)
        if drain_start is not None and idx > drain_start:
            continue
        out.append(("C13", "sched:job-never-ran", f"job {j} scheduled for {w} never ran"))
        return out
    return out


def _drain_start(sc, log):
    """index of the first job start at which every event known so far has been delivered (the mux is empty)"""
    known = set(all_events(sc))
    delivered = set()
    for n, r in enumerate(log):
        if r[0] == "eff" and r[1] == "push":
            known.add(r[4])
        elif r[0] == "h" and r[1] == "start":
            delivered.add(r[5])
        elif r[0] == "job" and r[1] == "start" and known <= delivered:
            return n
    return None


# ------------------------------------------------------------------------------------------------
# API usages outside the model's input language, checked directly against the property statement
def usage_probes():
    """Returns [(fingerprint, message, details)].
    (1) one history (the same list object) given to two sources, as when it is fed to two strategies: each source
        delivers every event once, and the caller's list is left alone;
    (2) two events of one instant, one handler that finishes at once and one that stays suspended for 45 s of (virtual)
        time while max_concurrent >= 2: nothing of the next instant starts before both have finished, and the clock
        shows the event's time whenever a handler resumes."""
    out = []
    import basana as bs
    from basana.core import event as core_event
    from harness import vloop

    class Ev(core_event.Event):
        def __init__(self, when, eid):
            super().__init__(when)
            self.eid = eid

    async def shared_list():
        d = bs.backtesting_dispatcher(max_concurrent=3)
        history = [Ev(T(4 * k), k) for k in range(6)]
        a, b = core_event.FifoQueueEventSource(events=history), core_event.FifoQueueEventSource(events=history)
        got = {"a": [], "b": []}

        async def ha(ev):
            got["a"].append(ev.eid)

        async def hb(ev):
            got["b"].append(ev.eid)
        d.subscribe(a, ha)
        d.subscribe(b, hb)
        await asyncio.wait_for(d.run(stop_signals=[]), timeout=20)
        return got, [e.eid for e in history]
    got, left = asyncio.run(shared_list())
    if got["a"] != list(range(6)) or got["b"] != list(range(6)) or left != list(range(6)):
        out.append(("delivery:not-exactly-once",
                    f"one list of 6 events given to two sources: the handlers received {got['a']} and {got['b']}, the "
                    f"caller's list now holds {left}", {"received": got, "callers_list": left}))

    async def slow_handler(loop):
        d = bs.backtesting_dispatcher(max_concurrent=2)
        s1 = core_event.FifoQueueEventSource(events=[Ev(T(0), 1), Ev(T(8), 3)])
        s2 = core_event.FifoQueueEventSource(events=[Ev(T(0), 2)])
        log = []

        async def h(ev):
            log.append(("start", ev.eid, S(d.now())))
            if ev.eid == 2:
                await asyncio.sleep(45)
            log.append(("end", ev.eid, S(d.now())))
        d.subscribe(s1, h)
        d.subscribe(s2, h)
        lg = logging.getLogger("basana")
        old = lg.level
        lg.setLevel(logging.CRITICAL + 1)
        try:
            await d.run(stop_signals=[])
        finally:
            lg.setLevel(old)
        return log
    log = vloop.run_virtual(slow_handler)
    order = [(k, e) for k, e, _ in log]
    bad_clock = [r for r in log if (r[1] in (1, 2) and r[2] != 0) or (r[1] == 3 and r[2] != 8)]
    if ("end", 2) not in order or order.index(("end", 2)) > order.index(("start", 3)) if ("start", 3) in order else True:
        out.append(("stages:next-instant-started-early",
                    f"a handler of t=0 suspended for 45 s: observed {log}", {"log": [list(r) for r in log]}))
    elif bad_clock:
        out.append(("clock:ne-event-time", f"a handler saw a clock different from its event's time: {bad_clock} in {log}",
                    {"log": [list(r) for r in log]}))
    return out
