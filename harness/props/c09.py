"""C09: theorems in coq/props/C09.v; pipeline in harness/exchange_check.py."""
from harness import exchange_check as xc

TRUSTED_EXTRA = xc.TRUSTED_EXTRA
PLAN = [('fees', 'medium', 80, 2000), ('limitpartial', 'medium', 50, 1200), ('reconfig', 'small', 25, 400), ('minfee', 'small', 15, 200)]


def run(chk):
    xc.run_family(chk, "C09", PLAN)


def replay(chk, path):
    return xc.replay(chk, "C09", path)
