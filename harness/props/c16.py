"""C16 — signed requests verify against the bytes actually sent.  Theorems: coq/props/C16.v (Wire/UrlEnc.v).
Every signed endpoint of both clients (inventory read off the source) is called with adversarial values against a
loopback server that verifies the signature over the raw bytes it received; quote_plus / urlencode are compared with
the Coq model on all 256 bytes and on random strings."""
import asyncio
import json
from urllib.parse import quote_plus, urlencode

from harness import common, wire_driver as wd
from harness.common import listlit

TRUSTED_EXTRA = [
    "C16: HMAC-SHA256, uuid4 nonces and the wall clock are runtime; aiohttp / yarl are exercised through a loopback "
    "server (127.0.0.1), not modelled; the inventory of signed endpoints is read off the source by an ast walk "
    "(fail closed: an endpoint without a call in the harness table fails the check)",
]
HEADER = ("From Coq Require Import NArith List. Import ListNotations. Open Scope N_scope.\n"
          "From Basana Require Import Wire.UrlEnc Wire.Check.\n")


def nl(bs):
    return listlit([f"{b}" for b in bs])


def run(chk):
    chk.proof_stage()
    chk.coverage["rule"] = (
        "one request per signed endpoint and argument shape (49 Binance + 11 Bitstamp calls per round), values drawn "
        "from client-id alphabets with URL-special and non-ASCII characters and decimals of every exponent shape; plus "
        "rounds with a token bucket that makes requests wait; non-trivial = the request carries a URL-special or "
        "non-ASCII value, or a body")
    rnd = common.rng_for(chk.seed, "C16")
    rounds = common.tier_n(chk.tier, 6, 120)
    inv_b, inv_s = wd.binance_inventory(), wd.bitstamp_inventory()
    chk.coverage["signed_endpoints"] = {"binance": len(inv_b), "bitstamp": len(inv_s)}
    nonces = set()
    import os
    import time as _time
    tz0 = os.environ.get("TZ")
    for rd in range(rounds):
        with_tb = rd == 1
        # "timestamps are current" wherever the process runs: some rounds under other time zones of the process
        tz = {2: "JST-9", 3: "EST5EDT", 4: "UTC"}.get(rd % 6)
        if tz is not None:
            os.environ["TZ"] = tz
            _time.tzset()
            chk.count("rounds_in_tz_" + tz)
        for name, fn, inv in (("binance", wd.run_binance, inv_b), ("bitstamp", wd.run_bitstamp, inv_s)):
            try:
                res = asyncio.run(fn(rnd, with_tb=with_tb))
            finally:
                if tz is not None and name == "bitstamp":
                    if tz0 is None:
                        os.environ.pop("TZ", None)
                    else:
                        os.environ["TZ"] = tz0
                    _time.tzset()
            if rd == 0:
                missing = inv - {c["key"] for c, _, _ in res}
                if missing:
                    chk.violation("sig:endpoint-not-covered",
                                  f"signed {name} endpoints without a call in the harness: {sorted(missing)}",
                                  {"missing": sorted(map(list, missing))}, no_failing_input=True)
            for call, reqs, err in res:
                special = any(ch in wd.ID_ALPHABET[13:] for v in call["present"].values() for ch in str(v)) or bool(call["dec"])
                chk.note_case((name, call["key"], str(call["present"]), str(call["dec"])), special)
                chk.count(name + "_requests", len(reqs))
                if err or len(reqs) != 1:
                    chk.violation("sig:request-failed", f"{name} {call['key']}: {err or 'no request reached the server'}",
                                  {"call": [str(x) for x in call["key"]], "error": err}, no_failing_input=True)
                    continue
                r = reqs[0]
                if name == "binance":
                    alarms = wd.verify_binance(r, key_only=call["key"][1].endswith("listen_key"))
                else:
                    alarms = wd.verify_bitstamp(r, nonces)
                if len(chk.coverage["samples"]) < 3 and special:
                    chk.sample({"endpoint": list(call["key"]), "method": r["method"], "raw_path": r["raw_path"],
                                "body": r["body"].decode(errors="replace")})
                for fp, msg in alarms:
                    chk.violation(fp, msg, {"kind": "monitor", "monitor": fp, "endpoint": list(call["key"]),
                                            "passed": {k: str(v) for k, v in {**call["present"], **call["dec"]}.items()},
                                            "received": {"method": r["method"], "raw_path": r["raw_path"],
                                                         "body": r["body"].decode(errors="replace"),
                                                         "headers": r["headers"]}})
    # a request the server read and then dropped: whatever the client does next (give up, retry), every request that reaches
    # the server verifies, and no Bitstamp nonce is ever sent twice
    for which in ("bitstamp", "binance"):
        for _ in range(common.tier_n(chk.tier, 2, 10)):
            reqs, err = asyncio.run(wd.run_dropped(rnd, which))
            chk.count("dropped_request_scenarios")
            chk.count(which + "_requests", len(reqs))
            seen = set()
            for r in reqs:
                alarms = wd.verify_bitstamp(r, seen) if which == "bitstamp" else wd.verify_binance(r)
                for fp, msg in alarms:
                    chk.violation(fp, msg + " (after the server dropped a request it had read)",
                                  {"kind": "monitor", "monitor": fp, "scenario": "server reads the second request and closes "
                                   "the connection without answering", "client": which, "client_error": err,
                                   "received": [{"method": x["method"], "raw_path": x["raw_path"],
                                                 "nonce": x["headers"].get("X-Auth-Nonce")} for x in reqs]})
    # nonces never repeat -- also not across worker processes forked after the library was imported
    forked = _nonces_in_forked_workers(3, 4)
    flat = [n for ns in forked for n in ns]
    chk.count("nonces_from_forked_workers", len(flat))
    if len(set(flat)) != len(flat):
        dup = sorted({n for n in flat if flat.count(n) > 1})
        chk.violation("sig:nonce-repeated-across-processes",
                      f"{len(dup)} Bitstamp nonce(s) were generated twice by worker processes forked from one parent: "
                      f"{dup[:2]}", {"kind": "monitor", "workers": 3, "nonces_per_worker": 4, "nonces": forked})
    # the encoders against the model: every byte, and random strings / parameter lists
    cases = [([b], list(quote_plus(bytes([b])).encode())) for b in range(256)]
    for _ in range(common.tier_n(chk.tier, 200, 4000)):
        s = wd.gen_id(rnd).encode("utf-8")
        cases.append((list(s), list(quote_plus(s).encode())))
    ucases = []
    for _ in range(common.tier_n(chk.tier, 60, 1000)):
        ps = [(wd.gen_id(rnd), wd.gen_id(rnd)) for _ in range(rnd.randint(1, 4))]
        ucases.append(([(list(k.encode()), list(v.encode())) for k, v in ps], list(urlencode(ps).encode())))
    items = ["Eval vm_compute in (check_quote " + listlit([f"({nl(a)}, {nl(b)})" for a, b in cases]) + ").",
             "Eval vm_compute in (check_urlencode " + listlit(
                 ["(" + listlit([f"({nl(k)}, {nl(v)})" for k, v in ps]) + ", " + nl(out) + ")" for ps, out in ucases]) + ")."]
    res = common.coq_eval_sharded("c16", HEADER, items, per_file=1)
    chk.count("encoder_cases", len(cases) + len(ucases))
    chk.coverage["traces_validated_against_impl"] = len(cases) + len(ucases) if all(r == "true" for r in res) else 0
    if any(r != "true" for r in res) and not chk.violations:
        chk.violation("correspondence:Wire.UrlEnc", "the model of quote_plus / urlencode and urllib disagree",
                      {"broken": "correspondence Wire.UrlEnc.quote_plus <-> urllib.parse.quote_plus"},
                      no_failing_input=True)


def _nonce_worker(k):
    from basana.external.bitstamp import helpers
    return [helpers.generate_nonce() for _ in range(k)]


def _nonces_in_forked_workers(workers, k):
    import multiprocessing
    from basana.external.bitstamp import helpers      # imported (and used once) in the parent, before forking
    helpers.generate_nonce()
    ctx = multiprocessing.get_context("fork")
    with ctx.Pool(workers) as pool:
        return pool.map(_nonce_worker, [k] * workers, chunksize=1)


def replay(chk, path):
    d = json.load(open(path))
    print(json.dumps(d, indent=1)[:3000])
    chk.note_case("replay-a")
    chk.note_case("replay-b")
    return chk.finish(TRUSTED_EXTRA)
