"""C08: theorems in coq/props/C08.v; pipeline in harness/exchange_check.py."""
from harness import exchange_check as xc

TRUSTED_EXTRA = xc.TRUSTED_EXTRA
PLAN = [("compete", "small", 70, 1500), ('liquidity', 'medium', 70, 1800), ('limitpartial', 'medium', 50, 1200), ('mixed', 'small', 40, 800), ('reconfig', 'small', 30, 400)]


def run(chk):
    xc.run_family(chk, "C08", PLAN)


def replay(chk, path):
    return xc.replay(chk, "C08", path)
