"""C02: theorems in coq/props/C02.v; pipeline in harness/exchange_check.py."""
from harness import exchange_check as xc

TRUSTED_EXTRA = xc.TRUSTED_EXTRA
PLAN = [("noprice", "small", 200, 3000), ('mixed', 'medium', 60, 1500), ('loans', 'medium', 60, 1500), ('liquidity', 'small', 30, 600), ('cancelrepay', 'small', 20, 300), ('unpriceable', 'small', 24, 300)]


def run(chk):
    xc.run_family(chk, "C02", PLAN)


def replay(chk, path):
    return xc.replay(chk, "C02", path)
