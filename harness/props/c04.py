"""C04: theorems in coq/props/C04.v; pipeline in harness/exchange_check.py."""
from harness import exchange_check as xc

TRUSTED_EXTRA = xc.TRUSTED_EXTRA
PLAN = [('mixed', 'medium', 50, 1200), ('limitpartial', 'medium', 60, 1500), ('ample', 'small', 60, 1500), ('ample', 'long', 4, 60), ('reindexclose', 'small', 3, 30), ('reconfig', 'small', 30, 400), ('twovenues', 'small', 30, 400), ('finegrid', 'small', 12, 100)]


def run(chk):
    xc.run_family(chk, "C04", PLAN)


def replay(chk, path):
    return xc.replay(chk, "C04", path)
