"""C03 — no look-ahead; results independent of max_concurrent, hash seed and repetition.
Theorems: coq/props/C03.v (batch structure of the dispatcher model + the exchange model being a function of the
operation sequence).  Checks: exchange histories on 2-3 pairs with cross-pair orders, run under max_concurrent in
{1,2,3,4,50}; every fill must be later than the submission; all runs must agree; sub-processes with different
PYTHONHASHSEED must agree; the max_concurrent=1 run is compared with the Coq exchange model."""
import hashlib
import json
import os
import subprocess
import sys

from harness import common, exchange_check as xc, exchange_driver as xd, exchange_gen as xg, exchange_monitors as xm

TRUSTED_EXTRA = xc.TRUSTED_EXTRA + [
    "C03: independence from the hash seed and across repeated runs is a property of the Python runtime and is checked "
    "by running sub-processes (exploration, not proof); the proof covers the dispatcher model, which has no such input",
]


def canonical(tr):
    """what a user gets out of a backtest: final balances, every order with its fills, the order-event history"""
    last = tr.steps[-1]["snap"] if tr.steps else {"balances": {}, "orders": [], "loans": []}
    bal = {s: [str(b["available"]), str(b["hold"]), str(b["borrowed"])] for s, b in last["balances"].items()}
    orders = [[o["idx"], o["is_open"], str(o["filled"]), str(o["qfilled"]), {k: str(v) for k, v in o["fees"].items()},
               o["loans"]] for o in last["orders"]]
    events = [[w, idx, info.is_open, str(info.amount_filled), str(info.quote_amount_filled)] for (w, idx, info) in tr.events]
    loans = [[l.get("idx"), l.get("is_open"), str(l.get("amount")), {k: str(v) for k, v in l.get("paid", {}).items()}]
             for l in last["loans"]]
    return {"balances": bal, "orders": orders, "events": events, "loans": loans}


def digest(obj):
    return hashlib.sha1(json.dumps(obj, sort_keys=True).encode()).hexdigest()


def lookahead_alarms(tr):
    """every fill of an order must carry a timestamp later than the clock at which it was submitted"""
    out = []
    ctx = xm.Ctx(tr)
    submit = {}
    now = None
    for k, st in enumerate(tr.steps):
        if st["op"][0] == "bar":
            now = st["bar"][1]
            for idx, db, dq, _ in xm.fills_at(ctx, k):
                if idx in submit and not now > submit[idx]:
                    out.append(("C03", "lookahead:fill-at-or-before-submission", k,
                                f"order {idx} submitted at t={submit[idx]} was filled by the bar of t={now}"))
                    return out
        elif st["op"][0] == "create" and st["reply"][0] == 1:
            submit[int(st["reply"][1])] = now
    # the same through the order events
    for (w, idx, info) in tr.events:
        if idx in submit and info.amount_filled > 0 and not w > xd.when_us(submit[idx]):
            out.append(("C03", "lookahead:fill-at-or-before-submission", len(tr.steps),
                        f"order {idx} submitted at t={submit[idx]} has a fill event at {w}"))
            return out
    return out


def case_work(case):
    """one case, in a worker process: the reference run (max_concurrent=1, with the exactness test), the runs under the
    other concurrency limits, the look-ahead monitor on each"""
    common.ensure_repo_on_path()
    tr1, exact = xd.run_exact(case)
    c1 = canonical(tr1)
    out = {"digest": digest(c1), "fills": any(o[2] != "0" for o in c1["orders"]), "steps": len(tr1.steps),
           "alarms": [(1, a) for a in lookahead_alarms(tr1)], "mismatch_mc": None,
           "item": xd.coq_check_item(tr1.case, tr1) if (exact and not tr1.unobservable) else None}
    for mc in (2, 3, 4, 50):
        trm = xd.run_case(case, max_concurrent=mc)
        out["alarms"] += [(mc, a) for a in lookahead_alarms(trm)]
        if canonical(trm) != c1 and out["mismatch_mc"] is None:
            out["mismatch_mc"] = mc
    return out


def child_main():
    """sub-process: run the cases given on stdin, print their digests"""
    common.ensure_repo_on_path()
    cases = json.load(sys.stdin)
    out = []
    for case, mc in cases:
        tr = xd.run_case(case, max_concurrent=mc)
        out.append(digest(canonical(tr)))
    print(json.dumps(out))


def job_pushed_signal_probe():
    """A trading-signal source whose handler places a market order; the signal is pushed by a job scheduled at the time T
    of a bar (a strategy that re-evaluates on a timer), dated T.  Returns [(subscription, placed_at, filled_at)] for
    fills that are not later than the submission."""
    import asyncio
    import datetime
    from decimal import Decimal
    import basana as bs
    from basana.core import event, bar
    from basana.backtesting import exchange as bx
    from basana.core.enums import OrderOperation
    T0 = datetime.datetime(2024, 1, 1, tzinfo=datetime.timezone.utc)
    pair = bs.Pair("BTC", "USD")

    class Signal(event.Event):
        pass

    async def main(signal_first):
        d = bs.backtesting_dispatcher()
        e = bx.Exchange(d, {"USD": Decimal(100000)})
        e.set_symbol_precision("BTC", 8)
        e.set_symbol_precision("USD", 2)
        bars = [bar.BarEvent(T0 + datetime.timedelta(minutes=k + 1),
                             bar.Bar(T0 + datetime.timedelta(minutes=k), pair, Decimal(100 + 10 * k), Decimal(200),
                                     Decimal(50), Decimal(100 + 10 * k), Decimal(1000))) for k in range(4)]
        sig = event.FifoQueueEventSource()
        placed, fills = {}, []

        async def on_signal(ev):
            r = await e.create_market_order(OrderOperation.BUY, pair, Decimal(1))
            placed[r.id] = d.now()
        if signal_first:
            d.subscribe(sig, on_signal)
        e.add_bar_source(event.FifoQueueEventSource(events=bars))
        if not signal_first:
            d.subscribe(sig, on_signal)

        async def on_order(ev):
            if ev.order.amount_filled > 0:
                fills.append((ev.order.id, ev.when))
        e.subscribe_to_order_events(on_order)

        async def job():
            sig.push(Signal(d.now()))
        d.schedule(T0 + datetime.timedelta(minutes=2), job)
        await d.run(stop_signals=[])
        return [("signal source subscribed before the bar source" if signal_first else "signal source subscribed after the bar source",
                 str(placed[oid]), str(when)) for oid, when in fills if when <= placed[oid]]
    return asyncio.run(main(True)) + asyncio.run(main(False))


def run(chk):
    chk.proof_stage()
    chk.coverage["rule"] = (
        "cases = exchange histories on 2-3 pairs (shared timestamps, cross-pair orders placed from bar handlers, "
        "subscription before/after the bar sources); each is run under max_concurrent 1,2,3,4,50 in-process and in "
        "sub-processes with 3 hash seeds x 2 repetitions; non-trivial = at least one fill and more than one pair")
    rnd = common.rng_for(chk.seed, "C03")
    n = common.tier_n(chk.tier, 60, 400)
    cases = [c for c in xc.corpus_cases("C03")]
    cases += [xg.gen_case(rnd, "multipair" if i % 4 else "wide", "small" if i % 2 else "medium") for i in range(n)]
    # loans of equal size repaid by an auto-repay order that cannot afford them all: ties must break the same way every run
    cases += [xg.gen_case(rnd, "cancelrepay" if i % 2 else "equalloans", "small")
              for i in range(common.tier_n(chk.tier, 12, 100))]
    # both orientations of a market, symbols that have no price yet: conversions must not depend on set / dict order
    cases += [xg.gen_case(rnd, ["inverse", "noprice", "margin"][i % 3], "small") for i in range(common.tier_n(chk.tier, 18, 150))]
    # a derived event that shares the batch of the bar of its instant (pushed by a scheduled job)
    bad = job_pushed_signal_probe()
    chk.count("job_pushed_signal_probes", 2)
    if bad:
        chk.violation("lookahead:job-pushed-signal-shares-the-bars-batch",
                      f"an order placed while handling a trading signal dated T (pushed by a job scheduled at T) was filled by "
                      f"the bar dated T: {bad}", {"kind": "monitor", "observed": bad,
                                                 "how_to_replay": "harness.props.c03.job_pushed_signal_probe()"})
    # strategies that decide from what they read back (get_balances) and react to their own fills
    cases += [xg.gen_case(rnd, "adaptive", "small") for i in range(common.tier_n(chk.tier, 24, 200))]
    items, owners = [], []
    ref = []
    import multiprocessing
    with multiprocessing.Pool(min(14, os.cpu_count() or 2)) as pool:
        worked = pool.map(case_work, cases, chunksize=2)
    for case, w in zip(cases, worked):
        ref.append(w["digest"])
        chk.note_case(json.dumps(case, sort_keys=True), w["fills"] and len(case["pairs"]) > 1)
        chk.count("steps", w["steps"])
        for mc in (2, 3, 4, 50):
            chk.count("runs_mc_%d" % mc)
        for mc, a in w["alarms"]:
            chk.violation(a[1], a[3], {"kind": "monitor", "monitor": a[1], "case": case, "max_concurrent": mc})
        if w["mismatch_mc"] is not None:
            mc = w["mismatch_mc"]
            small = xc.shrink_case(case, lambda c: canonical(xd.run_case(c, max_concurrent=mc)) !=
                                   canonical(xd.run_case(c, max_concurrent=1)), budget=40)
            chk.violation("determinism:depends-on-max-concurrent",
                          f"fills / balances differ between max_concurrent=1 and max_concurrent={mc}",
                          {"kind": "monitor", "case": small, "max_concurrent": [1, mc],
                           "result_mc1": canonical(xd.run_case(small, max_concurrent=1)),
                           "result_mcN": canonical(xd.run_case(small, max_concurrent=mc))})
        if w["item"] is not None:
            items.append(w["item"])
            owners.append(case)
    # sub-processes: hash seeds x repetitions, all at once
    payload = json.dumps([[c, 50 if i % 2 else 1] for i, c in enumerate(cases)])
    procs = []
    for hs in ("0", "1", "424242"):
        for rep in range(2):
            env = dict(os.environ)
            env["PYTHONHASHSEED"] = hs
            pr = subprocess.Popen([sys.executable, "-c", "from harness.props import c03; c03.child_main()"],
                                  stdin=subprocess.PIPE, stdout=subprocess.PIPE, stderr=subprocess.PIPE, text=True,
                                  env=env, cwd=common.VERIF)
            procs.append((hs, rep, pr))
    import threading
    outs = {}

    def feed(key, pr):
        try:
            outs[key] = pr.communicate(payload, timeout=3000)
        except Exception as ex:     # noqa
            pr.kill()
            outs[key] = ("", repr(ex))
    threads = [threading.Thread(target=feed, args=((hs, rep), pr)) for hs, rep, pr in procs]
    for t in threads:
        t.start()
    for t in threads:
        t.join()
    for hs, rep, pr in procs:
        out, err = outs[(hs, rep)]
        if pr.returncode != 0 or not out.strip():
            chk.violation("determinism:subprocess-crash", "a backtest sub-process crashed",
                          {"stderr": (err or "")[-2000:]}, no_failing_input=True)
            continue
        ds = json.loads(out.strip().splitlines()[-1])
        chk.count("subprocess_runs", len(ds))
        for i, (a, b) in enumerate(zip(ds, ref)):
            if a != b:
                chk.violation("determinism:depends-on-hash-seed-or-run",
                              f"case {i}: result under PYTHONHASHSEED={hs} (repetition {rep}) differs from the "
                              f"in-process run", {"kind": "monitor", "case": cases[i], "hash_seed": hs})
                break
    res = common.coq_eval_sharded("c03_ex", xd.EX_HEADER, items, balance=True) if items else []
    ndiv = 0
    first = None
    for case, v in zip(owners, res):
        if v == "Agree":
            chk.count("model_agree")
        else:
            ndiv += 1
            chk.count("model_diverge")
            first = first or (case, v)
    chk.coverage["traces_validated_against_impl"] = chk.counters.get("model_agree", 0)
    if ndiv and not chk.violations:
        chk.violation("correspondence:Exchange.step",
                      "the Coq model of the exchange and the implementation disagree on a multi-pair history; no history "
                      "violating the property statement was found",
                      {"broken": "correspondence Exchange.Model.step <-> Exchange under BacktestingDispatcher",
                       "case": first[0], "model_says": first[1], "diverging_cases": ndiv}, no_failing_input=True)


def replay(chk, path):
    d = json.load(open(path))
    case = d["case"]
    for mc in (1, 2, 3, 50):
        tr = xd.run_case(case, max_concurrent=mc)
        print("max_concurrent", mc, digest(canonical(tr)))
        for a in lookahead_alarms(tr):
            print("ALARM", a)
            chk.violation(a[1], a[3], {"kind": "monitor", "case": case, "max_concurrent": mc})
    chk.note_case("replay-a")
    chk.note_case("replay-b")
    return chk.finish(TRUSTED_EXTRA)
