"""C10: theorems in coq/props/C10.v; pipeline in harness/exchange_check.py."""
from harness import exchange_check as xc

TRUSTED_EXTRA = xc.TRUSTED_EXTRA
PLAN = [('loans', 'medium', 80, 2000), ('margin', 'small', 80, 2000), ('zeroreq', 'small', 20, 300), ('marginedge', 'small', 24, 300)]


def run(chk):
    xc.run_family(chk, "C10", PLAN)


def replay(chk, path):
    return xc.replay(chk, "C10", path)
