"""C11: theorems in coq/props/C11.v; pipeline in harness/exchange_check.py."""
from harness import exchange_check as xc

TRUSTED_EXTRA = xc.TRUSTED_EXTRA
PLAN = [('loans', 'medium', 90, 2200), ('margin', 'small', 60, 1500), ('cancelrepay', 'small', 40, 600), ('nearequal', 'small', 12, 150)]


def run(chk):
    xc.run_family(chk, "C11", PLAN)


def replay(chk, path):
    return xc.replay(chk, "C11", path)
