"""C05: theorems in coq/props/C05.v; pipeline in harness/exchange_check.py."""
from harness import exchange_check as xc

TRUSTED_EXTRA = xc.TRUSTED_EXTRA
PLAN = [('mixed', 'long', 10, 200), ('mixed', 'medium', 60, 1200), ('loans', 'small', 40, 800), ('cancelrepay', 'small', 30, 500), ('reindexfail', 'small', 8, 100), ('reindexclose', 'small', 3, 30), ('wide', 'small', 16, 200), ('reconfig', 'small', 30, 400), ('twovenues', 'small', 24, 300)]


def run(chk):
    xc.run_family(chk, "C05", PLAN)


def replay(chk, path):
    return xc.replay(chk, "C05", path)
