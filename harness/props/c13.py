"""C13: theorems in coq/props/C13.v; pipeline in harness/dispatch_check.py."""
from harness import dispatch_check as dc

TRUSTED_EXTRA = dc.TRUSTED_EXTRA


def run(chk):
    sweep = dc.job_permutation_sweep(chk.tier)
    chk.coverage["exhaustive_sweep"] = f"{len(sweep)} insertion orders of distinct job times (all permutations)"
    dc.run_family(chk, "C13", 300, 6000, extra=sweep)


def replay(chk, path):
    return dc.replay(chk, "C13", path)
