"""C18: theorems in coq/props/C18.v (Ws/Client.v); driver harness/ws_driver.py (scripted sockets, virtual clock)."""
import json

from harness import common, ws_driver as wd

TRUSTED_EXTRA = [
    "C18: the real clients run with an injected session whose ws_connect() yields a scripted socket, on a virtual-time "
    "loop with basana.core.websockets.time substituted; Binance's REST calls (listen keys) and the scheduler are fakes "
    "provided by the harness; aiohttp's websocket implementation itself is not exercised",
]


def run(chk):
    chk.proof_stage()
    chk.coverage["rule"] = (
        "scenarios = client (generic, Binance with a user-data channel, Bitstamp public / private) x initial and late "
        "registrations x per-connection server scripts (channel messages, error replies, unknown and garbage frames, "
        "listen-key expiry, close, abrupt drop, reconnect request) x slow SUBSCRIBE handshakes x failing listen-key "
        "creation (HTTP 400/401/403/418/429/500 answers, time-outs, resets, other errors) / connection attempts; a few "
        "Binance clients with 200-400 registered streams; non-trivial = at least one fault or late registration")
    rnd = common.rng_for(chk.seed, "C18")
    n = common.tier_n(chk.tier, 500, 10000)
    items, owners = [], []
    n_many = common.tier_n(chk.tier, 3, 20)
    for i in range(n + n_many):
        sc0 = wd.gen_scenario(rnd) if i < n else wd.gen_many_channels(rnd)
        sc = wd.concretise(sc0, sc0["client"])
        log, ad = wd.run_scenario(sc)
        faults = len(sc["scripts"]) > 1 or bool(sc["registrations"]) or any(s and s[0] == "msg" for scr in sc["scripts"] for s in scr)
        chk.note_case(json.dumps(sc0, sort_keys=True, default=str), faults)
        chk.count("client_" + sc["client"])
        chk.count("connections", sum(1 for r in log if r[0] == "connect"))
        chk.count("subscribe_frames", sum(1 for r in log if r[0] == "frame"))
        chk.count("events_routed", sum(1 for r in log if r[0] == "event"))
        chk.count("keepalives", sum(1 for r in log if r[0] == "keepalive"))
        if len(chk.coverage["samples"]) < 2 and faults and len(log) < 40:
            chk.sample({"scenario": sc0, "log": [list(map(str, r)) for r in log]})
        for fp, msg in wd.monitor(sc, log, ad):
            chk.violation(fp, msg, {"kind": "monitor", "monitor": fp, "scenario": sc, "symbolic": sc0})
        items.append(wd.coq_item(sc, log, ad, {}))
        owners.append(sc0)
    res = common.coq_eval_sharded("c18", wd.W_HEADER, items, per_file=40)
    bad = [(o, r) for o, r in zip(owners, res) if r != "None"]
    chk.count("model_agree", len(res) - len(bad))
    chk.coverage["traces_validated_against_impl"] = len(res) - len(bad)
    if bad and not chk.violations:
        chk.violation("correspondence:Ws.Client",
                      "the bookkeeping model of the websocket client and the implementation disagree; no scenario "
                      "violating the property statement was found",
                      {"broken": "correspondence Ws.Client.step <-> basana.core.websockets.WebSocketClient",
                       "scenario": bad[0][0], "model_says": bad[0][1], "diverging": len(bad)}, no_failing_input=True)


def replay(chk, path):
    d = json.load(open(path))
    sc = d["scenario"]
    sc["scripts"] = [[tuple(s) for s in scr] for scr in sc["scripts"]]
    log, ad = wd.run_scenario(sc)
    for r in log:
        print(r)
    for fp, msg in wd.monitor(sc, log, ad):
        print("ALARM", fp, msg)
        chk.violation(fp, msg, {"kind": "monitor", "scenario": sc})
    chk.note_case("replay-a")
    chk.note_case("replay-b")
    return chk.finish(TRUSTED_EXTRA)
