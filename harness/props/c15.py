"""C15: theorems in coq/props/C15.v (Dispatch/Realtime.v); driver harness/realtime_driver.py (virtual clock)."""
import json
import warnings

from harness import common, realtime_driver as rd

TRUSTED_EXTRA = [
    "C15: the real RealtimeDispatcher runs on a virtual-time asyncio loop with basana.core.dt.utc_now substituted (in "
    "the harness process); iteration boundaries are observed by wrapping RealtimeDispatcher._push_events",
    "the per-iteration model is compared with the implementation only for scenarios where pushes never block "
    "(max_concurrent=50, instantaneous handlers); contention scenarios (max_concurrent 1-5, slow handlers) are monitored",
]


def run(chk):
    warnings.simplefilter("ignore", RuntimeWarning)
    chk.proof_stage()
    chk.coverage["rule"] = (
        "scenarios = 1-3 sources whose producers push events over virtual time (just happened, future-dated, older than "
        "their predecessor), initial and handler-scheduled jobs (past, near, far future), 0-2 idle handlers, handler "
        "durations, raising handlers, max_concurrent in {1,2,5,50}; non-trivial = at least one out-of-order or "
        "future-dated event or a job; distinct by full scenario")
    rnd = common.rng_for(chk.seed, "C15")
    n = common.tier_n(chk.tier, 240, 5000)
    items, owners = [], []
    n_burst = common.tier_n(chk.tier, 1, 3)
    for i in range(n + 2 * n_burst):
        model = i % 2 == 0 and i < n
        sc = rd.gen_scenario(rnd, model=model) if i < n else (rd.gen_burst(rnd) if (i - n) % 2 == 0 else rd.gen_stale(rnd))
        log, outcome = rd.run_scenario(sc)
        special = bool(sc["jobs"]) or any(w > t or (k > 0 and w < arr[k - 1][1])
                                         for arr in sc["sources"] for k, (t, w, e, d) in enumerate(arr))
        chk.note_case(json.dumps(sc, sort_keys=True), special)
        chk.count("mc_%d" % sc["mc"])
        chk.count("iterations", sum(1 for r in log if r[0] == "iter"))
        chk.count("deliveries", sum(1 for r in log if r[0] == "ev"))
        chk.count("job_runs", sum(1 for r in log if r[0] == "job"))
        chk.count("drops_reported", sum(1 for r in log if r[0] == "drop"))
        chk.count("idle_runs", sum(1 for r in log if r[0] == "idle"))
        if len(chk.coverage["samples"]) < 2 and special:
            chk.sample({"scenario": sc, "log_head": [list(r) for r in log if r[0] != "iter" and r[0] != "idle"][:25]})
        for fp, msg in rd.monitor(sc, log, outcome):
            chk.violation(fp, msg, {"kind": "monitor", "monitor": fp, "scenario": sc})
        if model and outcome == "returned":
            if any(r[0] == "iter" for r in log):
                items.append(rd.coq_item(sc, log))
                owners.append(sc)
            else:
                chk.count("iteration_hook_unavailable")
    # the real clock, in processes whose local time zone is east / west of UTC (and UTC): no virtual time here
    for tz in ("Asia/Tokyo", "America/New_York", "UTC"):
        ran, err = rd.real_clock_probe(tz)
        chk.count("real_clock_probes")
        if ran is None:
            chk.violation("realtime:real-clock-probe-crashed", f"TZ={tz}: the probe crashed", {"stderr": err},
                          no_failing_input=True)
            continue
        for fp, msg in rd.monitor_real_clock(tz, ran):
            if not any(v[0] == fp for v in chk.violations):
                chk.violation(fp, msg, {"kind": "monitor", "monitor": fp, "tz": tz, "observed": ran,
                                        "how_to_replay": f"TZ={tz} python -c 'from harness import realtime_driver as rd; rd.real_clock_main()'"})
    res = common.coq_eval_sharded("c15_rt", rd.R_HEADER, items, per_file=15) if items else []
    bad = [(sc, r) for sc, r in zip(owners, res) if r != "None"]
    chk.count("model_agree", len(res) - len(bad))
    chk.coverage["traces_validated_against_impl"] = len(res) - len(bad)
    if bad and not chk.violations:
        chk.violation("correspondence:Dispatch.Realtime",
                      "the per-iteration model of the realtime dispatcher and the implementation disagree; no scenario "
                      "violating the property statement was found",
                      {"broken": "correspondence Dispatch.Realtime.rt_iter <-> RealtimeDispatcher._dispatch_loop",
                       "scenario": bad[0][0], "model_says": bad[0][1], "diverging": len(bad)}, no_failing_input=True)


def replay(chk, path):
    d = json.load(open(path))
    if "tz" in d:
        ran, err = rd.real_clock_probe(d["tz"])
        print(ran, err)
        for fp, msg in (rd.monitor_real_clock(d["tz"], ran) if ran is not None else [("realtime:real-clock-probe-crashed", err)]):
            print("ALARM", fp, msg)
            chk.violation(fp, msg, {"kind": "monitor", "tz": d["tz"], "observed": ran})
        chk.note_case("replay-a")
        chk.note_case("replay-b")
        return chk.finish(TRUSTED_EXTRA)
    sc = d["scenario"]
    log, outcome = rd.run_scenario(sc)
    for r in log:
        if r[0] not in ("iter", "idle"):
            print(r)
    for fp, msg in rd.monitor(sc, log, outcome):
        print("ALARM", fp, msg)
        chk.violation(fp, msg, {"kind": "monitor", "scenario": sc})
    chk.note_case("replay-a")
    chk.note_case("replay-b")
    return chk.finish(TRUSTED_EXTRA)
