"""C20 — token bucket.  Theorems: coq/props/C20.v.  Correspondence: the real TokenBucketLimiter run on exact
rationals (Fraction parameters, Fraction clock) against TokenBucket.Model.consume evaluated by vm_compute."""
import asyncio
import json
import os
import types
from fractions import Fraction as F

from harness import common
from harness.common import qlit, listlit

TRUSTED_EXTRA = [
    "C20: the implementation is exercised with Fraction arithmetic (exact); production use on binary floats is "
    "only compared against the exact run with a 1e-6 relative tolerance (testing, not proof)",
]

HEADER = ("From Coq Require Import QArith List. Import ListNotations. Open Scope Q_scope.\n"
          "From Basana Require Import TokenBucket.Model.\n")


def run_impl(tp, pd, ini, t0, arrivals, use_wait=False):
    """Run the real limiter on a substituted clock. Returns list of waits (Fractions)."""
    from basana.core import token_bucket
    clock = [t0]
    slept = []

    async def fake_sleep(x):
        slept.append(x)
    saved_time, saved_asyncio = token_bucket.time, token_bucket.asyncio
    token_bucket.time = types.SimpleNamespace(time=lambda: clock[0])
    token_bucket.asyncio = types.SimpleNamespace(sleep=fake_sleep)
    try:
        tb = token_bucket.TokenBucketLimiter(tp, pd, ini)
        out = []
        for i, a in enumerate(arrivals):
            clock[0] = a
            if i % 3 == 2:
                # observers may look at the bucket at any time: reading the token count is not a request
                for _ in range(3):
                    tb.tokens
            if use_wait and i % 2 == 1:
                n = len(slept)
                asyncio.run(tb.wait())
                assert len(slept) == n + 1
                w = slept[-1]
            else:
                w = tb.consume()
            out.append(w)
        return out
    finally:
        token_bucket.time, token_bucket.asyncio = saved_time, saved_asyncio


def gen_case(rnd, big=False):
    tp = F(rnd.randint(1, 40), rnd.choice([1, 1, 2, 3, 4, 10]))
    pd = F(rnd.randint(1, 30), rnd.choice([1, 1, 1, 2, 5]))
    style = rnd.random()
    if style < 0.35:
        ini = F(0)
    elif style < 0.6:
        ini = F(rnd.randint(0, max(1, int(tp))))
    elif style < 0.85:
        ini = tp + F(rnd.randint(1, 12), rnd.choice([1, 2]))      # initial tokens above the quota
    else:
        ini = F(rnd.randint(0, 80), rnd.choice([1, 3, 7]))
    t0 = F(rnd.randint(0, 1000), rnd.choice([1, 2, 10]))
    n = rnd.randint(1, 120 if big else 50)
    t = t0
    arr = []
    mode = rnd.choice(["burst", "mixed", "overload", "idle", "mixed"])
    for _ in range(n):
        r = rnd.random()
        if mode == "burst":
            if r < 0.15:
                t += F(rnd.randint(1, 400), rnd.choice([1, 2, 7, 10]))
        elif mode == "overload":
            if r < 0.7:
                t += pd / tp / rnd.choice([2, 3, 5, 10])
        elif mode == "idle":
            t += pd * rnd.randint(0, 5) + F(rnd.randint(0, 9), 10)
        else:
            if r < 0.5:
                t += F(rnd.randint(0, 50), rnd.choice([1, 2, 7, 10, 1000]))
        arr.append(t)
    return {"tp": tp, "pd": pd, "ini": ini, "t0": t0, "arr": arr, "mode": mode}


def monitor(case, waits):
    """Independent encoding of the property statement (not of the model). Returns list of (fingerprint, msg)."""
    tp, pd, ini, arr = case["tp"], case["pd"], case["ini"], case["arr"]
    rate = tp / pd
    cap = max(tp, ini)
    bad = []
    sends = []
    for i, (a, w) in enumerate(zip(arr, waits)):
        w = F(w)
        if w < 0:
            bad.append(("negative-wait", f"request {i} got a negative wait {w}"))
        sends.append(a + w)
    # rate bound over every window that starts and ends at a send time (these are the tightest windows)
    ss = sorted(sends)
    n = len(ss)
    for i in range(n):
        for j in range(i, n):
            L = ss[j] - ss[i]
            cnt = j - i + 1
            # count all sends inside [ss[i], ss[j]] (ties included)
            lo = i
            while lo > 0 and ss[lo - 1] == ss[i]:
                lo -= 1
            hi = j
            while hi + 1 < n and ss[hi + 1] == ss[j]:
                hi += 1
            cnt = hi - lo + 1
            if cnt > cap + rate * L + 1:
                bad.append(("rate-bound", f"{cnt} requests sent within {L}s > capacity {cap} + rate {rate}*L + 1"))
                break
        if bad and bad[-1][0] == "rate-bound":
            break
    # burst exactness for the opening burst (a = initial tokens, all arrivals at t0 exactly)
    k = 0
    for a, w in zip(arr, waits):
        if a != case["t0"]:
            break
        k += 1
        exp = max(F(0), k - ini) / rate
        if F(w) != exp:
            bad.append(("burst-delay", f"request {k} of the opening burst with {ini} tokens waited {w}, expected {exp}"))
            break
    # burst after an idle gap long enough to refill completely: a = capacity
    i = 0
    while i < len(arr):
        prev = arr[i - 1] if i else case["t0"]
        # a gap that refills the whole capacity whatever the debt was (debt <= i+1 tokens)
        if arr[i] - prev >= (cap + i + 2) / rate:
            k = 0
            j = i
            while j < len(arr) and arr[j] == arr[i]:
                k += 1
                exp = max(F(0), k - cap) / rate
                if F(waits[j]) != exp:
                    bad.append(("burst-delay-full", f"request {k} of a burst on a full bucket (capacity {cap}) waited "
                                                    f"{waits[j]}, expected {exp}"))
                    break
                j += 1
            i = max(j, i + 1)
        else:
            i += 1
    return bad


def case_json(case, waits=None):
    d = {k: (str(v) if isinstance(v, F) else v) for k, v in case.items() if k != "arr"}
    d["arr"] = [str(a) for a in case["arr"]]
    if waits is not None:
        d["impl_waits"] = [str(F(w)) for w in waits]
    return d


def case_from_json(d):
    return {"tp": F(d["tp"]), "pd": F(d["pd"]), "ini": F(d["ini"]), "t0": F(d["t0"]),
            "arr": [F(a) for a in d["arr"]], "mode": d.get("mode", "corpus")}


def coq_item(case, waits):
    return (f"Eval vm_compute in (check {qlit(case['tp'])} {qlit(case['pd'])} {qlit(case['ini'])} "
            f"{qlit(case['t0'])} {listlit([qlit(a) for a in case['arr']])} "
            f"{listlit([qlit(F(w)) for w in waits])}).")


def float_run_close(case, waits):
    fl = run_impl(float(case["tp"]), float(case["pd"]), float(case["ini"]), float(case["t0"]),
                  [float(a) for a in case["arr"]])
    for i, (x, y) in enumerate(zip(fl, waits)):
        if abs(x - float(y)) > 1e-6 * (1 + abs(float(y))):
            return i, x
    return None


def shrink(case, still_bad):
    arr = list(case["arr"])
    changed = True
    while changed and len(arr) > 1:
        changed = False
        for i in range(len(arr) - 1, -1, -1):
            cand = dict(case, arr=arr[:i] + arr[i + 1:])
            if cand["arr"] and still_bad(cand):
                arr = cand["arr"]
                changed = True
    return dict(case, arr=arr)


def process(chk, cases, label):
    """Run impl + monitors on all cases, then the model; classify."""
    items, kept = [], []
    for case in cases:
        waits = run_impl(case["tp"], case["pd"], case["ini"], case["t0"], case["arr"], use_wait=True)
        nontrivial = any(F(w) > 0 for w in waits) and any(F(w) == 0 for w in waits)
        chk.note_case((label, case_json(case)["arr"], str(case["tp"]), str(case["pd"]), str(case["ini"])), nontrivial)
        chk.count("requests", len(waits))
        chk.count("mode_" + case["mode"])
        chk.count("initial_above_quota" if case["ini"] > case["tp"] else "initial_within_quota")
        bad = monitor(case, waits)
        if bad:
            fp, msg = bad[0]

            def still_bad(c):
                w = run_impl(c["tp"], c["pd"], c["ini"], c["t0"], c["arr"])
                return any(b[0] == fp for b in monitor(c, w))
            small = shrink(case, still_bad)
            sw = run_impl(small["tp"], small["pd"], small["ini"], small["t0"], small["arr"])
            chk.violation("monitor:" + fp, monitor(small, sw)[0][1],
                          {"kind": "monitor", "case": case_json(small, sw), "monitor": fp})
        fr = float_run_close(case, waits)
        if fr is not None:
            chk.violation("float-run", f"float run deviates from the exact run at request {fr[0]}",
                          {"kind": "float", "case": case_json(case, waits), "index": fr[0], "float_wait": fr[1]})
        chk.sample(case_json(case, waits)) if len(case["arr"]) <= 8 else None
        items.append(coq_item(case, waits))
        kept.append((case, waits))
    res = common.coq_eval_sharded("c20_" + label, HEADER, items, per_file=200)
    diverged = []
    for (case, waits), r in zip(kept, res):
        if r == "Agree":
            chk.count("model_agree")
        else:
            chk.count("model_diverge")
            diverged.append((case, waits, r))
    return diverged


def run(chk):
    chk.proof_stage()
    n = common.tier_n(chk.tier, 400, 6000)
    chk.coverage["rule"] = (
        "cases = (tokens_per_period, period, initial_tokens, t0, arrival list) drawn from one PRNG; the real "
        "TokenBucketLimiter runs on Fractions with a substituted clock (odd requests through wait() with a recording "
        "sleep); non-trivial = the run contains both a zero and a positive wait; distinct by full input")
    # 1. corpus first
    corpus_dir = os.path.join(common.VERIF, "corpus", "C20")
    corpus = []
    if os.path.isdir(corpus_dir):
        for fn in sorted(os.listdir(corpus_dir)):
            corpus.append(case_from_json(json.load(open(os.path.join(corpus_dir, fn)))))
    diverged = process(chk, corpus, "corpus") if corpus else []
    chk.count("corpus_cases", len(corpus))
    # 2. generated
    rnd = common.rng_for(chk.seed, "C20")
    cases = [gen_case(rnd, big=(chk.tier == "thorough")) for _ in range(n)]
    diverged += process(chk, cases, "gen")
    chk.coverage["traces_validated_against_impl"] = chk.counters.get("model_agree", 0)
    # 2b. wait() with waiters cancelled while they sleep (virtual-time loop): the rate bound on what is let through
    rnd3 = common.rng_for(chk.seed, "C20-cancel")
    for _ in range(common.tier_n(chk.tier, 40, 600)):
        sc = gen_cancel_scenario(rnd3)
        sent = run_cancel_scenario(sc)
        chk.count("cancel_scenarios")
        chk.count("cancelled_waiters", len(sc["cancels"]))
        al = monitor_sends(sc, sent)
        if al and not any(v[0] == "monitor:" + al[0][0] for v in chk.violations):
            chk.violation("monitor:" + al[0][0], al[0][1], {"kind": "monitor", "cancel_scenario": sc, "sent": sent})
    # 2c. slow limiters (a token per day or week, fractional rates) hit by a burst: waits of days, through wait()
    for k in range(common.tier_n(chk.tier, 6, 60)):
        period = rnd3.choice([86400, 604800, 3 * 86400, 250000])
        sc = {"tp": rnd3.choice([1, 1, 2]), "pd": period, "ini": rnd3.choice([0, 1]),
              "arrivals": [0.0] * rnd3.randint(3, 6) + [float(period)] * rnd3.randint(0, 2), "cancels": []}
        sent = run_cancel_scenario(sc)
        chk.count("slow_limiter_scenarios")
        al = monitor_sends(sc, sent)
        if len(sent) != len(sc["arrivals"]):
            al = al or [("waiter-never-released", f"{len(sc['arrivals']) - len(sent)} waiters of a slow limiter never got through")]
        if al and not any(v[0] == "monitor:" + al[0][0] for v in chk.violations):
            chk.violation("monitor:" + al[0][0], al[0][1] + " (slow limiter: one period = %s s)" % period,
                          {"kind": "monitor", "cancel_scenario": sc, "sent": sent})
    # 2d. the clients that hold a limiter: what reaches the server obeys the bound (real time, loopback server)
    from harness import wire_driver as wd
    for name, fn in (("binance", wd.run_binance), ("bitstamp", wd.run_bitstamp)):
        kw = {"reject": True} if name == "binance" else {}     # two signed requests are rejected for their timestamp
        res = asyncio.run(fn(common.rng_for(chk.seed, "C20-clients"), with_tb=True, **kw))
        at = sorted(r["received_ms"] / 1000.0 for _, reqs, _ in res for r in reqs)
        chk.count("client_requests_through_limiter", len(at))
        sc = {"tp": 1, "pd": wd.TB_PERIOD, "ini": 1}  # the limiter run_binance / run_bitstamp give their client
        # received_ms is rounded to the millisecond and taken on arrival: allow 50 ms of jitter per request
        al = monitor_sends(sc, [t + 0.05 * i for i, t in enumerate(at)])
        if al and not any(v[0] == "monitor:client-ignores-limiter" for v in chk.violations):
            chk.violation("monitor:client-ignores-limiter",
                          f"{name} client holding TokenBucketLimiter(1, {wd.TB_PERIOD}, 1): requests reached the server at "
                          f"{[round(t - at[0], 3) for t in at]} s -- {al[0][1]}",
                          {"kind": "monitor", "client": name, "arrival_s": [t - at[0] for t in at]})
    # 3. classification of divergences: monitors already ran on every case; if none fired, the property is no
    #    longer shown: search harder, then report no-failing-input-found
    if diverged and not chk.violations:
        rnd2 = common.rng_for(chk.seed, "C20-search")
        extra = [gen_case(rnd2, big=True) for _ in range(3000)]
        for case in extra:
            waits = run_impl(case["tp"], case["pd"], case["ini"], case["t0"], case["arr"])
            bad = monitor(case, waits)
            if bad:
                chk.violation("monitor:" + bad[0][0], bad[0][1], {"kind": "monitor", "case": case_json(case, waits)})
                break
    if diverged and not chk.violations:
        case, waits, r = diverged[0]

        def still_div(c):
            w = run_impl(c["tp"], c["pd"], c["ini"], c["t0"], c["arr"])
            return common.coq_eval_sharded("c20_shr", HEADER, [coq_item(c, w)])[0] != "Agree"
        small = shrink(case, still_div) if len(case["arr"]) <= 40 else case
        sw = run_impl(small["tp"], small["pd"], small["ini"], small["t0"], small["arr"])
        chk.violation("correspondence:TokenBucket.consume",
                      "model and implementation disagree; no input violating the property statement was found",
                      {"broken": "correspondence TokenBucket.Model.consume <-> basana.core.token_bucket."
                                 "TokenBucketLimiter.consume (theorems C20_* are about the model)",
                       "case": case_json(small, sw), "model_says": r, "diverging_cases": len(diverged)},
                      no_failing_input=True)


def run_cancel_scenario(sc):
    """wait() under a virtual-time loop with waiters cancelled while they sleep.  Returns the instants at which
    requests were actually let through (floats: the loop's clock)."""
    from basana.core import token_bucket
    from harness import vloop

    async def main(loop):
        saved = token_bucket.time
        token_bucket.time = types.SimpleNamespace(time=loop.time)
        sent = []
        try:
            tb = token_bucket.TokenBucketLimiter(sc["tp"], sc["pd"], sc["ini"])

            async def waiter(at):
                await asyncio.sleep(at - loop.time())
                await tb.wait()
                sent.append(loop.time())
            tasks = [asyncio.ensure_future(waiter(a)) for a in sc["arrivals"]]

            async def canceller():
                for at, idx in sc["cancels"]:
                    await asyncio.sleep(max(0, at - loop.time()))
                    tasks[idx].cancel()
            c = asyncio.ensure_future(canceller())
            await asyncio.gather(c, *tasks, return_exceptions=True)
        finally:
            token_bucket.time = saved
        return sorted(sent)
    return vloop.run_virtual(main)


def gen_cancel_scenario(rnd):
    rate = rnd.choice([1, 2, 4])
    n1 = rnd.randint(6, 24)
    cancel_at = rnd.choice([0.5, 1.25, 2.5])
    n_cancel = rnd.randint(1, n1 // 2)
    n2 = rnd.randint(4, 16)
    t2 = cancel_at + rnd.choice([0.0, 0.25, 1.0])
    arrivals = [0.0] * n1 + [t2] * n2
    cancels = [(cancel_at, i) for i in rnd.sample(range(n1), n_cancel)]
    return {"tp": rate, "pd": 1, "ini": rnd.choice([0, 0, 1, rate]), "arrivals": arrivals, "cancels": sorted(cancels)}


def monitor_sends(sc, sent):
    """the rate bound of the property on the instants at which requests were let through"""
    rate = sc["tp"] / sc["pd"]
    cap = max(sc["tp"], sc["ini"])
    n = len(sent)
    for i in range(n):
        for j in range(i, n):
            L = sent[j] - sent[i]
            cnt = j - i + 1
            if cnt > cap + rate * L + 1 + 1e-9:
                return [("rate-bound-after-cancelled-waits",
                         f"{cnt} requests let through within {L:.3f}s > capacity {cap} + rate {rate}*L + 1 "
                         f"(some waiters were cancelled while sleeping)")]
    return []


def replay(chk, path):
    d = json.load(open(path))
    if "cancel_scenario" in d:
        sc = d["cancel_scenario"]
        sent = run_cancel_scenario(sc)
        print("sent at:", sent)
        for fp, msg in monitor_sends(sc, sent):
            chk.violation("monitor:" + fp, msg, {"kind": "monitor", "cancel_scenario": sc, "sent": sent})
        chk.note_case("replay")
        chk.note_case("replay2")
        return chk.finish(TRUSTED_EXTRA)
    case = case_from_json(d["case"])
    waits = run_impl(case["tp"], case["pd"], case["ini"], case["t0"], case["arr"])
    print("impl waits:", [str(F(w)) for w in waits])
    bad = monitor(case, waits)
    for fp, msg in bad:
        chk.violation("monitor:" + fp, msg, {"kind": "monitor", "case": case_json(case, waits)})
    chk.note_case("replay")
    chk.note_case("replay2")
    return chk.finish(TRUSTED_EXTRA)
