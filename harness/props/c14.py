"""C14: theorems in coq/props/C14.v (Dispatch/Lifecycle.v, Dispatch/Pool.v); drivers in harness/lifecycle_driver.py."""
import json

from harness import common, lifecycle_driver as ld, dispatch_driver as dd, dispatch_gen as dg

TRUSTED_EXTRA = [
    "C14: asyncio (task scheduling, cancellation delivery, gather) is assumed, not modelled; 'ends promptly' is a "
    "3 s real-time bound on scenarios that take milliseconds",
    "the pool is observed by wrapping TaskPool.push / TaskPool._wait_impl and the asyncio.wait it calls, in the harness "
    "process (no change to /repo)",
]


def run(chk):
    chk.proof_stage()
    chk.coverage["rule"] = (
        "life-cycle scenarios = every combination of producer behaviours (initialize ok/raise x main return/raise/block x "
        "finalize ok/raise) x exit path (exhaustion, stop, handler error with stop-on-error, external cancellation) x "
        "handler in flight or not x both dispatchers (exhaustive for 1 producer, and for 2 in the thorough tier; sampled "
        "otherwise); pool scenarios = due events + due jobs + idle handlers competing for max_concurrent 1-3; "
        "non-trivial = a fault or an in-flight handler is present / at least two concurrent pushers")
    rnd = common.rng_for(chk.seed, "C14")
    scs = ld.lifecycle_scenarios(1)
    if chk.tier == "thorough":
        scs += ld.lifecycle_scenarios(2)
        scs += ld.lifecycle_scenarios(3, rnd=rnd, sample=150)
        chk.coverage["exhaustive"] = False
    else:
        scs += ld.lifecycle_scenarios(2, rnd=rnd, sample=12)
        scs += ld.lifecycle_scenarios(3, rnd=rnd, sample=4)
    items, owners = [], []
    for sc in scs:
        log, outcome, lok, detail = ld.run_lifecycle(sc)
        fault = any(b != ["ok", "return", "ok"] for b in sc["producers"]) or sc["inflight"]
        chk.note_case(json.dumps(sc, sort_keys=True), fault)
        chk.count("lifecycle_" + sc["dispatcher"])
        chk.count("exit_" + sc["exit"])
        chk.count("outcome_" + outcome)
        if len(chk.coverage["samples"]) < 3 and fault:
            chk.sample({"scenario": sc, "calls": log, "outcome": outcome})
        for fp, msg in ld.monitor_lifecycle(sc, log, outcome, lok, detail):
            chk.violation(fp, msg, {"kind": "monitor", "monitor": fp, "scenario": sc, "log": log, "outcome": outcome})
        items.append(ld.coq_lifecycle_item(sc, log, outcome))
        owners.append(sc)
    # real stop signals, delivered twice (the second one while the producers are being finalised), in sub-processes
    for disp in ("backtesting", "realtime"):
        for signame in ("SIGINT", "SIGTERM"):
            chk.count("signal_probes")
            for fp, msg in ld.signal_probe(disp, signame):
                if not any(v[0] == fp for v in chk.violations):
                    chk.violation(fp, msg, {"kind": "monitor", "monitor": fp, "dispatcher": disp, "signal": signame,
                                            "how_to_replay": f"harness.lifecycle_driver.signal_probe({disp!r}, {signame!r})"})
    res = common.coq_eval_sharded("c14_life", ld.L_HEADER, items, per_file=150) if items else []
    bad = [(sc, r) for sc, r in zip(owners, res) if r != "true"]
    chk.count("lifecycle_model_agree", len(res) - len(bad))
    # pool contention
    n = common.tier_n(chk.tier, 40, 600)
    items, owners = [], []
    for _ in range(n):
        sc = ld.gen_pool_scenario(rnd)
        log, outcome, detail, mr = ld.run_pool(sc)
        pushers = (sc["n_jobs"] > 0) + 1 + (sc["n_idle"] > 1)
        chk.note_case(json.dumps(sc, sort_keys=True), pushers >= 2)
        chk.count("pool_scenarios")
        chk.count("pool_actions", len(log))
        for fp, msg in ld.monitor_pool(sc, log, outcome, detail, mr):
            chk.violation(fp, msg, {"kind": "monitor", "monitor": fp, "scenario": sc, "log": log[:200]})
        if any(r[0] == "unhooked" or r[2] == -1 for r in log):
            chk.count("pool_internals_unavailable")
        else:
            items.append(ld.coq_pool_item(sc, log))
            owners.append((sc, log))
    res = common.coq_eval_sharded("c14_pool", ld.L_HEADER, items, per_file=12) if items else []
    pbad = [(o, r) for o, r in zip(owners, res) if r != "None"]
    chk.count("pool_model_agree", len(res) - len(pbad))
    # fault isolation: raising handlers / jobs do not prevent the others (exactly-once accounting of C12 / C13)
    for i in range(common.tier_n(chk.tier, 60, 800)):
        sc = dg.gen_scenario(rnd, jobs_heavy=(i % 2 == 0))
        log, outcome = dd.run_scenario(sc)
        chk.count("isolation_scenarios")
        for (p, fp, msg) in dd.monitor_c12(sc, log, outcome) + dd.monitor_c13(sc, log, outcome):
            if fp in ("delivery:not-exactly-once", "sched:job-never-ran", "run:did-not-return"):
                chk.violation("isolation:" + fp, msg, {"kind": "monitor", "monitor": fp, "scenario": sc})
    chk.coverage["traces_validated_against_impl"] = chk.counters.get("lifecycle_model_agree", 0) + \
        chk.counters.get("pool_model_agree", 0)
    if (bad or pbad) and not chk.violations:
        what = {"broken": "correspondence Dispatch.Lifecycle / Dispatch.Pool <-> basana.core.dispatcher.EventDispatcher.run "
                          "/ basana.core.helpers.TaskPool (the theorems of coq/props/C14.v are about the models)"}
        if bad:
            what["lifecycle_scenario"] = bad[0][0]
        if pbad:
            what["pool_scenario"] = pbad[0][0][0]
            what["pool_log_head"] = pbad[0][0][1][:60]
            what["model_says"] = pbad[0][1]
        chk.violation("correspondence:Dispatch.Lifecycle+Pool",
                      "the life-cycle / pool models and the implementation disagree; no scenario violating the property "
                      "statement was found", what, no_failing_input=True)


def replay(chk, path):
    d = json.load(open(path))
    sc = d["scenario"]
    if "producers" in sc:
        log, outcome, lok, detail = ld.run_lifecycle(sc)
        print(log, outcome, lok, detail)
        for fp, msg in ld.monitor_lifecycle(sc, log, outcome, lok, detail):
            chk.violation(fp, msg, {"kind": "monitor", "scenario": sc})
    elif "n_sources" in sc:
        log, outcome, detail, mr = ld.run_pool(sc)
        print(outcome, detail, mr)
        for fp, msg in ld.monitor_pool(sc, log, outcome, detail, mr):
            chk.violation(fp, msg, {"kind": "monitor", "scenario": sc})
    chk.note_case("replay-a")
    chk.note_case("replay-b")
    return chk.finish(TRUSTED_EXTRA)
