"""C01: theorems in coq/props/C01.v; pipeline in harness/exchange_check.py."""
from harness import exchange_check as xc

TRUSTED_EXTRA = xc.TRUSTED_EXTRA
PLAN = [('thousand', 'small', 1, 3), ("compete", "small", 30, 600), ('mixed', 'medium', 60, 1500), ('loans', 'medium', 50, 1200), ('fees', 'small', 40, 800), ('minfee', 'small', 25, 400),
        ('repayboundary', 'small', 20, 200), ('boundary', 'small', 20, 300), ('dust', 'small', 16, 300), ('neginit', 'small', 24, 400)]


def run(chk):
    xc.run_family(chk, "C01", PLAN)


def replay(chk, path):
    return xc.replay(chk, "C01", path)
