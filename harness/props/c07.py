"""C07: theorems in coq/props/C07.v; pipeline in harness/exchange_check.py."""
from harness import exchange_check as xc

TRUSTED_EXTRA = xc.TRUSTED_EXTRA
PLAN = [("feeborrow", "small", 70, 1500), ('mixed', 'medium', 50, 1200), ('loans', 'medium', 70, 1800), ('noprice', 'small', 40, 800), ('cancelrepay', 'small', 30, 500)]


def run(chk):
    xc.run_family(chk, "C07", PLAN)


def replay(chk, path):
    return xc.replay(chk, "C07", path)
