"""C17 — parameters and payloads cross the wire without loss.  Theorems: coq/props/C17.v (Wire/DecStr.v, Wire/Decode.v;
status tables regenerated from the source).  Checks: what the loopback server received against what was passed, for
every order entry point of both clients (low level and Exchange level); decimal_to_str against the model; wrapper
classes on generated payloads; timestamp decoding on dense samples."""
import asyncio
import datetime
import decimal
import json
import re
from decimal import Decimal
from fractions import Fraction as F

from harness import common, wire_driver as wd
from harness.common import listlit, zlit, blit

TRUSTED_EXTRA = [
    "C17: Decimal(str) of payload numerals and datetime.fromtimestamp (float path) are Python's: validated on samples "
    "(every millisecond / microsecond residue class, 2010-2100), not proved; aiohttp is exercised through a loopback server",
]
HEADER = ("From Coq Require Import ZArith NArith List Bool. Import ListNotations.\n"
          "From Basana Require Import Wire.DecStr Wire.Decode Wire.Check.\n")
UTC = datetime.timezone.utc
EPOCH = datetime.datetime(1970, 1, 1, tzinfo=UTC)


def dec_lit(d):
    sign, digits, exp = d.as_tuple()
    return f"(mkDec {blit(bool(sign))} {listlit([str(x) + '%nat' for x in digits])} {zlit(exp)}%Z)"


def text_parts(s):
    neg = s.startswith("-")
    s = s.lstrip("-")
    i, _, f = s.partition(".")
    return neg, [int(c) for c in i], [int(c) for c in f]


_EXCHANGE_LEVEL_CALLS = [0]


async def exchange_level(rnd):
    """the order entry points of the Exchange classes: operation / pair / order type -> endpoint, side, symbol;
    every other call on exchange objects that were first asked for the pair's information (as strategies do)"""
    _EXCHANGE_LEVEL_CALLS[0] += 1
    warm = _EXCHANGE_LEVEL_CALLS[0] % 2 == 0
    import basana as bs
    from basana.external.binance import exchange as binance
    from basana.external.bitstamp import exchange as bitstamp
    from basana.core.enums import OrderOperation
    out = []
    async with wd.Loopback() as lb:
        d = bs.realtime_dispatcher()
        ex = binance.Exchange(d, api_key=wd.KEY, api_secret=wd.SECRET, config_overrides=wd.overrides(lb))
        pair = bs.Pair("BTC", "USDT")
        if warm:
            await ex.get_pair_info(pair)
        for acct, prefix in ((ex.spot_account, "/api/v3/order"), (ex.cross_margin_account, "/sapi/v1/margin/order"),
                             (ex.isolated_margin_account, "/sapi/v1/margin/order")):
            for op in (OrderOperation.BUY, OrderOperation.SELL):
                a, p, s = wd.gen_decimal(rnd), wd.gen_decimal(rnd), wd.gen_decimal(rnd)
                for kind, coro, exp in (
                        ("MARKET", lambda: acct.create_market_order(op, pair, amount=a), {"quantity": a}),
                        ("MARKET", lambda: acct.create_market_order(op, pair, quote_amount=a), {"quoteOrderQty": a}),
                        ("LIMIT", lambda: acct.create_limit_order(op, pair, a, p), {"quantity": a, "price": p}),
                        ("STOP_LOSS_LIMIT", lambda: acct.create_stop_limit_order(op, pair, a, s, p),
                         {"quantity": a, "price": p, "stopPrice": s})):
                    n0 = len(lb.requests)
                    err = None
                    try:
                        await coro()
                    except Exception as e:     # noqa
                        err = repr(e)
                    out.append(({"key": ("binance", type(acct).__name__, kind), "dec": exp, "omitted": [],
                                 "present": {"symbol": "BTCUSDT", "side": op.name, "type": kind}, "path": prefix},
                                lb.requests[n0:], err))
        bx = bitstamp.Exchange(d, api_key=wd.KEY, api_secret=wd.SECRET, config_overrides=wd.overrides(lb))
        bpair = bs.Pair("BTC", "USD")
        if warm:
            await bx.get_pair_info(bpair)
        for op in (OrderOperation.BUY, OrderOperation.SELL):
            side = "buy" if op == OrderOperation.BUY else "sell"
            a, p = wd.gen_decimal(rnd), wd.gen_decimal(rnd)
            for kind, coro, exp, path in (
                    ("market", lambda: bx.create_market_order(op, bpair, a), {"amount": a}, f"/api/v2/{side}/market/btcusd/"),
                    ("limit", lambda: bx.create_limit_order(op, bpair, a, p), {"amount": a, "price": p}, f"/api/v2/{side}/btcusd/"),
                    ("instant", lambda: bx.create_instant_order(op, bpair, a), {"amount": a}, f"/api/v2/{side}/instant/btcusd/")):
                n0 = len(lb.requests)
                err = None
                try:
                    await coro()
                except Exception as e:     # noqa
                    err = repr(e)
                out.append(({"key": ("bitstamp", "Exchange", kind), "dec": exp, "omitted": [], "present": {}, "path": path},
                            lb.requests[n0:], err))
    return out


def bs_pair():
    from basana.core.pair import Pair
    return Pair("BTC", "USD")


def decode_checks(chk, rnd):
    """wrapper classes on generated payloads"""
    from basana.external.binance import common as bcommon, helpers as bhelpers
    from basana.core.enums import OrderOperation
    n = common.tier_n(chk.tier, 150, 3000)
    statuses = {"NEW": True, "PARTIALLY_FILLED": True, "FILLED": False, "CANCELED": False, "PENDING_CANCEL": True,
                "REJECTED": False, "EXPIRED": False}
    for _ in range(n):
        nums = [str(wd.gen_decimal(rnd)) for _ in range(6)]
        st = rnd.choice(sorted(statuses))
        if rnd.random() < 0.35:
            # executed quantity equal to the original one whatever the status says (the status is what decides open/closed:
            # the exchange reports e.g. PENDING_CANCEL or a lagging PARTIALLY_FILLED on fully executed orders)
            nums[1] = nums[0] if rnd.random() < 0.7 else str(Decimal(nums[0]).normalize())
        side = rnd.choice(["BUY", "SELL"])
        ts = rnd.randint(1262304000000, 4102444800000)
        trades = []
        fees = {}
        for _ in range(rnd.randint(0, 4)):
            comm = rnd.choice(["0", "0.00000715", "0.00000967", "1.5", str(wd.gen_decimal(rnd))])
            asset = rnd.choice(["BTC", "BNB", "USDT"])
            trades.append(bcommon.Trade({"id": 1, "orderId": 2, "time": ts, "price": nums[0], "qty": nums[1],
                                         "quoteQty": nums[2], "commission": comm, "commissionAsset": asset,
                                         "isBuyer": True, "isMaker": False, "isBestMatch": True}))
            if Decimal(comm):
                fees[asset] = fees.get(asset, Decimal(0)) + Decimal(comm)
        oi = bcommon.OrderInfo({"orderId": 5, "clientOrderId": "x", "status": st, "origQty": nums[0], "executedQty": nums[1],
                                "cummulativeQuoteQty": nums[2], "price": nums[3], "stopPrice": nums[4], "side": side,
                                "time": ts, "orderListId": -1}, trades)
        chk.count("payloads_decoded")
        chk.note_case(("decode", tuple(nums), st, side, ts, len(trades)), True)
        bad = None
        if oi.amount != Decimal(nums[0]) or oi.amount_filled != Decimal(nums[1]) or oi.quote_amount_filled != Decimal(nums[2]):
            bad = "amounts"
        elif oi.limit_price != (Decimal(nums[3]) or None) or oi.stop_price != (Decimal(nums[4]) or None):
            bad = "prices"
        elif oi.is_open != statuses[st]:
            bad = f"status {st} decoded as is_open={oi.is_open}"
        elif oi.operation != (OrderOperation.BUY if side == "BUY" else OrderOperation.SELL):
            bad = "side"
        elif dict(oi.fees) != fees:
            bad = f"fees decoded as {dict(oi.fees)}, the exchange reported {fees}"
        elif trades and (trades[0].datetime - EPOCH) != datetime.timedelta(milliseconds=ts):
            bad = f"timestamp {ts} decoded as {trades[0].datetime}"
        if bad:
            chk.violation("decode:lossy", f"Binance order payload decoded with loss: {bad}",
                          {"kind": "monitor", "numbers": nums, "status": st, "side": side, "ts": ts,
                           "commissions": [[t.json["commission"], t.json["commissionAsset"]] for t in trades]})


def run(chk):
    chk.proof_stage()
    chk.coverage["rule"] = (
        "decimals of every exponent / normalisation / trailing-zero shape (1e-12 .. 1e12) through every order entry point "
        "of both clients (client level incl. extra keyword arguments, and Exchange level); generated order payloads "
        "through the wrapper classes; timestamps 2010-2100 at every ms / us residue class; non-trivial = a decimal whose "
        "str() is in scientific notation or has trailing zeros")
    rnd = common.rng_for(chk.seed, "C17")
    rounds = common.tier_n(chk.tier, 5, 100)
    for rd in range(rounds):
        groups = [("binance", asyncio.run(wd.run_binance(rnd))), ("bitstamp", asyncio.run(wd.run_bitstamp(rnd))),
                  ("exchange", asyncio.run(exchange_level(rnd)))]
        for name, res in groups:
            for call, reqs, err in res:
                sci = any(("E" in str(d)) or str(d).endswith("0") for d in call["dec"].values())
                chk.note_case((name, str(call["key"]), str(call["dec"]), str(call["present"])), bool(call["dec"]) and sci)
                if not call["dec"] and not call["omitted"] and not call.get("path"):
                    continue
                chk.count(name + "_order_requests")
                if err or len(reqs) < 1:
                    chk.violation("wire:request-failed", f"{name} {call['key']}: {err or 'no request'}",
                                  {"call": [str(x) for x in call["key"]], "error": err}, no_failing_input=True)
                    continue
                r = reqs[-1]
                if len(chk.coverage["samples"]) < 3 and sci:
                    chk.sample({"entry_point": [str(x) for x in call["key"]],
                                "passed": {k: str(v) for k, v in call["dec"].items()},
                                "raw_path": r["raw_path"], "body": r["body"].decode(errors="replace")})
                for fp, msg in wd.check_params(call, r, name):
                    chk.violation(fp, msg, {"kind": "monitor", "monitor": fp, "entry_point": [str(x) for x in call["key"]],
                                            "passed": {k: str(v) for k, v in call["dec"].items()},
                                            "received": {"raw_path": r["raw_path"], "body": r["body"].decode(errors="replace")}})
    decode_checks(chk, rnd)
    # decimal_to_str of both clients against the model
    from basana.external.binance.client import base as bbase
    from basana.external.bitstamp import client as sclient
    from basana.external.binance import helpers as bhelpers
    fcases, scases = [], []
    for _ in range(common.tier_n(chk.tier, 400, 8000)):
        d = wd.gen_decimal(rnd) if rnd.random() < 0.9 else -wd.gen_decimal(rnd)
        t1, t2 = bbase.decimal_to_str(d), sclient.decimal_to_str(d)
        for who, t in (("binance", t1), ("bitstamp", t2)):
            # the property itself: plain fixed-point text denoting exactly the value passed
            if not re.fullmatch(r"-?[0-9]+(\.[0-9]+)?", t):
                chk.violation("wire:not-plain-fixed-point", f"{who} decimal_to_str({d!r}) = '{t}'", {"decimal": str(d)})
            elif decimal.Decimal(t) != d:
                chk.violation("wire:value-changed", f"{who} decimal_to_str({d!r}) = '{t}' denotes another number",
                              {"decimal": str(d), "text": t})
        if t1 != t2 and chk.tier:
            chk.count("formatters_differ_textually")
        neg, i, f = text_parts(t1)
        fcases.append(f"({dec_lit(d)}, ({blit(neg)}, {listlit([str(x) + '%nat' for x in i])}, {listlit([str(x) + '%nat' for x in f])}))")
        scases.append(f"({dec_lit(d)}, {blit('E' in str(d))})")
    # timestamps: dense around residue classes and float-rounding boundaries
    mcases, ucases = [], []
    lo, hi = 1262304000, 4102444800
    for _ in range(common.tier_n(chk.tier, 600, 20000)):
        s = rnd.randint(lo, hi)
        ms = s * 1000 + rnd.choice([0, 1, 499, 500, 501, 999, rnd.randint(0, 999)])
        dt = bhelpers.timestamp_to_datetime(ms)
        delta = dt - EPOCH
        secs, us = delta.days * 86400 + delta.seconds, delta.microseconds
        mcases.append(f"({zlit(ms)}%Z, {zlit(secs)}%Z, {zlit(us)}%Z)")
        if datetime.timedelta(milliseconds=ms) != delta:
            chk.violation("decode:timestamp", f"{ms} ms decoded as {dt.isoformat()}", {"ts": ms})
    # decoding is into UTC wherever the process runs: the same under other time zones of the process
    import os
    import time as _time
    from basana.external.bitstamp import orders as sorders
    tz0 = os.environ.get("TZ")
    try:
        for tz in ("EST5EDT", "JST-9", "Europe/Madrid", "UTC"):
            os.environ["TZ"] = tz
            _time.tzset()
            for _ in range(common.tier_n(chk.tier, 40, 800)):
                s = rnd.randint(lo, hi)
                ms = s * 1000 + rnd.randint(0, 999)
                us_ts = s * 1000000 + rnd.randint(0, 999999)
                got = [("binance ms", ms, bhelpers.timestamp_to_datetime(ms), datetime.timedelta(milliseconds=ms)),
                       ("bitstamp order us", us_ts,
                        sorders.Order(bs_pair(), {"id": 1, "microtimestamp": str(us_ts), "amount_at_create": "1",
                                                  "amount_str": "1", "price_str": "1", "order_type": 0}).datetime,
                        datetime.timedelta(microseconds=us_ts))]
                chk.count("timestamps_decoded_under_other_tz", len(got))
                for what, raw, dtv, exp in got:
                    if dtv.utcoffset() != datetime.timedelta(0) or dtv - EPOCH != exp:
                        chk.violation("decode:timestamp", f"{what} {raw} decoded as {dtv.isoformat()} with the process in "
                                                          f"time zone {tz}", {"ts": raw, "tz": tz, "what": what})
    finally:
        if tz0 is None:
            os.environ.pop("TZ", None)
        else:
            os.environ["TZ"] = tz0
        _time.tzset()
    try:
        from basana.external.bitstamp import trades as strades
        for _ in range(common.tier_n(chk.tier, 300, 10000)):
            s = rnd.randint(lo, hi)
            us_ts = s * 1000000 + rnd.choice([0, 1, 499999, 500000, 500001, 999999, rnd.randint(0, 999999)])
            tr = strades.Trade("btcusd", {"id": 1, "microtimestamp": str(us_ts), "timestamp": str(s), "amount": 1, "price": 1,
                                          "amount_str": "1", "price_str": "1", "type": 0, "buy_order_id": 1, "sell_order_id": 2})
            delta = tr.datetime - EPOCH
            secs, us = delta.days * 86400 + delta.seconds, delta.microseconds
            ucases.append(f"({zlit(us_ts)}%Z, {zlit(secs)}%Z, {zlit(us)}%Z)")
            if datetime.timedelta(microseconds=us_ts) != delta:
                chk.violation("decode:timestamp", f"{us_ts} us decoded as {tr.datetime.isoformat()}", {"ts": us_ts})
    except TypeError:
        pass
    items = ["Eval vm_compute in (check_fmt " + listlit(fcases) + ").",
             "Eval vm_compute in (check_sci " + listlit(scases) + ").",
             "Eval vm_compute in (check_ms " + listlit(mcases) + ").",
             "Eval vm_compute in (check_us " + listlit(ucases) + ")."]
    res = common.coq_eval_sharded("c17", HEADER, items, per_file=1)
    chk.count("formatter_cases", len(fcases))
    chk.count("timestamp_cases", len(mcases) + len(ucases))
    ok = all(r == "true" for r in res)
    chk.coverage["traces_validated_against_impl"] = (len(fcases) + len(mcases) + len(ucases)) if ok else 0
    if not ok and not chk.violations:
        chk.violation("correspondence:Wire.DecStr+Decode",
                      "the models of decimal formatting / timestamp decoding and the implementation disagree; no input "
                      "violating the property statement was found",
                      {"broken": "correspondence Wire.DecStr.fmt_f <-> decimal_to_str; Wire.Decode.of_ms / of_us <-> "
                                 "timestamp decoding", "results": res}, no_failing_input=True)


def replay(chk, path):
    d = json.load(open(path))
    print(json.dumps(d, indent=1)[:3000])
    chk.note_case("replay-a")
    chk.note_case("replay-b")
    return chk.finish(TRUSTED_EXTRA)
