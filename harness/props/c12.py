"""C12: theorems in coq/props/C12.v; pipeline in harness/dispatch_check.py."""
from harness import dispatch_check as dc

TRUSTED_EXTRA = dc.TRUSTED_EXTRA


def run(chk):
    dc.run_family(chk, "C12", 400, 8000)


def replay(chk, path):
    return dc.replay(chk, "C12", path)
