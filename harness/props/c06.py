"""C06: theorems in coq/props/C06.v; pipeline in harness/exchange_check.py."""
from harness import exchange_check as xc

TRUSTED_EXTRA = xc.TRUSTED_EXTRA
PLAN = [('mixed', 'medium', 60, 1500), ('loans', 'medium', 50, 1200), ('fees', 'small', 40, 800), ('boundary', 'small', 60, 1500), ('reconfig', 'small', 20, 300), ('cancelrepay', 'small', 20, 300), ('unpriceable', 'small', 24, 300), ('neginit', 'small', 24, 300)]


def run(chk):
    xc.run_family(chk, "C06", PLAN)


def replay(chk, path):
    return xc.replay(chk, "C06", path)
