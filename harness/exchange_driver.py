"""Drives the real backtesting exchange (basana.backtesting.exchange.Exchange under a real BacktestingDispatcher)
on a generated case, records every operation with the state observed through the public API, and renders the
same case as Gallina for the Coq model (Exchange/Model.v, Exchange/Obs.v).

A case is a JSON-serialisable dict:
  syms: [names]                    universe of symbols (index+1 = Coq positive)
  pairs: [[base, quote], ...]
  sym_prec: {sym: int}, pair_info: {"i": [bp, qp]} (index into pairs), default_pair: [bp, qp] | null
  fee: null | [pct, min]           liq: null | [limit_pct, impact_pct]
  lend: null | {"quote": sym, "default": cond|null, "conds": {sym: cond}}   cond = [isym, pct, period_s, min, req]
  initial: {sym: str}
  bars: [[pair_idx, when_s, o, h, l, c, v], ...]   (sorted by when_s; when_s integer seconds from T0)
  script: {"<bar index>": [action, ...]}           actions run in the strategy handler of that bar's derived event
     action = ["create", kind, op, pair_idx, amount, limit|null, stop|null, ab, ar]
            | ["cancel", order_ref] | ["loan", sym, amount] | ["repay", loan_ref] | ["list", pair_idx|null]
     order_ref / loan_ref: creation index (as the model numbers them); refs >= 9000 are unknown ids
"""
import asyncio
import datetime
import decimal
import json
import logging
from decimal import Decimal
from fractions import Fraction as F

from harness.common import qlit, zlit, blit, listlit

T0 = datetime.datetime(2020, 1, 1, tzinfo=datetime.timezone.utc)
EPOCH = datetime.datetime(1970, 1, 1, tzinfo=datetime.timezone.utc)


def us(dt):
    d = dt - EPOCH
    return (d.days * 86400 + d.seconds) * 1000000 + d.microseconds


def when_us(when_s):
    return us(T0) + int(round(float(when_s) * 1000000))


def D(x):
    return Decimal(str(x))


def fr(x):
    if isinstance(x, Decimal):
        if not x.is_finite():
            raise ValueError("non-finite decimal")
        return F(x)
    return F(x)


def err_code(e):
    from basana.backtesting import errors as bt_errors
    from basana.core import errors as core_errors
    if isinstance(e, bt_errors.NotEnoughBalance):
        return 1
    if isinstance(e, bt_errors.NotFound):
        return 3
    if isinstance(e, bt_errors.NoPrice):
        return 4
    if isinstance(e, AssertionError):
        return 5
    if isinstance(e, core_errors.Error):
        return 2
    return 9


def weight(i):
    k = i + 1
    return k * k * 31 + k * 17 + 7


def checksum(v):
    return sum((weight(i) * x for i, x in enumerate(v)), F(0))


class _LogSink(logging.Handler):
    """formats every record (message and time) and drops it"""

    def __init__(self):
        super().__init__(logging.DEBUG)
        self.setFormatter(logging.Formatter("%(asctime)s %(name)s %(message)s"))

    def emit(self, record):
        try:
            self.format(record)
        except Exception:      # noqa
            pass


_LOG_SINK = _LogSink()


class _ErrCatcher(logging.Handler):
    def __init__(self):
        super().__init__(level=logging.ERROR)
        self.errors = []

    def emit(self, record):
        msg = record.msg
        kw = getattr(msg, "kwargs", None)
        if isinstance(kw, dict) and "error" in kw:
            self.errors.append(kw["error"])
        elif record.exc_info and record.exc_info[1] is not None:
            self.errors.append(record.exc_info[1])


def case_variant(case):
    """a number fixed by the case's content: selects harness-side variations that the exchange must not be sensitive to"""
    import zlib
    return zlib.crc32(json.dumps([case["bars"][:4], case["initial"], case.get("profile")], sort_keys=True).encode())


def build_exchange(case, dispatcher):
    from basana.backtesting import exchange as bx, fees, liquidity, lending
    from basana.core.pair import Pair, PairInfo
    if case["fee"] is None:
        fee = fees.NoFee()
    else:
        pct, mn = D(case["fee"][0]), D(case["fee"][1])
        if case_variant(case) & 64 and pct == pct.to_integral_value() and mn == mn.to_integral_value():
            # whole numbers given as plain Python integers (Percentage(1), min_fee=5): the same scheme
            fee = fees.Percentage(int(pct), int(mn))
        else:
            fee = fees.Percentage(pct, mn)
    if case["liq"] is None:
        liq_factory = liquidity.InfiniteLiquidity
    else:
        lp, ip = D(case["liq"][0]), D(case["liq"][1])

        def liq_factory():
            return liquidity.VolumeShareImpact(volume_limit_pct=lp, price_impact=ip)
    if case["lend"] is None:
        lend = lending.NoLoans()
    else:
        def mk(c):
            return lending.MarginLoanConditions(
                interest_symbol=c[0], interest_percentage=D(c[1]),
                interest_period=datetime.timedelta(seconds=int(c[2])), min_interest=D(c[3]),
                margin_requirement=D(c[4]))
        lc = case["lend"]
        if case_variant(case) & 128:
            # a lending strategy derived from MarginLoans that keeps the conditions of each symbol itself and hands
            # them out through get_conditions(): the conditions in force are what that method returns
            class OwnConditions(lending.MarginLoans):
                def __init__(self, quote_symbol, default, by_symbol):
                    super().__init__(quote_symbol, default_conditions=None)
                    self._own_default, self._own = default, dict(by_symbol)

                def get_conditions(self, symbol):
                    ret = self._own.get(symbol, self._own_default)
                    if ret is None:
                        return super().get_conditions(symbol)          # raises "No lending conditions for ..."
                    return ret

                def set_conditions(self, symbol, conditions):
                    self._own[symbol] = conditions
            lend = OwnConditions(lc["quote"], None if lc["default"] is None else mk(lc["default"]),
                                 {s: mk(c) for s, c in lc["conds"].items()})
        else:
            lend = lending.MarginLoans(lc["quote"],
                                       default_conditions=None if lc["default"] is None else mk(lc["default"]))
            for s, c in lc["conds"].items():
                lend.set_conditions(s, mk(c))
    dp = None if case["default_pair"] is None else PairInfo(*case["default_pair"])
    if case["lend"] is not None and case_variant(case) & 2:
        # the lending configuration object served an earlier backtest (another exchange, another account) before this one
        import basana as bs
        bx.Exchange(bs.backtesting_dispatcher(), {s: D(v) for s, v in case["initial"].items()}, lending_strategy=lend)
    e = bx.Exchange(dispatcher, {s: D(v) for s, v in case["initial"].items()},
                    liquidity_strategy_factory=liq_factory, fee_strategy=fee, default_pair_info=dp,
                    lending_strategy=lend)
    e._verif_lend = lend
    for s, p in case["sym_prec"].items():
        e.set_symbol_precision(s, int(p))
    pairs = [Pair(b, q) for b, q in case["pairs"]]
    for i, pi in case["pair_info"].items():
        e.set_pair_info(pairs[int(i)], PairInfo(*pi))
    return e, pairs


class Trace:
    def __init__(self):
        self.steps = []      # dicts: op, reply, snap, vec
        self.events = []     # (when_us, order_idx, info)
        self.event_vec = []
        self.crash = None
        self.unobservable = False     # some state could not be observed through the public API (no model comparison)
        self.events2 = None           # what a second subscriber to the order events received (some cases)
        self.subscribers_agree = True


async def _run_case(case, max_concurrent=1):
    import basana as bs
    from basana.core import bar as core_bar, event as core_event
    from basana.backtesting import exchange as bx

    d = bs.backtesting_dispatcher(max_concurrent=max_concurrent)
    e, pairs = build_exchange(case, d)
    syms = case["syms"]
    tr = Trace()
    order_ids = []          # creation order -> real id
    loan_ids = []
    catcher = _ErrCatcher()
    dlog = logging.getLogger("basana.core.dispatcher")
    dlog.addHandler(catcher)
    old_level, old_prop = dlog.level, dlog.propagate
    dlog.propagate = False
    dlog.setLevel(logging.ERROR)

    async def refresh_ids():
        for info in await e.get_orders():
            if info.id not in order_ids:
                order_ids.append(info.id)
        try:
            infos = await e.get_loans()
            ids = [i.id for i in infos]
        except Exception:
            try:
                ids = list(e._loan_mgr._loans._items.keys())
            except AttributeError:
                # the container is not where it used to be: what the public API still tells (loans attached to orders)
                ids = [lid for info in await e.get_orders() for lid in info.loan_ids]
        for i in ids:
            if i not in loan_ids:
                loan_ids.append(i)

    async def snapshot():
        await refresh_ids()
        snap = {"balances": {}, "orders": [], "loans": [], "open": None}
        for s in syms:
            b = await e.get_balance(s)
            snap["balances"][s] = {"available": fr(b.available), "hold": fr(b.hold), "borrowed": fr(b.borrowed),
                                   "total": fr(b.total)}
        for info in await e.get_orders():
            fees = {k: fr(v) for k, v in info.fees.items()}
            snap["orders"].append({
                "idx": order_ids.index(info.id), "is_open": info.is_open, "op": info.operation.name,
                "amount": fr(info.amount), "filled": fr(info.amount_filled), "remaining": fr(info.amount_remaining),
                "qfilled": fr(info.quote_amount_filled), "fees": fees,
                "limit": None if info.limit_price is None else fr(info.limit_price),
                "stop": None if info.stop_price is None else fr(info.stop_price),
                "loans": sorted(loan_ids.index(l) for l in info.loan_ids)})
        for lid in loan_ids:
            try:
                li = await e.get_loan(lid)
                snap["loans"].append({
                    "idx": loan_ids.index(lid), "is_open": li.is_open, "sym": li.borrowed_symbol,
                    "amount": fr(li.borrowed_amount),
                    "outstanding": {k: fr(v) for k, v in li.outstanding_interest.items()},
                    "paid": {k: fr(v) for k, v in li.paid_interest.items()}, "error": None})
            except Exception as ex:
                snap["loans"].append({"idx": loan_ids.index(lid), "error": err_code(ex)})
        return snap

    def vec_of(reply, snap):
        v = list(reply)
        for s in syms:
            b = snap["balances"][s]
            v += [b["available"], b["hold"], b["borrowed"]]
        v.append(F(len(snap["orders"])))
        for o in snap["orders"]:
            pq = case["pairs"][case["_order_pairs"][o["idx"]]][1] if o["idx"] < len(case["_order_pairs"]) else None
            fee = sum(o["fees"].values(), F(0))
            v += [F(int(o["is_open"])), o["filled"], o["remaining"], o["qfilled"], fee,
                  F(-1) if o["limit"] is None else o["limit"], F(-1) if o["stop"] is None else o["stop"],
                  F(len(o["loans"]))] + [F(x) for x in o["loans"]]
        v.append(F(len(snap["loans"])))
        for ln in snap["loans"]:
            if ln.get("error") is not None and "is_open" not in ln:
                # get_loan itself failed: only the error is observable; encode like the model does for an open loan
                try:
                    raw = e._loan_mgr._loans.get(loan_ids[ln["idx"]])
                    v += [F(int(raw.is_open)), F(syms.index(raw.borrowed_symbol) + 1), fr(raw.borrowed_amount), F(-1),
                          sum((fr(x) for x in raw.paid_interest.values()), F(0))]
                except AttributeError:
                    # not reachable through the internals any more: the last public observation of this loan (a loan
                    # whose interest cannot be priced is open; symbol and amount never change)
                    seen = last_loan_obs.get(ln["idx"])
                    if seen is None:
                        tr.unobservable = True
                        v += [F(1), F(0), F(0), F(-1), F(0)]
                    else:
                        v += [F(1), F(syms.index(seen["sym"]) + 1), seen["amount"], F(-1), sum(seen["paid"].values(), F(0))]
            else:
                last_loan_obs[ln["idx"]] = ln
                v += [F(int(ln["is_open"])), F(syms.index(ln["sym"]) + 1), ln["amount"],
                      sum(ln["outstanding"].values(), F(0)) if ln["is_open"] else F(0),
                      sum(ln["paid"].values(), F(0))]
        return v

    case["_order_pairs"] = []      # creation index -> pair idx (filled as orders get accepted)
    lend_now = [case["lend"]]
    last_loan_obs = {}

    async def record(op, reply, extra=None):
        snap = await snapshot()
        step = {"op": op, "reply": reply, "snap": snap, "vec": vec_of(reply, snap)}
        if extra:
            step.update(extra)
        tr.steps.append(step)

    seen_primary = set()
    bar_index_by_id = {}
    on_fill_count = [0]

    async def post_sniffer(event):
        if isinstance(event, core_bar.BarEvent) and id(event) in bar_index_by_id and id(event) not in seen_primary:
            seen_primary.add(id(event))
            i = bar_index_by_id[id(event)]
            b = case["bars"][i]
            errs, catcher.errors = catcher.errors, []
            reply = [F(3), F(err_code(errs[0]))] if errs else [F(0)]
            await record(["bar", i], reply, {"bar": b})

    async def on_order_event(ev):
        await refresh_ids()
        info = ev.order
        tr.events.append((us(ev.when), order_ids.index(info.id) if info.id in order_ids else -1, info))
        acts = case.get("on_fill") or []
        if acts and info.amount_filled > 0 and on_fill_count[0] < len(acts):
            # a strategy reacting to its own fills (re-investing the proceeds, hedging on another pair)
            a = acts[on_fill_count[0]]
            on_fill_count[0] += 1
            await do_action(a)

    async def do_action(a):
        from basana.core.enums import OrderOperation
        kind = a[0]
        if case_variant(case) & 32:
            # a strategy that re-seeds the global random generator whenever it acts ("reproducible noise")
            import random as _random
            _random.seed(7)
        if kind == "spend":
            # a strategy that sizes its order from what get_balances() reports right now: a fraction of the available
            # quote currency at the given limit price.  What is recorded (and replayed by the model) is the request made.
            _, pi, num, den, limit = a
            try:
                bals = await e.get_balances()
                quote = pairs[pi].quote_symbol
                avail = bals[quote].available if quote in bals else Decimal(0)
                pinfo = await e.get_pair_info(pairs[pi])
                amount = (avail * Decimal(int(num)) / Decimal(int(den)) / D(limit)).quantize(
                    Decimal(1).scaleb(-pinfo.base_precision), rounding=decimal.ROUND_DOWN)
            except Exception as ex:       # noqa
                tr.crash = "get_balances / get_pair_info raised: %r" % (ex,)
                return
            a = ["create", "limit", "buy", pi, format(amount, "f"), limit, None, False, False]
            kind = "create"
        try:
            if kind == "create":
                _, k, op, pi, amount, limit, stop, ab, ar = a
                opn = OrderOperation.BUY if op == "buy" else OrderOperation.SELL
                pair = pairs[pi]
                if k == "market":
                    r = await e.create_market_order(opn, pair, D(amount), auto_borrow=ab, auto_repay=ar)
                elif k == "limit":
                    r = await e.create_limit_order(opn, pair, D(amount), D(limit), auto_borrow=ab, auto_repay=ar)
                elif k == "stop":
                    r = await e.create_stop_order(opn, pair, D(amount), D(stop), auto_borrow=ab, auto_repay=ar)
                else:
                    r = await e.create_stop_limit_order(opn, pair, D(amount), D(stop), D(limit), auto_borrow=ab,
                                                        auto_repay=ar)
                order_ids.append(r.id)
                case["_order_pairs"].append(pi)
                reply = [F(1), F(len(order_ids) - 1)]
            elif kind == "cancel":
                ref = a[1]
                oid = order_ids[ref] if ref < len(order_ids) else "no-such-order-%d" % ref
                await e.cancel_order(oid)
                reply = [F(0)]
            elif kind == "loan":
                li = await e.create_loan(a[1], D(a[2]))
                if li.id not in loan_ids:
                    await refresh_ids()
                reply = [F(1), F(loan_ids.index(li.id))]
            elif kind == "repay":
                ref = a[1]
                lid = loan_ids[ref] if ref < len(loan_ids) else "no-such-loan-%d" % ref
                await e.repay_loan(lid)
                reply = [F(0)]
            elif kind == "recond":
                # the margin requirement of a symbol changed by assigning to its (mutable) conditions object
                cond = e._verif_lend.get_conditions(a[1])
                cond.margin_requirement = D(a[2])
                import copy as _copy
                lc = _copy.deepcopy(lend_now[0])
                if a[1] in lc["conds"]:
                    lc["conds"][a[1]][4] = a[2]
                else:
                    lc["default"][4] = a[2]
                lend_now[0] = lc
                await record(a, [F(0)], {"lend_after": lc})
                return
            elif kind == "reconfig":
                # precision changed while the backtest runs (public setters of the exchange)
                from basana.core.pair import PairInfo
                if a[1] == "sym":
                    e.set_symbol_precision(a[2], int(a[3]))
                else:
                    e.set_pair_info(pairs[int(a[2])], PairInfo(int(a[3][0]), int(a[3][1])))
                reply = [F(0)]
                # what the exchange reports for every pair from now on
                infos = {}
                for pi2, pr in enumerate(pairs):
                    try:
                        pinfo = await e.get_pair_info(pr)
                        infos[pi2] = [pinfo.base_precision, pinfo.quote_precision]
                    except Exception:       # noqa
                        infos[pi2] = None
                await record(a, reply, {"pair_infos": infos})
                return
            elif kind == "list":
                pair = None if a[1] is None else pairs[a[1]]
                oo = await e.get_open_orders(pair)
                await refresh_ids()
                ids = [order_ids.index(o.id) for o in oo]
                reply = [F(2), F(len(ids))] + [F(i) for i in ids]
                # the other listings / filters of the public API against a brute-force filter of get_orders()
                allo = await e.get_orders()
                flt = []
                got = [order_ids.index(o.id) for o in await e.get_orders(is_open=True)]
                flt.append(("get_orders(is_open=True)", got, [order_ids.index(o.id) for o in allo if o.is_open]))
                got = [order_ids.index(o.id) for o in await e.get_orders(is_open=False)]
                flt.append(("get_orders(is_open=False)", got, [order_ids.index(o.id) for o in allo if not o.is_open]))
                for qi, qpair in enumerate(pairs):
                    got = [order_ids.index(o.id) for o in await e.get_orders(pair=qpair)]
                    exp = [order_ids.index(o.id) for o in allo
                           if order_ids.index(o.id) < len(case["_order_pairs"]) and
                           case["_order_pairs"][order_ids.index(o.id)] == qi]
                    flt.append((f"get_orders(pair={qi})", got, exp))
                    got = [order_ids.index(o.id) for o in await e.get_orders(pair=qpair, is_open=True)]
                    flt.append((f"get_orders(pair={qi}, is_open=True)", got,
                                [i for i in exp if allo[i].is_open] if len(allo) == len(order_ids) else got))
                await record(a, reply, {"listing": [(order_ids.index(o.id), fr(o.amount), fr(o.amount_filled),
                                                    o.operation.name) for o in oo], "filters": flt})
                return
            else:
                raise ValueError(kind)
        except Exception as ex:
            code = err_code(ex)
            reply = [F(3), F(code)]
            await record(a, reply, {"exc": repr(ex)})
            return
        await record(a, reply)

    bar_times = sorted({b[1] for b in case["bars"]})

    def make_handler(pi):
        async def on_bar(ev):
            i = bar_index_by_id.get(id(ev))
            acts = case["script"].get(str(i), [])
            later = [t for t in bar_times if i is not None and t > case["bars"][i][1]]
            if acts and later and case_variant(case) & 16 and i % 3 == 1:
                # "rebalance when the next bar closes": the actions are left to a job scheduled at the time of the next
                # bar event, which the dispatcher runs before it dispatches the events of that time
                async def job(acts=acts, t=later[0]):
                    await record(["tick", t], [F(0)])         # the clock is at the job's time, no bar of that time yet
                    for a in acts:
                        await do_action(a)
                d.schedule(T0 + datetime.timedelta(seconds=later[0]), job)
                return
            for a in acts:
                await do_action(a)
        return on_bar

    # subscriptions: strategy handlers first or after the bar sources, as the case says
    srcs = []
    for pi, pair in enumerate(pairs):
        evs = []
        for i, b in enumerate(case["bars"]):
            if b[0] != pi:
                continue
            # bar durations: one minute, or (in half of the cases) a feed mixing time frames, where a coarse bar that
            # began long ago is delivered after finer ones that began later - delivery time is what orders events
            dur = 3600 if (case_variant(case) & 1 and i % 3 == 2) else 60
            begin = T0 + datetime.timedelta(seconds=float(b[1]) - dur)
            when = T0 + datetime.timedelta(seconds=float(b[1]))
            bar = core_bar.Bar(begin, pair, D(b[2]), D(b[3]), D(b[4]), D(b[5]), D(b[6]))
            ev = core_bar.BarEvent(when, bar)
            bar_index_by_id[id(ev)] = i
            evs.append(ev)
        srcs.append((pair, core_event.FifoQueueEventSource(events=evs), evs))
    async def passive_subscriber(ev):
        return None

    def subscribe_pair(pi, pair):
        if case.get("handler_pairs") is not None and pi not in case["handler_pairs"]:
            return
        # some pairs have a second, passive subscriber (a logger) registered before the strategy's handler
        if pi in case.get("extra_subs", []):
            e.subscribe_to_bar_events(pair, passive_subscriber)
        e.subscribe_to_bar_events(pair, make_handler(pi))

    if case.get("order_events_first", False):
        # the strategy subscribes to its order events before anything else: that source comes first in every pass
        e.subscribe_to_order_events(on_order_event)
    if case.get("subscribe_first", False):
        for pi, pair in enumerate(pairs):
            subscribe_pair(pi, pair)
    if case.get("merged_source", False):
        # one feed carrying the bars of every pair (events of one source: non-decreasing in time, ties kept in case order)
        allev = sorted((ev for _, _, evs in srcs for ev in evs), key=lambda ev: (ev.when, bar_index_by_id[id(ev)]))
        merged = core_event.FifoQueueEventSource(events=allev)
        srcs.append((None, merged, allev))
        e.add_bar_source(merged)
    else:
        for pair, src, _ in srcs:
            e.add_bar_source(src)
    if not case.get("subscribe_first", False):
        for pi, pair in enumerate(pairs):
            subscribe_pair(pi, pair)
    if case_variant(case) & 8:
        # a second subscriber to the order events (a journal next to the strategy), registered first
        tr.events2 = []

        async def journal(ev):
            tr.events2.append((us(ev.when), ev.order.id, ev.order.is_open, ev.order.amount_filled))
        e.subscribe_to_order_events(journal)
    if not case.get("order_events_first", False):
        e.subscribe_to_order_events(on_order_event)
    d.subscribe_all(post_sniffer, front_run=False)
    try:
        await d.run(stop_signals=[])
    finally:
        dlog.removeHandler(catcher)
        dlog.propagate = old_prop
        dlog.setLevel(old_level)
    ev_vec = []
    for (w, idx, info) in tr.events:
        fee = sum((fr(x) for x in info.fees.values()), F(0))
        ev_vec += [F(w), F(idx), F(int(info.is_open)), fr(info.amount_filled), fr(info.quote_amount_filled), fee]
    tr.event_vec = ev_vec
    if tr.events2 is not None:
        mine = [(w, info.id, info.is_open, info.amount_filled) for (w, idx, info) in tr.events]
        tr.subscribers_agree = mine == tr.events2
    tr.exchange = e
    tr._keep = srcs
    return tr


def run_case(case, prec=28, max_concurrent=1, rounding=None):
    """Run the real exchange. Returns a Trace."""
    import copy
    case = copy.deepcopy(case)
    ctx = decimal.getcontext()
    old, old_rounding = ctx.prec, ctx.rounding
    ctx.prec = prec
    if rounding is not None:
        ctx.rounding = rounding
    lg = logging.getLogger("basana")
    if case_variant(case) & 4 or case.get("debug_log"):
        # a quarter of the cases run with the library's logging fully on (DEBUG), into a sink that formats every record
        lg.setLevel(logging.DEBUG)
        lg.propagate = False
        if _LOG_SINK not in lg.handlers:
            lg.addHandler(_LOG_SINK)
    else:
        lg.setLevel(logging.CRITICAL + 1)
    from basana.core import helpers as core_helpers
    orig_round = core_helpers.round_decimal
    if rounding is not None:
        # the directed context rounding is meant for inexact arithmetic only: round_decimal() called without a
        # rounding mode keeps the default mode of the decimal module it relies on
        def round_decimal(value, precision, rounding=None):
            return orig_round(value, precision, rounding if rounding is not None else decimal.ROUND_HALF_EVEN)
        core_helpers.round_decimal = round_decimal
    try:
        tr = asyncio.run(_run_case(case, max_concurrent=max_concurrent))
    finally:
        ctx.prec = old
        ctx.rounding = old_rounding
        core_helpers.round_decimal = orig_round
    tr.case = case
    if tr.crash:
        raise RuntimeError(tr.crash)
    return tr


def expected_sums(tr):
    return [checksum(s["vec"]) for s in tr.steps] + [checksum(tr.event_vec)]


def run_exact(case):
    """Runs at the default decimal context (28 digits, half-even) and at 100 digits with the context rounding every
    inexact operation down, then up; returns (trace28, exact?).  The three runs observe the same values exactly when
    no inexact decimal operation (a division by a price, say) influenced anything observable -- also when the exact
    value sits on a truncation boundary, where two precisions alone would agree with each other and not with the
    exact rational arithmetic of the model."""
    t28 = run_case(case, 28)
    ref = expected_sums(t28)
    exact = True
    for rounding in (decimal.ROUND_FLOOR, decimal.ROUND_CEILING):
        if expected_sums(run_case(case, 100, rounding=rounding)) != ref:
            exact = False
            break
    return t28, exact


# ------------------------------------------------------------------------------------------------
# Gallina rendering

def g_sym(case, s):
    return str(case["syms"].index(s) + 1) + "%positive"


def g_pair(case, pi):
    b, q = case["pairs"][pi]
    return f"({g_sym(case, b)}, {g_sym(case, q)})"


def g_cond(case, c):
    return (f"(mkCond {g_sym(case, c[0])} {qlit(F(D(c[1])))} {zlit(int(c[2]) * 1000000)}%Z {qlit(F(D(c[3])))} "
            f"{qlit(F(D(c[4])))})")


def g_cfg(case):
    sp = listlit([f"({g_sym(case, s)}, {int(p)}%nat)" for s, p in case["sym_prec"].items()])
    pi = listlit([f"({g_pair(case, int(i))}, ({int(v[0])}%nat, {int(v[1])}%nat))" for i, v in case["pair_info"].items()])
    dp = "None" if case["default_pair"] is None else f"(Some ({int(case['default_pair'][0])}%nat, {int(case['default_pair'][1])}%nat))"
    fee = "NoFee" if case["fee"] is None else f"(PctFee {qlit(F(D(case['fee'][0])))} {qlit(F(D(case['fee'][1])))})"
    liq = "InfLiq" if case["liq"] is None else f"(VolShare {qlit(F(D(case['liq'][0])))} {qlit(F(D(case['liq'][1])))})"
    lend = g_lend(case, case["lend"])
    return f"(mkCfg {sp} {pi} {dp} {fee} {liq} {lend})"


def g_lend(case, lc):
    if lc is None:
        return "NoLoans"
    dflt = "None" if lc["default"] is None else f"(Some {g_cond(case, lc['default'])})"
    conds = listlit([f"({g_sym(case, s)}, {g_cond(case, c)})" for s, c in lc["conds"].items()])
    return f"(Margin {g_sym(case, lc['quote'])} {dflt} {conds})"


def g_op(case, step):
    op = step["op"]
    if op[0] == "bar":
        b = step["bar"]
        return (f"(OBar {g_pair(case, b[0])} {zlit(when_us(b[1]))}%Z (mkBar {qlit(F(D(b[2])))} {qlit(F(D(b[3])))} "
                f"{qlit(F(D(b[4])))} {qlit(F(D(b[5])))} {qlit(F(D(b[6])))}))")
    if op[0] == "create":
        _, k, o, pi, amount, limit, stop, ab, ar = op
        kind = {"market": "KMarket", "limit": f"(KLimit {qlit(F(D(limit))) if limit is not None else ''})",
                "stop": f"(KStop {qlit(F(D(stop))) if stop is not None else ''})",
                "stoplimit": f"(KStopLimit {qlit(F(D(stop))) if stop is not None else ''} "
                             f"{qlit(F(D(limit))) if limit is not None else ''})"}[k]
        return (f"(OCreate {kind} {'Buy' if o == 'buy' else 'Sell'} {g_pair(case, pi)} {qlit(F(D(amount)))} "
                f"{blit(ab)} {blit(ar)})")
    if op[0] == "cancel":
        return f"(OCancel {int(op[1])}%nat)"
    if op[0] == "loan":
        return f"(OLoan {g_sym(case, op[1])} {qlit(F(D(op[2])))})"
    if op[0] == "repay":
        return f"(ORepay {int(op[1])}%nat)"
    if op[0] == "list":
        return "(OListOpen None)" if op[1] is None else f"(OListOpen (Some {g_pair(case, op[1])}))"
    raise ValueError(op)


def has_reconfig(tr):
    """does the history need the extended layer of the model (precision setters, clock ticks of scheduled jobs)?"""
    return any(s["op"][0] in ("reconfig", "tick", "recond") for s in tr.steps)


def g_xop(case, step):
    op = step["op"]
    if op[0] == "tick":
        return f"(XTick {zlit(when_us(op[1]))}%Z)"
    if op[0] == "recond":
        return f"(XLend {g_lend(case, step['lend_after'])})"
    if op[0] == "reconfig":
        if op[1] == "sym":
            return f"(XSymPrec {g_sym(case, op[2])} {int(op[3])}%nat)"
        return f"(XPairInfo {g_pair(case, int(op[2]))} ({int(op[3][0])}%nat, {int(op[3][1])}%nat))"
    return f"(XOp {g_op(case, step)})"


def g_case_args(case, tr):
    syms = listlit([str(i + 1) + "%positive" for i in range(len(case["syms"]))])
    init = listlit([f"({g_sym(case, s)}, {qlit(F(D(v)))})" for s, v in case["initial"].items()])
    ops = listlit([(g_xop if has_reconfig(tr) else g_op)(case, s) for s in tr.steps])
    return g_cfg(case), syms, init, ops


def coq_check_item(case, tr):
    cfg, syms, init, ops = g_case_args(case, tr)
    expd = listlit([qlit(x) for x in expected_sums(tr)])
    fn = "check_xcase" if has_reconfig(tr) else "check_case"
    return f"Eval vm_compute in ({fn} {cfg} {syms} {init} {ops} {expd})."


def coq_trace_item(case, tr, k):
    cfg, syms, init, ops = g_case_args(case, tr)
    fn = "trace_xcase" if has_reconfig(tr) else "trace_case"
    return f"Eval vm_compute in ({fn} {cfg} {syms} {init} {ops} {int(k)}%nat)."


EX_HEADER = ("From Coq Require Import ZArith QArith List PArith. Import ListNotations. Open Scope Q_scope.\n"
             "From Basana Require Import Num.DecQ Exchange.Model Exchange.Obs Exchange.Reconfig.\n")
