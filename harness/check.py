"""Entry point: ./check <id> [--tier quick|thorough] [--replay file]"""
import argparse
import asyncio
import importlib
import os
import sys
import traceback

from harness import common


def main():
    ap = argparse.ArgumentParser()
    ap.add_argument("prop")
    ap.add_argument("--tier", default=os.environ.get("VERIF_TIER", "quick"), choices=["quick", "thorough"])
    ap.add_argument("--replay", default=None)
    args = ap.parse_args()
    pid = args.prop.upper()
    common.ensure_repo_on_path()
    mod = importlib.import_module("harness.props." + pid.lower())
    chk = common.Check(pid, args.tier)
    try:
        if args.replay:
            return mod.replay(chk, args.replay)
        mod.run(chk)
    except (Exception, asyncio.CancelledError):
        # a crash of the machinery itself must not look like a pass
        tb = traceback.format_exc()
        print(tb, file=sys.stderr)
        chk.violation("harness-crash", "the check itself crashed; nothing was decided",
                      {"traceback": tb}, no_failing_input=True)
    return chk.finish(getattr(mod, "TRUSTED_EXTRA", ()), getattr(mod, "EXPLANATION", None))


if __name__ == "__main__":
    sys.exit(main())
