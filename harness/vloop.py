"""An asyncio event loop whose clock jumps to the next timer instead of sleeping (virtual time)."""
import asyncio
import selectors


class Livelock(RuntimeError):
    """the loop went round a very large number of times without the virtual clock moving and without finishing:
    something is spinning (e.g. a wait on tasks that are already done)"""


SPIN_LIMIT = 400000


class VirtualTimeLoop(asyncio.SelectorEventLoop):
    def __init__(self, start=0.0):
        super().__init__(selectors.SelectSelector())
        self._vt = start
        self._orig_select = self._selector.select
        self._selector.select = self._vselect
        self._spins = 0

    def time(self):
        return self._vt

    def _vselect(self, timeout=None):
        if timeout is not None and timeout > 0:
            self._vt += timeout
            self._spins = 0
        else:
            self._spins += 1
            if self._spins > SPIN_LIMIT:
                self._spins = 0
                raise Livelock(f"{SPIN_LIMIT} loop iterations at virtual time {self._vt} without progress")
        return self._orig_select(0)


def run_virtual(coro_fn, *args, **kwargs):
    loop = VirtualTimeLoop()
    try:
        asyncio.set_event_loop(loop)
        return loop.run_until_complete(coro_fn(loop, *args, **kwargs))
    finally:
        try:
            pending = [t for t in asyncio.all_tasks(loop) if not t.done()]
            for t in pending:
                t.cancel()
            if pending:
                try:
                    loop.run_until_complete(asyncio.gather(*pending, return_exceptions=True))
                except Livelock:
                    pass
        finally:
            asyncio.set_event_loop(None)
            loop.close()
