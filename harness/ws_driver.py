"""C18 driver: the real websocket clients (generic core client, Binance, Bitstamp public / private) with an injected
session whose ws_connect() yields a scripted socket, on a virtual-time loop."""
import asyncio
import datetime
import json
import types

import aiohttp

from harness import vloop
from harness.common import listlit

T0 = datetime.datetime(2024, 6, 1, tzinfo=datetime.timezone.utc)


class FakeWS:
    """what the client sees of one connection"""

    def __init__(self, hub, idx, script):
        self.hub, self.idx, self.script = hub, idx, list(script)
        self._closed = False
        self._close_ev = asyncio.Event()
        self.close_code = None                  # what aiohttp's ClientWebSocketResponse exposes after a close frame

    @property
    def closed(self):
        return self._closed

    async def send_str(self, data):
        if self._closed:
            raise ConnectionResetError("socket closed")
        self.hub.log.append(("frame", self.idx, self.hub.now(), json.loads(data)))

    async def close(self):
        self._closed = True
        self._close_ev.set()

    def __aiter__(self):
        return self

    async def __anext__(self):
        while True:
            if self._closed:
                raise StopAsyncIteration
            if not self.script:
                await self._close_ev.wait()          # idle connection: stays up until the client closes it
                raise StopAsyncIteration
            step = self.script.pop(0)
            kind = step[0]
            if kind == "delay":
                try:
                    await asyncio.wait_for(self._close_ev.wait(), timeout=step[1])
                    raise StopAsyncIteration
                except asyncio.TimeoutError:
                    continue
            if kind in ("binmsg", "binexpire"):
                m = self.hub.resolve(step)
                if m is None:
                    continue
                step = ("msg", m)
                kind = "msg"
            if kind == "msg":
                self.hub.log.append(("server_msg", self.idx, self.hub.now(), step[1]))
                return aiohttp.WSMessage(aiohttp.WSMsgType.TEXT, json.dumps(step[1]), None)
            if kind == "garbage":
                self.hub.log.append(("server_garbage", self.idx, self.hub.now()))
                return aiohttp.WSMessage(aiohttp.WSMsgType.TEXT, "{not json", None)
            if kind == "binary":
                return aiohttp.WSMessage(aiohttp.WSMsgType.BINARY, b"\x00\x01", None)
            if kind == "close":
                self._closed = True
                if len(step) > 1:
                    self.close_code = step[1]       # 1000 normal, 1001 going away, 1012 service restart, 1011 ...
                self.hub.log.append(("server_close", self.idx, self.hub.now()))
                raise StopAsyncIteration
            if kind == "wserror":
                # a protocol-level fault as aiohttp reports it (unanswered heartbeat, invalid UTF-8, oversized frame):
                # one message of type ERROR, after which the connection is gone
                self._closed = True
                self.hub.log.append(("server_drop", self.idx, self.hub.now()))
                return aiohttp.WSMessage(aiohttp.WSMsgType.ERROR, RuntimeError("protocol error"), None)
            if kind == "drop":
                self._closed = True
                self.hub.log.append(("server_drop", self.idx, self.hub.now()))
                raise ConnectionResetError("connection dropped")
            raise ValueError(kind)


class Hub:
    """fake aiohttp session + the log"""

    def __init__(self, loop, scripts, connect_failures=()):
        self.loop, self.scripts = loop, list(scripts)
        self.log = []
        self.n_conn = 0
        self.connect_failures = set(connect_failures)
        self.sockets = []
        self.resolve = lambda step: None

    def now(self):
        return round(self.loop.time(), 6)

    def ws_connect(self, url, heartbeat=None, **kw):
        hub = self

        class Ctx:
            async def __aenter__(self_inner):
                attempt = sum(1 for r in hub.log if r[0] in ("connect", "connect_failed"))
                if attempt in hub.connect_failures:
                    hub.log.append(("connect_failed", hub.now()))
                    raise aiohttp.ClientConnectionError("cannot connect")
                idx = hub.n_conn
                hub.n_conn += 1
                hub.log.append(("connect", hub.now(), idx))
                script = hub.scripts[idx] if idx < len(hub.scripts) else []
                ws = FakeWS(hub, idx, script)
                hub.sockets.append(ws)
                return ws

            async def __aexit__(self_inner, *a):
                hub.log.append(("disconnect", hub.now(), len(hub.sockets) - 1))
                hub.sockets[-1]._closed = True
                return False
        return Ctx()


class Recorder:
    """mixin for channel event sources"""

    def __init__(self, hub, name):
        self.hub, self.name = hub, name


def make_source(core_ws, hub, name, producer):
    class Src(core_ws.ChannelEventSource):
        async def push_from_message(self, message):
            hub.log.append(("event", name, hub.now(), message))
    return Src(producer)


# ------------------------------------------------------------------------------------------------
# adapters

class GenericAdapter:
    kind = "generic"

    def make(self, hub, sc):
        from basana.core import websockets as core_ws
        adapter = self

        class Client(core_ws.WebSocketClient):
            async def subscribe_to_channels(self, channels, ws_cli):
                hub.log.append(("sub_enter", hub.now(), sorted(channels)))
                if sc.get("sub_delay"):
                    await asyncio.sleep(sc["sub_delay"])       # a handshake that takes time
                await ws_cli.send_str(json.dumps({"sub": sorted(channels)}))
                hub.log.append(("sub_exit", hub.now(), sorted(channels)))

            async def handle_message(self, message):
                if message.get("reconnect"):
                    self.schedule_reconnection()
                    return True
                if message.get("expire"):
                    self.schedule_resubscription([message["expire"]])
                    return True
                src = self.get_channel_event_source(message.get("channel", ""))
                if src:
                    await src.push_from_message(message)
                    return True
                return False

            async def on_error(self, error):
                hub.log.append(("on_error", hub.now(), repr(error)[:80]))
        self.core_ws = core_ws
        cli = Client("ws://fake/", session=hub, heartbeat=30)
        cli.backoff_secs = sc.get("backoff", 1)
        return cli

    def register(self, cli, hub, name):
        cli.set_channel_event_source(name, make_source(self.core_ws, hub, name, cli))

    def frame_channels(self, frame):
        return frame.get("sub", [])

    def channel_msg(self, name, n):
        return {"channel": name, "n": n}

    def special(self, what, name=None):
        return {"reconnect": {"reconnect": True}, "expire": {"expire": name}, "error": {"error": "nope"},
                "unknown": {"channel": "nobody", "x": 1}}[what]

    def msg_channel(self, message):
        return message.get("channel")


class BitstampAdapter:
    def __init__(self, private=False):
        self.private = private
        self.kind = "bitstamp_private" if private else "bitstamp_public"

    def make(self, hub, sc):
        from basana.core import websockets as core_ws
        from basana.external.bitstamp import websockets as bws
        self.core_ws = core_ws
        if not self.private:
            base = bws.PublicWebSocketClient
            cli = None
        else:
            base = bws.PrivateWebSocketClient

        class Client(base):
            async def subscribe_to_channels(self, channels, ws_cli):
                hub.log.append(("sub_enter", hub.now(), sorted(channels)))
                await super().subscribe_to_channels(channels, ws_cli)
                hub.log.append(("sub_exit", hub.now(), sorted(channels)))

            async def on_error(self, error):
                hub.log.append(("on_error", hub.now(), repr(error)[:80]))
        if self.private:
            cli = Client("k", "s", session=hub)

            class FakeApi:
                async def get_websocket_auth_token(self_inner):
                    hub.log.append(("auth_token", hub.now()))
                    if sc.get("sub_delay"):
                        await asyncio.sleep(sc["sub_delay"])
                    return {"token": "tok", "user_id": 42}
            # the token request goes to the fake API: through the client object the websocket client holds, and -- should
            # that object live under another name -- through the public method of its class
            if hasattr(cli, "_client"):
                cli._client = FakeApi()
            else:
                from basana.external.bitstamp import client as bclient_mod

                async def fake_token(self_inner, *a, **k):
                    return await FakeApi().get_websocket_auth_token()
                bclient_mod.APIClient.get_websocket_auth_token = fake_token
        else:
            cli = Client(session=hub)
        cli.backoff_secs = sc.get("backoff", 1)
        return cli

    def register(self, cli, hub, name):
        cli.set_channel_event_source(name, make_source(self.core_ws, hub, name, cli))

    def frame_channels(self, frame):
        if frame.get("event") != "bts:subscribe":
            return []
        ch = frame["data"]["channel"]
        if self.private and ch.endswith("-42"):
            ch = ch[:-3]
        return [ch]

    def channel_msg(self, name, n):
        return {"event": "trade", "channel": name, "data": {"n": n}}

    def special(self, what, name=None):
        return {"reconnect": {"event": "bts:request_reconnect", "channel": "", "data": ""},
                "expire": None, "error": {"event": "bts:error", "channel": "", "data": {"code": None, "message": "x"}},
                "unknown": {"event": "whatever", "channel": "nobody", "data": {}}}[what]

    def msg_channel(self, message):
        return message.get("channel")


class BinanceAdapter:
    kind = "binance"

    def make(self, hub, sc):
        from basana.core import websockets as core_ws
        from basana.external.binance import websockets as bws, spot
        self.core_ws, self.bws, self.spot = core_ws, bws, spot
        self.channels = {}
        adapter = self
        fail_keys = list(sc.get("listen_key_failures", []))
        self.key_counter = [0]

        class FakeSpot:
            async def create_listen_key(self_inner):
                n = adapter.key_counter[0]
                adapter.key_counter[0] += 1
                if n in fail_keys:
                    hub.log.append(("listenkey_failed", hub.now()))
                    how = sc.get("listen_key_error", "runtime")
                    if isinstance(how, int):
                        # the exchange answered with an HTTP error (401 / 403 are also what a throttling front end
                        # answers for a while): the client library's own exception
                        from basana.external.binance import client as bclient
                        resp = types.SimpleNamespace(status=how, reason="error %d" % how)
                        raise bclient.Error("listen key creation failed", -2015, resp, {"code": -2015, "msg": "x"})
                    if how == "timeout":
                        raise asyncio.TimeoutError()
                    if how == "conn":
                        raise ConnectionResetError("connection reset by peer")
                    raise RuntimeError("listen key creation failed")
                hub.log.append(("listenkey", hub.now(), "lk%d" % n))
                return {"listenKey": "lk%d" % n}

            async def keep_alive_listen_key(self_inner, key):
                hub.log.append(("keepalive", hub.now(), key))
                return {}
        api = types.SimpleNamespace(spot_account=FakeSpot())

        class FakeDispatcher:
            def now(self_inner):
                return T0 + datetime.timedelta(seconds=hub.loop.time())

            def schedule(self_inner, when, job):
                due = (when - T0).total_seconds()
                hub.log.append(("job_scheduled", hub.now(), round(due, 6)))

                async def runner():
                    delay = due - hub.loop.time()
                    if delay > 0:
                        await asyncio.sleep(delay)
                    try:
                        await job()
                    except Exception as e:      # noqa
                        hub.log.append(("job_error", hub.now(), repr(e)[:60]))
                asyncio.ensure_future(runner())

        class Client(bws.WebSocketClient):
            async def subscribe_to_channels(self, channel_aliases, ws_cli):
                hub.log.append(("sub_enter", hub.now(), sorted(channel_aliases)))
                await super().subscribe_to_channels(channel_aliases, ws_cli)
                hub.log.append(("sub_exit", hub.now(), sorted(channel_aliases)))

            async def on_error(self, error):
                hub.log.append(("on_error", hub.now(), repr(error)[:80]))
        overrides = {"api": {"websockets": {"spot": {"user_data_stream": {"heartbeat": sc.get("keepalive", 100)}}}}}
        cli = Client(FakeDispatcher(), api, session=hub, config_overrides=overrides)
        cli.backoff_secs = sc.get("backoff", 1)
        return cli

    def register(self, cli, hub, name):
        if name == "user":
            ch = self.spot.SpotUserDataChannel()
        else:
            ch = self.bws.PublicChannel(name)
        self.channels[name] = ch
        cli.set_channel_event_source_ex(ch, make_source(self.core_ws, hub, ch.alias, cli))

    def alias(self, name):
        return "spot_user_data" if name == "user" else name

    def frame_channels(self, frame):
        if frame.get("method") != "SUBSCRIBE":
            return []
        out = []
        for st in frame["params"]:
            out.append("spot_user_data" if st.startswith("lk") else st)
        return out

    def channel_msg(self, name, n, key=None):
        stream = key if name == "user" else name
        return {"stream": stream, "data": {"e": "trade", "n": n}}

    def special(self, what, name=None, key=None):
        return {"reconnect": None, "expire": {"stream": key, "data": {"e": "listenKeyExpired"}},
                "error": {"result": "bad", "id": 1}, "unknown": {"foo": 1}}[what]

    def msg_channel(self, message):
        st = message.get("stream")
        return "spot_user_data" if st and st.startswith("lk") else st


# ------------------------------------------------------------------------------------------------
async def _run(loop, sc, adapter):
    from basana.core import websockets as core_ws
    saved = core_ws.time
    core_ws.time = types.SimpleNamespace(time=lambda: loop.time() + 1000.0)
    hub = Hub(loop, sc["scripts"], sc.get("connect_failures", ()))
    try:
        cli = adapter.make(hub, sc)
        if adapter.kind == "binance":
            def resolve(step):
                key = "lk%d" % (adapter.key_counter[0] - 1) if adapter.key_counter[0] > 0 else None
                subscribed = any(r[0] == "frame" and key in r[3].get("params", []) for r in hub.log) if key else False
                if step[0] == "binexpire":
                    return {"stream": key, "data": {"e": "listenKeyExpired"}} if subscribed else None
                name = step[1]
                if name == "user":
                    return {"stream": key, "data": {"e": "trade", "n": step[2]}} if subscribed else None
                return {"stream": name, "data": {"e": "trade", "n": step[2]}}
            hub.resolve = resolve
        for name in sc["initial"]:
            adapter.register(cli, hub, name)
            hub.log.append(("register", hub.now(), adapter.alias(name) if hasattr(adapter, "alias") else name))
        task = asyncio.ensure_future(cli.main())

        async def registrar():
            for at, name in sc["registrations"]:
                d = at - loop.time()
                if d > 0:
                    await asyncio.sleep(d)
                adapter.register(cli, hub, name)
                hub.log.append(("register", hub.now(), adapter.alias(name) if hasattr(adapter, "alias") else name))
        reg = asyncio.ensure_future(registrar())
        await asyncio.sleep(sc["end"])
        task.cancel()
        reg.cancel()
        for t in (task, reg):
            try:
                await t
            except (asyncio.CancelledError, Exception):
                pass
        return hub.log
    finally:
        core_ws.time = saved


def run_scenario(sc):
    import logging
    logging.getLogger("basana").setLevel(logging.CRITICAL + 1)
    adapter = {"generic": GenericAdapter, "binance": BinanceAdapter,
               "bitstamp_public": lambda: BitstampAdapter(False),
               "bitstamp_private": lambda: BitstampAdapter(True)}[sc["client"]]()
    log = vloop.run_virtual(_run, sc, adapter)
    return log, adapter


# ------------------------------------------------------------------------------------------------
def monitor(sc, log, adapter):
    out = []
    settle = sc.get("settle", 8.0)                 # virtual seconds a connection must stay quiet to count as quiescent
    end = sc["end"]
    # connections: [start, stop)
    conns = {}
    for r in log:
        if r[0] == "connect":
            conns[r[2]] = [r[1], end]
        elif r[0] == "disconnect" and r[2] in conns:
            conns[r[2]][1] = min(conns[r[2]][1], r[1])
        elif r[0] in ("server_close", "server_drop") and r[1] in conns:
            conns[r[1]][1] = min(conns[r[1]][1], r[2])
    frames = {}
    for r in log:
        if r[0] == "frame":
            for ch in adapter.frame_channels(r[3]):
                frames.setdefault(r[1], []).append((r[2], ch))
    regs = [(r[1], r[2]) for r in log if r[0] == "register"]
    # anything that legitimately delays a subscription: failing listen-key creation, errors
    trouble = [r[1] for r in log if r[0] in ("listenkey_failed", "connect_failed")]
    # M1 / M4: every channel registered by t is subscribed on every connection that lives past max(t, start) + settle
    for idx, (start, stop) in conns.items():
        for t_reg, ch in regs:
            t0 = max(t_reg, start)
            # trouble delays the obligation, it does not cancel it: a connection that outlives the trouble by the
            # settling time must carry the subscription by then (a failure normally ends the connection instead)
            deadline = t0 + settle
            for x in sorted(trouble):
                if t0 - 1e-9 <= x <= deadline:
                    deadline = x + settle
            if stop >= deadline:
                if not any(c == ch and t <= deadline for t, c in frames.get(idx, [])):
                    fp = "ws:registered-channel-not-subscribed" if t_reg <= start else "ws:late-registration-not-subscribed"
                    out.append((fp, f"channel {ch} (registered at {t_reg}) was not subscribed on connection {idx} "
                                    f"(up from {start} to {stop}) by {deadline}"))
                    return out
    # M2: flagged re-subscription on the live connection
    for r in log:
        if r[0] == "server_msg" and _is_expire(adapter, r[3]):
            idx, t = r[1], r[2]
            ch = _expire_channel(adapter, r[3])
            start, stop = conns[idx]
            if stop >= t + settle and not any(t <= x <= t + settle for x in trouble):
                if not any(c == ch and t <= tt <= t + settle for tt, c in frames.get(idx, [])):
                    out.append(("ws:flagged-channel-not-resubscribed",
                                f"channel {ch} was flagged for re-subscription at {t} on connection {idx} but no "
                                f"SUBSCRIBE followed within {settle}s"))
                    return out
    # M3: routing
    for r in log:
        if r[0] == "event":
            ch = adapter.msg_channel(r[3])
            if ch != r[1]:
                out.append(("ws:misrouted-message", f"a message of channel {ch} produced an event on the source of {r[1]}"))
                return out
    sent = [(r[2], adapter.msg_channel(r[3])) for r in log if r[0] == "server_msg" and adapter.msg_channel(r[3]) and
            not _is_expire(adapter, r[3])]
    got = [(r[2], r[1]) for r in log if r[0] == "event"]
    registered_names = {c for _, c in regs}
    for t, ch in sent:
        if ch in registered_names and any(tr <= t for tr, c in regs if c == ch):
            if (t, ch) not in got:
                out.append(("ws:message-lost", f"the message of channel {ch} at {t} produced no event"))
                return out
    # M5: keep-alive of the user-data stream
    if sc["client"] == "binance":
        period = sc.get("keepalive", 100)
        subs = [t for idx in frames for t, c in frames[idx] if c == "spot_user_data"]
        kas = [r[1] for r in log if r[0] == "keepalive"]
        if subs:
            marks = sorted(subs + kas)
            # while the stream is subscribed on a live connection, refreshes are at most period apart
            for idx, (start, stop) in conns.items():
                mine = sorted(t for t, c in frames.get(idx, []) if c == "spot_user_data")
                if not mine:
                    continue
                t = mine[0]
                while t + period + 5 < stop:
                    nxt = [m for m in marks if t < m <= t + period + 5]
                    if not nxt:
                        out.append(("ws:listen-key-not-refreshed",
                                    f"user-data stream subscribed on connection {idx}: no keep-alive between {t} and "
                                    f"{t + period + 5} (period {period}s)"))
                        return out
                    t = max(nxt)
    # M7: a connection that ended is followed by another attempt (while the client runs, after the back-off)
    attempts_all = sorted(r[1] for r in log if r[0] in ("connect", "connect_failed"))
    for idx, (start, stop) in conns.items():
        if stop < end and stop + sc.get("backoff", 1) + settle < end:
            if not any(a > start and a <= stop + sc.get("backoff", 1) + settle for a in attempts_all if a != start):
                out.append(("ws:no-reconnection",
                            f"connection {idx} ended at {stop}; no new connection attempt until "
                            f"{stop + sc.get('backoff', 1) + settle} (back-off {sc.get('backoff', 1)}s, run ends at {end})"))
                return out
    # M6: back-off between connection attempts
    attempts = [r[1] for r in log if r[0] in ("connect", "connect_failed")]
    for a, b in zip(attempts, attempts[1:]):
        if b - a < sc.get("backoff", 1) - 1e-6:
            out.append(("ws:backoff-not-respected", f"connection attempts at {a} and {b}, back-off {sc.get('backoff', 1)}s"))
            return out
    return out


def _is_expire(adapter, msg):
    return bool(msg.get("expire")) or (isinstance(msg.get("data"), dict) and msg["data"].get("e") == "listenKeyExpired")


def _expire_channel(adapter, msg):
    return msg["expire"] if msg.get("expire") else "spot_user_data"


# ------------------------------------------------------------------------------------------------
def coq_item(sc, log, adapter, chan_ids):
    """the bookkeeping actions of the run for Ws/Client.v"""
    def cid(name):
        if name not in chan_ids:
            chan_ids[name] = len(chan_ids)
        return f"{chan_ids[name]}%nat"
    acts = []
    connected = False
    for r in log:
        if r[0] == "register":
            acts.append(f"(Register {cid(r[2])}, None)")
        elif r[0] == "connect":
            acts.append("(Connect, None)")
            connected = True
        elif r[0] == "disconnect":
            if connected:
                acts.append("(Disconnect, None)")
                connected = False
        elif r[0] == "server_msg" and _is_expire(adapter, r[3]) and connected:
            acts.append(f"(Resubscribe {listlit([cid(_expire_channel(adapter, r[3]))])}, None)")
        elif r[0] == "sub_enter":
            acts.append("(SubTake, None)")
        elif r[0] == "sub_exit":
            acts.append("(SubSent, None)")
    # final state: if the last connection has been up and silent for a while, the model must be quiescent and agree on
    # what is subscribed on it
    conns = [r for r in log if r[0] == "connect"]
    idle = False
    observed = []
    if conns and connected:
        last_idx = conns[-1][2]
        last_activity = max([r[1] for r in log if r[0] in ("register", "sub_enter", "sub_exit")] +
                            [r[2] for r in log if r[0] in ("server_msg", "frame")] + [conns[-1][1]])
        trouble = [r[1] for r in log if r[0] in ("listenkey_failed", "job_error")]
        idle = sc["end"] - last_activity >= 8.0 and not trouble
        observed = sorted({ch for r in log if r[0] == "frame" and r[1] == last_idx for ch in adapter.frame_channels(r[3])})
    acts_only = [a[1:a.rindex(",")] for a in acts]
    return (f"Eval vm_compute in (check_final {listlit(acts_only)} {'true' if idle else 'false'} "
            f"{listlit([cid(c) for c in observed])}).")


W_HEADER = ("From Coq Require Import List ZArith. Import ListNotations.\n"
            "From Basana Require Import Ws.Client.\n")


def gen_scenario(rnd):
    client = rnd.choice(["generic", "generic", "binance", "bitstamp_public", "bitstamp_private"])
    names = ["a", "b", "c", "d"]
    if client == "binance":
        names = ["btcusdt@trade", "ethusdt@depth10", "user", "bnbusdt@kline_1m", "bnbusdt@kline_1M"]   # minute and month
    initial = rnd.sample(names, rnd.randint(1, 2))
    rest = [n for n in names if n not in initial]
    regs = sorted((round(rnd.uniform(0.5, 60), 3), n) for n in rnd.sample(rest, rnd.randint(0, len(rest))))
    scripts = []
    nconn = rnd.randint(1, 4)
    key_n = 0
    for k in range(nconn):
        script = []
        for _ in range(rnd.randint(0, 5)):
            r = rnd.random()
            script.append(("delay", round(rnd.uniform(0.2, 15), 3)))
            known = initial + [n for _, n in regs]
            ch = rnd.choice(known)
            if r < 0.4:
                script.append(("chanmsg", ch))
            elif r < 0.5:
                script.append(("special", "error"))
            elif r < 0.6:
                script.append(("special", "unknown"))
            elif r < 0.7 and client in ("generic", "binance"):
                script.append(("special", "expire", ch if client == "generic" else "user"))
        if k < nconn - 1:
            if rnd.random() < 0.25:
                # a connection the server ends at once (a restart in progress): shorter than the back-off
                script = [("delay", round(rnd.uniform(0.05, 0.5), 3))]
            else:
                script.append(("delay", round(rnd.uniform(0.2, 20), 3)))
            how = rnd.choice(["close", "drop", "garbage", "reconnect", "wserror", "closecode"])
            script.append(("close", rnd.choice([1000, 1001, 1012, 1011, 1006])) if how == "closecode" else (how,))
        scripts.append(script)
    return {"client": client, "initial": initial, "registrations": regs, "scripts": scripts, "end": 160.0,
            "sub_delay": rnd.choice([0, 0, 0.5, 2.0]), "backoff": rnd.choice([1, 1, 3]),
            "keepalive": rnd.choice([20, 35]),
            "listen_key_failures": rnd.choice([[0], [1], [0, 1], [1, 2]]) if rnd.random() < 0.3 else [],
            "listen_key_error": rnd.choice(["runtime", 400, 401, 403, 418, 429, 500, "timeout", "conn"]),
            "connect_failures": [1] if rnd.random() < 0.15 else []}


def gen_many_channels(rnd):
    """A Binance client with a few hundred registered streams (every symbol of a market) next to the user-data stream."""
    n = rnd.choice([201, 230, 260, 401])
    names = ["s%dusdt@%s" % (k, "trade" if k % 2 else "kline_1m") for k in range(n)]
    at = rnd.randrange(0, n // 2)
    initial = names[:at] + ["user"] + names[at:]
    scripts = [[("delay", 5.0), ("chanmsg", "user"), ("delay", 70.0), ("chanmsg", names[3]), ("delay", 20.0), ("drop",)],
               [("delay", 3.0), ("chanmsg", "user")]]
    return {"client": "binance", "initial": initial, "registrations": [], "scripts": scripts, "end": 220.0,
            "sub_delay": 0, "backoff": 1, "keepalive": rnd.choice([20, 35]), "listen_key_failures": [],
            "connect_failures": []}


def concretise(sc, adapter_kind):
    """turn symbolic script steps (chanmsg / special) into concrete server messages for the client at hand"""
    import copy
    sc = copy.deepcopy(sc)
    ad = {"generic": GenericAdapter(), "binance": BinanceAdapter(), "bitstamp_public": BitstampAdapter(False),
          "bitstamp_private": BitstampAdapter(True)}[adapter_kind]
    n = [0]
    out = []
    for script in sc["scripts"]:
        s2 = []
        for st in script:
            if st[0] == "chanmsg":
                n[0] += 1
                if adapter_kind == "binance":
                    s2.append(("binmsg", st[1], n[0]))
                else:
                    s2.append(("msg", ad.channel_msg(st[1], n[0])))
            elif st[0] == "special":
                if adapter_kind == "binance" and st[1] == "expire":
                    s2.append(("binexpire",))
                else:
                    m = ad.special(st[1], st[2] if len(st) > 2 else None)
                    if m is not None:
                        s2.append(("msg", m))
            elif st[0] == "reconnect":
                m = ad.special("reconnect")
                s2.append(("msg", m) if m is not None else ("close",))
                s2.append(("delay", 30.0))
            else:
                s2.append(tuple(st))
        out.append(s2)
    sc["scripts"] = out
    return sc
