"""Shared pipeline of the exchange-family checks (C01, C02, C04-C11): proof stage, corpus replay, generated
histories through the real exchange (twice: decimal precision 28 and 100), property monitor, correspondence with
the Coq model (Exchange/Model.v evaluated by vm_compute), classification and shrinking."""
import copy
import json
import multiprocessing as mp
import os
import re

from harness import common, exchange_driver as xd, exchange_gen as xg, exchange_monitors as xm

TRUSTED_EXTRA = [
    "exchange family: Decimal arithmetic is modelled as exact Q; a case whose observations differ between decimal "
    "context precision 28 and 100 is 'inexact' and only monitored, not compared with the model",
    "interest uses the exact elapsed/period ratio in the model (the code goes through a float); generated periods are "
    "powers of two seconds so the float ratio is exact",
    "premises of the theorems: initial balances >= 0, traded symbols have a configured precision, bar times are "
    "non-decreasing (what the dispatcher guarantees, C12), conversions needed by margin/interest have a price",
]


def _work(args):
    case, pid, want_item = args
    try:
        if case.get("monitor_only"):
            # very long histories in the quick tier: one run, property monitors only (the thorough tier compares them
            # with the model as well)
            tr, exact = xd.run_case(case), False
        else:
            tr, exact = xd.run_exact(case)
    except Exception as ex:      # the driver itself failed: report, never silently skip
        import traceback
        return {"crash": traceback.format_exc(), "case": case}
    tr.exact = exact
    alarms = xm.run_monitors(tr, which=[pid])
    kinds = {}
    for s in tr.steps:
        key = s["op"][0] + (":ok" if s["reply"][0] != 3 else ":err%d" % int(s["reply"][1]))
        kinds[key] = kinds.get(key, 0) + 1
    fills = sum(1 for k in range(len(tr.steps)) if tr.steps[k]["op"][0] == "bar" and xm.fills_at(xm.Ctx(tr), k)) \
        if len(tr.steps) < 400 else -1
    item = xd.coq_check_item(tr.case, tr) if (exact and want_item and not tr.unobservable) else None
    return {"exact": exact, "alarms": alarms, "kinds": kinds, "steps": len(tr.steps), "item": item, "case": case,
            "events": len(tr.events), "fill_bars": fills,
            "n_orders": len(tr.steps[-1]["snap"]["orders"]) if tr.steps else 0,
            "n_loans": len(tr.steps[-1]["snap"]["loans"]) if tr.steps else 0}


def has_alarm(case, pid, fp):
    tr = xd.run_case(case)
    return any(a[1] == fp for a in xm.run_monitors(tr, which=[pid]))


def shrink_case(case, pred, budget=80):
    """Greedy: drop bars from the end, then actions one at a time, while pred(case) stays true."""
    case = copy.deepcopy(case)
    runs = 0
    # bars from the end
    while len(case["bars"]) > 1 and runs < budget:
        cand = copy.deepcopy(case)
        cand["bars"] = cand["bars"][:-1]
        cand["script"] = {k: v for k, v in cand["script"].items() if int(k) < len(cand["bars"])}
        runs += 1
        if pred(cand):
            case = cand
        else:
            break
    changed = True
    while changed and runs < budget:
        changed = False
        for k in sorted(case["script"], key=int, reverse=True):
            for i in range(len(case["script"][k]) - 1, -1, -1):
                cand = copy.deepcopy(case)
                del cand["script"][k][i]
                if not cand["script"][k]:
                    del cand["script"][k]
                runs += 1
                try:
                    ok = pred(cand)
                except Exception:
                    ok = False
                if ok:
                    case = cand
                    changed = True
                if runs >= budget:
                    break
            if runs >= budget:
                break
    return case


def corpus_cases(pid):
    d = os.path.join(common.VERIF, "corpus", pid)
    out = []
    if os.path.isdir(d):
        for fn in sorted(os.listdir(d)):
            if fn.endswith(".json"):
                out.append(json.load(open(os.path.join(d, fn))))
    return out


def run_family(chk, pid, plan, special_cases=()):
    """plan: list of (profile, size, n_quick, n_thorough)"""
    chk.proof_stage()
    chk.coverage["rule"] = (
        "cases = exchange histories (config, initial balances, bars of 1-3 pairs, scripted requests issued from bar "
        "handlers) from one PRNG, run through the real Exchange under a real BacktestingDispatcher; every step is "
        "observed through the public API; non-trivial = the history has at least one accepted order and one fill (or, "
        "for loan properties, one loan); distinct by full case content")
    rnd = common.rng_for(chk.seed, pid, "exchange")
    cases = []
    for c in corpus_cases(pid):
        cases.append(("corpus", c))
    for c in special_cases:
        cases.append(("special", c))
    for profile, size, nq, nt in plan:
        n = common.tier_n(chk.tier, nq, nt)
        for _ in range(n):
            c = xg.gen_case(rnd, profile, size)
            if profile == "thousand" and chk.tier == "quick":
                c["monitor_only"] = True
            cases.append((profile, c))
    with mp.Pool(min(14, max(2, os.cpu_count() - 2))) as pool:
        results = pool.map(_work, [(c, pid, True) for _, c in cases], chunksize=4)
    items, owners = [], []
    for (label, _), r in zip(cases, results):
        if "crash" in r:
            chk.violation("driver-crash", "the exchange driver crashed on a case (the code raised something the "
                          "public API should not)", {"kind": "driver-crash", "case": r["case"],
                                                     "traceback": r["crash"]}, no_failing_input=True)
            continue
        nontrivial = r["n_orders"] > 0 and (r["fill_bars"] != 0 or r["n_loans"] > 0)
        chk.note_case(json.dumps(r["case"], sort_keys=True), nontrivial)
        chk.count("cases_" + label)
        chk.count("steps", r["steps"])
        chk.count("order_events", r["events"])
        for k, v in r["kinds"].items():
            chk.count("op_" + k, v)
        if r["case"].get("monitor_only"):
            chk.count("monitor_only_cases")
        elif not r["exact"]:
            chk.count("inexact_cases")
        if r["steps"] <= 12 and r["n_orders"] > 0:
            chk.sample({"case": {k: v for k, v in r["case"].items() if not k.startswith("_")},
                        "steps": r["steps"], "ops": r["kinds"]}, limit=3)
        for (p, fp, k, msg) in r["alarms"]:
            if any(v[0] == fp for v in chk.violations):
                continue
            # (a history of a thousand steps takes half a minute per run: it is reported as found)
            small = shrink_case(r["case"], lambda c: has_alarm(c, pid, fp), budget=80 if r["steps"] < 400 else 0)
            tr = xd.run_case(small)
            al = [a for a in xm.run_monitors(tr, which=[pid]) if a[1] == fp]
            msg2 = al[0][3] if al else msg
            chk.violation(fp, msg2, {"kind": "monitor", "monitor": fp, "case": small, "step": al[0][2] if al else k,
                                     "how_to_replay": f"./check {pid} --replay <this file>"})
        if r["item"] is not None:
            items.append(r["item"])
            owners.append(r)
    res = common.coq_eval_sharded(pid.lower() + "_ex", xd.EX_HEADER, items, timeout=1500, balance=True) if items else []
    diverged = []
    for r, v in zip(owners, res):
        if v == "Agree":
            chk.count("model_agree")
        else:
            chk.count("model_diverge")
            diverged.append((r, v))
    chk.coverage["traces_validated_against_impl"] = chk.counters.get("model_agree", 0)
    if diverged and not chk.violations:
        # the property is no longer shown to hold: look harder for an input on which it fails
        rnd2 = common.rng_for(chk.seed, pid, "search")
        extra = [xg.gen_case(rnd2, plan[i % len(plan)][0], "medium") for i in range(600)]
        with mp.Pool(min(14, max(2, os.cpu_count() - 2))) as pool:
            for r in pool.imap_unordered(_work, [(c, pid, False) for c in extra], chunksize=8):
                if "crash" not in r and r["alarms"]:
                    p, fp, k, msg = r["alarms"][0]
                    small = shrink_case(r["case"], lambda c: has_alarm(c, pid, fp))
                    chk.violation(fp, msg, {"kind": "monitor", "monitor": fp, "case": small, "step": k})
                    break
    if diverged and not chk.violations:
        r, v = diverged[0]
        m = re.match(r"Diverge (\d+)", v)
        chk.violation("correspondence:Exchange.step",
                      "the Coq model of the exchange and the implementation disagree; no history violating the "
                      "property statement was found",
                      {"broken": "correspondence Exchange.Model.step <-> basana.backtesting.exchange.Exchange "
                                 f"(the theorems of coq/props/{pid}.v are about the model)",
                       "case": r["case"], "diverges_at_step": int(m.group(1)) if m else None, "model_says": v,
                       "diverging_cases": len(diverged)}, no_failing_input=True)


def replay(chk, pid, path):
    d = json.load(open(path))
    case = d["case"]
    tr = xd.run_case(case)
    for k, st in enumerate(tr.steps):
        print(k, st["op"], [str(x) for x in st["reply"]], st.get("exc", ""))
    for (p, fp, k, msg) in xm.run_monitors(tr, which=[pid]):
        print("ALARM", fp, "at step", k, msg)
        chk.violation(fp, msg, {"kind": "monitor", "monitor": fp, "case": case, "step": k})
    chk.note_case("replay-a")
    chk.note_case("replay-b")
    return chk.finish(TRUSTED_EXTRA)
