"""Generator of exchange histories (cases for harness/exchange_driver.py).  One PRNG, boundary-heavy:
prices come from a small grid around a reference price, volumes include 0 and off-grid shares, funds are placed
near what orders need, requests include malformed ones."""
from decimal import Decimal
from fractions import Fraction as F


def dec(x, places):
    """Fraction/int/float -> decimal string with exactly [places] decimals (truncating)."""
    x = F(x) if not isinstance(x, float) else F(Decimal(repr(x)))
    neg = x < 0
    n = abs(x) * 10 ** places
    n = n.numerator // n.denominator
    s = str(n).rjust(places + 1, "0")
    out = s[:len(s) - places] + ("." + s[len(s) - places:] if places else "")
    return ("-" if neg and n else "") + out


def gen_minfee(rnd):
    """Sell orders filled in slivers (volume-share liquidity on thin bars) under a minimum fee larger than a sliver's
    proceeds, on an account with little or no quote balance."""
    bp, qp = rnd.choice([2, 3]), 2
    px = rnd.choice([100, 50, 20])
    n = rnd.randint(5, 10)
    bars = []
    for k in range(n):
        vol = rnd.choice(["0.04", "0.1", "0.4", "1", "1", "200", "1000"]) if k else "10"
        bars.append([0, 60 * (k + 1), dec(px, qp), dec(px, qp), dec(px, qp), dec(px, qp), vol])
    kind = rnd.choice(["limit", "limit", "stoplimit"])
    amount = rnd.choice([10, 5, 2])
    acts = [["create", kind, "sell", 0, dec(amount, bp), dec(px, qp), dec(px, qp) if kind == "stoplimit" else None, False,
             False]]
    if rnd.random() < 0.4:
        acts.append(["create", "limit", "buy", 0, dec(1, bp), dec(px, qp), None, False, False])
    return {"syms": ["BTC", "USD"], "pairs": [["BTC", "USD"]], "sym_prec": {"BTC": bp, "USD": qp}, "pair_info": {},
            "default_pair": None, "fee": [rnd.choice(["0.1", "1"]), rnd.choice(["5", "2.5", "1"])],
            "liq": [rnd.choice(["10", "25"]), "0"], "lend": None,
            "initial": {"BTC": dec(amount + rnd.choice([0, 1]), bp), "USD": dec(rnd.choice([0, 0, 1, 2, 3, 100]), qp)},
            "bars": bars, "script": {"0": acts}, "subscribe_first": False, "profile": "minfee", "ample": False}


def gen_repay_boundary(rnd):
    """A loan in a symbol of fine precision whose interest is one precision unit, repaid with exactly the principal
    (one unit short), exactly principal + interest, or one unit more."""
    p = rnd.choice([8, 8, 8, 6, 4])
    unit = F(1, 10 ** p)
    principal = rnd.choice([F(5, 100000), F(1, 1000), 1, F(25, 100)])
    principal = max(unit, F(int(principal / unit)) * unit)
    extra = rnd.choice([F(0), F(0), F(0), unit, 2 * unit])
    bars = [[0, 60 * (k + 1), "100.00", "100.00", "100.00", "100.00", "10"] for k in range(4)]
    script = {"0": [["loan", "BTC", dec(principal, p)]], "2": [["repay", 0]], "3": [["repay", 0]]}
    return {"syms": ["BTC", "USD"], "pairs": [["BTC", "USD"]], "sym_prec": {"BTC": p, "USD": 2}, "pair_info": {},
            "default_pair": None, "fee": None, "liq": None,
            "lend": {"quote": "USD", "default": None,
                     "conds": {"BTC": ["BTC", "0", 0, dec(unit, p), "0"]}},
            "initial": {"BTC": dec(extra, p), "USD": "1000.00"}, "bars": bars, "script": script,
            "subscribe_first": False, "profile": "repayboundary", "ample": False}


def gen_cancel_repay(rnd):
    """Open loans, an auto-repay order that the bar's liquidity only fills in part, and its explicit cancellation:
    closing it repays loans in the symbol it acquired, largest first, as far as funds allow."""
    bp, qp = 2, 2
    px = rnd.choice([100, 50])
    op = rnd.choice(["buy", "buy", "sell"])
    n = rnd.randint(6, 9)
    bars = [[0, 60 * (k + 1), dec(px, qp), dec(px, qp), dec(px, qp), dec(px, qp), rnd.choice(["10", "20", "5"])]
            for k in range(n)]
    credit = "BTC" if op == "buy" else "USD"
    unit_loans = [1, F(1, 2), 2] if credit == "BTC" else [50, 100, 25]
    acts0 = [["loan", credit, dec(rnd.choice(unit_loans), bp if credit == "BTC" else qp)]
             for _ in range(rnd.randint(1, 3))]
    if rnd.random() < 0.4:
        acts0.append(["loan", "USD" if credit == "BTC" else "BTC", dec(1, 2)])
    order = ["create", rnd.choice(["limit", "limit", "stoplimit"]), op, 0, dec(rnd.choice([5, 8, 10]), bp), dec(px, qp),
             None, rnd.random() < 0.3, True]
    if order[1] == "stoplimit":
        order[6] = dec(px, qp)
    k_cancel = rnd.randint(3, n - 1)
    script = {"0": acts0, "1": [order], str(k_cancel): [["cancel", 0]]}
    if rnd.random() < 0.5:
        script[str(min(n - 1, k_cancel + 1))] = [["list", None], ["cancel", 0]]
    interest = rnd.choice([["same", "0", 0, "0", "0"], ["same", "10", 4096, "0", "0"], ["USD", "5", 1024, "0.01", "0"]])
    conds = {}
    for sname in ("BTC", "USD"):
        c = list(interest)
        c[0] = sname if c[0] == "same" else c[0]
        conds[sname] = c
    syms = ["BTC", "USD"]
    sym_prec = {"BTC": bp, "USD": qp}
    if rnd.random() < 0.3:
        # a loan in the other symbol whose interest is charged in a symbol no traded pair prices
        other = "USD" if credit == "BTC" else "BTC"
        syms.append("ETH")
        sym_prec["ETH"] = 4
        conds[other] = ["ETH", "10", 4096, "0", "0"]
        if not any(a[0] == "loan" and a[1] == other for a in acts0):
            acts0.append(["loan", other, dec(1, 2)])
    return {"syms": syms, "pairs": [["BTC", "USD"]], "sym_prec": sym_prec, "pair_info": {},
            "default_pair": None, "fee": rnd.choice([None, ["0.1", "0"]]), "liq": [rnd.choice(["10", "25"]), "0"],
            "lend": {"quote": "USD", "default": None, "conds": conds},
            "initial": {"BTC": dec(rnd.choice([0, 1, 10]), bp), "USD": dec(rnd.choice([1000, 10000, 100]), qp)},
            "bars": bars, "script": script, "subscribe_first": False, "profile": "cancelrepay", "ample": False}


def gen_unpriceable(rnd):
    """An open loan whose interest is charged in a symbol that no pair prices (it could be created because its interest
    was zero at that moment), next to ordinary loans: an auto-repay order that closes by a complete fill with part of
    its reservation unspent, explicit repayments of the priceable loans, cancellations."""
    bp, qp = 2, 2
    px = rnd.choice([100, 50, 20])
    n = rnd.randint(5, 8)
    bars = [[0, 60 * (k + 1), dec(px, qp), dec(px, qp), dec(px, qp), dec(px, qp), "1000"] for k in range(n)]
    conds = {"USD": ["USD", rnd.choice(["0", "5"]), 1024, "0", "0"], "BTC": ["ETH", "10", 4096, "0", "0"]}
    acts0 = [["loan", "USD", dec(rnd.choice([50, 100]), qp)], ["loan", "BTC", dec(1, bp)]]
    if rnd.random() < 0.5:
        acts0.append(["loan", "USD", dec(25, qp)])
    op = rnd.choice(["buy", "buy", "sell"])
    kind = rnd.choice(["limit", "market", "limit"])
    # a limit above (buy) / below (sell) the market: it fills at the open and leaves part of its reservation unspent
    limit = dec(px + rnd.choice([5, 10]) if op == "buy" else max(1, px - 5), qp) if kind == "limit" else None
    order = ["create", kind, op, 0, dec(rnd.choice([1, 2]), bp), limit, None, False, True]
    script = {"0": acts0, "1": [order], "3": [["repay", 0]], str(n - 1): [["cancel", 0], ["list", None]]}
    if rnd.random() < 0.5:
        script["2"] = [["create", "limit", "buy", 0, dec(1, bp), dec(max(1, px - 10), qp), None, False, False]]
    return {"syms": ["BTC", "USD", "ETH"], "pairs": [["BTC", "USD"]], "sym_prec": {"BTC": bp, "USD": qp, "ETH": 4},
            "pair_info": {}, "default_pair": None, "fee": rnd.choice([None, ["0.1", "0"], ["0.25", "0.5"]]), "liq": None,
            "lend": {"quote": "USD", "default": None, "conds": conds},
            "initial": {"BTC": dec(rnd.choice([1, 10]), bp), "USD": dec(rnd.choice([1000, 10000]), qp)},
            "bars": bars, "script": script, "subscribe_first": False, "profile": "unpriceable", "ample": False,
            "debug_log": True}


def gen_thousand(rnd):
    """More than a thousand account updates: a short position (the borrowed coins were sold: zero balance, outstanding debt)
    held while a resting bid is re-quoted on every bar (one reservation and one release per bar)."""
    n = rnd.randint(510, 540)
    px = rnd.choice([100, 40])
    bars = [[0, 60 * (k + 1), dec(px, 2), dec(px, 2), dec(px, 2), dec(px, 2), "1000"] for k in range(n)]
    script = {"0": [["loan", "BTC", "1.00"], ["create", "market", "sell", 0, "1.00", None, None, False, False]]}
    oid = 1
    for k in range(2, n):
        acts = []
        if k > 2:
            acts.append(["cancel", oid - 1])
        acts.append(["create", "limit", "buy", 0, "0.01", dec(px // 2, 2), None, False, False])
        oid += 1
        script[str(k)] = acts
    return {"syms": ["BTC", "USD"], "pairs": [["BTC", "USD"]], "sym_prec": {"BTC": 2, "USD": 2}, "pair_info": {},
            "default_pair": None, "fee": rnd.choice([None, ["0.1", "0"]]), "liq": None,
            "lend": {"quote": "USD", "default": None, "conds": {"BTC": ["BTC", "0", 0, "0", "0.5"]}},
            "initial": {"BTC": "0.00", "USD": "1000.00"}, "bars": bars, "script": script, "subscribe_first": False,
            "profile": "thousand", "ample": False}


def gen_reindex_fail(rnd):
    """Bar processing that raises (an auto-repay order closes while the interest of an open loan cannot be priced)
    around the 50th traversal of the open-order list, with other open orders behind the failing one."""
    n = rnd.randint(58, 66)
    bars = [[0, 60 * (k + 1), "100.00", "100.00", "100.00", "100.00", "1000"] for k in range(n)]
    script = {"0": [["loan", "BTC", "1.00"],
                    ["create", "limit", "buy", 0, "1.00", "50.00", None, False, False]]}
    first = rnd.randint(40, 46)
    for k in range(first, first + rnd.randint(8, 12)):
        acts = [["create", "market", rnd.choice(["buy", "sell"]), 0, "0.10", None, None, False, True]]
        for _ in range(rnd.randint(1, 3)):
            acts.append(["create", "limit", "buy", 0, "1.00", dec(rnd.choice([50, 60, 70]), 2), None, False, False])
        script[str(k)] = acts
    for k in range(first + 13, n, 2):
        script[str(k)] = [["list", rnd.choice([None, 0])]]
    return {"syms": ["BTC", "USD", "ETH"], "pairs": [["BTC", "USD"]], "sym_prec": {"BTC": 2, "USD": 2, "ETH": 4},
            "pair_info": {}, "default_pair": None, "fee": None, "liq": None,
            "lend": {"quote": "USD", "default": None,
                     "conds": {"BTC": ["ETH", "10", 4096, "0", "0"], "USD": ["USD", "0", 0, "0", "0"]}},
            "initial": {"BTC": "5.00", "USD": "100000.00"}, "bars": bars, "script": script,
            "subscribe_first": False, "profile": "reindexfail", "ample": False}


def gen_near_equal_loans(rnd, equal=False):
    """Two open loans in the symbol an auto-repay order acquires, with nearly equal principals -- the smaller one older,
    so that its interest is larger -- and funds for only one of them when the order is cancelled."""
    a = rnd.choice([F(1), F(2), F(1, 2)])
    delta = F(0) if equal else rnd.choice([F(1, 100), F(2, 100), F(5, 100)])
    vol = rnd.choice(["2", "4", "1"])
    if equal:
        # funds for exactly one of the two equal loans when the order is cancelled
        a = rnd.choice([F(1), F(2)])
        vol = rnd.choice(["1", "2"])
    bars = [[0, 60 * (k + 1), "100.00", "100.00", "100.00", "100.00", vol] for k in range(8)]
    script = {"0": [["loan", "BTC", dec(a, 2)]],
              "1": [["create", "limit", "buy", 0, "5.00", "100.00", None, False, True]],
              "2": [["loan", "BTC", dec(a + delta, 2)], ["create", "market", "sell", 0, dec(a, 2), None, None, False, False]],
              str(rnd.choice([4, 5])): [["cancel", 0]]}
    return {"syms": ["BTC", "USD"], "pairs": [["BTC", "USD"]], "sym_prec": {"BTC": 2, "USD": 2}, "pair_info": {},
            "default_pair": None, "fee": None, "liq": ["10", "0"],
            "lend": {"quote": "USD", "default": None,
                     "conds": {"BTC": ["BTC", rnd.choice(["100", "50"]), 1024, "0", "0"], "USD": ["USD", "0", 0, "0", "0"]}},
            "initial": {"BTC": "0.00", "USD": "100000.00"}, "bars": bars, "script": script,
            "subscribe_first": False, "profile": "nearequal", "ample": False}


def gen_zero_req(rnd):
    """Per-symbol lending conditions where one symbol needs no margin: the account goes under water on the other symbol's
    debt (the price moves), then borrows the symbol without requirement -- explicitly or through an order."""
    px = rnd.choice([100, 50])
    up = rnd.choice([3, 4, 5])
    bars = [[0, 60, dec(px, 2), dec(px, 2), dec(px, 2), dec(px, 2), "1000"],
            [0, 120, dec(px, 2), dec(px * up, 2), dec(px, 2), dec(px * up, 2), "1000"],
            [0, 180, dec(px * up, 2), dec(px * up, 2), dec(px * up, 2), dec(px * up, 2), "1000"],
            [0, 240, dec(px * up, 2), dec(px * up, 2), dec(px * up, 2), dec(px * up, 2), "1000"]]
    req = rnd.choice(["0.5", "0.4", "1"])
    n_btc = rnd.choice([10, 8, 15])
    second = rnd.choice([["loan", "USD", dec(rnd.choice([500, 1000, 50]), 2)],
                         ["create", "market", "buy", 0, dec(rnd.choice([1, 2]), 2), None, None, True, False],
                         ["create", "limit", "buy", 0, dec(1, 2), dec(px * up, 2), None, True, False]])
    script = {"0": [["loan", "BTC", dec(n_btc, 2)]], str(rnd.choice([1, 2])): [second]}
    return {"syms": ["BTC", "USD"], "pairs": [["BTC", "USD"]], "sym_prec": {"BTC": 2, "USD": 2}, "pair_info": {},
            "default_pair": None, "fee": None, "liq": None,
            "lend": {"quote": "USD", "default": None,
                     "conds": {"BTC": ["BTC", "0", 0, "0", req], "USD": ["USD", "0", 0, "0", "0"]}},
            "initial": {"BTC": "0.00", "USD": dec(rnd.choice([1000, 600, 2000]), 2)}, "bars": bars, "script": script,
            "subscribe_first": False, "profile": "zeroreq", "ample": False}


def gen_reindex_close(rnd):
    """Orders that close while the open-order list is traversed, with other orders queued behind them, on every bar around
    the 50th (and 100th) traversal: nobody behind a closing order may be skipped."""
    n = rnd.choice([60, 108])
    px = 100
    bars = [[0, 60 * (k + 1), dec(px, 2), dec(px + 1, 2), dec(px - 1, 2), dec(px, 2), "1000"] for k in range(n)]
    script = {}
    spans = [range(44, 57)] + ([range(94, 107)] if n > 100 else [])
    for span in spans:
        for k in span:
            acts = [["create", "market", rnd.choice(["buy", "sell"]), 0, "1.00", None, None, False, False]]
            for _ in range(rnd.randint(1, 2)):
                side = rnd.choice(["buy", "sell"])
                acts.append(["create", "limit", side, 0, "1.00", dec(px + (1 if side == "buy" else -1), 2), None, False, False])
            script[str(k)] = acts
    return {"syms": ["BTC", "USD"], "pairs": [["BTC", "USD"]], "sym_prec": {"BTC": 2, "USD": 2}, "pair_info": {},
            "default_pair": None, "fee": None, "liq": None, "lend": None,
            "initial": {"BTC": "1000.00", "USD": "1000000.00"}, "bars": bars, "script": script,
            "subscribe_first": False, "profile": "reindexclose", "ample": True}


def gen_case(rnd, profile="mixed", size="small"):
    if profile == "reindexclose":
        return gen_reindex_close(rnd)
    if profile == "zeroreq":
        return gen_zero_req(rnd)
    if profile == "nearequal":
        return gen_near_equal_loans(rnd)
    if profile == "equalloans":
        return gen_near_equal_loans(rnd, equal=True)
    if profile == "reindexfail":
        return gen_reindex_fail(rnd)
    if profile == "unpriceable":
        return gen_unpriceable(rnd)
    if profile == "thousand":
        return gen_thousand(rnd)
    if profile == "neginit":
        # an account opened short: a negative initial balance (booked as borrowed, with no loan object behind it)
        case = gen_case(rnd, "margin", size)
        s = "BTC" if len(case["bars"]) % 2 else "USD"
        p = case["sym_prec"].get(s, 2)
        case["initial"][s] = "-" + dec(F(1, 2) if s == "BTC" else 100, p)
        case["profile"] = "neginit"
        if case["lend"] is not None and len(case["bars"]) % 3 == 0:
            # ... in a symbol the lending strategy has no conditions for (nothing can be borrowed in it, that is all)
            case["lend"]["default"] = None
            case["lend"]["conds"].pop(s, None)
            # (a change of conditions planned for a symbol that has none any more is dropped)
            case["script"] = {k: [a for a in acts if not (a[0] == "recond" and a[1] not in case["lend"]["conds"])]
                              for k, acts in case["script"].items()}
            case["script"] = {k: v for k, v in case["script"].items() if v}
        return case
    if profile == "cancelrepay":
        return gen_cancel_repay(rnd)
    if profile == "minfee":
        return gen_minfee(rnd)
    if profile == "repayboundary":
        return gen_repay_boundary(rnd)
    if profile == "reconfig":
        return gen_reconfig(rnd)
    if profile == "marginedge":
        return gen_margin_edge(rnd)
    if profile == "adaptive":
        return gen_adaptive(rnd)
    if profile == "twovenues":
        return gen_two_venues(rnd)
    if profile == "finegrid":
        return gen_fine_grid(rnd)
    if profile == "inverse":
        return gen_inverse_pairs(rnd)
    if profile == "boundary":
        return gen_boundary(rnd)
    if profile == "dust":
        return gen_boundary(rnd, dust=True)
    if profile == "compete":
        return gen_compete(rnd)
    wide = profile == "wide"           # one merged feed carrying four pairs; the strategy listens to one or two of them
    if wide:
        profile = "multipair"
    three = rnd.random() < 0.5 or profile == "multipair"
    syms = ["BTC", "USD"] + (["ETH"] if three else [])
    pairs = [["BTC", "USD"]] + ([["ETH", "USD"]] if three else [])
    if three and not wide and rnd.random() < (0.35 if profile != "multipair" else 0.8):
        pairs.append(["ETH", "BTC"])
    if wide:
        syms += ["LTC", "XRP", "ADA", "DOT"]
        pairs += [["LTC", "USD"], ["XRP", "USD"], ["ADA", "USD"], ["DOT", "USD"]]
    usd_p = rnd.choice([2, 2, 2, 0, 1, 4])
    btc_p = rnd.choice([0, 2, 4, 8, 8, 3]) if profile != "limitpartial" else rnd.choice([0, 0, 1, 2])
    eth_p = rnd.choice([0, 1, 3, 6])
    sym_prec = {"BTC": btc_p, "USD": usd_p}
    if three:
        sym_prec["ETH"] = eth_p
    if wide:
        sym_prec["LTC"] = rnd.choice([1, 2, 4])
        sym_prec["XRP"] = rnd.choice([0, 1, 2])
        sym_prec["ADA"] = rnd.choice([0, 2])
        sym_prec["DOT"] = rnd.choice([1, 3])
        if sym_prec["ADA"] == 0:
            # two instruments whose tickers differ only by case (LTC and ltc): distinct symbols, distinct pairs
            syms[syms.index("DOT")] = "ltc"
            pairs[pairs.index(["DOT", "USD"])] = ["ltc", "USD"]
            sym_prec["ltc"] = sym_prec.pop("DOT")
    if profile == "noprec" and rnd.random() < 0.5:
        sym_prec.pop(rnd.choice(list(sym_prec)))
    if profile == "noprice":
        # a symbol that is held and may be named by lending conditions but is not traded: no pair, no precision, no price
        syms.append("BNB")
    pair_info = {}
    if rnd.random() < 0.25:
        i = rnd.randrange(len(pairs))
        b, q = pairs[i]
        # usually coarser than the symbols' own precision, sometimes finer
        extra = rnd.choice([0, 0, 0, 2])
        pair_info[str(i)] = [rnd.randint(0, sym_prec.get(b, 2) + extra), rnd.randint(0, sym_prec.get(q, 2) + extra)]
    default_pair = rnd.choice([[0, 2], [0, 2], None, [2, 2]])

    def prec_of(pi):
        if str(pi) in pair_info:
            return pair_info[str(pi)]
        b, q = pairs[pi]
        if b in sym_prec and q in sym_prec:
            return [sym_prec[b], sym_prec[q]]
        return default_pair or [0, 2]

    # fees
    r = rnd.random()
    if profile == "fees":
        r = 0.5 + r / 2
    if profile == "feeborrow":
        fee = [rnd.choice(["0.1", "1", "0"]), rnd.choice(["5", "50", "2.5"])]
    elif r < 0.4:
        fee = None
    else:
        pct = rnd.choice(["0.1", "0.25", "1", "0.5", "2.5", "0", "0.075", "10", "33.3333"])
        mn = rnd.choice(["0", "0", "0.01", "1", "0.005", "5", "2.5"])
        if profile == "fees" and len(pairs) % 2 == 1 and pct in ("0.1", "0.25", "1"):
            # rates and minimums a hair above a round value (a Decimal built from a float, a negotiated rate)
            pct = pct + "000000000001" if "." in pct else pct + ".0000000000001"
            mn = {"0.01": "0.0100000000001", "2.5": "2.5000000000001"}.get(mn, mn)
        fee = [pct, mn]
    # liquidity
    r = rnd.random()
    if profile in ("liquidity", "limitpartial", "compete"):
        r = 0.5 + 0.5 * r
    if profile == "ample":
        r = 0.0
    if r < 0.45:
        liq = None
    else:
        liq = [rnd.choice(["25", "25", "10", "50", "100", "12.5", "0", "5"]),
               rnd.choice(["0", "0", "0", "10", "20", "100"])]
    # lending
    lend = None
    r = rnd.random()
    if profile in ("loans", "margin", "noprice"):
        r = 0.4 + 0.6 * r
    if profile == "feeborrow":
        r = 1.0
    if profile == "margin":
        r = 1.0
    if profile == "ample":
        r = 0.0
    if r > 0.55:
        def cond():
            isym = rnd.choice(["USD", "USD", "same", "same"] + (syms if profile in ("noprice", "loans") else []))
            if profile == "noprice" and rnd.random() < 0.5:
                isym = rnd.choice(syms)
            return [isym, rnd.choice(["0", "10", "5", "0.5", "100", "7.3"] + (["-5"] if profile == "loans" else [])),
                    rnd.choice([0, 64, 1024, 4096, 65536, 1048576]) if not (profile == "noprice" and rnd.random() < 0.5) else 0,
                    rnd.choice(["0", "0", "0.01", "1", "0.005", "3"]),
                    rnd.choice(["0", "0.1", "0.5", "1", "3", "0.25"])]
        dflt = cond()
        if dflt[0] == "same":
            dflt[0] = "USD"
        conds = {}
        for s in syms:
            if rnd.random() < 0.5:
                c = cond()
                c[0] = s if c[0] == "same" else c[0]
                conds[s] = c
        # the account is usually valued in USD; sometimes in BTC, so that conversions go through inverted prices
        lend = {"quote": "BTC" if (profile in ("margin", "loans") and rnd.random() < 0.25) else "USD", "default": dflt if rnd.random() < (0.85 if profile != "feeborrow" else 0.4) else None,
                "conds": conds}
        if profile == "feeborrow" and lend["default"] is None:
            lend["conds"].pop("USD", None)

    # initial balances
    initial = {}
    style = rnd.random()
    for s in syms:
        p = sym_prec.get(s, 2)
        if style < 0.08:
            continue                                  # empty account
        if profile == "ample":
            v = 1000000000
        elif profile == "feeborrow":
            v = rnd.choice([0, 0, 1, 2, 0.5]) if s == "USD" else rnd.choice([0, 0, 0, 1])
        elif s == "USD":
            v = rnd.choice([0, 100, 1000, 1000, 10000, 100000, 555.55, 0.01])
        else:
            v = rnd.choice([0, 0, 1, 2, 10, 0.5, 3.25, 100])
        initial[s] = dec(v, p)
    # reference prices
    ref = {}
    for pi, (b, q) in enumerate(pairs):
        qp = prec_of(pi)[1]
        base = {("BTC", "USD"): 100, ("ETH", "USD"): 10, ("ETH", "BTC"): F(1, 10), ("LTC", "USD"): 50,
                ("XRP", "USD"): 2, ("ADA", "USD"): 1, ("DOT", "USD"): 20, ("ltc", "USD"): 20}[(b, q)]
        if qp == 0:
            base = max(1, int(base)) * 10
        ref[pi] = F(base)
    nb = {"small": rnd.randint(3, 14), "medium": rnd.randint(10, 40), "long": rnd.randint(110, 170)}[size]
    bars = []
    cur = dict(ref)
    for k in range(nb):
        t = 60 * (k + 1)
        if profile == "loans" and nb % 2 == 0:
            # bars (and with them loans, repayments and interest) at instants that are not whole seconds
            t = t + [0, 0.5, 0.25, 0.75][(k * 7 + nb) % 4]
        for pi in range(len(pairs)):
            if k > 0 and rnd.random() < (0.15 if profile != "multipair" else 0.05):
                continue                              # this pair has no bar at this time
            qp = prec_of(pi)[1]
            tick = F(1, 10 ** qp)
            step = max(tick, cur[pi] / 50)
            pts = [cur[pi] + step * rnd.randint(-3, 3) for _ in range(4)]
            pts = [max(tick, F(int(p / tick)) * tick) for p in pts]
            o, c = pts[0], pts[1]
            h = max(pts)
            lo = min(pts)
            if rnd.random() < 0.2:
                h = lo = c = o                        # flat bar
            vol = rnd.choice(["0", "10", "10", "100", "37.5", "1", "1000", "0.4", "3", "12.345"])
            cur[pi] = c
            if rnd.random() < 0.08:
                cur[pi] = max(tick, c * rnd.choice([F(1, 4), 4, F(1, 2), 2]))
                cur[pi] = F(int(cur[pi] / tick)) * tick
            bars.append([pi, t, dec(o, qp), dec(h, qp), dec(lo, qp), dec(c, qp), vol])
    # script
    script = {}
    n_orders = 0
    n_loans = 0
    last_price = dict(ref)
    max_actions = {"small": 3, "medium": 3, "long": 2}[size]
    for i, b in enumerate(bars):
        pi = b[0]
        last_price[pi] = F(Decimal(b[5]))
        acts = []
        na = rnd.choice([0, 0, 1, 1, 2, max_actions])
        if profile == "compete":
            na = rnd.choice([0, 2, 3, 3])
        if profile == "margin" and rnd.random() < 0.3:
            na += 1
        if i < 2 and profile != "noprice":
            na = 0 if len(pairs) > 1 and i < len(pairs) - 1 else na
        for _ in range(na):
            r = rnd.random()
            bp, qp = prec_of(pi)
            tick = F(1, 10 ** qp)
            if r < 0.55:
                kind = rnd.choice(["market", "limit", "stop", "stoplimit", "limit"])
                if profile == "limitpartial":
                    kind = rnd.choice(["limit", "limit", "stoplimit", "market"])
                op = rnd.choice(["buy", "sell"])
                tp = rnd.randrange(len(pairs)) if rnd.random() < (0.2 if profile != "multipair" else 0.7) else pi
                bp, qp = prec_of(tp)
                tick = F(1, 10 ** qp)
                amt = rnd.choice([1, 1, 2, 5, F(1, 2), F(1, 4), F(15, 10), 10, F(1, 10 ** bp), 3, 100])
                if profile == "ample":
                    amt = rnd.choice([1, 2, 5, 10, 3, 100])
                if profile == "feeborrow":
                    amt = rnd.choice([F(1, 10 ** bp), F(2, 10 ** bp), F(1, 100), 1])
                    op = rnd.choice(["sell", "sell", "buy"])
                if profile == "compete":
                    kind = rnd.choice(["market", "market", "stop", "limit"])
                    tp = pi
                    amt = rnd.choice([1, 2, 5, 10, 20, 3])
                if bp == 0:
                    amt = max(1, int(amt))
                amount = dec(amt, bp)
                if rnd.random() < 0.05:
                    amount = rnd.choice(["0", "-1", dec(amt, bp) + "5" if bp else "0.5"])      # malformed
                px = last_price.get(tp, ref[tp])
                off = rnd.randint(-3, 3) * max(tick, px / 50)

                def grid(p):
                    return dec(max(tick, F(int(p / tick)) * tick), qp)
                limit = grid(px + off) if kind in ("limit", "stoplimit") else None
                stop = grid(px + rnd.randint(-3, 3) * max(tick, px / 50)) if kind in ("stop", "stoplimit") else None
                if rnd.random() < 0.03 and limit is not None:
                    limit = rnd.choice(["0", "-5", limit + "1"])
                ab = lend is not None and rnd.random() < (0.45 if profile != "feeborrow" else 0.9)
                ar = lend is not None and rnd.random() < 0.45
                if lend is None and rnd.random() < 0.05:
                    ab = True
                acts.append(["create", kind, op, tp, amount, limit, stop, ab, ar])
                n_orders += 1
            elif r < 0.7:
                ref_id = rnd.randrange(max(1, n_orders)) if rnd.random() < 0.9 else 9001
                acts.append(["cancel", ref_id])
            elif r < 0.8:
                s = rnd.choice(syms)
                p = sym_prec.get(s, 2)
                amt = rnd.choice([1, 10, 100, 1000, F(1, 2), 5, 100000])
                a = dec(amt, p)
                if rnd.random() < 0.07:
                    a = rnd.choice(["0", "-1"])
                elif rnd.random() < 0.25:
                    # finer than the symbol's precision (loans are not rounded by the exchange)
                    a = dec(F(amt) + F(rnd.randint(1, 99), 10 ** (p + 2)), p + 2)
                acts.append(["loan", s, a])
                n_loans += 1
            elif r < 0.9:
                ref_id = rnd.randrange(max(1, n_loans + 2)) if rnd.random() < 0.9 else 9002
                acts.append(["repay", ref_id])
            else:
                acts.append(["list", rnd.choice([None, None, rnd.randrange(len(pairs))])])
        if acts:
            script[str(i)] = acts
    if profile == "margin" and lend is not None and len(bars) >= 4:
        # the margin requirement of a symbol is changed in the middle of the run (its conditions object is mutable)
        i = len(bars) // 2
        target = sorted(lend["conds"])[0] if lend["conds"] else None
        if target is None and lend["default"] is not None:
            target = syms[len(bars) % len(syms)]
        if target is not None:
            new_req = ["0.5", "1", "0.1", "0", "2", "0.25"][(len(bars) * 5 + n_orders) % 6]
            script.setdefault(str(i), []).insert(0, ["recond", target, new_req])
    return {"syms": syms, "pairs": pairs, "sym_prec": sym_prec, "pair_info": pair_info, "default_pair": default_pair,
            "fee": fee, "liq": liq, "lend": lend, "initial": initial, "bars": bars, "script": script,
            "subscribe_first": True if wide else rnd.random() < 0.3, "profile": "wide" if wide else profile,
            "ample": profile == "ample",
            # pairs whose bar events the strategy handles (the others only feed the exchange)
            "handler_pairs": sorted(rnd.sample(range(3), rnd.choice([1, 1, 2]))) if wide else None,
            # a single feed carrying the bars of every pair (multi-pair histories only)
            # the strategy listens to one or two of the first pairs of the feed
            "merged_source": True if wide else ((rnd.random() < 0.4) if (profile == "multipair" and len(pairs) > 1) else False),
            # pairs that have a second, passive subscriber besides the strategy's handler
            "extra_subs": ([i for i in range(len(pairs)) if rnd.random() < 0.4]
                           if (profile == "multipair" and len(pairs) > 1) else [])}


def gen_adaptive(rnd):
    """A strategy whose requests depend on what it reads back: orders sized from get_balances() at the same instant on
    two or three pairs (handlers of one dispatch pass), fills re-invested from the order-event handler (two fills of one
    bar time are two events of one source), the order events subscribed before or after the bar feeds."""
    npairs = rnd.choice([2, 3, 3])
    names = ["AAA", "BBB", "CCC"][:npairs]
    pairs = [[n, "USD"] for n in names]
    sym_prec = {n: rnd.choice([0, 2, 3]) for n in names}
    sym_prec["USD"] = 2
    px = {n: rnd.choice([10, 20, 25, 40]) for n in names}
    nt = rnd.randint(5, 8)
    bars = []
    for k in range(nt):
        for pi, n in enumerate(names):
            p = px[n] + rnd.choice([0, 0, 1, -1])
            bars.append([pi, 60 * (k + 1), dec(p, 2), dec(p + 1, 2), dec(p - 1, 2), dec(p, 2), "100000"])
    script = {}
    for k in range(nt - 1):
        if k % 2 == 0 or rnd.random() < 0.4:
            chosen = rnd.sample(range(npairs), rnd.choice([2, npairs]))
            for pi in chosen:
                frac = rnd.choice([(1, 2), (1, 2), (1, 3), (3, 4), (1, 1)])
                script.setdefault(str(k * npairs + pi), []).append(
                    ["spend", pi, frac[0], frac[1], dec(px[names[pi]] + rnd.choice([2, 5]), 2)])
        elif rnd.random() < 0.5:
            pi = rnd.randrange(npairs)
            script.setdefault(str(k * npairs + pi), []).append(
                ["create", "market", "sell", pi, dec(rnd.choice([1, 5, 10]), sym_prec[names[pi]]), None, None, False, False])
    on_fill = []
    for _ in range(rnd.randint(2, 5)):
        pi = rnd.randrange(npairs)
        frac = rnd.choice([(1, 2), (1, 3), (1, 1)])
        on_fill.append(["spend", pi, frac[0], frac[1], dec(px[names[pi]] + rnd.choice([2, 5]), 2)])
    initial = {n: dec(rnd.choice([0, 20, 100]), sym_prec[n]) for n in names}
    initial["USD"] = dec(rnd.choice([100000, 50000, 9999]), 2)
    return {"syms": names + ["USD"], "pairs": pairs, "sym_prec": sym_prec, "pair_info": {}, "default_pair": None,
            "fee": rnd.choice([None, None, ["0.1", "0"]]), "liq": None, "lend": None, "initial": initial, "bars": bars,
            "script": script, "on_fill": on_fill, "order_events_first": rnd.random() < 0.6,
            "subscribe_first": rnd.random() < 0.3, "profile": "adaptive", "ample": False, "handler_pairs": None,
            "merged_source": False, "extra_subs": []}


def gen_two_venues(rnd):
    """Two feeds for one pair (two venues, or overlapping files whose rows differ): some periods have two bars with the
    same begin and the same delivery time, the first one narrow, the second one with the period's real range.  Ample
    funds, unlimited liquidity: whichever of the two reaches a limit / stop has to fill the order."""
    case = gen_case(rnd, "ample", "small")
    if len(case["pairs"]) != 1 and not all(b[0] == 0 for b in case["bars"]):
        # keep it to histories whose bars can be doubled without reordering other pairs' bars of the same instant
        pass
    bars, script, remap = [], {}, {}
    prev_close = {}
    for i, b in enumerate(case["bars"]):
        pc = prev_close.get(b[0])
        if pc is not None and (i * 7 + len(case["bars"])) % 3 != 0:
            # the other venue's bar of the same period comes first: flat at the previous close, it reaches nothing new
            bars.append([b[0], b[1], pc, pc, pc, pc, b[6]])
        remap[i] = len(bars)
        bars.append(b)
        prev_close[b[0]] = b[5]
    for k, acts in case["script"].items():
        script[str(remap[int(k)])] = acts
    case["bars"], case["script"], case["profile"] = bars, script, "twovenues"
    return case


def gen_fine_grid(rnd):
    """Prices with more decimals than anybody rounds to: a quote precision of 18 (or 13), limit / stop prices on 12
    decimals and bars whose extremes miss them by a few units of the 13th: the bar does not reach the order."""
    qp = rnd.choice([18, 18, 13])
    bp = rnd.choice([0, 2])
    base = F(rnd.randint(100000, 999999), 10 ** 12)                  # e.g. 0.000000123456
    off = F(rnd.choice([4, 3, 49]), 10 ** 14)                         # far below half a unit of the 12th decimal
    op = rnd.choice(["buy", "sell"])
    kind = rnd.choice(["limit", "limit", "stop"])
    amount = F(rnd.randint(1, 9) * 10 ** 5)
    ref = base * 3 if (op == "buy") == (kind == "limit") else base / 3
    # bar 2 stays on the far side of the price by [off]: a buy limit / sell stop below the low, a sell limit / buy stop above the high
    if (op == "buy") == (kind == "limit"):
        lo = base + off
        o2, h2, l2, c2 = lo * 2, lo * 3, lo, lo * 2
    else:
        hi = base - off
        o2, h2, l2, c2 = hi / 2, hi, hi / 3, hi / 2
    q = lambda x: dec(F(int(x * 10 ** qp), 10 ** qp), qp)         # noqa
    bars = [[0, 60, q(ref), q(ref), q(ref), q(ref), "1000000000"], [0, 120, q(o2), q(h2), q(l2), q(c2), "1000000000"],
            [0, 180, q(c2), q(c2), q(c2), q(c2), "1000000000"]]
    order = ["create", kind, op, 0, dec(amount, bp), dec(base, qp) if kind == "limit" else None,
             dec(base, qp) if kind == "stop" else None, False, False]
    return {"syms": ["SHIB", "ETH"], "pairs": [["SHIB", "ETH"]], "sym_prec": {"SHIB": bp, "ETH": qp}, "pair_info": {},
            "default_pair": None, "fee": None, "liq": None, "lend": None,
            "initial": {"SHIB": dec(10 ** 9, bp), "ETH": dec(10 ** 6, qp)}, "bars": bars,
            "script": {"0": [order], "2": [["list", None]]}, "subscribe_first": False, "profile": "finegrid", "ample": True}


def gen_inverse_pairs(rnd):
    """Both orientations of one market are fed (BTC/USD and USD/BTC, forex style), at prices that are not exact inverses
    of each other; loans whose interest is charged in the other symbol need a conversion between the two."""
    n = rnd.randint(4, 7)
    p = rnd.choice([20000, 25000, 40000])
    bars = []
    for k in range(n):
        t = 60 * (k + 1)
        bars.append([0, t, dec(p, 2), dec(p, 2), dec(p, 2), dec(p, 2), "1000"])
        inv = F(1, p - 500)                                           # the inverse feed is a little off
        bars.append([1, t, dec(inv, 8), dec(inv, 8), dec(inv, 8), dec(inv, 8), "1000"])
    conds = {"BTC": ["USD", rnd.choice(["10", "5"]), 1024, "0", "0.2"], "USD": ["BTC", "10", 2048, "0", "0.2"]}
    script = {"0": [["loan", "BTC", "1.00000000"]], "3": [["loan", "USD", "1000.00"]],
              str(2 * n - 3): [["repay", 0], ["repay", 1]],
              "5": [["create", "market", "sell", 0, "0.50000000", None, None, False, True]]}
    return {"syms": ["BTC", "USD"], "pairs": [["BTC", "USD"], ["USD", "BTC"]], "sym_prec": {"BTC": 8, "USD": 2},
            "pair_info": {}, "default_pair": None, "fee": None, "liq": None,
            "lend": {"quote": rnd.choice(["USD", "BTC"]), "default": None, "conds": conds},
            "initial": {"BTC": "2.00000000", "USD": "500000.00"}, "bars": bars, "script": script,
            "subscribe_first": False, "profile": "inverse", "ample": False}


def gen_margin_edge(rnd):
    """Loans requested exactly at the margin limit and one precision unit beyond it, on accounts of every size (the unit
    is a relative 1e-11 of a large account): equity E, requirement r, nothing borrowed yet -> at most E / r can be borrowed."""
    r_txt = rnd.choice(["0.2", "0.5", "0.25", "0.1"])
    r = F(Decimal(r_txt))
    equity = rnd.choice([F(100000000), F(1000000000), F(12345678912, 100), F(1000), F(250000000000), F(5, 100)])
    limit = equity / r
    unit = F(1, 100)
    over = rnd.choice([0, 1, 1, 1, 2, -1])
    amount = limit + over * unit
    bars = [[0, 60 * (k + 1), "100.00", "100.00", "100.00", "100.00", "10"] for k in range(3)]
    script = {"0": [["loan", "USD", dec(amount, 2)]], "1": [["loan", "USD", dec(unit, 2)], ["repay", 0]]}
    return {"syms": ["BTC", "USD"], "pairs": [["BTC", "USD"]], "sym_prec": {"BTC": 8, "USD": 2}, "pair_info": {},
            "default_pair": None, "fee": None, "liq": None,
            "lend": {"quote": "USD", "default": None, "conds": {"USD": ["USD", "0", 0, "0", r_txt]}},
            "initial": {"BTC": "0.00000000", "USD": dec(equity, 2)}, "bars": bars, "script": script,
            "subscribe_first": False, "profile": "marginedge", "ample": False}


def gen_reconfig(rnd):
    """Precision changed while the backtest runs (Exchange.set_symbol_precision / set_pair_info called from a strategy
    handler): one or two changes, raising or lowering the base or the quote precision of the traded pair, before or
    after the pair has traded.  Requests sent after a change use the new grid (new decimals when it got finer);
    requests sent before a lowering stay on the coarser grid, so that no open order is left with an amount the new
    grid cannot express."""
    by_sym = rnd.random() < 0.5                     # per-symbol precisions, or a PairInfo for the pair
    two_pairs = rnd.random() < 0.3
    moves = {"b": [(0, 2), (2, 8), (2, 4), (4, 2), (2, 0), (8, 2), (0, 8)], "q": [(2, 4), (2, 0), (4, 2), (0, 2), (2, 6)]}
    bp0 = qp0 = None
    phases = []                                      # precision (bp, qp) per phase
    which = rnd.choice(["b", "b", "q"])
    frm, to = rnd.choice(moves[which])
    bp, qp = (frm, rnd.choice([2, 2, 0, 4])) if which == "b" else (rnd.choice([2, 0, 4, 8]), frm)
    phases.append((bp, qp))
    changes = [(which, to)]
    phases.append((to, qp) if which == "b" else (bp, to))
    if rnd.random() < 0.35:
        w2 = rnd.choice(["b", "q"])
        cur = phases[-1]
        t2 = rnd.choice([x for x in (0, 2, 4, 8) if x != (cur[0] if w2 == "b" else cur[1])])
        changes.append((w2, t2))
        phases.append((t2, cur[1]) if w2 == "b" else (cur[0], t2))
    nb = rnd.randint(6, 16)
    cut = sorted(rnd.sample(range(0, nb - 1), len(changes)))
    ample = rnd.random() < 0.5
    fee = rnd.choice([None, ["0.25", "0"], ["1", "0.01"], ["0.1", "0.5"]])
    liq = None if ample or rnd.random() < 0.5 else [rnd.choice(["25", "50", "10"]), rnd.choice(["0", "0", "10"])]
    syms = ["BTC", "USD"] + (["ETH"] if two_pairs else [])
    pairs = [["BTC", "USD"]] + ([["ETH", "USD"]] if two_pairs else [])
    sym_prec = {"BTC": phases[0][0], "USD": phases[0][1]}
    pair_info = {}
    if not by_sym:
        pair_info["0"] = [phases[0][0], phases[0][1]]
        sym_prec = {"BTC": 8, "USD": rnd.choice([2, 8])}
    if two_pairs:
        sym_prec["ETH"] = rnd.choice([1, 3])

    def phase_of(i):
        return sum(1 for c in cut if c <= i)

    def grid_of(i, j):
        """coarsest precision (component j) from the phase of bar i on: what requests sent at bar i may use"""
        return min(ph[j] for ph in phases[phase_of(i):])
    px = F(rnd.choice([100, 250, 40]))
    bars = []
    for k in range(nb):
        gq = grid_of(k, 1)
        tick = F(1, 10 ** gq)
        step = max(tick, px / 50)
        pts = [max(tick, F(int((px + step * rnd.randint(-3, 3)) / tick)) * tick) for _ in range(4)]
        o, c = pts[0], pts[1]
        vol = rnd.choice(["10", "100", "37.5", "1000", "3", "12.345"])
        bars.append([0, 60 * (k + 1), dec(o, gq), dec(max(pts), gq), dec(min(pts), gq), dec(c, gq), vol])
        if two_pairs and rnd.random() < 0.6:
            bars.append([1, 60 * (k + 1), "10.00", "10.50", "9.50", "10.00", "100"])
        px = c
    script = {}
    n_orders = 0
    chg = 0
    for i, b in enumerate(bars):
        if b[0] != 0:
            continue
        k = b[1] // 60 - 1
        acts = []
        while chg < len(cut) and cut[chg] == k:
            w, to = changes[chg]
            ph = phases[chg + 1]
            if by_sym:
                acts.append(["reconfig", "sym", "BTC" if w == "b" else "USD", to])
            else:
                acts.append(["reconfig", "pair", 0, [ph[0], ph[1]]])
            chg += 1
        gb, gq = grid_of(k, 0), grid_of(k, 1)
        cur_b = phases[phase_of(k)][0]
        tick = F(1, 10 ** gq)
        last = F(Decimal(b[5]))
        for _ in range(rnd.choice([0, 1, 1, 2, 3])):
            r = rnd.random()
            if r < 0.8:
                kind = rnd.choice(["market", "market", "limit", "stop", "stoplimit", "limit"])
                op = rnd.choice(["buy", "sell"])
                # amounts that need every decimal of the grid they may use
                amt = F(rnd.randint(1, 400 * 10 ** min(gb, 2)), 10 ** min(gb, 2)) + (F(rnd.randint(1, 10 ** gb - 1), 10 ** gb) if gb > 2 else 0)
                if rnd.random() < 0.06:
                    amt = amt + F(1, 10 ** (cur_b + 1))             # finer than the precision in force: to be rejected
                    amount = dec(amt, cur_b + 1)
                else:
                    amount = dec(amt, gb)
                off = rnd.randint(-3, 3) * max(tick, last / 50)
                pr = dec(max(tick, F(int((last + off) / tick)) * tick), gq)
                pr2 = dec(max(tick, F(int((last + rnd.randint(-3, 3) * max(tick, last / 50)) / tick)) * tick), gq)
                acts.append(["create", kind, op, 0, amount, pr if kind in ("limit", "stoplimit") else None,
                             pr2 if kind in ("stop", "stoplimit") else None, False, False])
                n_orders += 1
            elif r < 0.9:
                acts.append(["cancel", rnd.randrange(max(1, n_orders))])
            else:
                acts.append(["list", rnd.choice([None, 0])])
        if acts:
            script[str(i)] = acts
    if ample:
        initial = {"BTC": dec(10 ** 7, max(p[0] for p in phases)), "USD": dec(10 ** 10, max(p[1] for p in phases))}
    else:
        initial = {"BTC": dec(rnd.choice([0, 10, 500, 1000]), phases[0][0]),
                   "USD": dec(rnd.choice([1000, 50000, 100000, 555.55]), phases[0][1])}
    if two_pairs:
        initial["ETH"] = "5.0"
    return {"syms": syms, "pairs": pairs, "sym_prec": sym_prec, "pair_info": pair_info, "default_pair": None,
            "fee": fee, "liq": liq, "lend": None, "initial": initial, "bars": bars, "script": script,
            "subscribe_first": rnd.random() < 0.3, "profile": "reconfig", "ample": ample}


def gen_boundary(rnd, dust=False):
    """One request whose reservation is known in closed form, with exactly that much available, or one precision
    unit less (C06's acceptance boundary).
    dust=True: a market buy on a quote currency with 13 or 18 decimals, reserved to the last unit, whose fill costs a few
    units of the last place more than the account holds (the fill must be refused, whatever the size of the shortfall)."""
    bp = rnd.choice([0, 2, 4, 8])
    qp = rnd.choice([0, 1, 2, 4, 2, 18, 13])            # 18: a quote currency counted in wei
    fee = rnd.choice([None, ["0.25", "0"], ["1", "0.01"], ["0.1", "5"], ["2.5", "0"], ["33.3333", "0"]])
    kind = rnd.choice(["limit", "stop", "stoplimit", "market"])
    op = rnd.choice(["buy", "sell"])
    if dust:
        qp = 18 if qp % 2 == 0 else 13
        kind, op = "market", "buy"
    tick = F(1, 10 ** qp)
    price = F(rnd.randint(1, 50000), 10 ** qp) if qp else F(rnd.randint(1, 500))
    amount = F(rnd.randint(1, 50000), 10 ** bp) if bp else F(rnd.randint(1, 50))
    close = F(rnd.randint(1, 50000), 10 ** qp) if qp else F(rnd.randint(1, 500))
    if dust:
        amount = F(rnd.randint(1, 200), 10 ** min(bp, 2))
        close = F(rnd.randint(1, 50000), 10 ** rnd.choice([2, 6, qp]))
    cp = qp
    if kind == "market" and close.numerator % 2:
        # the feed quotes closes with more decimals than the pair's quote precision; the estimate uses the close as it is
        cp = qp + 3
        close = close + F((close.numerator * 7919) % 1000, 10 ** cp)
    est = price if kind != "market" else close

    def rhe(x):
        sc = x * 10 ** qp
        f = sc.numerator // sc.denominator
        r = sc - f
        z = f if r < F(1, 2) else f + 1 if r > F(1, 2) else (f if f % 2 == 0 else f + 1)
        return F(z, 10 ** qp)

    def rup(x):
        sc = x * 10 ** qp
        f = sc.numerator // sc.denominator
        return F(f if sc == f else f + 1, 10 ** qp)
    cost = rhe(amount * est)
    feev = F(0)
    if fee is not None and cost != 0:
        feev = rup(max(cost * F(Decimal(fee[0])) / 100, F(Decimal(fee[1]))))
    need = {}
    if op == "buy":
        if cost + feev > 0:
            need["USD"] = cost + feev
    else:
        need["BTC"] = amount
        if feev > cost:
            need["USD"] = feev - cost
    short = rnd.random() < 0.5 and not dust
    initial = {"BTC": dec(need.get("BTC", 0), bp), "USD": dec(need.get("USD", 0), qp)}
    if short and need:
        s = rnd.choice(sorted(need))
        unit = F(1, 10 ** (bp if s == "BTC" else qp))
        initial[s] = dec(need[s] - unit, bp if s == "BTC" else qp)
    elif not short and rnd.random() < 0.3:
        initial["USD"] = dec(need.get("USD", 0) + rnd.randint(0, 3) * tick, qp)
    bars = [[0, 60, dec(close, cp), dec(close, cp), dec(close, cp), dec(close, cp), "10"],
            [0, 120, dec(close, cp), dec(close + tick, cp), dec(close, cp), dec(close, cp), "10"]]
    if kind == "market" and qp >= 13:
        # the next bar opens one (tiny) tick higher: a buy that was reserved to the last unit now costs a hair more than the
        # account holds
        bars[1][2] = dec(close + tick, cp)
    limit = dec(price, qp) if kind in ("limit", "stoplimit") else None
    stop = dec(price, qp) if kind in ("stop", "stoplimit") else None
    # requests that may borrow but do not need to (exactly covered): margin lending configured, auto_borrow set
    may_borrow = (not short) and (not dust) and amount.numerator % 3 == 0
    lend = None
    if may_borrow:
        lend = {"quote": "USD", "default": ["USD", "10", 4096, "0", "0.5"], "conds": {}}
    script = {"0": [["create", kind, op, 0, dec(amount, bp), limit, stop, may_borrow, False]]}
    return {"syms": ["BTC", "USD"], "pairs": [["BTC", "USD"]], "sym_prec": {"BTC": bp, "USD": qp}, "pair_info": {},
            "default_pair": None, "fee": fee, "liq": rnd.choice([None, ["25", "0"]]) if not dust else None, "lend": lend,
            "initial": initial,
            "bars": bars, "script": script, "subscribe_first": False, "profile": "boundary", "ample": False,
            "boundary_short": short}


def gen_compete(rnd):
    """Several fill-or-kill orders competing for one bar's liquidity and for the same funds."""
    bp = rnd.choice([0, 0, 2])
    qp = 2
    L = rnd.choice([100, 100, 50, 10])
    pct = rnd.choice(["25", "50", "10"])
    vol = F(L * 100) / F(Decimal(pct))
    fee = rnd.choice([None, None, ["0.5", "0"], ["1", "1"]])
    liq = [pct, rnd.choice(["0", "10", "0"])]
    price = F(rnd.choice([30, 35, 100, 12]))
    initial = {"USD": dec(price * L * rnd.choice([F(1, 5), F(1, 2), F(3, 10), 2]), qp),
               "BTC": dec(rnd.choice([0, 0, L // 2, L]), bp)}
    nb = rnd.randint(2, 6)
    bars = []
    cur = price
    for k in range(nb):
        o = cur + rnd.randint(-2, 2)
        c = o + rnd.randint(-2, 2)
        h = max(o, c) + rnd.randint(0, 5)
        lo = max(F(1), min(o, c) - rnd.randint(0, 5))
        v = vol if rnd.random() < 0.8 else vol / 4
        bars.append([0, 60 * (k + 1), dec(o, qp), dec(h, qp), dec(lo, qp), dec(c, qp), str(Decimal(v.numerator) / Decimal(v.denominator))])
        cur = c if rnd.random() < 0.7 else c * rnd.choice([2, 3])
    script = {}
    pre = []
    for i in range(nb - 1):
        acts = []
        for _ in range(rnd.choice([2, 3, 3, 4])):
            kind = rnd.choice(["market", "market", "market", "stop", "limit"])
            op = rnd.choice(["buy", "buy", "sell"])
            amt = max(1, int(L * rnd.choice([F(9, 10), F(1, 5), F(1, 2), F(3, 5), F(3, 10), 1, F(1, 10)])))
            px = F(Decimal(bars[i][5]))
            limit = dec(px + rnd.randint(-3, 3), qp) if kind == "limit" else None
            stop = dec(px + rnd.randint(-3, 3), qp) if kind == "stop" else None
            acts.append(["create", kind, op, 0, dec(amt, bp), limit, stop, False, False])
        script[str(i)] = acts
    return {"syms": ["BTC", "USD"], "pairs": [["BTC", "USD"]], "sym_prec": {"BTC": bp, "USD": qp}, "pair_info": {},
            "default_pair": None, "fee": fee, "liq": liq, "lend": None, "initial": initial, "bars": bars,
            "script": script, "subscribe_first": False, "profile": "compete", "ample": False}
