"""C16 / C17 driver: the real Binance and Bitstamp clients against a loopback aiohttp server that records the raw
request line, headers and body, and verifies signatures over the bytes it received, like the exchanges do."""
import contextlib
import enum
import ast
import asyncio
import hashlib
import hmac
import os
import re
import time
from decimal import Decimal
from urllib.parse import parse_qsl, urlsplit

from aiohttp import web

from harness import common

KEY, SECRET = "the-key", "the-secret"
PLAIN = re.compile(r"^-?\d+(\.\d+)?$")


TB_PERIOD = 0.6       # seconds per token of the limiter that run_binance / run_bitstamp give their client (with_tb)


class Loopback:
    def __init__(self):
        self.requests = []
        self.runner = None
        self.port = None
        self.drop_next = 0        # number of coming requests to read and then drop without answering
        self.reject_signed = 0    # number of coming signed requests to reject: "timestamp outside of the recvWindow"

    async def __aenter__(self):
        async def handler(request):
            body = await request.read()
            self.requests.append({"method": request.method, "raw_path": request.raw_path,
                                  "headers": {k: v for k, v in request.headers.items()}, "body": body,
                                  "received_ms": int(round(time.time() * 1000))})
            if self.drop_next > 0:
                self.drop_next -= 1
                request.transport.close()        # the server went away after reading the request
                return web.Response()
            if self.reject_signed > 0 and "signature=" in request.raw_path:
                self.reject_signed -= 1
                return web.json_response({"code": -1021, "msg": "Timestamp for this request is outside of the recvWindow."},
                                         status=400)
            if request.path.endswith("/trading-pairs-info/"):
                return web.json_response([{"name": "BTC/USD", "url_symbol": "btcusd", "base_decimals": 8,
                                           "counter_decimals": 2, "minimum_order": "10.0 USD", "trading": "Enabled"},
                                          {"name": "ETH/USD", "url_symbol": "ethusd", "base_decimals": 8,
                                           "counter_decimals": 2, "minimum_order": "10.0 USD", "trading": "Enabled"}])
            if request.path.endswith("/exchangeInfo"):
                return web.json_response({"symbols": [{"symbol": "BTCUSDT", "permissions": ["SPOT", "MARGIN"], "filters": [
                    {"filterType": "PRICE_FILTER", "tickSize": "0.01000000"},
                    {"filterType": "LOT_SIZE", "stepSize": "0.00001000"}]}]})
            if request.path.endswith("/openOrders") or request.path.endswith("/myTrades") or \
                    "/open_orders/" in request.path or "/account_balances/" == request.path[-18:]:
                return web.json_response([])
            return web.json_response({})
        app = web.Application()
        app.router.add_route("*", "/{tail:.*}", handler)
        self.runner = web.AppRunner(app, access_log=None)
        await self.runner.setup()
        site = web.TCPSite(self.runner, "127.0.0.1", 0)
        await site.start()
        self.port = site._server.sockets[0].getsockname()[1]
        return self

    async def __aexit__(self, *a):
        await self.runner.cleanup()

    @property
    def base_url(self):
        return f"http://127.0.0.1:{self.port}/"


def overrides(lb):
    return {"api": {"http": {"base_url": lb.base_url, "timeout": 5}}}


# ------------------------------------------------------------------------------------------------
# verification, as the exchanges do it

def verify_binance(req, key_only=False):
    """returns list of (fingerprint, message)"""
    out = []
    parts = urlsplit(req["raw_path"])
    query = parts.query
    if "X-MBX-APIKEY" not in req["headers"] or req["headers"]["X-MBX-APIKEY"] != KEY:
        out.append(("sig:api-key-missing", f"{req['method']} {parts.path}: X-MBX-APIKEY missing or wrong"))
    if key_only:       # user data stream endpoints are authenticated by the API key alone
        return out
    m = re.search(r"(^|&)signature=([0-9a-fA-F]+)$", query)
    if m is None:
        return out + [("sig:signature-missing", f"{req['method']} {req['raw_path']}: no trailing signature parameter")]
    unsigned = query[:m.start()]
    payload = unsigned.encode() + req["body"]
    exp = hmac.new(SECRET.encode(), msg=payload, digestmod=hashlib.sha256).hexdigest()
    if exp != m.group(2).lower():
        out.append(("sig:signed-ne-sent", f"{req['method']} {parts.path}: the signature does not verify over the bytes "
                                          f"received: query '{unsigned}' body {req['body']!r}"))
    ts = dict(parse_qsl(unsigned)).get("timestamp")
    if ts is None or not ts.isdigit():
        out.append(("sig:timestamp-missing", f"{parts.path}: timestamp missing"))
    elif abs(int(ts) - req["received_ms"]) > 1000:
        out.append(("sig:timestamp-stale", f"{parts.path}: timestamp {ts} is {req['received_ms'] - int(ts)} ms away "
                                           f"from the time of reception"))
    return out


def verify_bitstamp(req, seen_nonces):
    out = []
    h = req["headers"]
    parts = urlsplit(req["raw_path"])
    if h.get("X-Auth") != "BITSTAMP " + KEY:
        out.append(("sig:api-key-missing", f"{parts.path}: X-Auth missing or wrong"))
        return out
    host = h.get("Host", "").split(":")[0]
    msg = (h["X-Auth"] + req["method"] + host + parts.path + parts.query + h.get("Content-Type", "") +
           h.get("X-Auth-Nonce", "") + h.get("X-Auth-Timestamp", "") + h.get("X-Auth-Version", "")).encode() + req["body"]
    exp = hmac.new(SECRET.encode(), msg=msg, digestmod=hashlib.sha256).hexdigest()
    if exp != h.get("X-Auth-Signature", "").lower():
        out.append(("sig:signed-ne-sent", f"POST {parts.path}: the v2 signature does not verify over what was received "
                                          f"(content type {h.get('Content-Type')!r}, body {req['body']!r})"))
    nonce = h.get("X-Auth-Nonce")
    if nonce in seen_nonces:
        out.append(("sig:nonce-repeated", f"nonce {nonce} used twice"))
    seen_nonces.add(nonce)
    ts = h.get("X-Auth-Timestamp", "")
    if not ts.isdigit() or abs(int(ts) - req["received_ms"]) > 1000:
        out.append(("sig:timestamp-stale", f"{parts.path}: X-Auth-Timestamp {ts} vs reception {req['received_ms']}"))
    if h.get("X-Auth-Version") != "v2":
        out.append(("sig:version", "X-Auth-Version is not v2"))
    if req["body"] and h.get("Content-Type") != "application/x-www-form-urlencoded":
        out.append(("sig:content-type", f"body sent with content type {h.get('Content-Type')!r}"))
    return out


# ------------------------------------------------------------------------------------------------
# inventory of signed endpoints, read off the source (fail closed)

def signed_methods(rel, func_name, predicate):
    tree = ast.parse(open(os.path.join(common.REPO, rel)).read())
    out = set()
    for cls in [n for n in ast.walk(tree) if isinstance(n, ast.ClassDef)]:
        for fn in [n for n in cls.body if isinstance(n, (ast.AsyncFunctionDef, ast.FunctionDef))]:
            for call in [n for n in ast.walk(fn) if isinstance(n, ast.Call)]:
                f = call.func
                name = f.attr if isinstance(f, ast.Attribute) else getattr(f, "id", None)
                if name == func_name and predicate(call):
                    out.add((cls.name, fn.name))
    return out


def binance_inventory():
    def pred(call):
        return any(k.arg in ("send_sig", "send_key") and isinstance(k.value, ast.Constant) and k.value.value is True
                   for k in call.keywords)
    inv = set()
    for rel in ("basana/external/binance/client/spot.py", "basana/external/binance/client/margin.py"):
        inv |= signed_methods(rel, "make_request", pred)
    return inv


def bitstamp_inventory():
    def pred(call):
        return len(call.args) >= 3 and isinstance(call.args[2], ast.Constant) and call.args[2].value is True
    return signed_methods("basana/external/bitstamp/client.py", "_make_request", pred)


# ------------------------------------------------------------------------------------------------
# values

ID_ALPHABET = list("abcXYZ019-_.~") + list(":/@!$'()*, +&=%#?;[]{}|\\\"<>^`") + ["ñ", "€", "日"]


def gen_id(rnd):
    n = rnd.randint(1, 12)
    return "".join(rnd.choice(ID_ALPHABET) for _ in range(n))


def gen_decimal(rnd):
    shapes = ["0.00000085", "1E+3", "1000", "0.10", "100.00", "20000.0", "1.23456789", "8.5E-7", "1E-12", "1E+12",
              "123456789012.12345678", "0.000001", "1.0E+2", "5", "0.5", "250.10", "1000000000000.0", "7.0", "3.1400",
              "12E-1", "0.00100000", "9.99999999"]
    if rnd.random() < 0.6:
        return Decimal(rnd.choice(shapes))
    if rnd.random() < 0.12:
        # more significant digits than the default decimal context keeps (28): built from text, hence exact
        nd = rnd.randint(29, 40)
        digits = rnd.choice("123456789") + "".join(rnd.choice("0123456789") for _ in range(nd - 2)) + rnd.choice("123456789")
        return Decimal(digits + "E-" + str(rnd.randint(nd - 12, nd + 4)))
    digits = "".join(rnd.choice("0123456789") for _ in range(rnd.randint(1, 14))).lstrip("0") or "1"
    exp = rnd.randint(-12, 3)
    d = Decimal(digits).scaleb(exp)
    if d == 0:
        d = Decimal("1E-8")
    if d > Decimal("1E+12"):
        d = Decimal("1E+12")
    return d


# ------------------------------------------------------------------------------------------------
# calls: every signed endpoint of both clients

class StpMode(str, enum.Enum):
    EXPIRE_TAKER = "EXPIRE_TAKER"
    EXPIRE_MAKER = "EXPIRE_MAKER"
    EXPIRE_BOTH = "EXPIRE_BOTH"


class RespType(str, enum.Enum):
    FULL = "FULL"
    ACK = "ACK"


def binance_calls(rnd):
    """[(inventory key, coroutine factory(api_client), expectations)]; expectations: {param: Decimal passed}, omitted keys"""
    D = lambda: gen_decimal(rnd)       # noqa
    cid = lambda: gen_id(rnd)          # noqa
    calls = []
    sym = "BTCUSDT"

    def add(key, factory, dec=None, omitted=(), present=None):
        calls.append({"key": key, "factory": factory, "dec": dec or {}, "omitted": list(omitted), "present": present or {}})
    for acct, cls, extra in (("spot_account", "SpotAccount", {}),
                             ("cross_margin_account", "MarginAccount", {"side_effect_type": "MARGIN_BUY"}),
                             ("isolated_margin_account", "MarginAccount", {})):
        q, p, sp, x = D(), D(), D(), D()
        c1 = cid()
        add((cls, "create_order"),
            (lambda a, q=q, p=p, c1=c1, acct=acct: getattr(a, acct).create_order(
                sym, "BUY", "LIMIT", time_in_force="GTC", quantity=q, price=p, new_client_order_id=c1)),
            dec={"quantity": q, "price": p}, omitted=["quoteOrderQty", "stopPrice"],
            present={"symbol": sym, "side": "BUY", "type": "LIMIT", "newClientOrderId": c1})
        q2, sp2, p2 = D(), D(), D()
        add((cls, "create_order"),
            (lambda a, q2=q2, sp2=sp2, p2=p2, x=x, acct=acct: getattr(a, acct).create_order(
                sym, "SELL", "STOP_LOSS_LIMIT", time_in_force="GTC", quantity=q2, price=p2, stop_price=sp2,
                icebergQty=x)),
            dec={"quantity": q2, "price": p2, "stopPrice": sp2, "icebergQty": x}, omitted=["newClientOrderId"],
            present={"side": "SELL", "type": "STOP_LOSS_LIMIT"})
        qq = D()
        add((cls, "create_order"),
            (lambda a, qq=qq, acct=acct: getattr(a, acct).create_order(sym, "BUY", "MARKET", quote_order_qty=qq)),
            dec={"quoteOrderQty": qq}, omitted=["quantity", "price", "timeInForce"])
        # extra keyword arguments of other types, as a caller forwarding its own settings passes them (unset ones included)
        qk, sid = D(), rnd.randint(1, 10 ** 6)
        unset = rnd.choice([None, None, True, 0])
        add((cls, "create_order"),
            (lambda a, qk=qk, sid=sid, unset=unset, acct=acct: getattr(a, acct).create_order(
                sym, "SELL", "MARKET", quantity=qk, strategyId=sid, selfTradePreventionMode=unset)),
            dec={"quantity": qk}, omitted=["price"], present={"strategyId": str(sid)})
        # ... and members of a string enumeration, the usual way to spell the exchange's constants in user code
        qe, mode = D(), rnd.choice(list(StpMode))
        add((cls, "create_order"),
            (lambda a, qe=qe, mode=mode, acct=acct: getattr(a, acct).create_order(
                sym, "BUY", "MARKET", quantity=qe, selfTradePreventionMode=mode, newOrderRespType=RespType.FULL)),
            dec={"quantity": qe}, omitted=["price"], present={"selfTradePreventionMode": mode.value, "newOrderRespType": "FULL"})
        c2 = cid()
        add((cls, "query_order"), (lambda a, c2=c2, acct=acct: getattr(a, acct).query_order(sym, orig_client_order_id=c2)),
            present={"origClientOrderId": c2}, omitted=["orderId"])
        add((cls, "query_order"), (lambda a, acct=acct: getattr(a, acct).query_order(sym, order_id=123)),
            present={"orderId": "123"}, omitted=["origClientOrderId"])
        add((cls, "get_open_orders"), (lambda a, acct=acct: getattr(a, acct).get_open_orders(sym)))
        add((cls, "get_open_orders"), (lambda a, acct=acct: getattr(a, acct).get_open_orders()), omitted=["symbol"])
        c3 = cid()
        add((cls, "cancel_order"), (lambda a, c3=c3, acct=acct: getattr(a, acct).cancel_order(sym, orig_client_order_id=c3)),
            present={"origClientOrderId": c3})
        add((cls, "get_trades"), (lambda a, acct=acct: getattr(a, acct).get_trades(sym, order_id=77)))
        oq, op, osp, osl = D(), D(), D(), D()
        c4, c5 = cid(), cid()
        add((cls, "create_oco"),
            (lambda a, oq=oq, op=op, osp=osp, osl=osl, c4=c4, c5=c5, acct=acct: getattr(a, acct).create_oco(
                sym, "SELL", oq, op, osp, stop_limit_price=osl, stop_limit_time_in_force="GTC",
                list_client_order_id=c4, limit_client_order_id=c5)),
            dec={"quantity": oq, "price": op, "stopPrice": osp, "stopLimitPrice": osl}, omitted=["stopClientOrderId"],
            present={"listClientOrderId": c4, "limitClientOrderId": c5})
        c6 = cid()
        add((cls, "cancel_oco_order"),
            (lambda a, c6=c6, acct=acct: getattr(a, acct).cancel_oco_order(sym, client_order_list_id=c6)),
            present={"origClientOrderId": c6})
        c7 = cid()
        add((cls, "query_oco_order"),
            (lambda a, c7=c7, acct=acct: getattr(a, acct).query_oco_order(client_order_list_id=c7)),
            present={"origClientOrderId": c7})
        add((cls if acct == "spot_account" else {"cross_margin_account": "CrossMarginAccount",
                                                 "isolated_margin_account": "IsolatedMarginAccount"}[acct],
             "get_account_information"), (lambda a, acct=acct: getattr(a, acct).get_account_information()))
    # listen keys and transfers
    add(("SpotAccount", "create_listen_key"), lambda a: a.spot_account.create_listen_key())
    lk = gen_id(rnd)
    add(("SpotAccount", "keep_alive_listen_key"), lambda a, lk=lk: a.spot_account.keep_alive_listen_key(lk),
        present={"listenKey": lk})
    add(("CrossMarginAccount", "create_listen_key"), lambda a: a.cross_margin_account.create_listen_key())
    add(("CrossMarginAccount", "keep_alive_listen_key"),
        lambda a, lk=lk: a.cross_margin_account.keep_alive_listen_key(lk), present={"listenKey": lk})
    add(("IsolatedMarginAccount", "create_listen_key"), lambda a: a.isolated_margin_account.create_listen_key(sym))
    add(("IsolatedMarginAccount", "keep_alive_listen_key"),
        lambda a, lk=lk: a.isolated_margin_account.keep_alive_listen_key(sym, lk), present={"listenKey": lk})
    t1, t2, t3, t4 = D(), D(), D(), D()
    add(("CrossMarginAccount", "transfer_from_spot_account"),
        lambda a, t1=t1: a.cross_margin_account.transfer_from_spot_account("BTC", t1), dec={"amount": t1})
    add(("CrossMarginAccount", "transfer_to_spot_account"),
        lambda a, t2=t2: a.cross_margin_account.transfer_to_spot_account("BTC", t2), dec={"amount": t2})
    add(("IsolatedMarginAccount", "transfer_from_spot_account"),
        lambda a, t3=t3: a.isolated_margin_account.transfer_from_spot_account("BTC", sym, t3), dec={"amount": t3})
    add(("IsolatedMarginAccount", "transfer_to_spot_account"),
        lambda a, t4=t4: a.isolated_margin_account.transfer_to_spot_account("BTC", sym, t4), dec={"amount": t4})
    return calls


def bitstamp_calls(rnd):
    D = lambda: gen_decimal(rnd)       # noqa
    calls = []

    def add(key, factory, dec=None, omitted=(), present=None, path=None):
        calls.append({"key": key, "factory": factory, "dec": dec or {}, "omitted": list(omitted),
                      "present": present or {}, "path": path})
    add(("APIClient", "get_websocket_auth_token"), lambda c: c.get_websocket_auth_token())
    add(("APIClient", "get_account_balances"), lambda c: c.get_account_balances())
    add(("APIClient", "get_account_balance"), lambda c: c.get_account_balance("btc"))
    add(("APIClient", "get_open_orders"), lambda c: c.get_open_orders("btcusd"))
    add(("APIClient", "get_open_orders"), lambda c: c.get_open_orders())
    cid = gen_id(rnd)
    add(("APIClient", "get_order_status"), lambda c, cid=cid: c.get_order_status(client_order_id=cid),
        present={"client_order_id": cid}, omitted=["id", "omit_transactions"])
    add(("APIClient", "get_order_status"), lambda c: c.get_order_status(id=1234, omit_transactions=True),
        present={"id": "1234"})
    add(("APIClient", "cancel_order"), lambda c: c.cancel_order(987), present={"id": "987"})
    a1 = D()
    c1 = gen_id(rnd)
    add(("APIClient", "create_market_order"), lambda c, a1=a1, c1=c1: c.create_market_order("buy", "btcusd", a1, client_order_id=c1),
        dec={"amount": a1}, present={"client_order_id": c1}, path="/api/v2/buy/market/btcusd/")
    a2, p2, x2 = D(), D(), D()
    add(("APIClient", "create_limit_order"),
        lambda c, a2=a2, p2=p2, x2=x2: c.create_limit_order("sell", "ethusd", a2, p2, limit_price=x2),
        dec={"amount": a2, "price": p2, "limit_price": x2}, omitted=["client_order_id"], path="/api/v2/sell/ethusd/")
    a3 = D()
    add(("APIClient", "create_instant_order"),
        lambda c, a3=a3: c.create_instant_order("sell", "btcusd", a3, amount_in_counter=True),
        dec={"amount": a3}, path="/api/v2/sell/instant/btcusd/")
    # after requests that carried a True flag: amounts and prices numerically equal to one, in several spellings
    one_a, one_p = Decimal(rnd.choice(["1", "1.0000", "1E+0"])), Decimal(rnd.choice(["1", "1.00"]))
    add(("APIClient", "create_limit_order"),
        lambda c, one_a=one_a, one_p=one_p: c.create_limit_order("buy", "btcusd", one_a, one_p),
        dec={"amount": one_a, "price": one_p}, path="/api/v2/buy/btcusd/")
    add(("APIClient", "create_market_order"), lambda c, one_a=one_a: c.create_market_order("sell", "btcusd", one_a),
        dec={"amount": one_a}, path="/api/v2/sell/market/btcusd/")
    return calls


# ------------------------------------------------------------------------------------------------
@contextlib.contextmanager
def _client_environment(variant):
    """process-wide settings that must not change what goes on the wire: a decimal context that prints exponents in lower
    case (display only), the library's loggers at DEBUG"""
    import decimal
    import logging
    ctx = decimal.getcontext()
    old_capitals = ctx.capitals
    lg = logging.getLogger("basana")
    old_level, old_prop = lg.level, lg.propagate
    sink = logging.NullHandler()
    try:
        if variant & 2:
            ctx.capitals = 0
        if variant & 4:
            lg.setLevel(logging.DEBUG)
            lg.propagate = False
            lg.addHandler(sink)
        yield
    finally:
        ctx.capitals = old_capitals
        lg.setLevel(old_level)
        lg.propagate = old_prop
        lg.removeHandler(sink)


async def run_binance(rnd, with_tb=False, reject=False):
    from basana.external.binance import client as bclient
    from basana.core.token_bucket import TokenBucketLimiter
    calls = binance_calls(rnd)
    results = []
    async with Loopback() as lb:
        tb = TokenBucketLimiter(1, TB_PERIOD, 1) if with_tb else None
        variant = rnd.randrange(8)
        ov = overrides(lb)
        if variant & 1:
            # the configuration is completed after the client was built (the port of a gateway that is only known later):
            # what counts is the configuration at the time of the request
            late, ov = ov, {"api": {"http": {"base_url": "http://localhost:9/"}}}
        api = bclient.APIClient(api_key=KEY, api_secret=SECRET, config_overrides=ov, tb=tb)
        if variant & 1:
            ov.clear()
            ov.update(late)
        if with_tb:
            # through a limiter: two ordinary calls, the three listen-key keep-alives (the client's only PUT requests),
            # and two signed requests that the server rejects for their timestamp
            keep = [c for c in calls if c["key"][1] == "keep_alive_listen_key"]
            signed = [c for c in calls if c["key"][1] == "get_open_orders"][:2]
            calls = calls[:2] + keep + signed
        with _client_environment(variant):
            for i, c in enumerate(calls):
                if with_tb and reject and i >= len(calls) - 2:
                    lb.reject_signed = 1
                n0 = len(lb.requests)
                err = None
                try:
                    await c["factory"](api)
                except Exception as e:      # noqa
                    err = repr(e)
                results.append((c, lb.requests[n0:], err))
    return results


async def run_bitstamp(rnd, with_tb=False):
    from basana.external.bitstamp import client as sclient
    from basana.core.token_bucket import TokenBucketLimiter
    calls = bitstamp_calls(rnd)
    results = []
    async with Loopback() as lb:
        tb = TokenBucketLimiter(1, TB_PERIOD, 1) if with_tb else None
        variant = rnd.randrange(8)
        ov = overrides(lb)
        if variant & 1:
            # the configuration is completed after the client was built (the port of a gateway that is only known later):
            # what counts is the configuration at the time of the request
            late, ov = ov, {"api": {"http": {"base_url": "http://localhost:9/"}}}
        api = sclient.APIClient(api_key=KEY, api_secret=SECRET, config_overrides=ov, tb=tb)
        if variant & 1:
            ov.clear()
            ov.update(late)
        with _client_environment(variant):
            for c in (calls[:3] if with_tb else calls):
                n0 = len(lb.requests)
                err = None
                try:
                    await c["factory"](api)
                except Exception as e:      # noqa
                    err = repr(e)
                results.append((c, lb.requests[n0:], err))
    return results


def received_params(req):
    parts = urlsplit(req["raw_path"])
    params = dict(parse_qsl(parts.query, keep_blank_values=True))
    if req["body"]:
        params.update(dict(parse_qsl(req["body"].decode(), keep_blank_values=True)))
    return parts.path, params


def check_params(c, req, exchange):
    """C17: what was received against what the caller passed"""
    out = []
    path, params = received_params(req)
    for k, d in c["dec"].items():
        v = params.get(k)
        if v is None:
            out.append(("wire:decimal-missing", f"{path}: parameter {k} (= {d}) not transmitted"))
        elif not PLAIN.match(v):
            out.append(("wire:not-plain-fixed-point", f"{path}: {k} = Decimal('{d}') was transmitted as '{v}'"))
        elif Decimal(v) != d:
            out.append(("wire:value-changed", f"{path}: {k} = Decimal('{d}') was transmitted as '{v}'"))
    for k in c["omitted"]:
        if k in params:
            out.append(("wire:unset-option-sent", f"{path}: option {k} was left unset but '{params[k]}' was sent"))
    for k, v in c["present"].items():
        if params.get(k) != v:
            out.append(("wire:string-changed", f"{path}: {k} = {v!r} was received as {params.get(k)!r}"))
    if c.get("path") and path != c["path"]:
        out.append(("wire:wrong-endpoint", f"expected {c['path']}, got {path}"))
    return out


async def run_dropped(rnd, which):
    """an authenticated request that the server reads and then drops without answering, on a session that already served
    a request (keep-alive connection); returns every request the server received, and the client-side error"""
    import aiohttp
    from basana.external.binance import client as bclient
    from basana.external.bitstamp import client as sclient
    async with Loopback() as lb:
        async with aiohttp.ClientSession() as session:
            if which == "bitstamp":
                api = sclient.APIClient(api_key=KEY, api_secret=SECRET, session=session, config_overrides=overrides(lb))
                first = lambda: api.get_account_balances()                                        # noqa
                second = lambda: api.create_limit_order("buy", "btcusd", gen_decimal(rnd), gen_decimal(rnd))   # noqa
            else:
                api = bclient.APIClient(api_key=KEY, api_secret=SECRET, session=session, config_overrides=overrides(lb))
                first = lambda: api.spot_account.get_open_orders("BTCUSDT")                       # noqa
                second = lambda: api.spot_account.create_order("BTCUSDT", "BUY", "MARKET", quantity=gen_decimal(rnd))   # noqa
            err = None
            await first()
            lb.drop_next = 1
            try:
                await second()
            except Exception as e:      # noqa
                err = repr(e)
            lb.drop_next = 0
            try:
                await first()
            except Exception as e:      # noqa
                err = (err or "") + " / then: " + repr(e)
            return list(lb.requests), err
