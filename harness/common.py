"""Shared plumbing for the basana verification checks.

Everything here is reporting / orchestration: seeds, the Coq runner, evidence files, replay files,
known-findings classification.  The deciding artefacts are the Coq theorems under coq/props and the
correspondence between the Gallina models under coq/theories and the real code in /repo.
"""
import hashlib
import json
import os
import random
import re
import subprocess
import sys
import time
from fractions import Fraction

VERIF = os.path.dirname(os.path.dirname(os.path.abspath(__file__)))
REPO = os.environ.get("BASANA_REPO", "/repo")
COQ = os.path.join(VERIF, "coq")
CASES = os.path.join(COQ, "cases")
COQ_FLAGS = ["-Q", os.path.join(COQ, "theories"), "Basana",
             "-Q", os.path.join(COQ, "gen"), "BasanaGen",
             "-Q", os.path.join(COQ, "props"), "BasanaProps"]
FORBIDDEN = re.compile(
    r"\b(Admitted|admit|Axiom|Axioms|Parameter|Parameters|Conjecture|Abort All|"
    r"Unset Guard Checking|Unset Positivity Checking|Unset Universe Checking|bypass_check|"
    r"native_compute)\b|-type-in-type|-impredicative-set")

TRUSTED_BASE_COMMON = [
    "Coq 8.16.1 kernel (coqc, full .vo build; vm_compute used in cases/*.v, Examples and refutation witnesses; "
    "native_compute not used)",
    "hand-written Gallina model tied to /repo by the correspondence harness (harness/*.py): generators, "
    "canonicalisation, Gallina printer, output parser",
    "Python runtime pieces modelled rather than verified: decimal (28-digit context; model is exact Q), asyncio, "
    "heapq, sorted, csv/codecs, urllib/yarl/aiohttp, hmac/hashlib, uuid, logging",
]


def ensure_repo_on_path():
    if REPO not in sys.path:
        sys.path.insert(0, REPO)
    # refuse to run against an installed copy instead of the working tree
    import basana
    p = os.path.realpath(os.path.dirname(basana.__file__))
    assert p == os.path.realpath(os.path.join(REPO, "basana")), f"basana imported from {p}, expected {REPO}/basana"


def seed_from_env(default=20260930):
    v = os.environ.get("VERIF_SEED")
    try:
        return int(v) if v not in (None, "") else default
    except ValueError:
        return int(hashlib.sha256(v.encode()).hexdigest()[:8], 16)


def rng_for(seed, *labels):
    h = hashlib.sha256(("%d|" % seed + "|".join(map(str, labels))).encode()).hexdigest()
    return random.Random(int(h[:16], 16))


# ------------------------------------------------------------------------------------------------
# Gallina literal printers

def qlit(x):
    x = Fraction(x)
    n, d = x.numerator, x.denominator
    return f"({n} # {d})" if n >= 0 else f"((-{-n}) # {d})"


def zlit(n):
    n = int(n)
    return f"{n}" if n >= 0 else f"(-{-n})"


def blit(b):
    return "true" if b else "false"


def listlit(items):
    return "[" + "; ".join(items) + "]"


def optlit(x, f):
    return "None" if x is None else f"(Some {f(x)})"


def strlit(s):
    return '"' + s.replace('"', '""') + '"'


# ------------------------------------------------------------------------------------------------
# Coq runner

class CoqError(Exception):
    pass


def run(cmd, timeout, cwd=None, env=None):
    t0 = time.time()
    try:
        p = subprocess.run(cmd, cwd=cwd, env=env, stdout=subprocess.PIPE, stderr=subprocess.STDOUT,
                           timeout=timeout, text=True)
        return p.returncode, p.stdout, time.time() - t0
    except subprocess.TimeoutExpired as e:
        out = e.stdout if isinstance(e.stdout, str) else (e.stdout or b"").decode(errors="replace")
        return 124, out + f"\n[timeout after {timeout}s]", time.time() - t0


def grep_gate():
    """No Admitted/Axiom/... anywhere in the development (comments are stripped first)."""
    bad = []
    for root in ("theories", "props", "gen"):
        for dp, _dn, fns in os.walk(os.path.join(COQ, root)):
            for fn in fns:
                if not fn.endswith(".v"):
                    continue
                path = os.path.join(dp, fn)
                txt = strip_coq_comments(open(path).read())
                for m in FORBIDDEN.finditer(txt):
                    bad.append(f"{os.path.relpath(path, COQ)}: {m.group(0)}")
    proj = open(os.path.join(COQ, "_CoqProject")).read()
    for m in FORBIDDEN.finditer(proj):
        bad.append(f"_CoqProject: {m.group(0)}")
    return bad


def strip_coq_comments(txt):
    out, depth, i, n = [], 0, 0, len(txt)
    in_str = False
    while i < n:
        if not in_str and txt.startswith("(*", i):
            depth += 1
            i += 2
        elif not in_str and depth and txt.startswith("*)", i):
            depth -= 1
            i += 2
        else:
            if depth == 0:
                if txt[i] == '"':
                    in_str = not in_str
                out.append(txt[i])
            i += 1
    return "".join(out)


def coq_make(targets=(), timeout=1500):
    """Full .vo build of the project (or of some targets) through coq_makefile's Makefile."""
    mk, proj = os.path.join(COQ, "Makefile"), os.path.join(COQ, "_CoqProject")
    if not os.path.exists(mk) or os.path.getmtime(proj) > os.path.getmtime(mk):
        rc, out, _ = run(["coq_makefile", "-f", "_CoqProject", "-o", "Makefile"], 60, cwd=COQ)
        if rc != 0:
            raise CoqError("coq_makefile failed:\n" + out)
    rc, out, dt = run(["make", "-j16"] + list(targets), timeout, cwd=COQ)
    return rc, out, dt


def coq_check_props(prop_file, timeout=600):
    """Re-compile coq/props/<prop_file>.v with coqc and parse the Print Assumptions blocks.

    Returns (ok, theorems) where theorems = [{name, closed, axioms}]"""
    path = os.path.join(COQ, "props", prop_file + ".v")
    rc, out, dt = run(["coqc"] + COQ_FLAGS + [path], timeout, cwd=COQ)
    src = strip_coq_comments(open(path).read())
    names = re.findall(r"Print Assumptions\s+([A-Za-z0-9_'.]+)\s*\.", src)
    thms = []
    if rc == 0:
        # output is a sequence of blocks: "Closed under the global context" or "Axioms:\n name : type ..."
        blocks = re.split(r"(?m)^(?=Closed under the global context|Axioms:)", out)
        blocks = [b for b in blocks if b.startswith("Closed under") or b.startswith("Axioms:")]
        for i, nm in enumerate(names):
            if i < len(blocks):
                b = blocks[i]
                closed = b.startswith("Closed under")
                axioms = [] if closed else re.findall(r"(?m)^([A-Za-z0-9_'.]+)\s*:", b[len("Axioms:"):])
                thms.append({"name": nm, "closed": closed, "axioms": axioms})
            else:
                thms.append({"name": nm, "closed": False, "axioms": ["<no Print Assumptions output>"]})
    return rc == 0, thms, out, dt


def coq_chk(prop_file, timeout=1800):
    """Independent re-check (coqchk) of coq/props/<prop_file>.vo and everything it depends on; returns
    (ok, axioms reported, tail of the output, seconds)."""
    rc, out, dt = run(["coqchk", "-o", "-silent"] + COQ_FLAGS + ["BasanaProps." + prop_file], timeout, cwd=COQ)
    m = re.search(r"\* Axioms:(.*?)\n\s*\n\* ", out, re.S)
    axioms = []
    if m:
        axioms = [a.strip() for a in m.group(1).strip().splitlines() if a.strip() and a.strip() != "<none>"]
    clean = all(re.search(r"\* %s: <none>" % re.escape(k), out) for k in
                ("Constants/Inductives relying on type-in-type", "Constants/Inductives relying on unsafe (co)fixpoints",
                 "Inductives whose positivity is assumed"))
    return rc == 0 and bool(m) and clean, axioms, out[-1500:], dt


def coq_eval(name, body, timeout=900):
    """Write coq/cases/<name>.v and compile it; returns the stdout of coqc (vm_compute results)."""
    os.makedirs(CASES, exist_ok=True)
    path = os.path.join(CASES, name + ".v")
    with open(path, "w") as f:
        f.write(body)
    rc, out, dt = run(["bash", "-c", "ulimit -s unlimited 2>/dev/null; exec coqc \"$@\"", "coqc"] + COQ_FLAGS + [path],
                      timeout, cwd=CASES)
    if rc != 0:
        raise CoqError(f"coqc failed on cases/{name}.v (rc={rc}):\n{out[-3000:]}")
    for ext in (".vo", ".vok", ".vos", ".glob"):
        try:
            os.remove(os.path.join(CASES, name + ext))
        except OSError:
            pass
    try:
        os.remove(os.path.join(CASES, "." + name + ".aux"))
    except OSError:
        pass
    return out


def coq_eval_sharded(prefix, header, items, per_file=250, timeout=900, jobs=16, balance=False):
    """items: list of Gallina command strings (one 'Eval vm_compute in ... .' each).  Returns list of
    result strings, one per item, in order (the text after '= ' up to the type annotation).
    balance=True: distribute items over [jobs] files by size (longest first), for items of very different cost."""
    from concurrent.futures import ThreadPoolExecutor
    if balance:
        nsh = max(1, min(jobs, len(items)))
        order = sorted(range(len(items)), key=lambda i: -len(items[i]))
        bins = [[] for _ in range(nsh)]
        load = [0] * nsh
        for i in order:
            k = load.index(min(load))
            bins[k].append(i)
            load[k] += len(items[i]) ** 2 // 1000 + len(items[i])
        index_shards = [b for b in bins if b]
    else:
        index_shards = [list(range(i, min(len(items), i + per_file))) for i in range(0, len(items), per_file)]

    def work(k):
        idxs = index_shards[k]
        out = coq_eval(f"{prefix}_{k}", header + "\n" + "\n".join(items[i] for i in idxs) + "\n", timeout)
        res = parse_evals(out)
        if len(res) != len(idxs):
            raise CoqError(f"cases {prefix}_{k}: expected {len(idxs)} results, got {len(res)}\n{out[-2000:]}")
        return res
    results = [None] * len(items)
    with ThreadPoolExecutor(max_workers=jobs) as ex:
        for idxs, r in zip(index_shards, ex.map(work, range(len(index_shards)))):
            for i, v in zip(idxs, r):
                results[i] = v
    return results


def parse_evals(out):
    """Split coqc output into one normalised string per Eval (text between '     = ' and the final ': type')."""
    res = []
    cur = None
    for line in out.splitlines():
        if line.startswith("     = "):
            if cur is not None:
                res.append(cur)
            cur = line[7:]
        elif cur is not None:
            cur += " " + line.strip()
    if cur is not None:
        res.append(cur)
    cleaned = []
    for r in res:
        r = re.sub(r"\s+", " ", r).strip()
        # drop trailing ": type"
        depth = 0
        cut = None
        for i, ch in enumerate(r):
            if ch in "([":
                depth += 1
            elif ch in ")]":
                depth -= 1
            elif ch == ":" and depth == 0 and r[i - 1:i] == " " and r[i + 1:i + 2] == " ":
                cut = i
        cleaned.append(r[:cut].strip() if cut else r)
    return cleaned


# ------------------------------------------------------------------------------------------------
# Known findings

def load_known_findings():
    p = os.path.join(VERIF, "known_findings.json")
    if not os.path.exists(p):
        return []
    return json.load(open(p)).get("findings", [])


# ------------------------------------------------------------------------------------------------
# Check context

class Check:
    def __init__(self, prop_id, tier, level="proof"):
        self.id = prop_id
        self.tier = tier
        self.level = level
        self.seed = seed_from_env()
        self.t0 = time.time()
        self.violations = []          # (fingerprint, message, replay_path, no_failing_input)
        self.known_hits = []
        self.coverage = {"samples": []}
        self.assumptions = []
        self.obligations = []         # theorem records
        self.proof_ok = None
        self.known = [k for k in load_known_findings() if k.get("property") == prop_id and k.get("status") == "known"]
        self.counters = {}
        self.notes = []
        self._seen_cases = set()

    # --- counters / samples -------------------------------------------------
    def count(self, key, n=1):
        self.counters[key] = self.counters.get(key, 0) + n

    def sample(self, obj, limit=6):
        if len(self.coverage["samples"]) < limit:
            self.coverage["samples"].append(obj)

    def note_case(self, key, nontrivial=True):
        """Register a case for the evaluations / distinct_nontrivial counts."""
        self.count("evaluations")
        if nontrivial:
            h = hashlib.sha1(repr(key).encode()).digest()[:8]
            if h not in self._seen_cases:
                self._seen_cases.add(h)
                self.count("distinct_nontrivial")

    # --- violations ---------------------------------------------------------
    def write_replay(self, obj):
        d = os.path.join(VERIF, "replays", self.id)
        os.makedirs(d, exist_ok=True)
        txt = json.dumps(obj, indent=1, default=str, sort_keys=True)
        h = hashlib.sha1(txt.encode()).hexdigest()[:12]
        path = os.path.join(d, h + ".json")
        with open(path, "w") as f:
            f.write(txt)
        return path

    def violation(self, fingerprint, message, replay_obj, no_failing_input=False):
        """Report a violation unless its fingerprint is a listed known finding."""
        for k in self.known:
            if k.get("fingerprint") == fingerprint:
                if fingerprint not in [h[0] for h in self.known_hits]:
                    self.known_hits.append((fingerprint, k.get("what", message)))
                return False
        if any(v[0] == fingerprint for v in self.violations):
            return True
        replay_obj = dict(replay_obj)
        replay_obj.setdefault("property", self.id)
        replay_obj.setdefault("fingerprint", fingerprint)
        replay_obj.setdefault("message", message)
        path = self.write_replay(replay_obj)
        self.violations.append((fingerprint, message, path, no_failing_input))
        return True

    # --- proof stage --------------------------------------------------------
    def proof_stage(self, prop_file=None, make_timeout=1500):
        """make the project (incremental), re-check coq/props/<id>.v, collect Print Assumptions."""
        prop_file = prop_file or self.id
        bad = grep_gate()
        # tables that live as literals in /repo are re-translated on every run (fail-closed)
        from harness import translate_tables
        changed, terrs = translate_tables.regenerate()
        # a table that can no longer be translated breaks the tie of the property whose theorems are about it (the other
        # properties do not depend on it and keep building against the table's previous text)
        terr = terrs.get(prop_file) or terrs.get("*")
        self.coverage["tables_regenerated"] = {"changed": changed, "error": terr,
                                               "errors_elsewhere": {k: v for k, v in terrs.items() if k != prop_file}}
        if terr:
            bad.append("translator: " + terr)
        rc, out, dt = coq_make()
        self.coverage["make_s"] = round(dt, 1)
        ok = rc == 0 and not bad
        thms, pout = [], ""
        if rc == 0:
            ok2, thms, pout, dt2 = coq_check_props(prop_file)
            self.coverage["props_coqc_s"] = round(dt2, 1)
            ok = ok and ok2
        self.obligations = thms
        if rc == 0 and ok and self.tier == "thorough":
            # the deeper tier also runs the independent checker over the property file and all its dependencies
            okc, chk_axioms, chk_tail, dtc = coq_chk(prop_file)
            self.coverage["coqchk"] = {"ok": okc, "axioms": chk_axioms, "seconds": round(dtc, 1),
                                       "cmd": "coqchk -o -silent -Q theories Basana -Q gen BasanaGen -Q props BasanaProps "
                                              "BasanaProps." + prop_file}
            if not okc or not set(chk_axioms) <= set(ALLOWED_AXIOMS):
                ok = False
                pout += "\n[coqchk]\n" + chk_tail
        allowed = set(ALLOWED_AXIOMS)
        not_closed = [t for t in thms if not t["closed"] and not set(t["axioms"]) <= allowed]
        self.proof_ok = ok and bool(thms) and not not_closed
        self.coverage["obligations"] = len(thms)
        self.coverage["discharged"] = len([t for t in thms if t["closed"] or set(t["axioms"]) <= allowed]) if ok else 0
        self.coverage["theorems"] = [
            t["name"] + (" [closed]" if t["closed"] else " [axioms: " + ", ".join(t["axioms"]) + "]") for t in thms]
        self.coverage["checker_cmd"] = (
            f"cd {COQ} && make -j16 && coqc -Q theories Basana -Q gen BasanaGen -Q props BasanaProps props/{prop_file}.v")
        if not self.proof_ok:
            detail = {"kind": "proof-obligation", "grep_gate": bad, "make_rc": rc,
                      "make_tail": out[-2500:], "props_tail": pout[-2500:],
                      "theorems_not_closed": [t["name"] for t in not_closed]}
            self._proof_failure = detail
        return self.proof_ok

    # --- finishing ----------------------------------------------------------
    def finish(self, trusted_base_extra=(), explanation=None):
        cov = self.coverage
        cov["evaluations"] = self.counters.get("evaluations", 0)
        cov["distinct_nontrivial"] = self.counters.get("distinct_nontrivial", 0)
        cov.setdefault("rule", "")
        cov["trusted_base"] = TRUSTED_BASE_COMMON + list(trusted_base_extra)
        cov["counters"] = {k: v for k, v in sorted(self.counters.items())
                           if k not in ("evaluations", "distinct_nontrivial")}
        if explanation:
            cov["explanation"] = explanation
        if self.notes:
            cov["notes"] = self.notes
        # a proof that no longer checks and no concrete failing input: still a violation
        if self.proof_ok is False and not self.violations:
            detail = getattr(self, "_proof_failure", {})
            self.violation("proof:" + self.id, "proof obligations of %s no longer check" % self.id,
                           {"broken": "theorem(s) in coq/props/%s.v or their dependencies" % self.id,
                            "detail": detail}, no_failing_input=True)
        for fp, what in self.known_hits:
            print(f"KNOWN-FINDING: property={self.id} {what}")
        for fp, msg, path, nfi in self.violations:
            print(f"VIOLATION property={self.id} replay={path}" + (" no-failing-input-found" if nfi else ""))
            print(f"  ({msg})")
        ev = {
            "property_id": self.id, "tier": self.tier, "seed": self.seed, "level": self.level,
            "coverage": cov, "assumptions": self.assumptions,
            "wall_s": round(time.time() - self.t0, 2), "violations": len(self.violations),
            "known_findings_hit": [fp for fp, _ in self.known_hits],
        }
        os.makedirs(os.path.join(VERIF, "evidence"), exist_ok=True)
        with open(os.path.join(VERIF, "evidence", self.id + ".json"), "w") as f:
            json.dump(ev, f, indent=1, default=str)
        status = "FAIL" if self.violations else "ok"
        print(f"[{self.id}] {status}: tier={self.tier} seed={self.seed} theorems={cov.get('discharged')}/"
              f"{cov.get('obligations')} evaluations={cov['evaluations']} "
              f"distinct_nontrivial={cov['distinct_nontrivial']} wall={ev['wall_s']}s")
        return 1 if self.violations else 0


# axioms of the standard library that may appear under Print Assumptions and are named in DESIGN.md §10
ALLOWED_AXIOMS = [
    "functional_extensionality_dep", "FunctionalExtensionality.functional_extensionality_dep",
]


def tier_n(tier, quick, thorough):
    return thorough if tier == "thorough" else quick
