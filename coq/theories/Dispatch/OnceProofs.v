(* Conservation in the backtesting dispatcher model (Backtest.v): whatever the sources contain, whatever
   handlers and jobs push or schedule, whichever minimal job the heap returns, after any number of steps
        pending events (+) delivered events  =  initial events (+) events pushed so far        (as multisets)
        pending jobs   (+) executed jobs     =  initial jobs   (+) jobs scheduled so far
   and when the run has returned (PDone) nothing is pending in any source: every event was delivered exactly
   once.  Multisets are compared by counting, for every predicate, the elements satisfying it. *)
From Coq Require Import ZArith List Bool Lia.
From Basana Require Import Dispatch.Backtest Dispatch.BacktestProofs Dispatch.MuxProofs.
Import ListNotations.

Definition cnt {A} (p : A -> bool) (l : list A) : nat := length (filter p l).

Lemma cnt_app {A} (p : A -> bool) l1 l2 : cnt p (l1 ++ l2) = (cnt p l1 + cnt p l2)%nat.
Proof. unfold cnt. rewrite filter_app, app_length. reflexivity. Qed.
Lemma cnt_nil {A} (p : A -> bool) : cnt p [] = 0%nat. Proof. reflexivity. Qed.
Lemma cnt_cons {A} (p : A -> bool) x l : cnt p (x :: l) = (cnt p [x] + cnt p l)%nat.
Proof. change (x :: l) with ([x] ++ l). apply cnt_app. Qed.

Definition slot_evs (sl : list (option ev)) : list ev :=
  flat_map (fun o => match o with Some e => [e] | None => [] end) sl.
Definition pend_evs (s : dst) : list ev := concat (d_srcs s) ++ slot_evs (d_slots s).

Lemma prefetch_lists_cnt p qs : forall sl qs' sl',
  prefetch_lists qs sl = (qs', sl') ->
  (cnt p (concat qs') + cnt p (slot_evs sl') = cnt p (concat qs) + cnt p (slot_evs sl))%nat /\
  length qs' = length qs /\ length sl' = length sl.
Proof.
  induction qs as [|q qr IH]; intros sl qs' sl' H; cbn [prefetch_lists] in H.
  - inversion H; subst. repeat split.
  - destruct sl as [|o sr]; [inversion H; subst; repeat split|].
    destruct (prefetch_lists qr sr) as [qr' sr'] eqn:E. destruct (IH _ _ _ E) as (C & L1 & L2).
    destruct o as [e0|]; [|destruct q as [|e q']]; inversion H; subst; cbn [concat slot_evs flat_map length];
      rewrite ?cnt_app; fold (slot_evs sr) (slot_evs sr').
    + split; [lia | split; lia].
    + split; [lia | split; lia].
    + rewrite (cnt_cons p e q'). rewrite ?cnt_nil. split; [lia | split; lia].
Qed.

Lemma prefetch_cnt p s :
  cnt p (pend_evs (prefetch s)) = cnt p (pend_evs s) /\
  length (d_srcs (prefetch s)) = length (d_srcs s) /\ length (d_slots (prefetch s)) = length (d_slots s).
Proof.
  unfold prefetch, pend_evs. destruct (prefetch_lists (d_srcs s) (d_slots s)) as [qs sl] eqn:E.
  destruct (prefetch_lists_cnt p _ _ _ _ E) as (C & L1 & L2). cbn [d_srcs d_slots]. rewrite !cnt_app. repeat split; lia.
Qed.

Lemma clear_slot_cnt p sl : forall k e,
  nth_error sl k = Some (Some e) ->
  (cnt p (slot_evs (clear_slot sl k)) + cnt p [e] = cnt p (slot_evs sl))%nat /\
  length (clear_slot sl k) = length sl.
Proof.
  induction sl as [|o r IH]; intros [|k] e H; cbn [nth_error] in H; try discriminate.
  - inversion H; subst. cbn [clear_slot slot_evs flat_map length]. rewrite !cnt_app, ?cnt_nil. fold (slot_evs r). split; lia.
  - destruct (IH _ _ H) as [C L]. cbn [clear_slot slot_evs flat_map length]. rewrite !cnt_app.
    fold (slot_evs r) (slot_evs (clear_slot r k)). split; lia.
Qed.

Lemma mux_pop_cnt p s dt s' r :
  mux_pop s dt = (s', r) ->
  (cnt p (pend_evs s') + cnt p (match r with Some x => [snd x] | None => [] end) = cnt p (pend_evs s))%nat /\
  length (d_srcs s') = length (d_srcs s) /\ length (d_slots s') = length (d_slots s) /\ d_sched s' = d_sched s.
Proof.
  unfold mux_pop. destruct (prefetch_cnt p s) as (C & L1 & L2).
  assert (Es : d_sched (prefetch s) = d_sched s) by (unfold prefetch; destruct (prefetch_lists _ _); reflexivity).
  destruct (scan (d_slots (prefetch s)) 0 dt None) as [[i e]|] eqn:Sc; intros H; inversion H; subst.
  - destruct (scan_spec _ _ _ _ _ _ Sc) as ([X|(k & Hn & Hj & _)] & _); [discriminate|]. cbn [Nat.add] in Hj. subst k.
    destruct (clear_slot_cnt p _ _ _ Hn) as [Cc Lc]. unfold pend_evs in *. cbn [d_srcs d_slots d_sched snd].
    rewrite !cnt_app in *. repeat split; try lia; assumption.
  - cbn [cnt filter length]. repeat split; try lia; assumption.
Qed.

Lemma pop_while_cnt p fuel : forall s dt s' batch,
  pop_while fuel s dt = (s', batch) ->
  (cnt p (pend_evs s') + cnt p (map snd batch) = cnt p (pend_evs s))%nat /\
  length (d_srcs s') = length (d_srcs s) /\ length (d_slots s') = length (d_slots s) /\ d_sched s' = d_sched s.
Proof.
  induction fuel as [|f IH]; intros s dt s' batch H; cbn [pop_while] in H.
  - inversion H; subst. cbn [map]. rewrite cnt_nil. repeat split; lia.
  - destruct (mux_pop s dt) as [s1 [x|]] eqn:Ep.
    + destruct (pop_while f s1 dt) as [s2 r] eqn:Er. inversion H; subst.
      destruct (mux_pop_cnt p _ _ _ _ Ep) as (C1 & A1 & B1 & D1). destruct (IH _ _ _ _ Er) as (C2 & A2 & B2 & D2).
      cbn [map]. rewrite (cnt_cons p (snd x)). repeat split; try lia; congruence.
    + inversion H; subst. destruct (mux_pop_cnt p _ _ _ _ Ep) as (C1 & A1 & B1 & D1). cbn [map]. rewrite cnt_nil in *.
      repeat split; try lia; assumption.
Qed.

(* effects *)
Definition pushes_of (n : nat) (fs : list effect) : list ev :=
  flat_map (fun f => match f with EPush i e => if Nat.ltb i n then [e] else [] | ESched _ _ => [] end) fs.
Definition scheds_of (fs : list effect) : list (Z * nat) :=
  flat_map (fun f => match f with ESched w j => [(w, j)] | EPush _ _ => [] end) fs.

Lemma push_to_cnt p qs : forall i e,
  cnt p (concat (push_to qs i e)) = (cnt p (concat qs) + cnt p (if Nat.ltb i (length qs) then [e] else []))%nat /\
  length (push_to qs i e) = length qs.
Proof.
  induction qs as [|q r IH]; intros i e.
  - destruct i; cbn; split; reflexivity.
  - destruct i as [|i]; cbn [push_to concat length].
    + change (Nat.ltb 0 (S (length r))) with true. rewrite !cnt_app. split; lia.
    + destruct (IH i e) as [C L]. rewrite !cnt_app, C.
      change (Nat.ltb (S i) (S (length r))) with (Nat.ltb i (length r)). split; lia.
Qed.

Lemma apply_effects_cnt p q fs : forall s,
  let s' := apply_effects s fs in
  cnt p (pend_evs s') = (cnt p (pend_evs s) + cnt p (pushes_of (length (d_srcs s)) fs))%nat /\
  cnt q (d_sched s') = (cnt q (d_sched s) + cnt q (scheds_of fs))%nat /\
  length (d_srcs s') = length (d_srcs s) /\ length (d_slots s') = length (d_slots s).
Proof.
  induction fs as [|f r IH]; intros s; cbn zeta.
  - cbn [apply_effects fold_left pushes_of scheds_of flat_map]. rewrite !cnt_nil. repeat split; lia.
  - unfold apply_effects. cbn [fold_left]. fold (apply_effects (apply_effect s f) r).
    destruct (IH (apply_effect s f)) as (C & D & L1 & L2). cbn zeta in *.
    destruct f as [i e|w j]; cbn [apply_effect pushes_of scheds_of flat_map] in *; unfold pend_evs in *;
      cbn [d_srcs d_slots d_sched] in *.
    + destruct (push_to_cnt p (d_srcs s) i e) as [Cp Lp]. rewrite Lp in *. rewrite !cnt_app, ?cnt_nil in *.
      fold (pushes_of (length (d_srcs s)) r) (scheds_of r). repeat split; lia.
    + rewrite !cnt_app, ?cnt_nil in *. fold (pushes_of (length (d_srcs s)) r) (scheds_of r). repeat split; lia.
Qed.

(* ---------------------------------------------------------------------------------------------- *)
Section Once.
Variable beh_ev : nat -> list effect.
Variable beh_job : nat -> list effect.
Variable n : nat.                       (* number of sources *)

Definition delivered (tr : list item) : list ev :=
  flat_map (fun it => match it with IEv _ e _ => [e] | IJob _ _ _ => [] end) tr.
Definition executed (tr : list item) : list (Z * nat) :=
  flat_map (fun it => match it with IJob j w _ => [(w, j)] | IEv _ _ _ => [] end) tr.
Definition effects_of (it : item) : list effect :=
  match it with IEv _ e _ => beh_ev (e_id e) | IJob j _ _ => beh_job j end.
Definition pushed (tr : list item) : list ev := flat_map (fun it => pushes_of n (effects_of it)) tr.
Definition scheduled (tr : list item) : list (Z * nat) := flat_map (fun it => scheds_of (effects_of it)) tr.

Definition OInv (ev0 : list ev) (jobs0 : list (Z * nat)) (s : dst) : Prop :=
  length (d_srcs s) = n /\ length (d_slots s) = n /\
  (forall p, cnt p (pend_evs s) + cnt p (delivered (d_trace s)) = cnt p ev0 + cnt p (pushed (d_trace s)))%nat /\
  (forall q, cnt q (d_sched s) + cnt q (executed (d_trace s)) = cnt q jobs0 + cnt q (scheduled (d_trace s)))%nat.

Lemma OInv_pc ev0 jobs0 s pc' : OInv ev0 jobs0 s -> OInv ev0 jobs0 (with_pc s pc').
Proof. intros H. exact H. Qed.

Lemma OInv_prefetch ev0 jobs0 s : OInv ev0 jobs0 s -> OInv ev0 jobs0 (prefetch s).
Proof.
  intros (L1 & L2 & E & J). unfold OInv.
  assert (Es : d_sched (prefetch s) = d_sched s) by (unfold prefetch; destruct (prefetch_lists _ _); reflexivity).
  rewrite prefetch_trace, Es. repeat split.
  - destruct (prefetch_cnt (fun _ => true) s) as (_ & A & _). lia.
  - destruct (prefetch_cnt (fun _ => true) s) as (_ & _ & A). lia.
  - intros p. destruct (prefetch_cnt p s) as (C & _ & _). rewrite C. apply E.
  - exact J.
Qed.

Lemma flat_map_snoc {A B} (f : A -> list B) l x : flat_map f (l ++ [x]) = flat_map f l ++ f x.
Proof. rewrite flat_map_app. cbn [flat_map]. rewrite app_nil_r. reflexivity. Qed.

Lemma remove_job_cnt q sched j w rest :
  remove_job sched j = Some (w, rest) -> (cnt q rest + cnt q [(w, j)] = cnt q sched)%nat.
Proof.
  revert w rest. induction sched as [|[w' k] r IH]; intros w rest H; [discriminate|]. cbn [remove_job] in H.
  destruct (Nat.eqb k j) eqn:E.
  - apply Nat.eqb_eq in E. inversion H; subst. rewrite (cnt_cons q (w, j) rest). lia.
  - destruct (remove_job r j) as [[w'' r']|] eqn:Er; [|discriminate]. inversion H; subst.
    specialize (IH _ _ eq_refl). rewrite (cnt_cons q (w', k) r'), (cnt_cons q (w', k) r). lia.
Qed.

Lemma fold_effects_cnt batch : forall x,
  length (d_srcs x) = n -> length (d_slots x) = n ->
  let s' := fold_left (fun acc (y : nat * ev) => apply_effects acc (beh_ev (e_id (snd y)))) batch x in
  length (d_srcs s') = n /\ length (d_slots s') = n /\
  (forall p, cnt p (pend_evs s') = cnt p (pend_evs x) + cnt p (flat_map (fun y => pushes_of n (beh_ev (e_id (snd y)))) batch))%nat /\
  (forall q, cnt q (d_sched s') = cnt q (d_sched x) + cnt q (flat_map (fun y => scheds_of (beh_ev (e_id (snd y)))) batch))%nat.
Proof.
  induction batch as [|y r IH]; intros x A1 A2; cbn [fold_left flat_map].
  - repeat split; try assumption; intros; rewrite cnt_nil; lia.
  - set (x2 := apply_effects x (beh_ev (e_id (snd y)))).
    assert (X : forall p q, cnt p (pend_evs x2) = (cnt p (pend_evs x) + cnt p (pushes_of (length (d_srcs x)) (beh_ev (e_id (snd y)))))%nat /\
                 cnt q (d_sched x2) = (cnt q (d_sched x) + cnt q (scheds_of (beh_ev (e_id (snd y)))))%nat /\
                 length (d_srcs x2) = length (d_srcs x) /\ length (d_slots x2) = length (d_slots x)).
    { intros p q. apply (apply_effects_cnt p q). }
    destruct (X (fun _ => true) (fun _ => true)) as (_ & _ & B1 & B2).
    destruct (IH x2) as (R1 & R2 & R3 & R4); try lia.
    cbn zeta. repeat split; try assumption.
    + intros p. rewrite R3. destruct (X p (fun _ => true)) as (Xp & _). rewrite A1 in Xp. rewrite cnt_app. lia.
    + intros q. rewrite R4. destruct (X (fun _ => true) q) as (_ & Xq & _). rewrite cnt_app. lia.
Qed.

Lemma deliver_cnt s dt batch :
  length (d_srcs s) = n -> length (d_slots s) = n ->
  let s' := deliver beh_ev s dt batch in
  length (d_srcs s') = n /\ length (d_slots s') = n /\
  (forall p, cnt p (pend_evs s') = cnt p (pend_evs s) + cnt p (flat_map (fun x => pushes_of n (beh_ev (e_id (snd x)))) batch))%nat /\
  (forall q, cnt q (d_sched s') = cnt q (d_sched s) + cnt q (flat_map (fun x => scheds_of (beh_ev (e_id (snd x)))) batch))%nat.
Proof.
  intros L1 L2. unfold deliver.
  match goal with |- context [fold_left _ batch ?x] => exact (fold_effects_cnt batch x L1 L2) end.
Qed.

Theorem step_OInv ev0 jobs0 s oracle :
  OInv ev0 jobs0 s -> OInv ev0 jobs0 (fst (step beh_ev beh_job s oracle)).
Proof.
  intros H. unfold step. destruct (d_pc s) eqn:Epc.
  - (* PTop *)
    pose proof (OInv_prefetch _ _ _ H) as Hp.
    destruct (min_slot (d_slots (prefetch s))).
    + destruct (d_last (prefetch s)); [destruct (Z.ltb _ _)|]; cbn [fst]; exact Hp.
    + destruct (match d_drain (prefetch s) with Some d => Some d | None => max_when (d_sched (prefetch s)) end);
        cbn [fst]; exact Hp.
  - (* PSched *)
    destruct (min_when (d_sched s)) as [w|]; [|cbn [fst]; exact H].
    destruct (Z.leb w dt); [|cbn [fst]; exact H].
    destruct oracle as [|j orest]; [cbn [fst]; exact H|].
    destruct (remove_job (d_sched s) j) as [[wj rest]|] eqn:Er; [|cbn [fst]; exact H].
    destruct (negb (Z.eqb wj w)); [cbn [fst]; exact H|].
    destruct H as (L1 & L2 & E & J).
    match goal with |- context [apply_effects ?x (beh_job j)] => set (s1 := x) end.
    assert (F : (exists c0, d_trace s1 = d_trace s ++ [IJob j wj c0]) /\ d_srcs s1 = d_srcs s /\
                d_slots s1 = d_slots s /\ d_sched s1 = rest).
    { split; [eexists; reflexivity | repeat split; reflexivity]. }
    destruct F as ([c0 F1] & F2 & F3 & F4). clearbody s1.
    assert (X : forall p q,
      cnt p (pend_evs (apply_effects s1 (beh_job j))) = (cnt p (pend_evs s1) + cnt p (pushes_of (length (d_srcs s1)) (beh_job j)))%nat /\
      cnt q (d_sched (apply_effects s1 (beh_job j))) = (cnt q (d_sched s1) + cnt q (scheds_of (beh_job j)))%nat /\
      length (d_srcs (apply_effects s1 (beh_job j))) = length (d_srcs s1) /\
      length (d_slots (apply_effects s1 (beh_job j))) = length (d_slots s1)).
    { intros p q. apply (apply_effects_cnt p q). }
    assert (H2 : OInv ev0 jobs0 (apply_effects s1 (beh_job j))).
    { destruct (X (fun _ => true) (fun _ => true)) as (_ & _ & B1 & B2). unfold OInv.
      rewrite apply_effects_trace, F1. unfold delivered, executed, pushed, scheduled.
      rewrite !flat_map_snoc. cbn [effects_of]. split; [|split; [|split]].
      - rewrite B1, F2. exact L1.
      - rewrite B2, F3. exact L2.
      - intros p. destruct (X p (fun _ => true)) as (Xp & _). rewrite Xp. rewrite !cnt_app, cnt_nil.
        rewrite F2, L1. unfold pend_evs. rewrite F2, F3. specialize (E p). unfold delivered, pushed, pend_evs in E. lia.
      - intros q. destruct (X (fun _ => true) q) as (_ & Xq & _). rewrite Xq. rewrite !cnt_app.
        rewrite F4. pose proof (remove_job_cnt q _ _ _ _ Er) as Rc.
        specialize (J q). unfold executed, scheduled in J. lia. }
    pose proof (OInv_prefetch _ _ _ H2) as H3.
    destruct (min_slot (d_slots (prefetch (apply_effects s1 (beh_job j))))); [destruct (Z.ltb _ dt)|]; cbn [fst];
      exact H3.
  - (* PEvents *)
    match goal with |- context [pop_while ?f ?x dt] => set (s0 := x) end.
    match goal with |- context [pop_while ?f s0 dt] => destruct (pop_while f s0 dt) as [s1 batch] eqn:Ep end.
    cbn [fst]. change (OInv ev0 jobs0 (deliver beh_ev s1 dt batch)). destruct H as (L1 & L2 & E & J).
    destruct (pop_while_fields _ _ _ _ _ Ep) as [Et _]. change (d_trace s0) with (d_trace s) in Et.
    assert (Y : forall p, (cnt p (pend_evs s1) + cnt p (map snd batch) = cnt p (pend_evs s0))%nat /\
                length (d_srcs s1) = length (d_srcs s0) /\ length (d_slots s1) = length (d_slots s0) /\ d_sched s1 = d_sched s0).
    { intros p. eapply pop_while_cnt. exact Ep. }
    destruct (Y (fun _ => true)) as (_ & A1 & A2 & A3).
    change (d_srcs s0) with (d_srcs s) in A1. change (d_slots s0) with (d_slots s) in A2. change (d_sched s0) with (d_sched s) in A3.
    destruct (deliver_cnt s1 dt batch) as (R1 & R2 & R3 & R4); try lia.
    destruct (deliver_fields beh_ev s1 dt batch) as [Dt _].
    unfold OInv. rewrite Dt, Et. unfold delivered, executed, pushed, scheduled. rewrite !flat_map_app.
    repeat split; try assumption.
    + intros p. rewrite R3. destruct (Y p) as (Yp & _). change (pend_evs s0) with (pend_evs s) in Yp.
      specialize (E p). unfold delivered, pushed in E. rewrite !cnt_app.
      assert (F1 : flat_map (fun it => match it with IEv _ e _ => [e] | IJob _ _ _ => [] end)
                     (map (fun x : nat * ev => IEv (fst x) (snd x) dt) batch) = map snd batch).
      { clear. induction batch as [|x r IH]; cbn [map flat_map]; [reflexivity | rewrite IH; reflexivity]. }
      assert (F2 : flat_map (fun it => pushes_of n (effects_of it)) (map (fun x : nat * ev => IEv (fst x) (snd x) dt) batch)
                   = flat_map (fun x => pushes_of n (beh_ev (e_id (snd x)))) batch).
      { clear. induction batch as [|x r IH]; cbn [map flat_map effects_of]; [reflexivity | rewrite IH; reflexivity]. }
      rewrite F1, F2. lia.
    + intros q. rewrite R4, A3. specialize (J q). unfold executed, scheduled in J. rewrite !cnt_app.
      assert (F1 : flat_map (fun it => match it with IJob j w _ => [(w, j)] | IEv _ _ _ => [] end)
                     (map (fun x : nat * ev => IEv (fst x) (snd x) dt) batch) = []).
      { clear. induction batch as [|x r IH]; cbn [map flat_map]; [reflexivity | exact IH]. }
      assert (F2 : flat_map (fun it => scheds_of (effects_of it)) (map (fun x : nat * ev => IEv (fst x) (snd x) dt) batch)
                   = flat_map (fun x => scheds_of (beh_ev (e_id (snd x)))) batch).
      { clear. induction batch as [|x r IH]; cbn [map flat_map effects_of]; [reflexivity | rewrite IH; reflexivity]. }
      rewrite F1, F2, cnt_nil. lia.
  - (* PAfterDrain *)
    pose proof (OInv_prefetch _ _ _ H) as Hp. destruct (min_slot (d_slots (prefetch s))); cbn [fst]; exact Hp.
  - exact H.
  - exact H.
Qed.

Theorem run_OInv ev0 jobs0 fuel : forall s oracle,
  OInv ev0 jobs0 s -> OInv ev0 jobs0 (fst (run beh_ev beh_job fuel s oracle)).
Proof.
  induction fuel as [|f IH]; intros s oracle H; cbn [run]; [exact H|].
  destruct (d_pc s) eqn:Epc; try exact H;
    (pose proof (step_OInv ev0 jobs0 s oracle H) as H1; destruct (step beh_ev beh_job s oracle) as [s' o']; apply IH; exact H1).
Qed.

(* when run() has returned, no event is left in any source *)
Lemma min_slot_none sl : min_slot sl = None -> slot_evs sl = [].
Proof.
  induction sl as [|o r IH]; cbn [min_slot slot_evs flat_map]; [reflexivity|].
  destruct o as [e|]; [destruct (min_slot r); discriminate|]. intros H. cbn [app]. apply IH. exact H.
Qed.

Lemma prefetch_lists_empty qs : forall sl qs' sl',
  prefetch_lists qs sl = (qs', sl') -> length qs = length sl -> slot_evs sl' = [] -> concat qs' = [].
Proof.
  induction qs as [|q qr IH]; intros sl qs' sl' H L Hs; cbn [prefetch_lists] in H.
  - inversion H; subst. reflexivity.
  - destruct sl as [|o sr]; [discriminate L|]. cbn [length] in L.
    destruct (prefetch_lists qr sr) as [qr' sr'] eqn:E.
    destruct o as [e0|]; [|destruct q as [|e q']]; inversion H; subst; cbn [slot_evs flat_map] in Hs; try discriminate Hs.
    cbn [concat app]. eapply IH; [exact E | lia | exact Hs].
Qed.

Definition DInv (s : dst) : Prop := d_pc s = PDone -> pend_evs s = [].

Theorem step_DInv ev0 jobs0 s oracle :
  OInv ev0 jobs0 s -> DInv s -> DInv (fst (step beh_ev beh_job s oracle)).
Proof.
  intros (L1 & L2 & _) Hd. unfold step, DInv. destruct (d_pc s) eqn:Epc.
  - destruct (min_slot (d_slots (prefetch s))).
    + destruct (d_last (prefetch s)); [destruct (Z.ltb _ _)|]; cbn; discriminate.
    + destruct (match d_drain (prefetch s) with Some d => Some d | None => max_when (d_sched (prefetch s)) end); cbn; discriminate.
  - destruct (min_when (d_sched s)) as [w|]; [|destruct drain; cbn; discriminate].
    destruct (Z.leb w dt); [|destruct drain; cbn; discriminate].
    destruct oracle as [|j orest]; [cbn; discriminate|].
    destruct (remove_job (d_sched s) j) as [[wj rest]|]; [|cbn; discriminate].
    destruct (negb (Z.eqb wj w)); [cbn; discriminate|].
    match goal with |- context [min_slot ?x] => destruct (min_slot x) end;
      [match goal with |- context [Z.ltb ?a dt] => destruct (Z.ltb a dt) end|]; destruct drain; cbn; discriminate.
  - match goal with |- context [pop_while ?f ?x dt] => destruct (pop_while f x dt) end. cbn. discriminate.
  - destruct (min_slot (d_slots (prefetch s))) eqn:Em; cbn [fst with_pc d_pc]; [discriminate|]. intros _.
    unfold pend_evs. cbn [with_pc d_srcs d_slots]. unfold prefetch in *.
    destruct (prefetch_lists (d_srcs s) (d_slots s)) as [qs sl] eqn:E. cbn [d_srcs d_slots] in *.
    pose proof (min_slot_none _ Em) as Hs. rewrite Hs, app_nil_r.
    eapply prefetch_lists_empty; [exact E | lia | exact Hs].
  - cbn [fst]. exact Hd.
  - cbn [fst]. intros X. rewrite Epc in X. discriminate.
Qed.

Theorem run_ODInv ev0 jobs0 fuel : forall s oracle,
  OInv ev0 jobs0 s -> DInv s ->
  OInv ev0 jobs0 (fst (run beh_ev beh_job fuel s oracle)) /\ DInv (fst (run beh_ev beh_job fuel s oracle)).
Proof.
  induction fuel as [|f IH]; intros s oracle H Hd; cbn [run]; [split; assumption|].
  destruct (d_pc s) eqn:Epc; try (split; assumption);
    (pose proof (step_OInv ev0 jobs0 s oracle H) as H1; pose proof (step_DInv ev0 jobs0 s oracle H Hd) as H2;
     destruct (step beh_ev beh_job s oracle) as [s' o']; apply IH; assumption).
Qed.
End Once.

Lemma OInv_init beh_ev beh_job srcs jobs :
  OInv beh_ev beh_job (length srcs) (concat srcs) jobs (init_d srcs jobs).
Proof.
  unfold OInv, init_d, pend_evs. cbn [d_srcs d_slots d_sched d_trace delivered executed pushed scheduled flat_map].
  rewrite map_length. split; [reflexivity|]. split; [reflexivity|].
  assert (Z0 : slot_evs (map (fun _ : list ev => None) srcs) = []).
  { induction srcs as [|q r IH]; cbn [map slot_evs flat_map]; [reflexivity | exact IH]. }
  rewrite Z0, app_nil_r. split; intros; rewrite !cnt_nil; lia.
Qed.

(* C12, whole run: once run() has returned, every event that was ever in a source -- initially, or pushed by a handler
   or a job to an existing source -- has been delivered exactly once (multiset equality: for every predicate, as many
   delivered events satisfy it as events that entered the sources), and the executed jobs together with the jobs still
   pending are exactly the jobs ever scheduled *)
Theorem run_delivers_exactly_once beh_ev beh_job srcs jobs oracle fuel :
  let s := fst (run beh_ev beh_job fuel (init_d srcs jobs) oracle) in
  (d_pc s = PDone ->
   forall p, cnt p (delivered (d_trace s)) = (cnt p (concat srcs) + cnt p (pushed beh_ev beh_job (length srcs) (d_trace s)))%nat) /\
  (forall q, (cnt q (d_sched s) + cnt q (executed (d_trace s)) =
              cnt q jobs + cnt q (scheduled beh_ev beh_job (d_trace s)))%nat).
Proof.
  intros s.
  destruct (run_ODInv beh_ev beh_job (length srcs) (concat srcs) jobs fuel (init_d srcs jobs) oracle
              (OInv_init beh_ev beh_job srcs jobs)) as [(L1 & L2 & E & J) D].
  { unfold DInv, init_d. cbn. discriminate. }
  fold s in L1, L2, E, J, D. split; [|exact J].
  intros Hd p. specialize (E p). rewrite (D Hd) in E. rewrite cnt_nil in E. lia.
Qed.
