(* Model of helpers.TaskPool (after 1c2793b) with any number of concurrent pushers.
   Actions are what the instrumented real pool logs: a pusher adds a task (only after finding len(tasks) < max in
   its while loop), a task ends, a waiter wakes up with the set of finished tasks asyncio.wait handed to it and
   collects those that are still in the pool. *)
From Coq Require Import List Bool Arith Lia.
Import ListNotations.

Inductive action := AAdd (t : nat) | AEnd (t : nat) | ACollect (ts : list nat).

Record pool := mkPool { tasks : list nat; ended : list nat; done : list nat }.

Definition mem (t : nat) (l : list nat) : bool := existsb (Nat.eqb t) l.
Fixpoint remove1 (t : nat) (l : list nat) : list nat :=
  match l with [] => [] | x :: r => if Nat.eqb t x then r else x :: remove1 t r end.

(* _wait_impl: for task in done: if task in self._tasks: remove it and append it to _done *)
Fixpoint collect (p : pool) (ts : list nat) : pool :=
  match ts with
  | [] => p
  | t :: r => if mem t (tasks p)
              then collect (mkPool (remove1 t (tasks p)) (ended p) (done p ++ [t])) r
              else collect p r
  end.

Inductive verdict := POk (p : pool) | PGuard (k : nat) (why : nat).

(* one logged action; the guards are the conditions under which the real code can perform it *)
Definition pstep (max : nat) (p : pool) (a : action) : option pool :=
  match a with
  | AAdd t => if Nat.ltb (length (tasks p)) max && negb (mem t (tasks p)) && negb (mem t (done p))
              then Some (mkPool (tasks p ++ [t]) (ended p) (done p)) else None
  | AEnd t => if mem t (tasks p) && negb (mem t (ended p))
              then Some (mkPool (tasks p) (ended p ++ [t]) (done p)) else None
  | ACollect ts => if forallb (fun t => mem t (ended p)) ts then Some (collect p ts) else None
  end.

Fixpoint prun (max : nat) (p : pool) (k : nat) (acts : list action) : verdict :=
  match acts with
  | [] => POk p
  | a :: r => match pstep max p a with Some p' => prun max p' (S k) r | None => PGuard k 0 end
  end.

Definition empty_pool : pool := mkPool [] [] [].

(* correspondence: replay the logged actions, comparing len(pool._tasks) after each with what was sampled *)
Fixpoint check_sizes (max : nat) (p : pool) (k : nat) (acts : list (action * nat)) : option nat :=
  match acts with
  | [] => None
  | (a, sz) :: r => match pstep max p a with
                    | Some p' => if Nat.eqb (length (tasks p')) sz then check_sizes max p' (S k) r else Some k
                    | None => Some k
                    end
  end.
