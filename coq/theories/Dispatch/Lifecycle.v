(* Model of EventDispatcher.run (basana/core/dispatcher.py): initialize group, main + dispatch-loop group, finally:
   cancel the handler pool, finalize every producer; with helpers.TaskGroup semantics (first exception wins, the
   other tasks are cancelled and awaited) and logs.backtesting_log_mode (try/finally after e9531f2).
   asyncio is assumed: non-suspending initialize() bodies all start; a task cancelled while blocked stops there. *)
From Coq Require Import List Bool Arith Lia.
Import ListNotations.

Inductive init_b := IOk | IRaise.
Inductive main_b := MReturn | MRaise | MBlock.
Inductive fin_b := FOk | FRaise.
Record producer := mkP { p_id : nat; p_init : init_b; p_main : main_b; p_fin : fin_b }.

(* how the run is brought to an end when no producer fails *)
Inductive exit_kind := XExhaust | XStop | XHandlerError | XCancel.

Inductive call := CInit (p : nat) | CMain (p : nat) | CFin (p : nat) | CLoop.
Inductive outcome := Returned | RaisedProducerError | RaisedCancelled | Internal.
Inductive factory := Original | Swapped.

Definition any_init_raises (ps : list producer) : bool :=
  existsb (fun p => match p_init p with IRaise => true | IOk => false end) ps.
Definition any_main_raises (ps : list producer) : bool :=
  existsb (fun p => match p_main p with MRaise => true | _ => false end) ps.

(* the calls made, phase by phase (the order inside a phase is the iteration order of a set: not specified) *)
Definition phase_init (ps : list producer) : list call := map (fun p => CInit (p_id p)) ps.
Definition phase_main (ps : list producer) : list call :=
  if any_init_raises ps then [] else map (fun p => CMain (p_id p)) ps ++ [CLoop].
Definition phase_fin (ps : list producer) : list call := map (fun p => CFin (p_id p)) ps.

Definition calls (ps : list producer) : list call := phase_init ps ++ phase_main ps ++ phase_fin ps.

Definition run_outcome (ps : list producer) (x : exit_kind) : outcome :=
  if any_init_raises ps then RaisedProducerError
  else if any_main_raises ps then RaisedProducerError
  else match x with
       | XCancel => RaisedCancelled            (* CancelledError while not stopped is re-raised *)
       | XExhaust | XStop | XHandlerError => Returned  (* stop(): the group is cancelled, CancelledError is swallowed *)
       end.

(* BacktestingDispatcher.run: with logs.backtesting_log_mode(self): await super().run() *)
Definition factory_after (backtesting : bool) (o : outcome) : factory :=
  (* swapped on entry (backtesting only), restored in the finally clause whatever the outcome *)
  Original.

Definition count_fin (p : nat) (cs : list call) : nat :=
  length (filter (fun c => match c with CFin q => Nat.eqb p q | _ => false end) cs).
Definition count_main (cs : list call) : nat :=
  length (filter (fun c => match c with CMain _ => true | _ => false end) cs).

Fixpoint index_of (f : call -> bool) (cs : list call) (k : nat) : option nat :=
  match cs with [] => None | c :: r => if f c then Some k else index_of f r (S k) end.

(* correspondence: the observed calls (as per-phase multisets) and outcome against the model *)
Definition call_eqb (a b : call) : bool :=
  match a, b with
  | CInit p, CInit q | CMain p, CMain q | CFin p, CFin q => Nat.eqb p q
  | CLoop, CLoop => true
  | _, _ => false
  end.
Fixpoint remove_call (c : call) (l : list call) : option (list call) :=
  match l with
  | [] => None
  | x :: r => if call_eqb c x then Some r
              else match remove_call c r with Some r' => Some (x :: r') | None => None end
  end.
Fixpoint same_multiset (a b : list call) : bool :=
  match a with
  | [] => match b with [] => true | _ => false end
  | x :: r => match remove_call x b with Some b' => same_multiset r b' | None => false end
  end.
Definition outcome_eqb (a b : outcome) : bool :=
  match a, b with
  | Returned, Returned | RaisedProducerError, RaisedProducerError | RaisedCancelled, RaisedCancelled
  | Internal, Internal => true
  | _, _ => false
  end.

Definition check_lifecycle (ps : list producer) (x : exit_kind)
           (obs_init obs_main obs_fin : list call) (obs_out : outcome) : bool :=
  same_multiset (phase_init ps) obs_init &&
  same_multiset (filter (fun c => match c with CLoop => false | _ => true end) (phase_main ps)) obs_main &&
  same_multiset (phase_fin ps) obs_fin &&
  outcome_eqb (run_outcome ps x) obs_out.
