(* Model of one iteration of RealtimeDispatcher._dispatch_loop (basana/core/dispatcher.py):
   _push_scheduled(now) takes every job due at or before now, smallest time first; _push_events(now) pops every event
   dated <= now from the multiplexer, drops (and reports) those older than the last event delivered from the same
   source, and dispatches the others.  The multiplexer is the one of Dispatch/Backtest.v. *)
From Coq Require Import ZArith List Bool Lia.
From Basana Require Import Dispatch.Backtest.
Import ListNotations.
Open Scope Z_scope.

Record rst := mkR {
  r_mux : dst;                         (* only d_srcs / d_slots are used *)
  r_prev : list (option Z);            (* _prev_event_dt, per source *)
  r_sched : list (Z * nat) }.

Inductive ritem := RJob (jid : nat) (when : Z) | REv (src : nat) (e : ev) | RDrop (src : nat) (e : ev).

Fixpoint set_nth {A} (l : list A) (i : nat) (x : A) : list A :=
  match l, i with
  | [], _ => []
  | _ :: r, O => x :: r
  | y :: r, S i' => y :: set_nth r i' x
  end.

(* jobs due at or before now, smallest first; the tie-break among equal times is given by the oracle *)
Fixpoint push_scheduled (fuel : nat) (q : list (Z * nat)) (now : Z) (oracle : list nat)
  : option (list (Z * nat) * list ritem * list nat) :=
  match fuel with
  | O => Some (q, [], oracle)
  | S f =>
    match min_when q with
    | Some w =>
      if Z.leb w now then
        match oracle with
        | j :: orest =>
          match remove_job q j with
          | Some (wj, rest) =>
            if Z.eqb wj w then
              match push_scheduled f rest now orest with
              | Some (q', items, o') => Some (q', RJob j wj :: items, o')
              | None => None
              end
            else None
          | None => None
          end
        | [] => None
        end
      else Some (q, [], oracle)
    | None => Some (q, [], oracle)
    end
  end.

Definition filter_event (prev : list (option Z)) (x : nat * ev) : list (option Z) * ritem :=
  let '(i, e) := x in
  match nth i prev None with
  | Some p => if Z.ltb (e_when e) p then (prev, RDrop i e) else (set_nth prev i (Some (e_when e)), REv i e)
  | None => (set_nth prev i (Some (e_when e)), REv i e)
  end.

Fixpoint filter_events (prev : list (option Z)) (batch : list (nat * ev)) : list (option Z) * list ritem :=
  match batch with
  | [] => (prev, [])
  | x :: r => let '(prev', it) := filter_event prev x in
              let '(prev'', items) := filter_events prev' r in (prev'', it :: items)
  end.

Definition rt_iter (s : rst) (now : Z) (oracle : list nat) : option (rst * list ritem * list nat) :=
  match push_scheduled (S (length (r_sched s))) (r_sched s) now oracle with
  | Some (q', jitems, o') =>
    let '(m', batch) := pop_while (S (pending_count (r_mux s))) (r_mux s) now in
    let '(prev', eitems) := filter_events (r_prev s) batch in
    Some (mkR m' prev' q', jitems ++ eitems, o')
  | None => None
  end.

Definition rt_arrive (s : rst) (arrivals : list (nat * ev)) (jobs : list (Z * nat)) : rst :=
  mkR (fold_left (fun m x => apply_effect m (EPush (fst x) (snd x))) arrivals (r_mux s)) (r_prev s) (r_sched s ++ jobs).

Definition rt_init (n : nat) : rst :=
  mkR (init_d (repeat [] n) []) (repeat None n) [].

(* correspondence: iterations = (now, arrivals since the previous iteration, jobs scheduled since, observed items) *)
Definition ritem_eqb (a b : ritem) : bool :=
  match a, b with
  | RJob j w, RJob j' w' => Nat.eqb j j' && Z.eqb w w'
  | REv i e, REv i' e' | RDrop i e, RDrop i' e' => Nat.eqb i i' && Z.eqb (e_when e) (e_when e') && Nat.eqb (e_id e) (e_id e')
  | _, _ => false
  end.
Fixpoint items_eqb (a b : list ritem) : bool :=
  match a, b with
  | [], [] => true
  | x :: a', y :: b' => ritem_eqb x y && items_eqb a' b'
  | _, _ => false
  end.

Definition is_drop (it : ritem) : bool := match it with RDrop _ _ => true | _ => false end.

Fixpoint check_rt (s : rst) (k : nat)
         (iters : list (Z * list (nat * ev) * list (Z * nat) * list nat * list ritem * nat)) : option nat :=
  match iters with
  | [] => None
  | (now, arrivals, jobs, oracle, observed, ndrops) :: r =>
    match rt_iter (rt_arrive s arrivals jobs) now oracle with
    | Some (s', items, _) =>
      if items_eqb (filter (fun it => negb (is_drop it)) items) observed
         && Nat.eqb (length (filter is_drop items)) ndrops
      then check_rt s' (S k) r else Some k
    | None => Some k
    end
  end.
