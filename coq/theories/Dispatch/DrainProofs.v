(* C13, the end of a run: when run() has returned, every job that is still pending is later than the drain bound --
   and the drain bound was fixed, when the sources first ran dry, as the time of the latest job pending then.  Together
   with the conservation of jobs (OnceProofs.v) this says that every job scheduled no later than that moment has run. *)
From Coq Require Import ZArith List Bool Lia.
From Basana Require Import Dispatch.Backtest Dispatch.BacktestProofs Dispatch.MuxProofs.
Import ListNotations.
Open Scope Z_scope.

Lemma prefetch_lists_idem qs : forall sl qs' sl',
  prefetch_lists qs sl = (qs', sl') -> prefetch_lists qs' sl' = (qs', sl').
Proof.
  induction qs as [|q qr IH]; intros sl qs' sl' H; cbn [prefetch_lists] in H.
  - inversion H; subst. reflexivity.
  - destruct sl as [|o sr]; [inversion H; subst; reflexivity|].
    destruct (prefetch_lists qr sr) as [qr' sr'] eqn:E. specialize (IH _ _ _ E).
    destruct o as [e0|]; [|destruct q as [|e q']]; inversion H; subst; cbn [prefetch_lists]; rewrite IH; reflexivity.
Qed.

Lemma prefetch_idem s : prefetch (prefetch s) = prefetch s.
Proof.
  unfold prefetch. destruct (prefetch_lists (d_srcs s) (d_slots s)) as [qs sl] eqn:E. cbn [d_srcs d_slots].
  rewrite (prefetch_lists_idem _ _ _ _ E). reflexivity.
Qed.

Lemma prefetch_sched s : d_sched (prefetch s) = d_sched s.
Proof. unfold prefetch. destruct (prefetch_lists _ _). reflexivity. Qed.
Lemma prefetch_drain s : d_drain (prefetch s) = d_drain s.
Proof. unfold prefetch. destruct (prefetch_lists _ _). reflexivity. Qed.

Lemma apply_effects_drain fs : forall x, d_drain (apply_effects x fs) = d_drain x.
Proof.
  induction fs as [|f fs IH]; intros x; [reflexivity|]. unfold apply_effects in *. cbn [fold_left].
  rewrite IH. destruct f; reflexivity.
Qed.

Lemma max_when_none q : max_when q = None -> q = [].
Proof. destruct q as [|[w j] r]; [reflexivity|]. cbn [max_when]. destruct (max_when r); discriminate. Qed.

Lemma min_when_none q : min_when q = None -> q = [].
Proof. destruct q as [|[w j] r]; [reflexivity|]. cbn [min_when]. destruct (min_when r); discriminate. Qed.

Section Drain.
Variable beh_ev : nat -> list effect.
Variable beh_job : nat -> list effect.

Definition later_than_bound (s : dst) : Prop :=
  match d_drain s with
  | Some d => forall w j, In (w, j) (d_sched s) -> d < w
  | None => d_sched s = []
  end.

Definition DInv (s : dst) : Prop :=
  match d_pc s with
  | PSched dt true => d_drain s = Some dt
  | PAfterDrain => min_slot (d_slots (prefetch s)) = None -> later_than_bound s
  | PDone => later_than_bound s
  | _ => True
  end.

Theorem step_DInv s oracle : DInv s -> DInv (fst (step beh_ev beh_job s oracle)).
Proof.
  intros H. unfold step. destruct (d_pc s) eqn:Epc.
  - (* PTop *)
    destruct (min_slot (d_slots (prefetch s))) as [dt|] eqn:Em.
    + destruct (d_last (prefetch s)); [destruct (Z.ltb _ _)|]; cbn [fst]; exact I.
    + destruct (d_drain (prefetch s)) as [d|] eqn:Ed.
      * cbn [fst]. unfold DInv. cbn. reflexivity.
      * destruct (max_when (d_sched (prefetch s))) as [d|] eqn:Emax; cbn [fst].
        -- unfold DInv. cbn. reflexivity.
        -- unfold DInv, later_than_bound. cbn. intros _. apply max_when_none. exact Emax.
  - (* PSched *)
    destruct (min_when (d_sched s)) as [w|] eqn:Emin.
    2:{ cbn [fst]. destruct drain; [|exact I]. unfold DInv in *. rewrite Epc in H. cbn. intros _.
        unfold later_than_bound. cbn. rewrite H. apply min_when_none in Emin. rewrite Emin. intros ? ? []. }
    destruct (Z.leb w dt) eqn:Ele.
    2:{ cbn [fst]. destruct drain; [|exact I]. unfold DInv in *. rewrite Epc in H. cbn. intros _.
        unfold later_than_bound. cbn. rewrite H. intros w' j' Hin. apply Z.leb_gt in Ele.
        destruct (min_when_le _ _ _ Hin) as (m & Hm & Hle). rewrite Emin in Hm. inversion Hm; subst. lia. }
    destruct oracle as [|j orest]; [cbn [fst]; exact I|].
    destruct (remove_job (d_sched s) j) as [[wj rest]|]; [|cbn [fst]; exact I].
    destruct (negb (Z.eqb wj w)); [cbn [fst]; exact I|].
    match goal with |- context [prefetch (apply_effects ?x (beh_job j))] => set (s1 := x) end.
    set (s3 := prefetch (apply_effects s1 (beh_job j))).
    assert (Ed : d_drain s3 = d_drain s).
    { unfold s3. rewrite prefetch_drain, apply_effects_drain. reflexivity. }
    destruct (min_slot (d_slots s3)) as [ne|] eqn:Em.
    + destruct (Z.ltb ne dt); cbn [fst].
      * destruct drain; [|exact I]. unfold DInv. cbn [with_pc d_pc d_slots d_srcs]. intros Hn. exfalso.
        assert (E : prefetch (with_pc s3 PAfterDrain) = with_pc s3 PAfterDrain).
        { unfold s3. unfold with_pc at 1. unfold prefetch at 1. cbn [d_srcs d_slots].
          pose proof (prefetch_idem (apply_effects s1 (beh_job j))) as Hi. unfold prefetch at 1 in Hi.
          destruct (prefetch_lists (d_srcs (prefetch (apply_effects s1 (beh_job j))))
                                   (d_slots (prefetch (apply_effects s1 (beh_job j))))) as [qs sl] eqn:El.
          assert (Eq : qs = d_srcs (prefetch (apply_effects s1 (beh_job j))) /\ sl = d_slots (prefetch (apply_effects s1 (beh_job j)))).
          { rewrite <- Hi. cbn [d_srcs d_slots]. split; reflexivity. }
          destruct Eq as [-> ->]. unfold with_pc. reflexivity. }
        rewrite E in Hn. cbn [with_pc d_slots] in Hn. fold s3 in Hn. congruence.
      * destruct drain; [|exact I]. unfold DInv in *. rewrite Epc in H. cbn [with_pc d_pc d_drain]. rewrite Ed. exact H.
    + cbn [fst]. destruct drain; [|exact I]. unfold DInv in *. rewrite Epc in H. cbn [with_pc d_pc d_drain]. rewrite Ed. exact H.
  - (* PEvents *)
    match goal with |- context [pop_while ?f ?x dt] => destruct (pop_while f x dt) end. cbn [fst]. exact I.
  - (* PAfterDrain *)
    unfold DInv in H. rewrite Epc in H.
    destruct (min_slot (d_slots (prefetch s))) eqn:Em; cbn [fst]; [exact I|].
    unfold DInv. cbn [with_pc d_pc]. specialize (H eq_refl). unfold later_than_bound in *. cbn [with_pc d_drain d_sched].
    rewrite prefetch_drain, prefetch_sched. exact H.
  - cbn [fst]. exact H.
  - cbn [fst]. exact H.
Qed.

Theorem run_DInv fuel : forall s oracle, DInv s -> DInv (fst (run beh_ev beh_job fuel s oracle)).
Proof.
  induction fuel as [|f IH]; intros s oracle H; cbn [run]; [exact H|].
  destruct (d_pc s) eqn:Epc; try exact H;
    (pose proof (step_DInv s oracle H) as H1; destruct (step beh_ev beh_job s oracle) as [s' o']; apply IH; exact H1).
Qed.

(* when run() has returned: nothing is left that was due by the drain bound; without any job ever pending when the
   sources ran dry, nothing is left at all *)
Theorem returned_run_left_only_later_jobs srcs jobs oracle fuel :
  let s := fst (run beh_ev beh_job fuel (init_d srcs jobs) oracle) in
  d_pc s = PDone ->
  match d_drain s with
  | Some d => forall w j, In (w, j) (d_sched s) -> d < w
  | None => d_sched s = []
  end.
Proof.
  intros s Hd. pose proof (run_DInv fuel (init_d srcs jobs) oracle) as H. fold s in H.
  assert (H0 : DInv (init_d srcs jobs)) by (unfold DInv, init_d; cbn; exact I).
  specialize (H H0). unfold DInv in H. rewrite Hd in H. exact H.
Qed.
End Drain.
