(* Executable model of the backtesting dispatcher (basana/core/dispatcher.py at /repo HEAD):
   EventMultiplexer (one prefetched event per source, pop of the oldest event <= max_dt with the strict
   tie-break of the source order), SchedulerQueue as a multiset (heapq is a library: which minimal job it
   returns among equal times is an input, checked to be a minimum), BacktestingDispatcher._dispatch_loop /
   _dispatch_scheduled / _dispatch_events after the fixes 7793261 and 1d281e0.
   Handlers and jobs are scripted: what an event's handlers / a job do (push events to sources, schedule jobs) is
   an input.  A batch of events is popped before any of its handlers runs, and the dispatcher only looks at
   the sources again when all of them are done, so the effects of a batch are applied after the batch. *)
From Coq Require Import ZArith List Bool Lia.
Import ListNotations.
Open Scope Z_scope.

Record ev := mkEv { e_when : Z; e_id : nat }.
Inductive effect := EPush (src : nat) (e : ev) | ESched (when : Z) (jid : nat).
Inductive item := IJob (jid : nat) (when clock : Z) | IEv (src : nat) (e : ev) (clock : Z).
Inductive pc := PTop | PSched (dt : Z) (drain : bool) | PEvents (dt : Z) | PAfterDrain | PDone | PErr (why : nat).

Record dst := mkD {
  d_srcs : list (list ev);        (* FIFO queue of each source, in multiplexer (subscription) order *)
  d_slots : list (option ev);     (* EventMultiplexer._prefetched_events *)
  d_sched : list (Z * nat);       (* pending scheduled jobs *)
  d_last : option Z;              (* _last_dt *)
  d_drain : option Z;             (* last_scheduled_dt in _dispatch_loop *)
  d_pc : pc;
  d_trace : list item }.

Definition with_pc (s : dst) (p : pc) : dst :=
  mkD (d_srcs s) (d_slots s) (d_sched s) (d_last s) (d_drain s) p (d_trace s).

(* ---------------------------------------------------------------------------------------------- *)
(* EventMultiplexer *)

(* _prefetch: fill every empty slot from its source *)
Fixpoint prefetch_lists (qs : list (list ev)) (sl : list (option ev)) : list (list ev) * list (option ev) :=
  match qs, sl with
  | q :: qr, o :: sr =>
    let '(qr', sr') := prefetch_lists qr sr in
    match o, q with
    | None, e :: q' => (q' :: qr', Some e :: sr')
    | _, _ => (q :: qr', o :: sr')
    end
  | _, _ => (qs, sl)
  end.

Definition prefetch (s : dst) : dst :=
  let '(qs, sl) := prefetch_lists (d_srcs s) (d_slots s) in
  mkD qs sl (d_sched s) (d_last s) (d_drain s) (d_pc s) (d_trace s).

Fixpoint min_slot (sl : list (option ev)) : option Z :=
  match sl with
  | [] => None
  | None :: r => min_slot r
  | Some e :: r => match min_slot r with Some m => Some (Z.min (e_when e) m) | None => Some (e_when e) end
  end.

(* pop(max_dt): scan the sources in order; prefetching as it goes; keep the oldest event <= max_dt (first wins ties) *)
Fixpoint scan (sl : list (option ev)) (i : nat) (max_dt : Z) (best : option (nat * ev)) : option (nat * ev) :=
  match sl with
  | [] => best
  | o :: r =>
    let best' := match o with
                 | Some e => if Z.leb (e_when e) max_dt
                             then match best with
                                  | None => Some (i, e)
                                  | Some (_, b) => if Z.ltb (e_when e) (e_when b) then Some (i, e) else best
                                  end
                             else best
                 | None => best
                 end in
    scan r (S i) max_dt best'
  end.

Fixpoint clear_slot (sl : list (option ev)) (i : nat) : list (option ev) :=
  match sl, i with
  | [], _ => []
  | _ :: r, O => None :: r
  | o :: r, S i' => o :: clear_slot r i'
  end.

Definition mux_pop (s : dst) (max_dt : Z) : dst * option (nat * ev) :=
  let s1 := prefetch s in
  match scan (d_slots s1) 0 max_dt None with
  | Some (i, e) =>
    (mkD (d_srcs s1) (clear_slot (d_slots s1) i) (d_sched s1) (d_last s1) (d_drain s1) (d_pc s1) (d_trace s1),
     Some (i, e))
  | None => (s1, None)
  end.

Fixpoint pop_while (fuel : nat) (s : dst) (max_dt : Z) : dst * list (nat * ev) :=
  match fuel with
  | O => (s, [])
  | S f =>
    match mux_pop s max_dt with
    | (s', Some x) => let '(s'', r) := pop_while f s' max_dt in (s'', x :: r)
    | (s', None) => (s', [])
    end
  end.

Definition pending_count (s : dst) : nat :=
  fold_right (fun q n => (length q + n)%nat) 0%nat (d_srcs s)
  + length (filter (fun o => match o with Some _ => true | None => false end) (d_slots s)).

(* ---------------------------------------------------------------------------------------------- *)
(* effects of handlers and jobs *)

Fixpoint push_to (qs : list (list ev)) (i : nat) (e : ev) : list (list ev) :=
  match qs, i with
  | [], _ => []
  | q :: r, O => (q ++ [e]) :: r
  | q :: r, S i' => q :: push_to r i' e
  end.

Definition apply_effect (s : dst) (f : effect) : dst :=
  match f with
  | EPush i e => mkD (push_to (d_srcs s) i e) (d_slots s) (d_sched s) (d_last s) (d_drain s) (d_pc s) (d_trace s)
  | ESched w j => mkD (d_srcs s) (d_slots s) (d_sched s ++ [(w, j)]) (d_last s) (d_drain s) (d_pc s) (d_trace s)
  end.
Definition apply_effects (s : dst) (fs : list effect) : dst := fold_left apply_effect fs s.

(* ---------------------------------------------------------------------------------------------- *)
(* SchedulerQueue as a multiset *)
Fixpoint min_when (q : list (Z * nat)) : option Z :=
  match q with
  | [] => None
  | (w, _) :: r => match min_when r with Some m => Some (Z.min w m) | None => Some w end
  end.
Fixpoint max_when (q : list (Z * nat)) : option Z :=
  match q with
  | [] => None
  | (w, _) :: r => match max_when r with Some m => Some (Z.max w m) | None => Some w end
  end.
Fixpoint remove_job (q : list (Z * nat)) (j : nat) : option (Z * list (Z * nat)) :=
  match q with
  | [] => None
  | (w, k) :: r => if Nat.eqb k j then Some (w, r)
                   else match remove_job r j with Some (w', r') => Some (w', (w, k) :: r') | None => None end
  end.

(* ---------------------------------------------------------------------------------------------- *)
(* the dispatch loop, one decision per step.
   beh_ev / beh_job: what the handlers of an event / a job do.
   The oracle is the list of job ids in the order the implementation ran them. *)
Section Machine.
Variable beh_ev : nat -> list effect.
Variable beh_job : nat -> list effect.

Definition clock_of (s : dst) : Z := match d_last s with Some t => t | None => 0 end.

Definition deliver (s : dst) (dt : Z) (batch : list (nat * ev)) : dst :=
  let s1 := mkD (d_srcs s) (d_slots s) (d_sched s) (d_last s) (d_drain s) (d_pc s)
                (d_trace s ++ map (fun x => IEv (fst x) (snd x) dt) batch) in
  fold_left (fun acc x => apply_effects acc (beh_ev (e_id (snd x)))) batch s1.

Definition step (s : dst) (oracle : list nat) : dst * list nat :=
  match d_pc s with
  | PTop =>
    let s1 := prefetch s in
    match min_slot (d_slots s1) with
    | Some dt =>
      (* assert self._last_dt is None or next_dt >= self._last_dt *)
      match d_last s1 with
      | Some l => if Z.ltb dt l then (with_pc s1 (PErr 1), oracle) else (with_pc s1 (PSched dt false), oracle)
      | None => (with_pc s1 (PSched dt false), oracle)
      end
    | None =>
      let dr := match d_drain s1 with Some d => Some d | None => max_when (d_sched s1) end in
      let s2 := mkD (d_srcs s1) (d_slots s1) (d_sched s1) (d_last s1) dr (d_pc s1) (d_trace s1) in
      match dr with
      | Some d => (with_pc s2 (PSched d true), oracle)
      | None => (with_pc s2 PAfterDrain, oracle)
      end
    end
  | PSched dt drain =>
    match min_when (d_sched s) with
    | Some w =>
      if Z.leb w dt then
        match oracle with
        | j :: orest =>
          match remove_job (d_sched s) j with
          | Some (wj, rest) =>
            if negb (Z.eqb wj w) then (with_pc s (PErr 2), orest)        (* heappop did not return a minimum *)
            else
              let last' := match d_last s with
                           | Some l => if Z.ltb l wj then Some wj else Some l
                           | None => Some wj end in
              let clk := match last' with Some t => t | None => wj end in
              let s1 := mkD (d_srcs s) (d_slots s) rest last' (d_drain s) (d_pc s)
                            (d_trace s ++ [IJob j wj clk]) in
              let s2 := apply_effects s1 (beh_job j) in
              let s3 := prefetch s2 in
              match min_slot (d_slots s3) with
              | Some ne => if Z.ltb ne dt
                           then (with_pc s3 (if drain then PAfterDrain else PTop), orest)
                           else (with_pc s3 (PSched dt drain), orest)
              | None => (with_pc s3 (PSched dt drain), orest)
              end
          | None => (with_pc s (PErr 3), orest)                            (* unknown job *)
          end
        | [] => (with_pc s (PErr 4), oracle)
        end
      else (with_pc s (if drain then PAfterDrain else PEvents dt), oracle)
    | None => (with_pc s (if drain then PAfterDrain else PEvents dt), oracle)
    end
  | PEvents dt =>
    let s0 := mkD (d_srcs s) (d_slots s) (d_sched s) (Some dt) (d_drain s) (d_pc s) (d_trace s) in
    let '(s1, batch) := pop_while (S (pending_count s0)) s0 dt in
    (with_pc (deliver s1 dt batch) PTop, oracle)
  | PAfterDrain =>
    let s1 := prefetch s in
    match min_slot (d_slots s1) with
    | Some _ => (with_pc s1 PTop, oracle)
    | None => (with_pc s1 PDone, oracle)
    end
  | PDone => (s, oracle)
  | PErr _ => (s, oracle)
  end.

Fixpoint run (fuel : nat) (s : dst) (oracle : list nat) : dst * list nat :=
  match fuel with
  | O => (s, oracle)
  | S f => match d_pc s with
           | PDone | PErr _ => (s, oracle)
           | _ => let '(s', o') := step s oracle in run f s' o'
           end
  end.
End Machine.

Definition init_d (srcs : list (list ev)) (jobs : list (Z * nat)) : dst :=
  mkD srcs (map (fun _ => None) srcs) jobs None None PTop [].

(* correspondence: compare the model's trace with the observed one *)
Definition item_eqb (a b : item) : bool :=
  match a, b with
  | IJob j w c, IJob j' w' c' => Nat.eqb j j' && Z.eqb w w' && Z.eqb c c'
  | IEv i e c, IEv i' e' c' => Nat.eqb i i' && Z.eqb (e_when e) (e_when e') && Nat.eqb (e_id e) (e_id e') && Z.eqb c c'
  | _, _ => false
  end.
Fixpoint first_diff (k : nat) (m o : list item) : option nat :=
  match m, o with
  | [], [] => None
  | a :: m', b :: o' => if item_eqb a b then first_diff (S k) m' o' else Some k
  | _, _ => Some k
  end.
Inductive verdict := Agree | Diverge (k : nat) | Stuck (why : nat) | OutOfFuel.

Fixpoint lookup_beh (tbl : list (nat * list effect)) (k : nat) : list effect :=
  match tbl with [] => [] | (i, fs) :: r => if Nat.eqb i k then fs else lookup_beh r k end.

Definition check_case (srcs : list (list ev)) (jobs : list (Z * nat)) (bev bjob : list (nat * list effect))
           (oracle : list nat) (observed : list item) (fuel : nat) : verdict :=
  let '(s, _) := run (lookup_beh bev) (lookup_beh bjob) fuel (init_d srcs jobs) oracle in
  match d_pc s with
  | PDone => match first_diff 0 (d_trace s) observed with None => Agree | Some k => Diverge k end
  | PErr w => Stuck w
  | _ => OutOfFuel
  end.
