From Coq Require Import ZArith List Bool Lia.
From Basana Require Import Dispatch.Backtest Dispatch.BacktestProofs Dispatch.MuxProofs Dispatch.Realtime.
Import ListNotations.
Open Scope Z_scope.

(* ---------------------------------------------------------------------------------------------- *)
(* scheduled jobs: nothing early, everything due is taken *)

Theorem push_scheduled_not_early fuel : forall q now oracle q' items o',
  push_scheduled fuel q now oracle = Some (q', items, o') ->
  forall j w, In (RJob j w) items -> w <= now /\ In (w, j) q.
Proof.
  induction fuel as [|f IH]; intros q now oracle q' items o' H j w Hin; cbn [push_scheduled] in H.
  - inversion H; subst. contradiction.
  - destruct (min_when q) as [m|] eqn:Em; [|inversion H; subst; contradiction].
    destruct (Z.leb m now) eqn:El; [|inversion H; subst; contradiction].
    apply Z.leb_le in El.
    destruct oracle as [|j0 orest]; [discriminate|].
    destruct (remove_job q j0) as [[wj rest]|] eqn:Er; [|discriminate].
    destruct (Z.eqb wj m) eqn:Ee; [|discriminate]. apply Z.eqb_eq in Ee. subst wj.
    destruct (push_scheduled f rest now orest) as [[[q1 it1] o1]|] eqn:Ep; [|discriminate].
    inversion H; subst. destruct (remove_job_spec _ _ _ _ Er) as (Hjin & _ & Hsub).
    destruct Hin as [E|Hin].
    + inversion E; subst. split; [exact El | exact Hjin].
    + destruct (IH _ _ _ _ _ _ Ep j w Hin) as [H1 H2]. split; [exact H1 | apply Hsub; exact H2].
Qed.

Theorem push_scheduled_takes_all_due fuel : forall q now oracle q' items o',
  (length q < fuel)%nat ->
  push_scheduled fuel q now oracle = Some (q', items, o') ->
  forall w j, In (w, j) q' -> now < w.
Proof.
  induction fuel as [|f IH]; intros q now oracle q' items o' Hlen H w j Hin; [lia|]. cbn [push_scheduled] in H.
  destruct (min_when q) as [m|] eqn:Em.
  - destruct (Z.leb m now) eqn:El.
    + destruct oracle as [|j0 orest]; [discriminate|].
      destruct (remove_job q j0) as [[wj rest]|] eqn:Er; [|discriminate].
      destruct (Z.eqb wj m); [|discriminate].
      destruct (push_scheduled f rest now orest) as [[[q1 it1] o1]|] eqn:Ep; [|discriminate].
      inversion H; subst. destruct (remove_job_spec _ _ _ _ Er) as (_ & Hl & _).
      eapply IH; [|exact Ep | exact Hin]. lia.
    + apply Z.leb_gt in El. inversion H; subst.
      destruct (min_when_le _ _ _ Hin) as (m' & Hm' & Hle). rewrite Em in Hm'. inversion Hm'; subst. lia.
  - inversion H; subst. destruct (min_when_le _ _ _ Hin) as (m' & Hm' & _). rewrite Em in Hm'. discriminate.
Qed.

(* ---------------------------------------------------------------------------------------------- *)
(* events: per-source order *)

Lemma nth_set_nth_same {A} (l : list A) i x d : (i < length l)%nat -> nth i (set_nth l i x) d = x.
Proof.
  revert i. induction l as [|y r IH]; intros i Hi; cbn [length] in Hi; [lia|].
  destruct i; cbn [set_nth nth]; [reflexivity | apply IH; lia].
Qed.
Lemma nth_set_nth_other {A} (l : list A) i k x d : i <> k -> nth k (set_nth l i x) d = nth k l d.
Proof.
  revert i k. induction l as [|y r IH]; intros i k Hne; [destruct i; reflexivity|].
  destruct i, k; cbn [set_nth nth]; try reflexivity; try congruence. apply IH. congruence.
Qed.
Lemma set_nth_length {A} (l : list A) i x : length (set_nth l i x) = length l.
Proof. revert i. induction l as [|y r IH]; intros i; [destruct i; reflexivity|]. destruct i; cbn [set_nth length]; [reflexivity | rewrite IH; reflexivity]. Qed.

(* a delivered event is never older than the last event delivered from its source; an older one is dropped *)
Theorem filter_event_spec prev i e prev' it :
  filter_event prev (i, e) = (prev', it) ->
  (it = REv i e /\ (forall p, nth i prev None = Some p -> p <= e_when e) /\ prev' = set_nth prev i (Some (e_when e))) \/
  (it = RDrop i e /\ (exists p, nth i prev None = Some p /\ e_when e < p) /\ prev' = prev).
Proof.
  unfold filter_event. destruct (nth i prev None) as [p|] eqn:En.
  - destruct (Z.ltb (e_when e) p) eqn:El; intros H; inversion H; subst.
    + right. apply Z.ltb_lt in El. split; [reflexivity|]. split; [exists p; split; [reflexivity | exact El] | reflexivity].
    + left. apply Z.ltb_ge in El. split; [reflexivity|]. split; [intros p0 E; inversion E; subst; exact El | reflexivity].
  - intros H; inversion H; subst. left. split; [reflexivity|]. split; [intros p0 E; discriminate | reflexivity].
Qed.

(* over a whole batch: the delivered events of each source are in non-decreasing time order, starting from the last
   time delivered before *)
Fixpoint delivered_of (i : nat) (items : list ritem) : list Z :=
  match items with
  | [] => []
  | REv k e :: r => if Nat.eqb k i then e_when e :: delivered_of i r else delivered_of i r
  | _ :: r => delivered_of i r
  end.

Fixpoint sorted_from (lo : option Z) (l : list Z) : Prop :=
  match l with
  | [] => True
  | x :: r => (match lo with Some p => p <= x | None => True end) /\ sorted_from (Some x) r
  end.

Theorem filter_events_sorted batch : forall prev prev' items i,
  (forall x, In x batch -> (fst x < length prev)%nat) ->
  filter_events prev batch = (prev', items) ->
  sorted_from (nth i prev None) (delivered_of i items).
Proof.
  induction batch as [|[k e] r IH]; intros prev prev' items i Hlen H; cbn [filter_events] in H.
  - inversion H; subst. exact I.
  - destruct (filter_event prev (k, e)) as [prev1 it] eqn:Ef.
    destruct (filter_events prev1 r) as [prev2 its] eqn:Er. injection H as <- <-.
    assert (Hk : (k < length prev)%nat) by (apply (Hlen (k, e)); left; reflexivity).
    destruct (filter_event_spec _ _ _ _ _ Ef) as [(Eit & Hle & Ep)|(Eit & _ & Ep)]; subst it prev1.
    + cbn [delivered_of]. destruct (Nat.eqb k i) eqn:Eki.
      * apply Nat.eqb_eq in Eki. subst k. cbn [sorted_from]. split.
        -- destruct (nth i prev None) as [p|] eqn:En; [apply Hle; reflexivity | exact I].
        -- pose proof (IH (set_nth prev i (Some (e_when e))) prev2 its i) as IH'.
           rewrite nth_set_nth_same in IH' by exact Hk. apply IH'; [|exact Er].
           intros x Hx. rewrite set_nth_length. apply Hlen. right. exact Hx.
      * apply Nat.eqb_neq in Eki.
        pose proof (IH (set_nth prev k (Some (e_when e))) prev2 its i) as IH'.
        rewrite nth_set_nth_other in IH' by exact Eki. apply IH'; [|exact Er].
        intros x Hx. rewrite set_nth_length. apply Hlen. right. exact Hx.
    + cbn [delivered_of]. apply (IH prev prev2 its i); [|exact Er].
      intros x Hx. apply Hlen. right. exact Hx.
Qed.

Lemma push_scheduled_only_jobs fuel : forall q now oracle q' items o',
  push_scheduled fuel q now oracle = Some (q', items, o') ->
  forall it, In it items -> exists j w, it = RJob j w.
Proof.
  induction fuel as [|f IH]; intros q now oracle q' items o' H it Hin; cbn [push_scheduled] in H.
  - inversion H; subst. contradiction.
  - destruct (min_when q) as [m|]; [|inversion H; subst; contradiction].
    destruct (Z.leb m now); [|inversion H; subst; contradiction].
    destruct oracle as [|j0 orest]; [discriminate|].
    destruct (remove_job q j0) as [[wj rest]|]; [|discriminate].
    destruct (Z.eqb wj m); [|discriminate].
    destruct (push_scheduled f rest now orest) as [[[q1 it1] o1]|] eqn:Ep; [|discriminate].
    inversion H; subst. destruct Hin as [E|Hin]; [subst it; eexists; eexists; reflexivity | eapply IH; eassumption].
Qed.

(* one iteration: nothing is dispatched early *)
Theorem rt_iter_never_early s now oracle s' items o' :
  rt_iter s now oracle = Some (s', items, o') ->
  forall it, In it items ->
  match it with RJob _ w => w <= now | REv _ e => e_when e <= now | RDrop _ e => e_when e <= now end.
Proof.
  unfold rt_iter. intros H it Hin.
  destruct (push_scheduled _ _ now oracle) as [[[q' jitems] o1]|] eqn:Ep; [|discriminate].
  destruct (pop_while _ (r_mux s) now) as [m' batch] eqn:Ew.
  destruct (filter_events (r_prev s) batch) as [prev' eitems] eqn:Ef. inversion H; subst.
  apply in_app_or in Hin. destruct Hin as [Hin|Hin].
  - destruct (push_scheduled_only_jobs _ _ _ _ _ _ _ Ep it Hin) as (j & w & E). subst it.
    destruct (push_scheduled_not_early _ _ _ _ _ _ _ Ep j w Hin) as [Hle _]. exact Hle.
  - (* event items come from the batch, whose events are all dated <= now *)
    assert (Hb : forall x, In x batch -> e_when (snd x) <= now) by (eapply pop_while_le; exact Ew).
    clear -Hb Ef Hin. revert prev' eitems Ef Hin. generalize (r_prev s) as prev.
    induction batch as [|[k e] r IH]; intros prev prev' eitems Ef Hin; cbn [filter_events] in Ef.
    + inversion Ef; subst. contradiction.
    + destruct (filter_event prev (k, e)) as [prev1 it1] eqn:E1.
      destruct (filter_events prev1 r) as [prev2 its] eqn:E2. inversion Ef; subst.
      destruct Hin as [X|Hin].
      * subst it. destruct (filter_event_spec _ _ _ _ _ E1) as [(Eit & _)|(Eit & _)]; subst it1;
          apply (Hb (k, e)); left; reflexivity.
      * eapply IH; [intros x Hx; apply Hb; right; exact Hx | exact E2 | exact Hin].
Qed.

(* ... every job due is taken, and no event dated <= now is left at the head of any source *)
Theorem rt_iter_takes_all_due s now oracle s' items o' :
  rt_iter s now oracle = Some (s', items, o') ->
  (forall w j, In (w, j) (r_sched s') -> now < w) /\ snd (mux_pop (r_mux s') now) = None.
Proof.
  unfold rt_iter. intros H.
  destruct (push_scheduled _ _ now oracle) as [[[q' jitems] o1]|] eqn:Ep; [|discriminate].
  destruct (pop_while _ (r_mux s) now) as [m' batch] eqn:Ew.
  destruct (filter_events (r_prev s) batch) as [prev' eitems] eqn:Ef. inversion H; subst. cbn [r_sched r_mux].
  split.
  - intros w j Hin. eapply push_scheduled_takes_all_due; [|exact Ep | exact Hin]. lia.
  - eapply pop_while_exhausts. exact Ew.
Qed.
