(* EventMultiplexer lemmas and the events phase of the backtesting loop *)
From Coq Require Import ZArith List Bool Lia.
From Basana Require Import Dispatch.Backtest Dispatch.BacktestProofs.
Import ListNotations.
Open Scope Z_scope.

Theorem scan_spec sl : forall i max_dt best j e,
  scan sl i max_dt best = Some (j, e) ->
  (best = Some (j, e) \/ (exists k, nth_error sl k = Some (Some e) /\ j = (i + k)%nat /\ e_when e <= max_dt)) /\
  (forall k e', nth_error sl k = Some (Some e') -> e_when e' <= max_dt -> e_when e <= e_when e') /\
  (forall b, best = Some b -> e_when e <= e_when (snd b)).
Proof.
  induction sl as [|o r IH]; intros i max_dt best j e H; cbn [scan] in H.
  - subst best. split; [left; reflexivity|]. split.
    + intros k e' Hn. destruct k; discriminate Hn.
    + intros b Hb. inversion Hb; subst. cbn [snd]. lia.
  - destruct o as [e0|].
    + destruct (Z.leb (e_when e0) max_dt) eqn:Ele.
      * apply Z.leb_le in Ele. destruct best as [[bi b]|].
        -- destruct (Z.ltb (e_when e0) (e_when b)) eqn:Elt.
           ++ apply Z.ltb_lt in Elt. destruct (IH _ _ _ _ _ H) as (Hsrc & Hmin & Hbest).
              specialize (Hbest _ eq_refl). cbn [snd] in Hbest.
              split.
              ** destruct Hsrc as [E|(k & Hn & Hj & Hle)].
                 --- inversion E; subst. right. exists 0%nat. split; [reflexivity|]. split; [lia | exact Ele].
                 --- right. exists (S k). split; [exact Hn|]. split; [lia | exact Hle].
              ** split.
                 --- intros k e' Hn Hle'. destruct k; [inversion Hn; subst; exact Hbest | apply (Hmin k e' Hn Hle')].
                 --- intros b' Hb'. inversion Hb'; subst. cbn [snd]. lia.
           ++ apply Z.ltb_ge in Elt. destruct (IH _ _ _ _ _ H) as (Hsrc & Hmin & Hbest).
              specialize (Hbest _ eq_refl). cbn [snd] in Hbest.
              split.
              ** destruct Hsrc as [E|(k & Hn & Hj & Hle)]; [left; exact E|].
                 right. exists (S k). split; [exact Hn|]. split; [lia | exact Hle].
              ** split.
                 --- intros k e' Hn Hle'. destruct k; [inversion Hn; subst; lia | apply (Hmin k e' Hn Hle')].
                 --- intros b' Hb'. inversion Hb'; subst. cbn [snd]. exact Hbest.
        -- destruct (IH _ _ _ _ _ H) as (Hsrc & Hmin & Hbest).
           specialize (Hbest _ eq_refl). cbn [snd] in Hbest.
           split.
           ++ destruct Hsrc as [E|(k & Hn & Hj & Hle)].
              ** inversion E; subst. right. exists 0%nat. split; [reflexivity|]. split; [lia | exact Ele].
              ** right. exists (S k). split; [exact Hn|]. split; [lia | exact Hle].
           ++ split.
              ** intros k e' Hn Hle'. destruct k; [inversion Hn; subst; exact Hbest | apply (Hmin k e' Hn Hle')].
              ** intros b' Hb'. discriminate Hb'.
      * apply Z.leb_gt in Ele. destruct (IH _ _ _ _ _ H) as (Hsrc & Hmin & Hbest).
        split.
        -- destruct Hsrc as [E|(k & Hn & Hj & Hle)]; [left; exact E|].
           right. exists (S k). split; [exact Hn|]. split; [lia | exact Hle].
        -- split; [|exact Hbest].
           intros k e' Hn Hle'. destruct k; [inversion Hn; subst; lia | apply (Hmin k e' Hn Hle')].
    + destruct (IH _ _ _ _ _ H) as (Hsrc & Hmin & Hbest).
      split.
      * destruct Hsrc as [E|(k & Hn & Hj & Hle)]; [left; exact E|].
        right. exists (S k). split; [exact Hn|]. split; [lia | exact Hle].
      * split; [|exact Hbest].
        intros k e' Hn Hle'. destruct k; [discriminate Hn | apply (Hmin k e' Hn Hle')].
Qed.

Lemma mux_pop_le s max_dt s' i e : mux_pop s max_dt = (s', Some (i, e)) -> e_when e <= max_dt.
Proof.
  unfold mux_pop. destruct (scan _ _ _ _) as [[j e0]|] eqn:Es; intros H; [|discriminate].
  inversion H; subst. destruct (scan_spec _ _ _ _ _ _ Es) as ([E|(k & _ & _ & Hle)] & _); [discriminate | exact Hle].
Qed.

Theorem pop_while_le fuel : forall s dt s' batch,
  pop_while fuel s dt = (s', batch) -> forall x, In x batch -> e_when (snd x) <= dt.
Proof.
  induction fuel as [|f IH]; intros s dt s' batch H x Hin; cbn [pop_while] in H.
  - inversion H; subst. contradiction.
  - destruct (mux_pop s dt) as [s1 [[i e]|]] eqn:Ep.
    + destruct (pop_while f s1 dt) as [s2 r] eqn:Er. inversion H; subst.
      destruct Hin as [E|Hin]; [subst x; cbn [snd]; eapply mux_pop_le; exact Ep | eapply IH; eassumption].
    + inversion H; subst. contradiction.
Qed.

Section Steps.
Variable beh_ev : nat -> list effect.
Variable beh_job : nat -> list effect.

Lemma apply_effects_trace fs : forall x, d_trace (apply_effects x fs) = d_trace x.
Proof.
  induction fs as [|f fs IH]; intros x; [reflexivity|]. unfold apply_effects in *. cbn [fold_left].
  rewrite IH. destruct f; reflexivity.
Qed.
Lemma apply_effects_last fs : forall x, d_last (apply_effects x fs) = d_last x.
Proof.
  induction fs as [|f fs IH]; intros x; [reflexivity|]. unfold apply_effects in *. cbn [fold_left].
  rewrite IH. destruct f; reflexivity.
Qed.
Lemma prefetch_trace x : d_trace (prefetch x) = d_trace x.
Proof. unfold prefetch. destruct (prefetch_lists _ _). reflexivity. Qed.
Lemma prefetch_last x : d_last (prefetch x) = d_last x.
Proof. unfold prefetch. destruct (prefetch_lists _ _). reflexivity. Qed.

Lemma mux_pop_fields s dt s' r : mux_pop s dt = (s', r) -> d_trace s' = d_trace s /\ d_last s' = d_last s.
Proof.
  unfold mux_pop. destruct (scan _ _ _ _) as [[i e]|]; intros H; inversion H; subst; cbn [d_trace d_last];
    rewrite ?prefetch_trace, ?prefetch_last; split; reflexivity.
Qed.

Lemma pop_while_fields fuel : forall s dt s' b, pop_while fuel s dt = (s', b) -> d_trace s' = d_trace s /\ d_last s' = d_last s.
Proof.
  induction fuel as [|f IH]; intros s dt s' b H; cbn [pop_while] in H.
  - inversion H; subst. split; reflexivity.
  - destruct (mux_pop s dt) as [s1 [x|]] eqn:Ep.
    + destruct (pop_while f s1 dt) as [s2 r] eqn:Er. inversion H; subst.
      destruct (mux_pop_fields _ _ _ _ Ep) as [T1 L1]. destruct (IH _ _ _ _ Er) as [T2 L2].
      split; congruence.
    + inversion H; subst. eapply mux_pop_fields. exact Ep.
Qed.

Lemma deliver_fields s dt batch :
  d_trace (deliver beh_ev s dt batch) = d_trace s ++ map (fun x => IEv (fst x) (snd x) dt) batch /\
  d_last (deliver beh_ev s dt batch) = d_last s.
Proof.
  unfold deliver.
  set (s1 := mkD _ _ _ _ _ _ _).
  assert (H : forall (b : list (nat * ev)) x,
             d_trace (fold_left (fun acc (y : nat * ev) => apply_effects acc (beh_ev (e_id (snd y)))) b x) = d_trace x /\
             d_last (fold_left (fun acc (y : nat * ev) => apply_effects acc (beh_ev (e_id (snd y)))) b x) = d_last x).
  { induction b as [|y b IH]; intros x; cbn [fold_left]; [split; reflexivity|].
    destruct (IH (apply_effects x (beh_ev (e_id (snd y))))) as [T L].
    rewrite T, L, apply_effects_trace, apply_effects_last. split; reflexivity. }
  destruct (H batch s1) as [T L]. rewrite T, L. split; reflexivity.
Qed.

Theorem events_step_clock s oracle dt s' o' :
  d_pc s = PEvents dt ->
  step beh_ev beh_job s oracle = (s', o') ->
  d_last s' = Some dt /\ d_pc s' = PTop /\
  forall it, In it (trace_ext s s') -> exists i e, it = IEv i e dt.
Proof.
  intros Hpc Hstep. unfold step in Hstep. rewrite Hpc in Hstep.
  destruct (pop_while _ _ dt) as [s1 batch] eqn:Ep. inversion Hstep; subst. clear Hstep.
  destruct (pop_while_fields _ _ _ _ _ Ep) as [T1 L1]. cbn [d_trace d_last] in T1, L1.
  destruct (deliver_fields s1 dt batch) as [T2 L2].
  unfold with_pc. cbn [d_last d_pc]. split; [congruence|]. split; [reflexivity|].
  intros it Hin. unfold trace_ext in Hin. cbn [d_trace] in Hin. rewrite T2, T1 in Hin.
  rewrite skipn_app, skipn_all, Nat.sub_diag in Hin. cbn [skipn app] in Hin.
  apply in_map_iff in Hin. destruct Hin as ([i e] & E & _). subst it. exists i, e. reflexivity.
Qed.

Theorem sched_step_clock_monotone s oracle dt drain s' o' l :
  d_pc s = PSched dt drain -> d_last s = Some l ->
  step beh_ev beh_job s oracle = (s', o') ->
  exists l', d_last s' = Some l' /\ l <= l'.
Proof.
  intros Hpc Hl Hstep. unfold step in Hstep. rewrite Hpc, Hl in Hstep.
  destruct (min_when (d_sched s)) as [w|]; [|inversion Hstep; subst; cbn; rewrite Hl; exists l; split; [reflexivity|lia]].
  destruct (Z.leb w dt); [|inversion Hstep; subst; cbn; rewrite Hl; exists l; split; [reflexivity|lia]].
  destruct oracle as [|j0 orest]; [inversion Hstep; subst; cbn; rewrite Hl; exists l; split; [reflexivity|lia]|].
  destruct (remove_job (d_sched s) j0) as [[wj rest]|];
    [|inversion Hstep; subst; cbn; rewrite Hl; exists l; split; [reflexivity|lia]].
  destruct (negb (Z.eqb wj w)); [inversion Hstep; subst; cbn; rewrite Hl; exists l; split; [reflexivity|lia]|].
  set (last' := if Z.ltb l wj then Some wj else Some l) in *.
  assert (Hl' : exists l', last' = Some l' /\ l <= l').
  { unfold last'. destruct (Z.ltb l wj) eqn:E; [apply Z.ltb_lt in E; exists wj | exists l]; split; try reflexivity; lia. }
  destruct Hl' as (l' & El' & Hle). exists l'. split; [|exact Hle].
  match type of Hstep with context [prefetch (apply_effects ?x ?fs)] =>
    assert (Hd : d_last (prefetch (apply_effects x fs)) = last')
      by (rewrite prefetch_last, apply_effects_last; reflexivity) end.
  destruct (min_slot _) as [ne|]; [destruct (Z.ltb ne dt)|]; inversion Hstep; subst; unfold with_pc; cbn [d_last];
    rewrite Hd; exact El'.
Qed.

Theorem top_step_not_back s oracle s' o' dt drain l :
  d_pc s = PTop -> step beh_ev beh_job s oracle = (s', o') -> d_pc s' = PSched dt drain -> drain = false ->
  d_last s' = Some l -> l <= dt.
Proof.
  intros Hpc Hstep Hpc' Hdr Hl. unfold step in Hstep. rewrite Hpc in Hstep.
  destruct (min_slot (d_slots (prefetch s))) as [dt0|].
  - destruct (d_last (prefetch s)) as [l0|] eqn:El0.
    + destruct (Z.ltb dt0 l0) eqn:E; inversion Hstep; subst; cbn in Hpc'; [discriminate|].
      inversion Hpc'; subst. unfold with_pc in Hl. cbn [d_last] in Hl. rewrite El0 in Hl. inversion Hl; subst.
      apply Z.ltb_ge in E. exact E.
    + inversion Hstep; subst. unfold with_pc in Hl. cbn [d_last] in Hl. rewrite El0 in Hl. discriminate.
  - destruct (match d_drain (prefetch s) with Some d => Some d | None => max_when (d_sched (prefetch s)) end);
      inversion Hstep; subst; cbn in Hpc'; inversion Hpc'; subst; discriminate.
Qed.
End Steps.

(* ---------------------------------------------------------------------------------------------- *)
(* completeness of a batch: pop_while pops until nothing dated <= dt is at the head of any source *)

Definition slots_count (sl : list (option ev)) : nat :=
  length (filter (fun o => match o with Some _ => true | None => false end) sl).
Definition queues_count (qs : list (list ev)) : nat := fold_right (fun q n => (length q + n)%nat) 0%nat qs.

Lemma pending_count_eq s : pending_count s = (queues_count (d_srcs s) + slots_count (d_slots s))%nat.
Proof. reflexivity. Qed.

Lemma prefetch_lists_count qs : forall sl qs' sl',
  prefetch_lists qs sl = (qs', sl') ->
  (queues_count qs' + slots_count sl' = queues_count qs + slots_count sl)%nat.
Proof.
  induction qs as [|q qr IH]; intros sl qs' sl' H; cbn [prefetch_lists] in H.
  - inversion H; subst. reflexivity.
  - destruct sl as [|o sr]; [inversion H; subst; reflexivity|].
    destruct (prefetch_lists qr sr) as [qr' sr'] eqn:E. specialize (IH _ _ _ E).
    unfold slots_count, queues_count in *. 
    destruct o as [e|]; [inversion H; subst; cbn [fold_right filter length]; lia|].
    destruct q as [|e q']; inversion H; subst; cbn [fold_right filter length]; lia.
Qed.

Lemma prefetch_count s : pending_count (prefetch s) = pending_count s.
Proof.
  unfold prefetch. destruct (prefetch_lists (d_srcs s) (d_slots s)) as [qs sl] eqn:E.
  rewrite !pending_count_eq. cbn [d_srcs d_slots]. eapply prefetch_lists_count. exact E.
Qed.

Lemma clear_slot_count sl : forall k e, nth_error sl k = Some (Some e) -> S (slots_count (clear_slot sl k)) = slots_count sl.
Proof.
  induction sl as [|o r IH]; intros k e H; [destruct k; discriminate H|].
  destruct k; cbn [nth_error] in H.
  - inversion H; subst. reflexivity.
  - cbn [clear_slot]. unfold slots_count in *. cbn [filter]. destruct o; cbn [length]; rewrite <- (IH k e H); reflexivity.
Qed.

Lemma mux_pop_count s dt s' x : mux_pop s dt = (s', Some x) -> S (pending_count s') = pending_count s.
Proof.
  unfold mux_pop. destruct (scan _ _ _ _) as [[i e]|] eqn:Es; intros H; [|discriminate]. inversion H; subst.
  destruct (scan_spec _ _ _ _ _ _ Es) as ([E|(k & Hn & Hj & _)] & _); [discriminate|]. cbn [Nat.add] in Hj. subst i.
  rewrite <- (prefetch_count s). rewrite !pending_count_eq. cbn [d_srcs d_slots].
  rewrite <- (clear_slot_count _ _ _ Hn). lia.
Qed.

Theorem pop_while_exhausts_gen fuel : forall s dt s' batch,
  (pending_count s < fuel)%nat -> pop_while fuel s dt = (s', batch) -> snd (mux_pop s' dt) = None.
Proof.
  induction fuel as [|f IH]; intros s dt s' batch Hlt H; [lia|]. cbn [pop_while] in H.
  destruct (mux_pop s dt) as [s1 [x|]] eqn:Ep.
  - destruct (pop_while f s1 dt) as [s2 r] eqn:Er. inversion H; subst.
    eapply IH; [|exact Er]. pose proof (mux_pop_count _ _ _ _ Ep). lia.
  - inversion H; subst.
    (* popping again from the state that returned nothing returns nothing: prefetch is idempotent there *)
    unfold mux_pop in Ep. destruct (scan (d_slots (prefetch s)) 0 dt None) as [[i e]|] eqn:Es; [discriminate|].
    inversion Ep; subst. unfold mux_pop.
    assert (Hpp : prefetch (prefetch s) = prefetch s).
    { unfold prefetch at 1. 
      assert (Hidem : forall qs sl qs' sl', prefetch_lists qs sl = (qs', sl') -> prefetch_lists qs' sl' = (qs', sl')).
      { induction qs as [|q qr IHq]; intros sl qs' sl' Hp; cbn [prefetch_lists] in Hp.
        - inversion Hp; subst. reflexivity.
        - destruct sl as [|o sr]; [inversion Hp; subst; reflexivity|].
          destruct (prefetch_lists qr sr) as [qr' sr'] eqn:E. specialize (IHq _ _ _ E).
          destruct o as [e0|].
          + inversion Hp; subst. cbn [prefetch_lists]. rewrite IHq. reflexivity.
          + destruct q as [|e0 q']; inversion Hp; subst; cbn [prefetch_lists]; rewrite IHq; reflexivity. }
      unfold prefetch. destruct (prefetch_lists (d_srcs s) (d_slots s)) as [qs sl] eqn:E. cbn [d_srcs d_slots].
      rewrite (Hidem _ _ _ _ E). reflexivity. }
    rewrite Hpp, Es. reflexivity.
Qed.

Theorem pop_while_exhausts s dt s' batch :
  pop_while (S (pending_count s)) s dt = (s', batch) -> snd (mux_pop s' dt) = None.
Proof. apply pop_while_exhausts_gen. lia. Qed.

Section Indep.
Variable bj : nat -> list effect.
Theorem batch_independent_of_handlers beh1 beh2 s oracle dt :
  d_pc s = PEvents dt ->
  trace_ext s (fst (step beh1 bj s oracle)) = trace_ext s (fst (step beh2 bj s oracle)).
Proof.
  intros Hpc. unfold step. rewrite Hpc.
  destruct (pop_while _ _ dt) as [s1 batch] eqn:Ep. cbn [fst]. unfold trace_ext, with_pc. cbn [d_trace].
  destruct (deliver_fields beh1 s1 dt batch) as [T1 _]. destruct (deliver_fields beh2 s1 dt batch) as [T2 _].
  rewrite T1, T2. reflexivity.
Qed.
End Indep.
