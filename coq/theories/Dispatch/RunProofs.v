(* Whole-run invariants of the backtesting dispatcher model (Backtest.v), for every source content, job
   list, behaviour of handlers and jobs, tie-break oracle and number of steps:
   the clock observed by successive handler / job executions never decreases, every execution's clock is
   at least the time of what is executed, and a job's clock is exactly max(previous clock, its time). *)
From Coq Require Import ZArith List Bool Lia.
From Basana Require Import Dispatch.Backtest Dispatch.BacktestProofs Dispatch.MuxProofs.
Import ListNotations.
Open Scope Z_scope.

Definition clk (i : item) : Z := match i with IJob _ _ c => c | IEv _ _ c => c end.
Definition due (i : item) : Z := match i with IJob _ w _ => w | IEv _ e _ => e_when e end.

Fixpoint sorted_le (l : list Z) : Prop :=
  match l with [] => True | x :: r => (forall y, In y r -> x <= y) /\ sorted_le r end.

Lemma sorted_le_app l1 l2 :
  sorted_le l1 -> sorted_le l2 -> (forall a b, In a l1 -> In b l2 -> a <= b) -> sorted_le (l1 ++ l2).
Proof.
  induction l1 as [|x r IH]; cbn [app sorted_le]; intros H1 H2 H12; [exact H2|].
  destruct H1 as [Hx Hr]. split.
  - intros y Hy. apply in_app_or in Hy. destruct Hy as [Hy|Hy]; [apply Hx; exact Hy | apply H12; [left; reflexivity | exact Hy]].
  - apply IH; [exact Hr | exact H2 | intros a b Ha Hb; apply H12; [right; exact Ha | exact Hb]].
Qed.

Lemma sorted_le_const c n : sorted_le (repeat c n).
Proof.
  induction n as [|n IH]; cbn [repeat sorted_le]; [exact I|]. split; [|exact IH].
  intros y Hy. apply repeat_spec in Hy. subst. lia.
Qed.

Section Run.
Variable beh_ev : nat -> list effect.
Variable beh_job : nat -> list effect.

(* the invariant *)
Definition TInv (s : dst) : Prop :=
  sorted_le (map clk (d_trace s)) /\
  (forall it, In it (d_trace s) -> due it <= clk it /\ exists l, d_last s = Some l /\ clk it <= l) /\
  match d_pc s with
  | PSched dt false | PEvents dt => forall l, d_last s = Some l -> l <= dt
  | _ => True
  end.

Lemma TInv_init srcs jobs : TInv (init_d srcs jobs).
Proof. unfold TInv, init_d. cbn. split; [exact I|]. split; [intros it []|exact I]. Qed.

Lemma TInv_same s s' p :
  d_trace s' = d_trace s -> d_last s' = d_last s -> d_pc s' = p ->
  match p with PSched dt false | PEvents dt => forall l, d_last s = Some l -> l <= dt | _ => True end ->
  TInv s -> TInv s'.
Proof.
  intros Et El Ep Hp (A & B & _). unfold TInv. rewrite Et, El, Ep. split; [exact A | split; [exact B | exact Hp]].
Qed.

Theorem step_TInv s oracle : TInv s -> TInv (fst (step beh_ev beh_job s oracle)).
Proof.
  intros H. pose proof H as (A & B & C). unfold step. destruct (d_pc s) eqn:Epc.
  - (* PTop *)
    destruct (min_slot (d_slots (prefetch s))) as [dt|] eqn:Em.
    + destruct (d_last (prefetch s)) as [l|] eqn:El.
      * destruct (Z.ltb dt l) eqn:Elt; cbn [fst].
        -- eapply (TInv_same s _ (PErr 1)); cbn; rewrite ?prefetch_trace, ?prefetch_last; auto.
        -- eapply (TInv_same s _ (PSched dt false)); cbn; rewrite ?prefetch_trace, ?prefetch_last; auto.
           rewrite prefetch_last in El. intros l0 E0. rewrite El in E0. inversion E0; subst.
           apply Z.ltb_ge in Elt. exact Elt.
      * cbn [fst]. eapply (TInv_same s _ (PSched dt false)); cbn; rewrite ?prefetch_trace, ?prefetch_last; auto.
        rewrite prefetch_last in El. intros l0 E0. rewrite El in E0. discriminate.
    + destruct (match d_drain (prefetch s) with Some d => Some d | None => max_when (d_sched (prefetch s)) end) as [d|];
        cbn [fst].
      * eapply (TInv_same s _ (PSched d true)); cbn; rewrite ?prefetch_trace, ?prefetch_last; auto.
      * eapply (TInv_same s _ PAfterDrain); cbn; rewrite ?prefetch_trace, ?prefetch_last; auto.
  - (* PSched *)
    destruct (min_when (d_sched s)) as [w|] eqn:Emin.
    2:{ cbn [fst]. destruct drain.
        - eapply (TInv_same s _ PAfterDrain); cbn; auto.
        - eapply (TInv_same s _ (PEvents dt)); cbn; auto. }
    destruct (Z.leb w dt) eqn:Ele.
    2:{ cbn [fst]. destruct drain.
        - eapply (TInv_same s _ PAfterDrain); cbn; auto.
        - eapply (TInv_same s _ (PEvents dt)); cbn; auto. }
    destruct oracle as [|j orest]; [cbn [fst]; eapply (TInv_same s _ (PErr 4)); cbn; auto|].
    destruct (remove_job (d_sched s) j) as [[wj rest]|] eqn:Er;
      [|cbn [fst]; eapply (TInv_same s _ (PErr 3)); cbn; auto].
    destruct (negb (Z.eqb wj w)) eqn:Eeq; [cbn [fst]; eapply (TInv_same s _ (PErr 2)); cbn; auto|].
    apply negb_false_iff, Z.eqb_eq in Eeq. subst wj. apply Z.leb_le in Ele.
    set (last' := match d_last s with Some l => if Z.ltb l w then Some w else Some l | None => Some w end).
    set (clk' := match last' with Some t => t | None => w end).
    assert (Hl : last' = Some clk' /\ w <= clk' /\ (forall l, d_last s = Some l -> l <= clk') /\
                 (drain = false -> clk' <= dt)).
    { unfold clk', last'. destruct (d_last s) as [l|] eqn:El.
      - destruct (Z.ltb l w) eqn:E1.
        + apply Z.ltb_lt in E1. repeat split; try lia. intros l0 E0; inversion E0; lia.
        + apply Z.ltb_ge in E1. repeat split; try lia. intros l0 E0; inversion E0; lia.
          intros Ed. subst drain. apply C. reflexivity.
      - repeat split; try lia. intros l0 E0; discriminate. }
    destruct Hl as (El' & Hw & Hprev & Hdt).
    set (s1 := mkD (d_srcs s) (d_slots s) rest last' (d_drain s) (PSched dt drain) (d_trace s ++ [IJob j w clk'])).
    assert (T1 : sorted_le (map clk (d_trace s1)) /\
                 (forall it, In it (d_trace s1) -> due it <= clk it /\ exists l, d_last s1 = Some l /\ clk it <= l)).
    { unfold s1. cbn [d_trace d_last]. split.
      - rewrite map_app. apply sorted_le_app; [exact A | cbn; split; [intros y []|exact I] |].
        intros a b Ha Hb. cbn in Hb. destruct Hb as [<-|[]]. apply in_map_iff in Ha.
        destruct Ha as (it & <- & Hit). destruct (B it Hit) as (_ & l & E & Hc). specialize (Hprev l E). lia.
      - intros it Hin. apply in_app_or in Hin. destruct Hin as [Hin|[<-|[]]].
        + destruct (B it Hin) as (D & l & E & Hc). split; [exact D|]. exists clk'. split; [exact El'|].
          specialize (Hprev l E). lia.
        + cbn [due clk]. split; [exact Hw|]. exists clk'. split; [exact El' | lia]. }
    destruct T1 as [T1a T1b].
    set (s3 := prefetch (apply_effects s1 (beh_job j))).
    assert (E3 : d_trace s3 = d_trace s1 /\ d_last s3 = d_last s1).
    { unfold s3. rewrite prefetch_trace, prefetch_last, apply_effects_trace, apply_effects_last. split; reflexivity. }
    destruct E3 as [E3t E3l].
    assert (K : forall p,
      match p with PSched dt0 false | PEvents dt0 => forall l, d_last s3 = Some l -> l <= dt0 | _ => True end ->
      TInv (with_pc s3 p)).
    { intros p Hp. unfold TInv. cbn [with_pc d_trace d_last d_pc]. rewrite E3t, E3l in *. split; [exact T1a | split; [exact T1b | exact Hp]]. }
    assert (Kd : match drain with false => forall l, d_last s3 = Some l -> l <= dt | true => True end).
    { destruct drain; [exact I|]. intros l E. rewrite E3l in E. unfold s1 in E. cbn [d_last] in E.
      rewrite El' in E. inversion E; subst. apply Hdt. reflexivity. }
    fold last' clk' s1 s3.
    destruct (min_slot (d_slots s3)) as [ne|]; [destruct (Z.ltb ne dt)|]; cbn [fst]; apply K;
      destruct drain; auto.
  - (* PEvents *)
    set (s0 := mkD (d_srcs s) (d_slots s) (d_sched s) (Some dt) (d_drain s) (PEvents dt) (d_trace s)).
    destruct (pop_while (S (pending_count s0)) s0 dt) as [s1 batch] eqn:Ep. cbn [fst].
    destruct (pop_while_fields _ _ _ _ _ Ep) as [Et El]. cbn [s0 d_trace d_last] in Et, El.
    destruct (deliver_fields beh_ev s1 dt batch) as [Dt Dl].
    pose proof (pop_while_le _ _ _ _ _ Ep) as Hle.
    unfold TInv. cbn [with_pc d_trace d_last d_pc]. rewrite Dt, Dl, Et, El. split; [|split; [|exact I]].
    + rewrite map_app. apply sorted_le_app; [exact A | |].
      * rewrite map_map. cbn [clk]. clear. induction batch as [|x r IH]; cbn [map sorted_le]; [exact I|].
        split; [|exact IH]. intros y Hy. apply in_map_iff in Hy. destruct Hy as (? & <- & _). lia.
      * intros a b Ha Hb. apply in_map_iff in Ha. destruct Ha as (it & <- & Hit).
        apply in_map_iff in Hb. destruct Hb as (it2 & <- & Hit2). apply in_map_iff in Hit2.
        destruct Hit2 as (x & <- & _). cbn [clk].
        destruct (B it Hit) as (_ & l & E & Hc). specialize (C l E). lia.
    + intros it Hin. apply in_app_or in Hin. destruct Hin as [Hin|Hin].
      * destruct (B it Hin) as (D & l & E & Hc). split; [exact D|]. exists dt. split; [reflexivity|].
        specialize (C l E). lia.
      * apply in_map_iff in Hin. destruct Hin as (x & <- & Hx). cbn [due clk]. split; [apply Hle; exact Hx|].
        exists dt. split; [reflexivity | lia].
  - (* PAfterDrain *)
    destruct (min_slot (d_slots (prefetch s))); cbn [fst].
    + eapply (TInv_same s _ PTop); cbn; rewrite ?prefetch_trace, ?prefetch_last; auto.
    + eapply (TInv_same s _ PDone); cbn; rewrite ?prefetch_trace, ?prefetch_last; auto.
  - cbn [fst]. exact H.
  - cbn [fst]. exact H.
Qed.

Theorem run_TInv fuel : forall s oracle, TInv s -> TInv (fst (run beh_ev beh_job fuel s oracle)).
Proof.
  induction fuel as [|f IH]; intros s oracle H; cbn [run]; [exact H|].
  destruct (d_pc s) eqn:Epc; try exact H;
    (pose proof (step_TInv s oracle H) as H1; destruct (step beh_ev beh_job s oracle) as [s' o']; apply IH; exact H1).
Qed.

(* C12 / C13, whole run: from any initial content, after any number of steps, the sequence of executions
   (events delivered to handlers, jobs run) carries non-decreasing clocks, and nothing runs with a clock
   earlier than its own time *)
Theorem run_clock_monotone srcs jobs oracle fuel :
  let s := fst (run beh_ev beh_job fuel (init_d srcs jobs) oracle) in
  sorted_le (map clk (d_trace s)) /\ forall it, In it (d_trace s) -> due it <= clk it.
Proof.
  intros s. destruct (run_TInv fuel (init_d srcs jobs) oracle (TInv_init srcs jobs)) as (A & B & _).
  split; [exact A | intros it Hin; apply (B it Hin)].
Qed.
End Run.
