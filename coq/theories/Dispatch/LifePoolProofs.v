From Coq Require Import List Bool Arith Lia.
From Basana Require Import Dispatch.Lifecycle Dispatch.Pool.
Import ListNotations.

(* ---------------------------------------------------------------------------------------------- *)
(* lifecycle *)

(* no producer's main() starts unless every producer's initialize() has been called and none failed *)
Theorem main_only_after_all_init ps p :
  In (CMain p) (calls ps) ->
  any_init_raises ps = false /\
  forall q, In q ps -> exists pre post, calls ps = pre ++ CInit (p_id q) :: post /\ ~ In (CMain p) pre.
Proof.
  unfold calls, phase_main. intros Hin.
  destruct (any_init_raises ps) eqn:E.
  - exfalso. cbn [app] in Hin. apply in_app_or in Hin. destruct Hin as [H|H].
    + unfold phase_init in H. apply in_map_iff in H. destruct H as (x & Hx & _). discriminate Hx.
    + unfold phase_fin in H. apply in_map_iff in H. destruct H as (x & Hx & _). discriminate Hx.
  - split; [reflexivity|]. intros q Hq.
    apply in_split in Hq. destruct Hq as (l1 & l2 & El). subst ps.
    exists (map (fun x => CInit (p_id x)) l1).
    exists (map (fun x => CInit (p_id x)) l2 ++ (map (fun x => CMain (p_id x)) (l1 ++ q :: l2) ++ [CLoop]) ++ phase_fin (l1 ++ q :: l2)).
    split.
    + unfold phase_init. rewrite map_app. cbn [map]. rewrite <- !app_assoc. reflexivity.
    + intros H. apply in_map_iff in H. destruct H as (x & Hx & _). discriminate Hx.
Qed.

Lemma count_fin_app p a b : count_fin p (a ++ b) = count_fin p a + count_fin p b.
Proof. unfold count_fin. rewrite filter_app, app_length. reflexivity. Qed.

Lemma count_fin_init p ps : count_fin p (phase_init ps) = 0.
Proof. unfold count_fin, phase_init. induction ps as [|x r IH]; [reflexivity|]. cbn [map filter]. exact IH. Qed.

Lemma count_fin_main p ps : count_fin p (phase_main ps) = 0.
Proof.
  unfold phase_main. destruct (any_init_raises ps); [reflexivity|].
  rewrite count_fin_app. unfold count_fin at 2. cbn [filter length]. rewrite Nat.add_0_r.
  unfold count_fin. induction ps as [|x r IH]; [reflexivity|]. cbn [map filter]. exact IH.
Qed.

Lemma count_fin_fin p ps : count_fin p (phase_fin ps) = length (filter (fun x => Nat.eqb p (p_id x)) ps).
Proof.
  unfold count_fin, phase_fin. induction ps as [|x r IH]; [reflexivity|]. cbn [map filter].
  destruct (Nat.eqb p (p_id x)); cbn [length]; rewrite IH; reflexivity.
Qed.

Lemma filter_id_nodup ps q :
  NoDup (map p_id ps) -> In q ps -> length (filter (fun x => Nat.eqb (p_id q) (p_id x)) ps) = 1.
Proof.
  induction ps as [|x r IH]; intros Hnd Hin; [contradiction|]. cbn [map] in Hnd. inversion Hnd as [|a l Hni Hnd']; subst.
  cbn [filter]. destruct Hin as [E|Hin].
  - subst x. rewrite Nat.eqb_refl. cbn [length]. f_equal.
    assert (H0 : forall l0, ~ In (p_id q) (map p_id l0) -> filter (fun x => Nat.eqb (p_id q) (p_id x)) l0 = []).
    { induction l0 as [|y l0 IHl]; intros Hn; [reflexivity|]. cbn [filter map] in *.
      destruct (Nat.eqb (p_id q) (p_id y)) eqn:E.
      - apply Nat.eqb_eq in E. exfalso. apply Hn. left. symmetry. exact E.
      - apply IHl. intros H. apply Hn. right. exact H. }
    rewrite (H0 r Hni). reflexivity.
  - destruct (Nat.eqb (p_id q) (p_id x)) eqn:E.
    + apply Nat.eqb_eq in E. exfalso. apply Hni. rewrite <- E. apply in_map. exact Hin.
    + apply IH; assumption.
Qed.

(* every producer is finalized exactly once, whatever fails and however the run ends *)
Theorem finalized_exactly_once ps q :
  NoDup (map p_id ps) -> In q ps -> count_fin (p_id q) (calls ps) = 1.
Proof.
  intros Hnd Hq. unfold calls. rewrite !count_fin_app, count_fin_init, count_fin_main, count_fin_fin.
  cbn [Nat.add]. apply filter_id_nodup; assumption.
Qed.

Theorem outcome_never_internal ps x : run_outcome ps x <> Internal.
Proof.
  unfold run_outcome. destruct (any_init_raises ps); [discriminate|].
  destruct (any_main_raises ps); [discriminate|]. destruct x; discriminate.
Qed.

Theorem outcome_cases ps x :
  (run_outcome ps x = RaisedProducerError <-> any_init_raises ps = true \/ any_main_raises ps = true) /\
  (run_outcome ps x = RaisedCancelled -> x = XCancel) /\
  (run_outcome ps x = Returned -> x <> XCancel).
Proof.
  unfold run_outcome. destruct (any_init_raises ps), (any_main_raises ps), x;
    repeat split; intros; try discriminate; try tauto; try (left; reflexivity); try (right; reflexivity);
    try (destruct H; discriminate).
Qed.

Theorem logging_restored b o : factory_after b o = Original.
Proof. reflexivity. Qed.

(* ---------------------------------------------------------------------------------------------- *)
(* task pool *)

Lemma remove1_length t l : length (remove1 t l) <= length l.
Proof. induction l as [|x r IH]; cbn [remove1]; [lia|]. destruct (Nat.eqb t x); cbn [length]; lia. Qed.

Lemma collect_length ts : forall p, length (tasks (collect p ts)) <= length (tasks p).
Proof.
  induction ts as [|t r IH]; intros p; cbn [collect]; [lia|].
  destruct (mem t (tasks p)); [|apply IH].
  eapply Nat.le_trans; [apply IH|]. cbn [tasks]. apply remove1_length.
Qed.

Lemma pstep_bounded max p a p' : length (tasks p) <= max -> pstep max p a = Some p' -> length (tasks p') <= max.
Proof.
  intros Hb H. destruct a as [t|t|ts]; cbn [pstep] in H.
  - destruct (Nat.ltb (length (tasks p)) max) eqn:E; cbn [andb] in H; [|discriminate].
    destruct (negb (mem t (tasks p)) && negb (mem t (done p))); [|discriminate].
    inversion H; subst. cbn [tasks]. rewrite app_length. cbn [length]. apply Nat.ltb_lt in E. lia.
  - destruct (mem t (tasks p) && negb (mem t (ended p))); [|discriminate]. inversion H; subst. exact Hb.
  - destruct (forallb _ ts); [|discriminate]. inversion H; subst.
    eapply Nat.le_trans; [apply collect_length | exact Hb].
Qed.

(* the number of tasks in the pool never exceeds the maximum, at every point of every accepted schedule, with any
   number of concurrent pushers *)
Theorem pool_bounded max : forall acts1 acts2 p k p',
  length (tasks p) <= max ->
  prun max p k (acts1 ++ acts2) = POk p' ->
  exists p1, prun max p k acts1 = POk p1 /\ length (tasks p1) <= max.
Proof.
  induction acts1 as [|a r IH]; intros acts2 p k p' Hb H; cbn [app prun] in *.
  - exists p. split; [reflexivity | exact Hb].
  - destruct (pstep max p a) as [p1|] eqn:E; [|discriminate H].
    apply (IH acts2 p1 (S k) p'); [eapply pstep_bounded; eassumption | exact H].
Qed.

Corollary pool_bounded_from_empty max acts1 acts2 p' :
  prun max empty_pool 0 (acts1 ++ acts2) = POk p' ->
  exists p1, prun max empty_pool 0 acts1 = POk p1 /\ length (tasks p1) <= max.
Proof. apply pool_bounded. cbn. lia. Qed.

(* a finished task is collected at most once, even when several waiters are handed the same task *)
Definition disjoint_nodup (p : pool) : Prop := NoDup (tasks p ++ done p).

Lemma mem_true_in t l : mem t l = true -> In t l.
Proof. unfold mem. intros H. apply existsb_exists in H. destruct H as (x & Hx & E). apply Nat.eqb_eq in E. subst. exact Hx. Qed.
Lemma mem_false_notin t l : mem t l = false -> ~ In t l.
Proof.
  unfold mem. intros H Hin. assert (existsb (Nat.eqb t) l = true) by (apply existsb_exists; exists t; split; [exact Hin | apply Nat.eqb_refl]).
  congruence.
Qed.

Lemma remove1_in t x l : In x (remove1 t l) -> In x l.
Proof.
  induction l as [|y r IH]; cbn [remove1]; [auto|]. destruct (Nat.eqb t y); intros H; [right; exact H|].
  destruct H as [E|H]; [left; exact E | right; apply IH; exact H].
Qed.

Lemma remove1_nodup t l : NoDup l -> NoDup (remove1 t l) /\ ~ In t (remove1 t l).
Proof.
  induction l as [|y r IH]; intros Hnd; cbn [remove1]; [split; [constructor | auto]|].
  inversion Hnd as [|a l0 Hni Hnd']; subst. destruct (Nat.eqb t y) eqn:E.
  - apply Nat.eqb_eq in E. subst y. split; assumption.
  - apply Nat.eqb_neq in E. destruct (IH Hnd') as [H1 H2]. split.
    + constructor; [intros H; apply Hni; eapply remove1_in; exact H | exact H1].
    + intros [H|H]; [apply E; symmetry; exact H | apply H2; exact H].
Qed.

Lemma nodup_app_iff (a b : list nat) :
  NoDup (a ++ b) <-> NoDup a /\ NoDup b /\ (forall x, In x a -> ~ In x b).
Proof.
  induction a as [|y a IH]; cbn [app].
  - split; [intros H; repeat split; [constructor | exact H | intros x []] | intros (_ & H & _); exact H].
  - split.
    + intros H. inversion H as [|z l Hni Hnd]; subst. apply IH in Hnd. destruct Hnd as (Ha & Hb & Hd).
      repeat split.
      * constructor; [intros Hin; apply Hni; apply in_or_app; left; exact Hin | exact Ha].
      * exact Hb.
      * intros x [E|Hx]; [subst x; intros Hin; apply Hni; apply in_or_app; right; exact Hin | apply Hd; exact Hx].
    + intros (Ha & Hb & Hd). inversion Ha as [|z l Hni Hnd]; subst. constructor.
      * intros Hin. apply in_app_or in Hin. destruct Hin as [Hin|Hin]; [contradiction | apply (Hd y (or_introl eq_refl) Hin)].
      * apply IH. repeat split; [exact Hnd | exact Hb | intros x Hx; apply Hd; right; exact Hx].
Qed.

Lemma collect_nodup ts : forall p, disjoint_nodup p -> disjoint_nodup (collect p ts).
Proof.
  induction ts as [|t r IH]; intros p H; cbn [collect]; [exact H|].
  destruct (mem t (tasks p)) eqn:E; [|apply IH; exact H].
  apply IH. unfold disjoint_nodup in *. cbn [tasks done].
  apply mem_true_in in E. apply nodup_app_iff in H. destruct H as (Ht & Hd & Hdisj).
  destruct (remove1_nodup t (tasks p) Ht) as [Hn1 Hn2].
  apply nodup_app_iff. repeat split.
  - exact Hn1.
  - apply nodup_app_iff. repeat split; [exact Hd | constructor; [intros [] | constructor] |].
    intros x Hx [Ex|[]]. subst x. apply (Hdisj t E Hx).
  - intros x Hx Hin. apply in_app_or in Hin. destruct Hin as [Hin|[Ex|[]]].
    + apply (Hdisj x (remove1_in _ _ _ Hx) Hin).
    + subst x. apply Hn2. exact Hx.
Qed.

Lemma pstep_nodup max p a p' : disjoint_nodup p -> pstep max p a = Some p' -> disjoint_nodup p'.
Proof.
  intros Hd H. destruct a as [t|t|ts]; cbn [pstep] in H.
  - destruct (Nat.ltb (length (tasks p)) max); cbn [andb] in H; [|discriminate].
    destruct (negb (mem t (tasks p))) eqn:E1; cbn [andb] in H; [|discriminate].
    destruct (negb (mem t (done p))) eqn:E2; [|discriminate].
    inversion H; subst. unfold disjoint_nodup in *. cbn [tasks done].
    apply negb_true_iff in E1. apply negb_true_iff in E2.
    apply mem_false_notin in E1. apply mem_false_notin in E2.
    apply nodup_app_iff in Hd. destruct Hd as (Ht & Hdn & Hdisj).
    apply nodup_app_iff. repeat split.
    + apply nodup_app_iff. repeat split; [exact Ht | constructor; [intros [] | constructor] |].
      intros x Hx [Ex|[]]. subst x. contradiction.
    + exact Hdn.
    + intros x Hx Hin. apply in_app_or in Hx. destruct Hx as [Hx|[Ex|[]]]; [apply (Hdisj x Hx Hin) | subst x; contradiction].
  - destruct (mem t (tasks p) && negb (mem t (ended p))); [|discriminate]. inversion H; subst. exact Hd.
  - destruct (forallb _ ts); [|discriminate]. inversion H; subst. apply collect_nodup. exact Hd.
Qed.

(* in every accepted schedule, no task is ever collected twice *)
Theorem collected_at_most_once max : forall acts p k p',
  disjoint_nodup p -> prun max p k acts = POk p' -> NoDup (done p').
Proof.
  induction acts as [|a r IH]; intros p k p' Hd H; cbn [prun] in H.
  - inversion H; subst. apply nodup_app_iff in Hd. tauto.
  - destruct (pstep max p a) as [p1|] eqn:E; [|discriminate H].
    apply (IH p1 (S k) p'); [eapply pstep_nodup; eassumption | exact H].
Qed.
