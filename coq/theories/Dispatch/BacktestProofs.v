(* Proofs about the backtesting dispatcher model (Dispatch/Backtest.v). *)
From Coq Require Import ZArith List Bool Lia.
From Basana Require Import Dispatch.Backtest.
Import ListNotations.
Open Scope Z_scope.

(* ---------------------------------------------------------------------------------------------- *)
(* scheduler queue *)

Lemma min_when_le q w j : In (w, j) q -> exists m, min_when q = Some m /\ m <= w.
Proof.
  induction q as [|[w' j'] r IH]; intros Hin; [contradiction|]. cbn [min_when].
  destruct Hin as [E|Hin].
  - inversion E; subst. destruct (min_when r) as [m|]; eexists; split; try reflexivity; lia.
  - destruct (IH Hin) as (m & Hm & Hle). rewrite Hm. eexists; split; [reflexivity|]. lia.
Qed.

Lemma max_when_ge q w j : In (w, j) q -> exists m, max_when q = Some m /\ w <= m.
Proof.
  induction q as [|[w' j'] r IH]; intros Hin; [contradiction|]. cbn [max_when].
  destruct Hin as [E|Hin].
  - inversion E; subst. destruct (max_when r) as [m|]; eexists; split; try reflexivity; lia.
  - destruct (IH Hin) as (m & Hm & Hle). rewrite Hm. eexists; split; [reflexivity|]. lia.
Qed.

Lemma min_when_in q m : min_when q = Some m -> exists j, In (m, j) q.
Proof.
  revert m. induction q as [|[w j] r IH]; intros m H; [discriminate|]. cbn [min_when] in H.
  destruct (min_when r) as [m'|] eqn:E.
  - inversion H; subst. destruct (Z.min_spec w m') as [[_ Em]|[_ Em]]; rewrite Em.
    + exists j. left. reflexivity.
    + destruct (IH m' eq_refl) as (j' & Hin). exists j'. right. exact Hin.
  - inversion H; subst. exists j. left. reflexivity.
Qed.

Lemma remove_job_spec q j w rest :
  remove_job q j = Some (w, rest) ->
  In (w, j) q /\ length q = S (length rest) /\ (forall x, In x rest -> In x q).
Proof.
  revert w rest. induction q as [|[w' k] r IH]; intros w rest H; [discriminate|]. cbn [remove_job] in H.
  destruct (Nat.eqb k j) eqn:E.
  - apply Nat.eqb_eq in E. inversion H; subst. split; [left; reflexivity|]. split; [reflexivity|].
    intros x Hx. right. exact Hx.
  - destruct (remove_job r j) as [[w'' r']|] eqn:Er; [|discriminate]. inversion H; subst.
    destruct (IH _ _ eq_refl) as (Hin & Hlen & Hsub). split; [right; exact Hin|]. split; [cbn [length]; lia|].
    intros x [Hx|Hx]; [left; exact Hx | right; apply Hsub; exact Hx].
Qed.

(* ---------------------------------------------------------------------------------------------- *)
(* one scheduling decision *)

Section Steps.
Variable beh_ev : nat -> list effect.
Variable beh_job : nat -> list effect.

Definition trace_ext (s s' : dst) : list item := skipn (length (d_trace s)) (d_trace s').

(* what runs is a pending job with the smallest scheduled time, not later than the bound, with the clock at or
   after its time; nothing with a smaller time is pending *)
Theorem sched_step_runs_minimum s oracle dt drain j wj clk s' o' :
  d_pc s = PSched dt drain ->
  step beh_ev beh_job s oracle = (s', o') ->
  In (IJob j wj clk) (trace_ext s s') ->
  In (wj, j) (d_sched s) /\ wj <= dt /\ wj <= clk /\
  (forall w k, In (w, k) (d_sched s) -> wj <= w) /\
  (match d_last s with Some l => clk = Z.max l wj | None => clk = wj end).
Proof.
  intros Hpc Hstep Hin. unfold step in Hstep. rewrite Hpc in Hstep.
  destruct (min_when (d_sched s)) as [w|] eqn:Emin.
  2:{ inversion Hstep; subst. unfold trace_ext, with_pc in Hin. cbn [d_trace] in Hin.
      rewrite skipn_all in Hin. contradiction. }
  destruct (Z.leb w dt) eqn:Ele.
  2:{ inversion Hstep; subst. unfold trace_ext, with_pc in Hin. cbn [d_trace] in Hin.
      rewrite skipn_all in Hin. contradiction. }
  apply Z.leb_le in Ele.
  destruct oracle as [|j0 orest].
  { inversion Hstep; subst. unfold trace_ext, with_pc in Hin. cbn [d_trace] in Hin. rewrite skipn_all in Hin. contradiction. }
  destruct (remove_job (d_sched s) j0) as [[wj0 rest]|] eqn:Erem.
  2:{ inversion Hstep; subst. unfold trace_ext, with_pc in Hin. cbn [d_trace] in Hin. rewrite skipn_all in Hin. contradiction. }
  destruct (negb (Z.eqb wj0 w)) eqn:Eeq.
  { inversion Hstep; subst. unfold trace_ext, with_pc in Hin. cbn [d_trace] in Hin. rewrite skipn_all in Hin. contradiction. }
  apply negb_false_iff in Eeq. apply Z.eqb_eq in Eeq. subst wj0.
  destruct (remove_job_spec _ _ _ _ Erem) as (Hjin & _ & _).
  (* the trace of s' is the trace of s plus the IJob item, whatever the continuation *)
  assert (Htr : d_trace s' = d_trace s ++ [IJob j0 w (match (match d_last s with
                           | Some l => if Z.ltb l w then Some w else Some l
                           | None => Some w end) with Some t => t | None => w end)]).
  { revert Hstep. 
    set (last' := match d_last s with Some l => if Z.ltb l w then Some w else Some l | None => Some w end).
    set (clk0 := match last' with Some t => t | None => w end).
    set (s1 := mkD (d_srcs s) (d_slots s) rest last' (d_drain s) (PSched dt drain) (d_trace s ++ [IJob j0 w clk0])).
    assert (Hfx : forall fs x, d_trace (apply_effects x fs) = d_trace x).
    { induction fs as [|f fs IH]; intros x; [reflexivity|]. unfold apply_effects in *. cbn [fold_left].
      rewrite IH. destruct f; reflexivity. }
    assert (Hpf : forall x, d_trace (prefetch x) = d_trace x).
    { intros x. unfold prefetch. destruct (prefetch_lists _ _). reflexivity. }
    intros Hstep.
    assert (Hs' : exists p, s' = with_pc (prefetch (apply_effects s1 (beh_job j0))) p).
    { destruct (min_slot (d_slots (prefetch (apply_effects s1 (beh_job j0))))) as [ne|];
        [destruct (Z.ltb ne dt)|]; inversion Hstep; eexists; reflexivity. }
    destruct Hs' as (p & Es'). rewrite Es'. unfold with_pc. cbn [d_trace].
    rewrite Hpf, Hfx. reflexivity. }
  unfold trace_ext in Hin. rewrite Htr, skipn_app, skipn_all, Nat.sub_diag in Hin. cbn [skipn app] in Hin.
  destruct Hin as [E|[]]. inversion E; subst.
  split; [exact Hjin|]. split; [exact Ele|].
  split.
  - destruct (d_last s) as [l|]; [destruct (Z.ltb l wj) eqn:El; [lia | apply Z.ltb_ge in El; lia] | lia].
  - split.
    + intros w' k Hk. destruct (min_when_le _ _ _ Hk) as (m & Hm & Hle). rewrite Emin in Hm. inversion Hm; subst. exact Hle.
    + destruct (d_last s) as [l|]; [|reflexivity].
      destruct (Z.ltb l wj) eqn:El; [apply Z.ltb_lt in El | apply Z.ltb_ge in El]; lia.
Qed.

(* the loop leaves the scheduling phase for the events of dt only when no pending job is due at or before dt *)
Theorem sched_phase_exhausts_due_jobs s oracle dt s' o' :
  d_pc s = PSched dt false ->
  step beh_ev beh_job s oracle = (s', o') ->
  d_pc s' = PEvents dt ->
  forall w k, In (w, k) (d_sched s') -> dt < w.
Proof.
  intros Hpc Hstep Hpc' w k Hk. unfold step in Hstep. rewrite Hpc in Hstep.
  destruct (min_when (d_sched s)) as [m|] eqn:Emin.
  - destruct (Z.leb m dt) eqn:Ele.
    + destruct oracle as [|j0 orest]; [inversion Hstep; subst; cbn in Hpc'; discriminate|].
      destruct (remove_job (d_sched s) j0) as [[wj0 rest]|]; [|inversion Hstep; subst; cbn in Hpc'; discriminate].
      destruct (negb (Z.eqb wj0 m)); [inversion Hstep; subst; cbn in Hpc'; discriminate|].
      destruct (min_slot _) as [ne|]; [destruct (Z.ltb ne dt)|]; inversion Hstep; subst; cbn in Hpc'; discriminate.
    + apply Z.leb_gt in Ele. inversion Hstep; subst. unfold with_pc in Hk. cbn [d_sched] in Hk.
      destruct (min_when_le _ _ _ Hk) as (m' & Hm' & Hle). rewrite Emin in Hm'. inversion Hm'; subst. lia.
  - inversion Hstep; subst. unfold with_pc in Hk. cbn [d_sched] in Hk.
    destruct (min_when_le _ _ _ Hk) as (m' & Hm' & _). rewrite Emin in Hm'. discriminate.
Qed.

(* the bound of the final drain is the LATEST pending job (the defect fixed by a3b7fa5 took the last heap slot) *)
Theorem drain_bound_covers_every_pending_job s oracle s' o' d :
  d_pc s = PTop -> d_drain s = None ->
  step beh_ev beh_job s oracle = (s', o') ->
  d_pc s' = PSched d true ->
  forall w k, In (w, k) (d_sched s') -> w <= d.
Proof.
  intros Hpc Hdr Hstep Hpc' w k Hk. unfold step in Hstep. rewrite Hpc in Hstep.
  assert (Hsch : d_sched (prefetch s) = d_sched s) by (unfold prefetch; destruct (prefetch_lists _ _); reflexivity).
  assert (Hdrn : d_drain (prefetch s) = d_drain s) by (unfold prefetch; destruct (prefetch_lists _ _); reflexivity).
  destruct (min_slot (d_slots (prefetch s))) as [dt|].
  - destruct (d_last (prefetch s)) as [l|]; [destruct (Z.ltb dt l)|]; inversion Hstep; subst; cbn in Hpc'; discriminate.
  - rewrite Hdrn, Hdr in Hstep.
    destruct (max_when (d_sched (prefetch s))) as [m|] eqn:Emax.
    + inversion Hstep; subst. cbn in Hpc'. inversion Hpc'; subst. unfold with_pc in Hk. cbn [d_sched] in Hk.
      destruct (max_when_ge _ _ _ Hk) as (m' & Hm' & Hle). rewrite Emax in Hm'. inversion Hm'; subst. exact Hle.
    + inversion Hstep; subst. cbn in Hpc'. discriminate.
Qed.
End Steps.
