(* C04, whole history: every fill ever recorded on a limit or stop-limit order, in every reachable state, was made at
   an effective price no worse than the order's limit price, up to half a unit of the quote precision (the rounding of
   the quote amount).  Obtained with the pass of FillTimes.v and an order invariant over the recorded fills. *)
From Coq Require Import ZArith QArith Qround Lia Lqa List Bool PArith.
From Basana Require Import Num.DecQ Num.DecQProofs Exchange.Model Exchange.AcctProofs Exchange.StepProofs
  Exchange.OpProofs Exchange.FeeProofs Exchange.OrderProofs Exchange.LifeProofs Exchange.Prims Exchange.FillBounds
  Exchange.Structure Exchange.FillTimes Exchange.FeeHistory.
Import ListNotations.
Open Scope Q_scope.

(* the proposed fill of an order with a limit price is priced within the limit *)
Definition within (o : order) (lp price : Q) : Prop :=
  match o_op o with Buy => price <= lp | Sell => lp <= price end.

Definition lpriced (o : order) (lp amt bv qv : Q) : Prop :=
  exists price, 0 < price /\ within o lp price /\ ~ amt == 0 /\
                bv = amt * sign_of (o_op o) /\ qv = price * amt * - sign_of (o_op o).

Lemma mk_updates_lpriced o lp amount p bv qv :
  0 < p -> within o lp p -> mk_updates o amount (Some p) = Some (bv, qv) -> lpriced o lp amount bv qv.
Proof.
  intros Hp Hw H. unfold mk_updates in H. destruct (Qzero amount) eqn:Ea; cbn [orb] in H; [discriminate H|].
  destruct (Qzero p); [discriminate H|]. inversion H; subst. exists p.
  split; [exact Hp|]. split; [exact Hw|]. split; [exact (Qzero_false _ Ea)|]. split; reflexivity.
Qed.

Lemma limit_lpriced c l o b lp bv qv :
  impact_cfg_ok c -> bar_ok b -> 0 < lp ->
  limit_updates c l o b lp = Ok (Some (bv, qv)) -> lpriced o lp (min_avail (pending o) l) bv qv.
Proof.
  intros Hc (Hlo & Hoh & _ & _ & Hpos) Hlp H. unfold limit_updates in H.
  destruct (Qzero (min_avail (pending o) l)); [discriminate H|].
  assert (Hop : 0 < b_open b) by lra.
  destruct (o_op o) eqn:Eop.
  - destruct (Qltb (b_open b) lp).
    + destruct (slipped c l (b_open b) Buy _ None (Some lp)) as [p|] eqn:Es; cbn [rbind] in H; [|discriminate H].
      apply (mk_updates_lpriced o lp _ p); [| |congruence].
      * apply (slipped_buy_pos c l (b_open b) _ lp p Hc Hop Hlp Es).
      * unfold within. rewrite Eop. apply (slipped_buy c l (b_open b) _ lp p Hc (Qlt_le_weak _ _ Hop) Es).
    + destruct (Qle_bool (b_low b) lp); cbn [rbind] in H; [|cbn [mk_updates] in H; discriminate H].
      apply (mk_updates_lpriced o lp _ lp _ _ Hlp); [|congruence]. unfold within. rewrite Eop. lra.
  - destruct (Qltb lp (b_open b)).
    + destruct (slipped c l (b_open b) Sell _ (Some lp) None) as [p|] eqn:Es; cbn [rbind] in H; [|discriminate H].
      apply (mk_updates_lpriced o lp _ p); [| |congruence].
      * apply (slipped_sell_pos c l (b_open b) _ lp p Hc (Qlt_le_weak _ _ Hop) Hlp Es).
      * unfold within. rewrite Eop. apply (slipped_sell c l (b_open b) _ lp p Hc (Qlt_le_weak _ _ Hop) Es).
    + destruct (Qle_bool lp (b_high b)); cbn [rbind] in H; [|cbn [mk_updates] in H; discriminate H].
      apply (mk_updates_lpriced o lp _ lp _ _ Hlp); [|congruence]. unfold within. rewrite Eop. lra.
Qed.

Lemma bu_lpriced c l o b lp bv qv hit :
  impact_cfg_ok c -> bar_ok b -> kind_pos (o_kind o) -> limit_of (o_kind o) = Some lp ->
  balance_updates c l o b = Ok (Some (bv, qv), hit) ->
  exists amt, lpriced o lp amt bv qv.
Proof.
  intros Hc Hb Hk Hlim H. pose proof Hb as (Hlo & Hoh & _ & _ & Hpos).
  assert (Hop : 0 < b_open b) by lra.
  unfold balance_updates in H. destruct (o_kind o) as [|lp0|sp|sp lp0] eqn:Ek; cbn [kind_pos limit_of] in Hk, Hlim;
    try discriminate Hlim; inversion Hlim; subst lp0.
  - destruct (limit_updates c l o b lp) as [u|] eqn:El; cbn [rbind] in H; [|discriminate H].
    inversion H; subst. exists (min_avail (pending o) l). apply (limit_lpriced c l o b lp bv qv Hc Hb Hk El).
  - destruct Hk as [Hsp Hlp].
    destruct (o_hit o).
    { destruct (limit_updates c l o b lp) as [u|] eqn:El; cbn [rbind] in H; [|discriminate H].
      inversion H; subst. exists (min_avail (pending o) l). apply (limit_lpriced c l o b lp bv qv Hc Hb Hlp El). }
    exists (min_avail (pending o) l).
    destruct (o_op o) eqn:Eop.
    + match type of H with (let '(_, _) := ?x in _) = _ => destruct x as [h p0] eqn:Ex end.
      assert (Hp0 : forall pv, p0 = Some pv -> 0 < pv /\ pv <= lp).
      { intros pv E. subst p0.
        destruct (Qle_bool sp (b_open b)).
        - inversion Ex as [[Eh Ep]]. destruct (Qle_bool (b_open b) lp) eqn:E1.
          + inversion Ep; subst. apply Qle_bool_iff in E1. split; [exact Hop | exact E1].
          + destruct (in_range b lp); inversion Ep; subst. split; [exact Hlp | lra].
        - destruct (Qle_bool sp (b_high b)); inversion Ex as [[Eh Ep]].
          destruct (in_range b lp); inversion Ep; subst. split; [exact Hlp | lra]. }
      destruct p0 as [pv|]; [|cbn [rbind mk_updates] in H; discriminate H].
      destruct (Hp0 pv eq_refl) as [Hpv Hle].
      destruct (Qeq_bool pv lp).
      * cbn [rbind] in H. apply (mk_updates_lpriced o lp _ pv _ _ Hpv); [|congruence]. unfold within. rewrite Eop. exact Hle.
      * destruct (slipped c l pv Buy _ None (Some lp)) as [pp|] eqn:Es; cbn [rbind] in H; [|discriminate H].
        apply (mk_updates_lpriced o lp _ pp); [| |congruence].
        -- apply (slipped_buy_pos c l _ _ _ pp Hc Hpv Hlp Es).
        -- unfold within. rewrite Eop. apply (slipped_buy c l pv _ lp pp Hc (Qlt_le_weak _ _ Hpv) Es).
    + match type of H with (let '(_, _) := ?x in _) = _ => destruct x as [h p0] eqn:Ex end.
      assert (Hp0 : forall pv, p0 = Some pv -> 0 < pv /\ lp <= pv).
      { intros pv E. subst p0.
        destruct (Qle_bool (b_open b) sp).
        - inversion Ex as [[Eh Ep]]. destruct (Qle_bool lp (b_open b)) eqn:E1.
          + inversion Ep; subst. apply Qle_bool_iff in E1. split; [exact Hop | exact E1].
          + destruct (in_range b lp); inversion Ep; subst. split; [exact Hlp | lra].
        - destruct (Qle_bool (b_low b) sp); inversion Ex as [[Eh Ep]].
          destruct (in_range b lp); inversion Ep; subst. split; [exact Hlp | lra]. }
      destruct p0 as [pv|]; [|cbn [rbind mk_updates] in H; discriminate H].
      destruct (Hp0 pv eq_refl) as [Hpv Hle].
      destruct (Qeq_bool pv lp).
      * cbn [rbind] in H. apply (mk_updates_lpriced o lp _ pv _ _ Hpv); [|congruence]. unfold within. rewrite Eop. exact Hle.
      * destruct (slipped c l pv Sell _ (Some lp) None) as [pp|] eqn:Es; cbn [rbind] in H; [|discriminate H].
        apply (mk_updates_lpriced o lp _ pp); [| |congruence].
        -- apply (slipped_sell_pos c l _ _ _ pp Hc (Qlt_le_weak _ _ Hpv) Hlp Es).
        -- unfold within. rewrite Eop. apply (slipped_sell c l pv _ lp pp Hc (Qlt_le_weak _ _ Hpv) Es).
Qed.

(* ---------------------------------------------------------------------------------------------- *)
Definition fill_within (o : order) (qp : nat) (f : fill) : Prop :=
  forall lp, limit_of (o_kind o) = Some lp ->
    match o_op o with
    | Buy => - f_quote f <= lp * f_base f + half_unit qp
    | Sell => lp * - f_base f - half_unit qp <= f_quote f
    end.

Section Limits.
Variable c : cfg.
Hypothesis Himp : impact_cfg_ok c.

Definition LJ (o : order) : Prop :=
  kind_pos (o_kind o) /\
  forall pi, get_pair_info c (o_pair o) = Ok pi -> Forall (fill_within o (snd pi)) (o_fills o).

Lemma LJ_hit o h : LJ o -> LJ (with_hit o h).
Proof. intros [K F]. split; [exact K | exact F]. Qed.
Lemma LJ_state o : LJ o -> LJ (with_state o SCanceled).
Proof. intros [K F]. split; [exact K | exact F]. Qed.
Lemma LJ_loans o ids : LJ o -> LJ (add_loans o ids).
Proof. intros [K F]. split; [exact K | exact F]. Qed.

Lemma LJ_fresh o : fresh o -> accepted c o -> LJ o.
Proof.
  intros (Ef & _) (pi & Epi & Eva). split; [exact (validate_kind_pos pi _ _ Eva)|].
  intros pi' _. rewrite Ef. constructor.
Qed.

Lemma LJ_fill l o b when : bar_ok b -> OW o -> liq_ok l -> fill_keeps LJ c l o b when.
Proof.
  intros Hb How Hl hit pi bv0 qv0 bv qv fee Ebu Epi Er Ef [K F]. split; [exact K|].
  intros pi' Epi'. cbn [add_fill with_hit o_pair] in Epi'. rewrite Epi in Epi'. inversion Epi'; subst pi'.
  unfold add_fill. cbn [o_fills]. apply Forall_app. split; [exact (F pi Epi)|]. constructor; [|constructor].
  intros lp Hlim. cbn [o_kind o_op with_hit f_base f_quote] in *.
  destruct (bu_lpriced c l o b lp bv0 qv0 hit Himp Hb K Hlim Ebu) as (amt & price & Hp & Hw & Ha & Eb & Eq).
  destruct (bu_bounds c l o b bv0 qv0 hit Ebu How Hl) as (B0 & _ & _).
  unfold within in Hw. destruct (o_op o); cbn [sign_of] in *.
  - assert (Hpos : 0 < bv0) by (subst bv0; destruct (Qlt_le_dec 0 amt) as [X|X]; [lra | exfalso; apply Ha; lra]).
    assert (Hq : qv0 == - (price * bv0)) by (subst bv0 qv0; ring).
    destruct (round_bu_keeps_price pi bv0 qv0 price bv qv Hpos Hq Er) as (Hb' & _ & _ & _ & H1 & _). nra.
  - assert (Hneg : bv0 < 0) by (subst bv0; destruct (Qlt_le_dec 0 amt) as [X|X]; [lra | exfalso; apply Ha; lra]).
    assert (Hq : qv0 == price * - bv0) by (subst bv0 qv0; ring).
    destruct (round_bu_keeps_price_sell pi bv0 qv0 price bv qv Hneg Hq Er) as (Hb' & _ & _ & _ & _ & H2). nra.
Qed.

Definition LI (s : st) : Prop := forall i o, nth_error (s_orders s) i = Some o -> LJ o.

Lemma LI_step s o :
  cfg_ok c -> op_ok o -> (forall p w b, o = OBar p w b -> bar_ok b) -> WF s -> LI s -> LI (fst (step c s o)).
Proof.
  intros Hc Ho Hb Hw Hi.
  assert (S1 : ST (fun _ _ => True) LJ c s (fst (step c s o))).
  { apply step_ST; try assumption.
    - exact LJ_hit.
    - exact LJ_state.
    - exact LJ_loans.
    - intros; exact I.
    - intros p w b E l x Hx Hl _. apply LJ_fill; try assumption. exact (Hb p w b E). }
  destruct S1 as [Sa Sb]. intros i x Hx.
  destruct (nth_error (s_orders s) i) as [o0|] eqn:E0.
  - destruct (Sa i o0 E0) as (o1 & E1 & _ & _ & HJ). rewrite E1 in Hx. inversion Hx; subst o1. exact (HJ (Hi i o0 E0)).
  - apply nth_error_None in E0. destruct (Sb i x Hx E0) as [Hf Ha]. exact (LJ_fresh x Hf Ha).
Qed.

Theorem run_LI ops : forall s, cfg_ok c -> ops_ok ops -> bars_ok ops -> WF s -> LI s -> LI (run c s ops).
Proof.
  unfold run. induction ops as [|op r IH]; intros s Hc Ho Hb Hw Hi; cbn [fold_left]; [exact Hi|].
  inversion Ho as [|? ? Ho1 Hor]; subst.
  apply IH; try assumption.
  - intros p w b Hin. apply (Hb p w b). right; exact Hin.
  - exact (proj1 (step_prims c s op Hc Ho1 Hw)).
  - apply LI_step; try assumption. intros p w b E. apply (Hb p w b). left; exact E.
Qed.

(* C04, whole history *)
Theorem fills_within_limit_reachable initial ops i o lp bp qp :
  cfg_ok c -> ops_ok ops -> bars_ok ops ->
  nth_error (s_orders (run c (init_st initial) ops)) i = Some o ->
  limit_of (o_kind o) = Some lp -> get_pair_info c (o_pair o) = Ok (bp, qp) ->
  Forall (fun f => match o_op o with
                   | Buy => - f_quote f <= lp * f_base f + half_unit qp
                   | Sell => lp * - f_base f - half_unit qp <= f_quote f
                   end) (o_fills o).
Proof.
  intros Hc Ho Hb Hn Hlim Epi.
  assert (Hi : LI (init_st initial)) by (intros j x Hj; destruct j; discriminate Hj).
  destruct (run_LI ops (init_st initial) Hc Ho Hb (WF_init initial) Hi i o Hn) as [_ F].
  eapply Forall_impl; [|exact (F (bp, qp) Epi)]. intros f Hf. exact (Hf lp Hlim).
Qed.
End Limits.
