(* Per-operation facts about the exchange model: what a rejected request leaves behind (C07), how each
   operation moves the totals (C01), the borrowing gate (C10), loans and interest (C11). *)
From Coq Require Import ZArith QArith Qround Lia Lqa List Bool PArith.
From Basana Require Import Num.DecQ Exchange.Model Exchange.AcctProofs Exchange.StepProofs.
Import ListNotations.
Open Scope Q_scope.

(* ---------------------------------------------------------------------------------------------- *)
(* C07: requests rejected before anything is mutated leave the whole state untouched (Leibniz equality
   of the complete model state, not just of what is observable) *)

Lemma lift_inv A s (r : res A) : (forall s1 a, lift s r = Done s1 a -> s1 = s) /\ (forall s1 e, lift s r = Fail s1 e -> s1 = s).
Proof. destruct r; cbn [lift]; split; intros s1 x H; inversion H; reflexivity. Qed.

Lemma upd_acct_fail c s db dh dbo s1 e : upd_acct c s db dh dbo = Fail s1 e -> s1 = s.
Proof. unfold upd_acct. destruct (acct_update _ _ _ _ _); intros H; inversion H; reflexivity. Qed.

Ltac fail_same :=
  repeat match goal with
  | H : Fail _ _ = Fail _ _ |- _ => inversion H; subst; clear H
  | H : Done _ _ = Fail _ _ |- _ => discriminate H
  | H : (if ?b then _ else _) = Fail _ _ |- _ => destruct b
  | H : obind (lift ?s ?r) _ = Fail _ _ |- _ => destruct r; cbn [lift obind] in H
  | H : obind (upd_acct ?c ?s ?a ?b ?d) _ = Fail _ _ |- _ =>
      let E := fresh "E" in destruct (upd_acct c s a b d) eqn:E; cbn [obind] in H;
      [| apply upd_acct_fail in E]
  | H : match ?x with _ => _ end = Fail _ _ |- _ => destruct x eqn:?
  end.

Theorem create_loan_fail_unchanged c s x a s' e : create_loan c s x a = Fail s' e -> s' = s.
Proof. unfold create_loan. intros H. fail_same; try reflexivity; try congruence. Qed.

Theorem repay_loan_fail_unchanged c s id s' e : repay_loan c s id = Fail s' e -> s' = s.
Proof. unfold repay_loan. intros H. fail_same; try reflexivity; try congruence. Qed.

Theorem cancel_loan_fail_unchanged c s id s' e : cancel_loan c s id = Fail s' e -> s' = s.
Proof. unfold cancel_loan. intros H. fail_same; try reflexivity; try congruence. Qed.

(* cancelling an unknown or a closed order fails and changes nothing *)
Theorem cancel_not_open_fails c s id :
  (get_order s id = None \/ exists o, get_order s id = Some o /\ is_open o = false) ->
  cancel_order c s id = Fail s EError.
Proof.
  unfold cancel_order. intros [H | (o & H & Hc)]; rewrite H; [reflexivity|]. rewrite Hc. reflexivity.
Qed.

(* an order request without auto-borrow that is rejected -- by validation, by missing configuration or
   because the funds cannot be put on hold -- changes nothing *)
Theorem create_order_no_borrow_fail_unchanged c s k op p amount ar s' e :
  create_order c s k op p amount false ar = Fail s' e -> s' = s.
Proof.
  unfold create_order, add_order. intros H.
  destruct (get_pair_info c p) as [pi|]; cbn [lift obind] in H; [|inversion H; reflexivity].
  destruct (validate pi k amount); cbn [lift obind] in H; [|inversion H; reflexivity].
  destruct (estimate_required _ _ _) as [req|]; cbn [lift obind] in H; [|inversion H; reflexivity].
  cbn [o_ab] in H.
  destruct (vnonempty req); cbn [obind] in H.
  - destruct (upd_acct c s [] req []) eqn:E; cbn [obind] in H.
    + discriminate H.
    + apply upd_acct_fail in E. inversion H. subst. reflexivity.
  - discriminate H.
Qed.

Theorem step_rejected_unchanged c s o e s' :
  step c s o = (s', RErr e) ->
  match o with
  | OLoan _ _ | ORepay _ => s' = s
  | OCreate _ _ _ _ false _ => s' = s
  | OCancel id => (get_order s id = None \/ exists o, get_order s id = Some o /\ is_open o = false) -> s' = s
  | _ => True
  end.
Proof.
  destruct o; cbn [step]; try (intros; exact I).
  - destruct ab; [intros; exact I|].
    destruct (create_order c s k o p amount false ar) eqn:E; intros H; inversion H; subst.
    eapply create_order_no_borrow_fail_unchanged. exact E.
  - intros H Hc. rewrite (cancel_not_open_fails c s id Hc) in H. inversion H. reflexivity.
  - destruct (create_loan c s x amount) eqn:E; intros H; inversion H; subst.
    eapply create_loan_fail_unchanged. exact E.
  - destruct (repay_loan c s id) eqn:E; intros H; inversion H; subst.
    eapply repay_loan_fail_unchanged. exact E.
Qed.

(* ---------------------------------------------------------------------------------------------- *)
(* C01 (second sentence): creating / cancelling a loan and reserving funds never change any total;
   repaying changes them by the interest only.  [total a x = balance - borrowed = available + hold - borrowed] *)

Notation stotal s x := (total (s_acct s) x) (only parsing).

Lemma upd_acct_total c s db dh dbo s' u x :
  upd_acct c s db dh dbo = Done s' u -> stotal s' x == stotal s x + vsum db x - vsum dbo x.
Proof.
  unfold upd_acct. destruct (acct_update _ _ _ _ _) eqn:E; intros H; inversion H; subst.
  cbn [set_acct s_acct]. eapply acct_update_total. exact E.
Qed.

Ltac done_chain H :=
  repeat match type of H with
  | obind (lift ?s ?r) _ = Done _ _ => destruct r; cbn [lift obind] in H; [|discriminate H]
  | (if ?b then _ else _) = Done _ _ => destruct b; [try discriminate H | try discriminate H]
  end.

Theorem create_loan_total c s x a s' id y :
  create_loan c s x a = Done s' id -> stotal s' y == stotal s y.
Proof.
  unfold create_loan. intros H. done_chain H.
  destruct (upd_acct c s [(x, a)] [] [(x, a)]) eqn:E; cbn [obind] in H; [|discriminate H].
  inversion H; subst. cbn [set_loans s_acct].
  rewrite (upd_acct_total _ _ _ _ _ _ _ y E). cbn [vsum]. lra.
Qed.

Theorem cancel_loan_total c s id s' u y :
  cancel_loan c s id = Done s' u -> stotal s' y == stotal s y.
Proof.
  unfold cancel_loan. intros H. done_chain H.
  match type of H with obind (upd_acct ?c ?s ?a ?b ?d) _ = _ => destruct (upd_acct c s a b d) eqn:E end;
    cbn [obind] in H; [|discriminate H].
  inversion H; subst. unfold put_loan. cbn [set_loans s_acct].
  rewrite (upd_acct_total _ _ _ _ _ _ _ y E). cbn [vsum]. lra.
Qed.

(* repaying: the total moves by minus the interest charged, in the interest symbol only *)
Theorem repay_loan_total c s id s' u y :
  repay_loan c s id = Done s' u ->
  exists l i, open_loan s id = Ok l /\ outstanding c s l = Ok i /\
    stotal s' y == stotal s y - (if Pos.eqb (interest_sym (l_cond l)) y then i else 0).
Proof.
  unfold repay_loan. intros H.
  destruct (open_loan s id) as [l|] eqn:El; cbn [lift obind] in H; [|discriminate H].
  destruct (outstanding c s l) as [i|] eqn:Ei; cbn [lift obind] in H; [|discriminate H].
  match type of H with obind (upd_acct ?c ?s ?a ?b ?d) _ = _ => destruct (upd_acct c s a b d) eqn:E end;
    cbn [obind] in H; [|discriminate H].
  inversion H; subst. exists l, i. split; [first [reflexivity | exact El]|]. split; [first [reflexivity | exact Ei]|].
  unfold put_loan. cbn [set_loans s_acct].
  rewrite (upd_acct_total _ _ _ _ _ _ _ y E).
  unfold vadd. destruct (Qzero i) eqn:Ez.
  - cbn [fold_left vsum]. apply Qeq_bool_iff in Ez. destruct (Pos.eqb (l_sym l) y), (Pos.eqb (interest_sym (l_cond l)) y); lra.
  - cbn [fold_left fst snd]. 
    assert (Hs : forall m, vsum m y == vget m y -> True) by auto.
    (* vsum of the two-step fold *)
    pose proof (vget_vaddk [(l_sym l, - l_amount l)] (interest_sym (l_cond l)) (- i) y) as Hk.
    (* relate vsum and vget on this concrete shape by cases on the keys *)
    unfold vaddk, vset. cbn [vget].
    destruct (Pos.eqb (l_sym l) (interest_sym (l_cond l))) eqn:E1.
    + apply Pos.eqb_eq in E1. cbn [vsum]. rewrite <- E1.
      destruct (Pos.eqb (l_sym l) y); rewrite ?Qred_correct; lra.
    + cbn [vsum]. destruct (Pos.eqb (l_sym l) y) eqn:E2, (Pos.eqb (interest_sym (l_cond l)) y) eqn:E3;
        rewrite ?Qred_correct; try lra.
Qed.

(* holds never move a total: reserving / releasing is a pure hold update *)
Theorem hold_update_total c s dh s' u y :
  upd_acct c s [] dh [] = Done s' u -> stotal s' y == stotal s y.
Proof. intros H. rewrite (upd_acct_total _ _ _ _ _ _ _ y H). cbn [vsum]. lra. Qed.

(* ---------------------------------------------------------------------------------------------- *)
(* C10: the borrowing gate *)

Definition borrowing (cur upd : acct) : bool :=
  existsb (fun kv => Qltb (vget (bor cur) (fst kv)) (snd kv)) (bor upd).

(* with margin lending, an update that borrows more is only accepted when no margin is in use, or
   when equity >= used margin + outstanding interest (margin level >= 100) *)
Theorem margin_gate c s q dflt conds cur upd :
  c_lend c = Margin q dflt conds ->
  borrowing cur upd = true ->
  margin_rule c s cur upd = None ->
  margin_level c s q upd = Ok None \/
  exists equity denom, margin_level c s q upd = Ok (Some (equity, denom)) /\ 100 <= equity / denom * 100.
Proof.
  unfold margin_rule, borrowing. intros Hl Hb Hr. rewrite Hl in Hr. rewrite Hb in Hr. cbn [negb] in Hr.
  destruct (margin_level c s q upd) as [[[equity denom]|]|]; try discriminate Hr.
  - right. exists equity, denom. split; [reflexivity|].
    destruct (Qltb (equity / denom * 100) 100) eqn:E; [discriminate Hr|].
    apply Qltb_false in E. exact E.
  - left. reflexivity.
Qed.

Lemma level_ge_100 equity denom : 0 < denom -> 100 <= equity / denom * 100 -> denom <= equity.
Proof.
  intros Hd H.
  assert (E : equity / denom * denom == equity) by (field; lra).
  assert (1 <= equity / denom) by lra.
  nra.
Qed.

(* the update create_loan applies borrows more (for a positive amount), so the gate applies to it *)
Lemma create_loan_borrows a x amount extra a' :
  acct_good a ->
  0 < amount -> acct_update extra a [(x, amount)] [] [(x, amount)] = Ok a' -> borrowing a a' = true.
Proof.
  intros Hg Hpos H. destruct (acct_update_values _ _ _ _ _ _ H x) as (_ & _ & Ho).
  cbn [vsum] in Ho. rewrite Pos.eqb_refl in Ho.
  unfold borrowing. apply existsb_exists.
  destruct (vget_in_or_zero (bor a') x) as [E|Hin].
  - exfalso. rewrite E in Ho. 
    destruct (Hg x) as (_ & _ & Hb & _). lra.
  - exists (x, vget (bor a') x). split; [exact Hin|]. cbn [fst snd].
    unfold Qltb. apply negb_true_iff. destruct (Qle_bool _ _) eqn:E; [|reflexivity].
    apply Qle_bool_iff in E. lra.
Qed.

(* without a lending strategy every borrow request fails and changes nothing *)
Theorem noloans_create_loan_fails c s x a :
  c_lend c = NoLoans -> exists e, create_loan c s x a = Fail s e.
Proof.
  intros Hl. unfold create_loan. destruct (Qle_bool a 0); [eexists; reflexivity|].
  destruct (now_of s) as [t|]; cbn [lift obind]; [|eexists; reflexivity].
  unfold get_cond. rewrite Hl. cbn [lift obind]. eexists; reflexivity.
Qed.

Theorem granted_loan_passed_gate c s x a s' id q dflt conds :
  c_lend c = Margin q dflt conds -> acct_good (s_acct s) ->
  create_loan c s x a = Done s' id ->
  margin_level c s q (s_acct s') = Ok None \/
  exists equity denom, margin_level c s q (s_acct s') = Ok (Some (equity, denom)) /\ 100 <= equity / denom * 100.
Proof.
  intros Hl Hg H. unfold create_loan in H.
  destruct (Qle_bool a 0) eqn:Ea; [discriminate H|]. apply Qle_bool_false in Ea.
  destruct (now_of s) as [t|]; cbn [lift obind] in H; [|discriminate H].
  destruct (get_cond c x) as [k|]; cbn [lift obind] in H; [|discriminate H].
  destruct (outstanding c s _) as [i|]; cbn [lift obind] in H; [|discriminate H].
  unfold upd_acct in H.
  destruct (acct_update (margin_rule c s) (s_acct s) [(x, a)] [] [(x, a)]) as [a'|] eqn:E; cbn [obind] in H;
    [|discriminate H].
  inversion H; subst. cbn [set_loans set_acct s_acct].
  apply (margin_gate c s q dflt conds (s_acct s) a' Hl).
  - eapply create_loan_borrows; [exact Hg | exact Ea | exact E].
  - eapply acct_update_extra. exact E.
Qed.
