(* C05: order life-cycle lemmas *)
From Coq Require Import ZArith QArith Qround Lia Lqa List Bool PArith.
From Basana Require Import Num.DecQ Num.DecQProofs Exchange.Model Exchange.AcctProofs Exchange.OrderProofs
     Exchange.FeeProofs.
Import ListNotations.
Open Scope Q_scope.

Theorem market_whole_amount c l o b bv qv h :
  impact_cfg_ok c -> bar_ok b -> o_kind o = KMarket ->
  balance_updates c l o b = Ok (Some (bv, qv), h) -> bv == pending o * sign_of (o_op o).
Proof.
  intros Hc Hb Hk H. destruct (market_updates c l o b bv qv h Hc Hb Hk H) as (_ & p & E & _). exact E.
Qed.

Theorem stop_whole_amount c l o b sp bv qv h :
  impact_cfg_ok c -> bar_ok b -> o_kind o = KStop sp -> 0 < sp ->
  balance_updates c l o b = Ok (Some (bv, qv), h) -> bv == pending o * sign_of (o_op o).
Proof.
  intros Hc Hb Hk Hs H. destruct (stop_updates c l o b sp bv qv h Hc Hb Hk Hs H) as (_ & p & E & _). exact E.
Qed.

Theorem add_fill_closes_iff o w b q f :
  is_open o = true ->
  (is_open (add_fill o w b q f) = false <-> o_amount o <= Qabsq (Qred (o_fb o + b))).
Proof.
  intros Ho. unfold add_fill, is_open in *. cbn [o_state].
  destruct (Qle_bool (o_amount o) (Qabsq (Qred (o_fb o + b)))) eqn:E.
  - apply Qle_bool_iff in E. split; [intros _; exact E | intros _; reflexivity].
  - apply Qle_bool_false in E. destruct (o_state o); try discriminate Ho.
    split; [discriminate | intros H; lra].
Qed.

Theorem add_fill_grows o w b q f sg :
  (sg == 1 \/ sg == -1) -> 0 <= o_fb o * sg -> 0 <= b * sg ->
  filled o <= filled (add_fill o w b q f) /\ filled (add_fill o w b q f) == filled o + b * sg.
Proof.
  intros Hs H1 H2. unfold filled, add_fill. cbn [o_fb].
  assert (E1 : Qabsq (o_fb o) == o_fb o * sg) by (apply Qabsq_sg; assumption).
  assert (E2 : Qabsq (Qred (o_fb o + b)) == (o_fb o + b) * sg).
  { unfold Qabsq. pose proof (Qred_correct (o_fb o + b)) as Er.
    destruct (Qle_bool 0 (Qred (o_fb o + b))) eqn:E.
    - apply Qle_bool_iff in E. destruct Hs as [Hs|Hs]; rewrite Hs in *; nra.
    - apply Qle_bool_false' in E. destruct Hs as [Hs|Hs]; rewrite Hs in *; nra. }
  split; lra.
Qed.

Theorem process_all_skips_closed c s l id p when b ids :
  (forall o, get_order s id = Some o -> is_open o = false) ->
  process_all c s l (id :: ids) p when b = process_all c s l ids p when b.
Proof.
  intros H. cbn [process_all]. destruct (get_order s id) as [o|]; [|reflexivity].
  rewrite (H o eq_refl). reflexivity.
Qed.

Theorem list_open_spec s p :
  snd (list_open s p) =
  filter (fun id => match p, get_order s id with
                    | Some pp, Some o => pair_eqb (o_pair o) pp
                    | None, Some _ => true
                    | _, None => false end)
         (filter (still_open s) (s_open_idx s)).
Proof.
  unfold list_open, bump_reindex, finish_reindex.
  destruct (Nat.eqb _ 0); cbn [snd]; reflexivity.
Qed.

Theorem round_bu_on_grid bp qp bv qv b' q' :
  round_bu (bp, qp) (Some bv) (Some qv) = (Some b', Some q') -> on_grid bp b' /\ on_grid qp q'.
Proof.
  intros H. apply round_bu_some in H. destruct H as (Eb & _ & Eq). subst.
  split; [apply qtrunc_on_grid | apply qround_on_grid].
Qed.

Theorem market_fits c l o b bv qv h t u :
  impact_cfg_ok c -> bar_ok b -> o_kind o = KMarket -> l = Some (t, u) ->
  balance_updates c l o b = Ok (Some (bv, qv), h) -> pending o <= t - u.
Proof.
  intros Hc Hb Hk El H. destruct (market_updates c l o b bv qv h Hc Hb Hk H) as (Hg & _).
  eapply gt_avail_false_le; eassumption.
Qed.
