(* C06, whole history: reservations belong to open orders.  In every state reached by a history whose bars were all
   processed without an internal error, every reservation recorded by the order manager is that of an order that is
   open -- so when no order is open nothing is reserved, and (hold = sum of the reservations, LedgerProofs.v) nothing is on
   hold in any symbol.  The reservation of an order is recorded when the order is accepted, rewritten while the order
   fills, and deleted by the release that follows every closure: cancellation, complete fill, market / stop order not
   filled.  A rejected request, a refused cancellation (it changes nothing in a reachable state: AutoRepayProofs.v) and the
   loan operations leave orders and reservations as they were. *)
From Coq Require Import ZArith QArith Qround Lia Lqa List Bool PArith.
From Basana Require Import Num.DecQ Num.DecQProofs Exchange.Model Exchange.AcctProofs Exchange.StepProofs
  Exchange.OpProofs Exchange.FeeProofs Exchange.OrderProofs Exchange.LifeProofs Exchange.Prims Exchange.FillBounds
  Exchange.Structure Exchange.LedgerProofs Exchange.AtomicProofs Exchange.CancelProofs Exchange.AutoRepayProofs
  Exchange.FillTimes Exchange.NoPartial Exchange.IndexProofs Exchange.FirstBar.
Import ListNotations.
Open Scope Q_scope.

(* ---------------------------------------------------------------------------------------------- *)
(* the table of reservations *)
Definition hkeys (h : list (nat * vmap)) : list nat := map fst h.

Lemma holds_set_keys_present h id v :
  In id (hkeys h) -> hkeys (holds_set h id v) = hkeys h.
Proof.
  induction h as [|[k w] r IH]; cbn [hkeys map fst holds_set In]; intros H; [destruct H|].
  destruct (Nat.eqb k id) eqn:E; cbn [map fst]; [reflexivity|].
  destruct H as [H|H]; [apply Nat.eqb_neq in E; congruence|]. f_equal. apply IH. exact H.
Qed.

Lemma holds_set_keys_absent h id v :
  ~ In id (hkeys h) -> hkeys (holds_set h id v) = hkeys h ++ [id].
Proof.
  induction h as [|[k w] r IH]; cbn [hkeys map fst holds_set In app]; intros H; [reflexivity|].
  destruct (Nat.eqb k id) eqn:E; [apply Nat.eqb_eq in E; exfalso; apply H; left; exact E|].
  cbn [map fst]. f_equal. apply IH. intros X. apply H. right. exact X.
Qed.

(* with distinct keys *)
Lemma holds_set_in_nodup h id v k m :
  NoDup (hkeys h) -> In (k, m) (holds_set h id v) -> (k = id /\ m = v) \/ (k <> id /\ In (k, m) h).
Proof.
  induction h as [|[k0 w] r IH]; cbn [hkeys map fst holds_set In]; intros Hn H.
  - destruct H as [H|[]]. inversion H; subst. left. split; reflexivity.
  - inversion Hn as [|? ? Hnot Hr]; subst. destruct (Nat.eqb k0 id) eqn:E; cbn [In] in H.
    + apply Nat.eqb_eq in E. subst k0. destruct H as [H|H]; [inversion H; subst; left; split; reflexivity|].
      right. split; [|right; exact H]. intros ->. apply Hnot. change id with (fst (id, m)). apply in_map. exact H.
    + apply Nat.eqb_neq in E. destruct H as [H|H]; [inversion H; subst; right; split; [congruence | left; reflexivity]|].
      destruct (IH Hr H) as [A|[A B]]; [left; exact A | right; split; [exact A | right; exact B]].
Qed.

Lemma holds_del_in_nodup h id k m :
  NoDup (hkeys h) -> In (k, m) (holds_del h id) -> k <> id /\ In (k, m) h.
Proof.
  induction h as [|[k0 w] r IH]; cbn [hkeys map fst holds_del In]; intros Hn H; [destruct H|].
  inversion Hn as [|? ? Hnot Hr]; subst. destruct (Nat.eqb k0 id) eqn:E.
  - apply Nat.eqb_eq in E. subst k0. split; [|right; exact H].
    intros ->. apply Hnot. change id with (fst (id, m)). apply in_map. exact H.
  - apply Nat.eqb_neq in E. destruct H as [H|H]; [inversion H; subst; split; [congruence | left; reflexivity]|].
    destruct (IH Hr H) as [A B]. split; [exact A | right; exact B].
Qed.

Lemma holds_del_keys_nodup h id : NoDup (hkeys h) -> NoDup (hkeys (holds_del h id)).
Proof.
  induction h as [|[k0 w] r IH]; cbn [hkeys map fst holds_del]; intros Hn; [constructor|].
  inversion Hn as [|? ? Hnot Hr]; subst. destruct (Nat.eqb k0 id); [exact Hr|].
  cbn [map fst]. constructor; [|apply IH; exact Hr].
  intros X. apply Hnot. apply in_map_iff in X. destruct X as ([k m] & Ek & Hin). cbn [fst] in Ek. subst k.
  apply (in_map fst) in Hin. cbn [fst] in Hin.
  clear -Hin. induction r as [|[k1 w1] r IH]; cbn [holds_del map fst In] in *; [exact Hin|].
  destruct (Nat.eqb k1 id); [right; exact Hin|]. cbn [map fst In] in Hin. destruct Hin as [H|H]; [left; exact H | right; apply IH; exact H].
Qed.

(* an empty answer of holds_get, when every entry is non-empty, means there is no entry *)
Lemma holds_get_empty_absent h id :
  (forall k m, In (k, m) h -> vnonempty m = true) -> vnonempty (holds_get h id) = false -> ~ In id (hkeys h).
Proof.
  induction h as [|[k0 w] r IH]; cbn [hkeys map fst holds_get In]; intros Hne Hg; [intros []|].
  destruct (Nat.eqb k0 id) eqn:E.
  - rewrite (Hne k0 w (or_introl eq_refl)) in Hg. discriminate Hg.
  - apply Nat.eqb_neq in E. intros [X|X]; [congruence|]. revert X. apply IH; [|exact Hg].
    intros k m Hin. apply (Hne k m). right. exact Hin.
Qed.

Lemma holds_get_nonempty_key h id : vnonempty (holds_get h id) = true -> In id (hkeys h).
Proof.
  intros H. apply holds_get_in in H. change id with (fst (id, holds_get h id)). apply in_map. exact H.
Qed.

Lemma vset_nonempty m x v : vnonempty (vset m x v) = true.
Proof. destruct m as [|[k w] r]; cbn [vset]; [reflexivity|]. destruct (Pos.eqb k x); reflexivity. Qed.

Lemma vadd_nonempty a b : vnonempty a = true -> vnonempty (vadd a b) = true.
Proof.
  revert a. unfold vadd. induction b as [|[k v] r IH]; intros a H; cbn [fold_left]; [exact H|].
  apply IH. unfold vaddk. apply vset_nonempty.
Qed.

(* ---------------------------------------------------------------------------------------------- *)
(* the invariant; [ex] is the order being closed, between the moment its record says "closed" and the release *)
Definition HOX (ex : option nat) (s : st) : Prop :=
  NoDup (hkeys (s_holds s)) /\
  forall k m, In (k, m) (s_holds s) -> vnonempty m = true /\ (Some k = ex \/ still_open s k = true).
Definition HOI := HOX None.

Lemma HOX_frame ex s s' :
  s_holds s' = s_holds s -> (forall k, still_open s k = true -> still_open s' k = true) -> HOX ex s -> HOX ex s'.
Proof.
  intros Eh Es [Hn Hi]. unfold HOX. rewrite Eh. split; [exact Hn|].
  intros k m Hin. destruct (Hi k m Hin) as [A [B|B]]; split; try exact A; [left; exact B | right; apply Es; exact B].
Qed.

Lemma HOX_same ex s s' : s_holds s' = s_holds s -> s_orders s' = s_orders s -> HOX ex s -> HOX ex s'.
Proof.
  intros Eh Eo. apply HOX_frame; [exact Eh|]. intros k. unfold still_open, get_order. rewrite Eo. auto.
Qed.

Lemma still_open_put s o k :
  still_open (put_order s o) k = if Nat.eqb k (o_id o) then (match get_order s k with Some _ => is_open o | None => false end)
                                 else still_open s k.
Proof.
  unfold still_open, get_order, put_order. cbn [set_orders s_orders]. rewrite nth_error_replace_nth.
  destruct (Nat.eqb k (o_id o)); [|reflexivity]. destruct (nth_error (s_orders s) k); reflexivity.
Qed.

(* rewriting the record of an order without changing whether it is open *)
Lemma HOX_put_same ex s o o0 :
  get_order s (o_id o) = Some o0 -> is_open o = is_open o0 -> HOX ex s -> HOX ex (put_order s o).
Proof.
  intros Hg Eo. apply HOX_frame; [reflexivity|]. intros k Hk. rewrite still_open_put.
  destruct (Nat.eqb k (o_id o)) eqn:E; [|exact Hk]. apply Nat.eqb_eq in E. subst k.
  unfold still_open in Hk. rewrite Hg in *. rewrite Eo. exact Hk.
Qed.

(* marking an order closed: its reservation becomes the exception *)
Lemma HOX_put_closed s o : HOX None s -> HOX (Some (o_id o)) (put_order s o).
Proof.
  intros [Hn Hi]. split; [exact Hn|]. intros k m Hin. destruct (Hi k m Hin) as [A [B|B]]; [discriminate B|].
  split; [exact A|]. destruct (Nat.eq_dec k (o_id o)) as [->|Hne]; [left; reflexivity|]. right.
  rewrite still_open_put. apply Nat.eqb_neq in Hne. rewrite Hne. exact B.
Qed.

(* ---------------------------------------------------------------------------------------------- *)
(* AccountBalances / reservations: the update that goes with a fill of an open order, and the release *)
Lemma HOX_update_open c s o bu s' u ex :
  is_open o = true -> update_balances c s o bu = Done s' u -> HOX ex s -> HOX ex s'.
Proof.
  intros Hop H [Hn Hi]. apply update_balances_shape in H. cbn zeta in H. destruct H as (s1 & E1 & ->).
  assert (F1 : s_holds s1 = s_holds s /\ s_orders s1 = s_orders s).
  { destruct (_ || _).
    - apply upd_acct_done in E1. destruct E1 as (a' & _ & ->). split; reflexivity.
    - inversion E1; subst. split; reflexivity. }
  destruct F1 as [Eh Eo]. rewrite Hop.
  destruct (vnonempty (holds_get (s_holds s) (o_id o))) eqn:Ev.
  - unfold HOX. cbn [set_holds s_holds]. rewrite Eh. split.
    + rewrite holds_set_keys_present; [exact Hn | apply holds_get_nonempty_key; exact Ev].
    + intros k m Hin. destruct (holds_set_in_nodup _ _ _ _ _ Hn Hin) as [[-> ->]|[Hne Hin2]].
      * split; [apply vadd_nonempty; exact Ev|].
        destruct (Hi (o_id o) _ (holds_get_in _ _ Ev)) as [_ [B|B]]; [left; exact B | right].
        unfold still_open, get_order in *. cbn [set_holds s_orders]. rewrite Eo. exact B.
      * destruct (Hi k m Hin2) as [A [B|B]]; split; try exact A; [left; exact B | right].
        unfold still_open, get_order in *. cbn [set_holds s_orders]. rewrite Eo. exact B.
  - apply (HOX_same ex s s1 Eh Eo). split; assumption.
Qed.

Lemma HOX_release c s o s' u :
  is_open o = false -> update_balances c s o [] = Done s' u -> HOX (Some (o_id o)) s -> HOX None s'.
Proof.
  intros Hop H [Hn Hi]. apply update_balances_shape in H. cbn zeta in H. destruct H as (s1 & E1 & ->).
  assert (F1 : s_holds s1 = s_holds s /\ s_orders s1 = s_orders s).
  { destruct (_ || _).
    - apply upd_acct_done in E1. destruct E1 as (a' & _ & ->). split; reflexivity.
    - inversion E1; subst. split; reflexivity. }
  destruct F1 as [Eh Eo]. rewrite Hop.
  destruct (vnonempty (holds_get (s_holds s) (o_id o))) eqn:Ev.
  - unfold HOX. cbn [set_holds s_holds]. rewrite Eh. split; [apply holds_del_keys_nodup; exact Hn|].
    intros k m Hin. destruct (holds_del_in_nodup _ _ _ _ Hn Hin) as [Hne Hin2].
    destruct (Hi k m Hin2) as [A [B|B]]; [inversion B; congruence|]. split; [exact A|]. right.
    unfold still_open, get_order in *. cbn [set_holds s_orders]. rewrite Eo. exact B.
  - assert (Hab : ~ In (o_id o) (hkeys (s_holds s))).
    { apply holds_get_empty_absent; [|exact Ev]. intros k m Hin. apply (Hi k m Hin). }
    unfold HOX. rewrite Eh. split; [exact Hn|]. intros k m Hin.
    destruct (Hi k m Hin) as [A [B|B]].
    + inversion B; subst k. exfalso. apply Hab. change (o_id o) with (fst (o_id o, m)). apply in_map. exact Hin.
    + split; [exact A|]. right. unfold still_open, get_order in *. rewrite Eo. exact B.
Qed.

(* ---------------------------------------------------------------------------------------------- *)
(* the loan operations touch neither the order records nor the reservations *)
Section BFrame.
Variable OS : list order.
Variable HS : list (nat * vmap).
Definition Kb (s : st) : Prop := s_orders s = OS /\ s_holds s = HS.
Definition kb {A} (r : outcome A) : Prop := Kb (sof r).

Lemma kb_obind A B (r : outcome A) (f : st -> A -> outcome B) :
  kb r -> (forall s a, Kb s -> kb (f s a)) -> kb (obind r f).
Proof. destruct r as [s a|s e]; unfold kb; cbn [obind sof]; intros H Hf; [apply Hf; exact H | exact H]. Qed.
Lemma kb_lift A s (r : res A) : Kb s -> kb (lift s r).
Proof. destruct r; unfold kb; cbn [lift sof]; auto. Qed.
Lemma kb_upd c s db dh dbo : Kb s -> kb (upd_acct c s db dh dbo).
Proof. intros H. unfold upd_acct. destruct (acct_update _ _ _ _ _); unfold kb; cbn [sof]; exact H. Qed.

Ltac kb_step :=
  match goal with
  | |- kb (obind _ _) => apply kb_obind; [| intros ? ? ?]
  | |- kb (lift _ _) => apply kb_lift
  | |- kb (upd_acct _ _ _ _ _) => apply kb_upd
  | |- kb (Done _ _) => unfold kb; cbn [sof]
  | |- kb (Fail _ _) => unfold kb; cbn [sof]
  | |- kb (if ?b then _ else _) => destruct b
  | |- kb (match ?x with _ => _ end) => destruct x
  | |- Kb _ => first [assumption | (unfold Kb in *; cbn; assumption)]
  end.
Ltac kb_auto := repeat kb_step.

Lemma kb_create_loan c s x a : Kb s -> kb (create_loan c s x a).
Proof. intros H. unfold create_loan. kb_auto. Qed.
Lemma kb_repay_loan c s id : Kb s -> kb (repay_loan c s id).
Proof. intros H. unfold repay_loan. kb_auto. Qed.
Lemma kb_cancel_loan c s id : Kb s -> kb (cancel_loan c s id).
Proof. intros H. unfold cancel_loan. kb_auto. Qed.

Lemma kb_rollback c ids : forall s, Kb s -> kb (rollback_loans c s ids).
Proof.
  induction ids as [|id r IH]; intros s H; cbn [rollback_loans]; [unfold kb; cbn [sof]; exact H|].
  apply kb_obind; [apply kb_cancel_loan; exact H | intros s' _ H'; apply IH; exact H'].
Qed.

Lemma kb_borrow_loop c shorts : forall s created, Kb s -> kb (borrow_loop c s shorts created).
Proof.
  induction shorts as [|[x a] r IH]; intros s created H; cbn [borrow_loop]; [unfold kb; cbn [sof]; exact H|].
  pose proof (kb_create_loan c s x a H) as H1.
  destruct (create_loan c s x a) as [s1 id|s1 e]; unfold kb in H1; cbn [sof] in H1; [apply IH; exact H1|].
  pose proof (kb_rollback c created s1 H1) as H2.
  destruct (rollback_loans c s1 created) as [s2 u|s2 e2]; unfold kb in *; cbn [sof] in *; exact H2.
Qed.

Lemma kb_repay_each c ids : forall s done, Kb s -> kb (repay_each c s ids done).
Proof.
  induction ids as [|id r IH]; intros s done H; cbn [repay_each]; [unfold kb; cbn [sof]; exact H|].
  pose proof (kb_repay_loan c s id H) as H1.
  destruct (repay_loan c s id) as [s1 u|s1 e]; unfold kb in H1; cbn [sof] in H1; [apply IH; exact H1|].
  destruct e; try (unfold kb; cbn [sof]; exact H1). apply IH; exact H1.
Qed.
End BFrame.

Lemma HOX_of_kb ex s s' : Kb (s_orders s) (s_holds s) s' -> HOX ex s -> HOX ex s'.
Proof. intros [Eo Eh]. apply HOX_same; assumption. Qed.

Lemma Kb_refl s : Kb (s_orders s) (s_holds s) s.
Proof. split; reflexivity. Qed.

(* ---------------------------------------------------------------------------------------------- *)
(* closing an order *)
Lemma HOX_order_closed c s o s' o' :
  get_order s (o_id o) = Some o -> is_open o = false -> order_closed c s o = Done s' o' ->
  HOX (Some (o_id o)) s -> HOX None s'.
Proof.
  intros Hg Hop H Hx. unfold order_closed in H.
  destruct (update_balances c s o []) as [s1 u1|s1 e1] eqn:Eu; cbn [obind] in H; [|discriminate H].
  pose proof (HOX_release c s o s1 u1 Hop Eu Hx) as H1.
  destruct (update_balances_orders c s o [] s1 u1 Eu) as [Eo _].
  destruct (o_ar o && negb (Qzero (filled o))); [|inversion H; subst; exact H1].
  unfold repay_loans in H.
  destruct (check_infos c s1 (s_loans s1)) as [u2|e2]; cbn [lift obind] in H; [|discriminate H].
  match type of H with obind (repay_each c s1 ?ids []) _ = _ =>
    pose proof (kb_repay_each (s_orders s1) (s_holds s1) c ids s1 [] (Kb_refl s1)) as K2;
    destruct (repay_each c s1 ids []) as [s2 ids2|s2 e3] end; cbn [obind] in H; [|discriminate H].
  unfold kb in K2. cbn [sof] in K2. pose proof (HOX_of_kb None s1 s2 K2 H1) as H2. inversion H; subst s' o'.
  apply (HOX_put_same None s2 (add_loans o ids2) o); [|reflexivity|exact H2].
  cbn [add_loans o_id]. unfold get_order in *. destruct K2 as [K2 _]. rewrite K2, Eo. exact Hg.
Qed.

Lemma HOX_push ex s o w : HOX ex s -> HOX ex (push_update s o w).
Proof.
  apply HOX_same; [|apply orders_push]. unfold push_update. destruct w; [reflexivity|]. destruct (s_now s); reflexivity.
Qed.

Lemma HOI_close_as c s o w s' u :
  (o_id o < length (s_orders s))%nat ->
  obind (order_closed c (put_order s (with_state o SCanceled)) (with_state o SCanceled))
        (fun s o2 => Done (push_update s o2 w) tt) = Done s' u ->
  HOI s -> HOI s'.
Proof.
  intros Hl H Hi. set (o1 := with_state o SCanceled) in *.
  assert (Hg : get_order (put_order s o1) (o_id o1) = Some o1) by (apply get_put; exact Hl).
  destruct (order_closed c (put_order s o1) o1) as [s2 o2|s2 e2] eqn:Ec; cbn [obind] in H; [|discriminate H].
  inversion H; subst s'. apply HOX_push.
  apply (HOX_order_closed c (put_order s o1) o1 s2 o2 Hg eq_refl Ec). apply HOX_put_closed. exact Hi.
Qed.

Lemma HOI_cancel c s id s' u : WF s -> cancel_order c s id = Done s' u -> HOI s -> HOI s'.
Proof.
  intros Hw H Hi. unfold cancel_order in H. destruct (get_order s id) as [o|] eqn:Eg; [|discriminate H].
  destruct (negb (is_open o)); [discriminate H|].
  destruct (if o_ar o && negb (Qzero (filled o)) then check_infos c s (s_loans s) else Ok tt); cbn [lift obind] in H;
    [|discriminate H].
  assert (Eid : o_id o = id) by (destruct Hw as (Ho & _); destruct (Ho _ _ Eg); assumption).
  apply (HOI_close_as c s o None s' u); [|exact H|exact Hi].
  rewrite Eid. apply nth_error_Some. unfold get_order in Eg. rewrite Eg. discriminate.
Qed.

Lemma HOI_order_not_filled c s o when s' u :
  (o_id o < length (s_orders s))%nat -> order_not_filled c s o when = Done s' u -> HOI s -> HOI s'.
Proof.
  intros Hl H Hi. unfold order_not_filled in H.
  destruct (o_kind o); try (inversion H; subst; exact Hi);
    (destruct (negb (is_open o)); [discriminate H|]; cbn zeta in H; exact (HOI_close_as c s o (Some when) s' u Hl H Hi)).
Qed.

(* processing an order against a bar *)
Lemma HOI_process_order c s l o p when b s' l' :
  get_order s (o_id o) = Some o -> is_open o = true ->
  process_order c s l o p when b = Done s' l' -> HOI s -> HOI s'.
Proof.
  intros Hg Hop H Hi. unfold process_order in H.
  assert (Hl : (o_id o < length (s_orders s))%nat)
    by (apply nth_error_Some; unfold get_order in Hg; rewrite Hg; discriminate).
  destruct (balance_updates c l o b) as [[u hit]|ebu]; cbn [lift obind] in H; [|discriminate H].
  set (o1 := with_hit o hit) in *. set (s1 := put_order s o1) in *.
  assert (H1 : HOI s1) by (apply (HOX_put_same None s o1 o Hg eq_refl Hi)).
  assert (Hl1 : (o_id o1 < length (s_orders s1))%nat) by (unfold s1; rewrite length_put; exact Hl).
  assert (Hg1 : get_order s1 (o_id o1) = Some o1) by (apply (get_put s o1); exact Hl).
  destruct (get_pair_info c (o_pair o1)) as [pi|epi]; cbn [lift obind] in H; [|discriminate H].
  assert (NF : forall s2, s_orders s2 = s_orders s1 -> HOI s2 ->
                obind (order_not_filled c s2 o1 when) (fun s _ => Done s l) = Done s' l' -> HOI s').
  { intros s2 E2 I2 X. destruct (order_not_filled c s2 o1 when) as [s3 u3|s3 e3] eqn:En; cbn [obind] in X; [|discriminate X].
    assert (Es : s3 = s') by (inversion X; reflexivity). subst s'.
    apply (HOI_order_not_filled c s2 o1 when s3 u3); [rewrite E2; exact Hl1 | exact En | exact I2]. }
  destruct (match u with Some (bv, qv) => round_bu pi (Some bv) (Some qv) | None => (None, None) end) as [rb rq].
  destruct rb as [bv|]; [destruct rq as [qv|]|]; try (apply (NF s1 eq_refl H1); exact H).
  destruct (calc_fee c (snd pi) o1 qv) as [fee|ef]; cbn [lift obind] in H; [|discriminate H].
  match type of H with (match update_balances c s1 o1 ?f with _ => _ end) = _ =>
    destruct (update_balances c s1 o1 f) as [s2 u2|s2 e2] eqn:Eu end.
  - destruct (update_balances_orders c s1 o1 _ s2 u2 Eu) as [Eo2 _].
    pose proof (HOX_update_open c s1 o1 _ s2 u2 None Hop Eu H1) as H2.
    destruct (take_liquidity l (Qabsq bv)) as [l2|el]; cbn [lift obind] in H; [|discriminate H].
    set (o2 := add_fill o1 when bv qv (match fee with Some f => f | None => 0 end)) in *.
    assert (Hl2 : (o_id o2 < length (s_orders s2))%nat) by (rewrite Eo2; exact Hl1).
    assert (Hg2 : get_order s2 (o_id o2) = Some o1) by (unfold get_order in *; rewrite Eo2; exact Hg1).
    destruct (is_open o2) eqn:Eo.
    + cbn [obind] in H. inversion H; subst s'. apply HOX_push.
      apply (HOX_put_same None s2 o2 o1 Hg2); [rewrite Eo; symmetry; exact Hop | exact H2].
    + assert (Hg3 : get_order (put_order s2 o2) (o_id o2) = Some o2) by (apply get_put; exact Hl2).
      destruct (order_closed c (put_order s2 o2) o2) as [s4 o4|s4 e4] eqn:Ec; cbn [obind] in H; [|discriminate H].
      inversion H; subst s'. apply HOX_push.
      apply (HOX_order_closed c (put_order s2 o2) o2 s4 o4 Hg3 Eo Ec). apply HOX_put_closed. exact H2.
  - destruct e2; try discriminate H. apply update_balances_fail in Eu. subst s2. apply (NF s1 eq_refl H1). exact H.
Qed.

Section Hist.
Variable c : cfg.

Lemma HOI_process_all ids p when b : forall s l s' l',
  WF s -> liq_ok l -> process_all c s l ids p when b = Done s' l' -> HOI s -> HOI s'.
Proof.
  induction ids as [|h r IH]; intros s l s' l' Hw Hl H Hi; cbn [process_all] in H; [inversion H; subst; exact Hi|].
  destruct (get_order s h) as [oh|] eqn:Eg; [|exact (IH s l s' l' Hw Hl H Hi)].
  destruct (is_open oh && pair_eqb (o_pair oh) p) eqn:Eop; [|exact (IH s l s' l' Hw Hl H Hi)].
  assert (Eid : o_id oh = h) by (destruct Hw as (Ho & _); destruct (Ho _ _ Eg); assumption).
  assert (Hg : get_order s (o_id oh) = Some oh) by (rewrite Eid; exact Eg).
  apply andb_true_iff in Eop. destruct Eop as [Hopn _].
  assert (Hwo : was_open s (o_id oh)).
  { intros x Hx. unfold get_order in Hg. rewrite Hg in Hx. inversion Hx; subst. exact Hopn. }
  destruct (rp_process_order c s s l oh p when b (R_of_WF c s Hw) Hg Hwo Hl) as [R1 L1].
  destruct (process_order c s l oh p when b) as [s1 l1|s1 e1] eqn:Ep; cbn [obind sof] in *; [|discriminate H].
  destruct R1 as (W1 & _).
  apply (IH s1 l1 s' l' W1 L1 H). exact (HOI_process_order c s l oh p when b s1 l1 Hg Hopn Ep Hi).
Qed.

Lemma HOI_on_bar s p when b s' u :
  cfg_ok c -> 0 <= b_volume b -> WF s -> on_bar c s p when b = Done s' u -> HOI s -> HOI s'.
Proof.
  intros Hc Hv Hw H Hi. unfold on_bar, bump_reindex in H.
  set (s1 := set_open_idx (set_close_now s (set_pair (s_close s) p (b_close b)) (Some when))
                          (s_open_idx (set_close_now s (set_pair (s_close s) p (b_close b)) (Some when)))
                          (S (s_reidx (set_close_now s (set_pair (s_close s) p (b_close b)) (Some when))))) in *.
  assert (W1 : WF s1) by exact Hw.
  assert (I1 : HOI s1) by (apply (HOX_same None s s1); [reflexivity | reflexivity | exact Hi]).
  match type of H with obind (process_all c s1 ?l0 ?ids p when b) _ = _ =>
    assert (L0 : liq_ok l0); [|destruct (process_all c s1 l0 ids p when b) as [s2 l2|s2 e2] eqn:Epa] end.
  { unfold cfg_ok in Hc. destruct (c_liq c) as [|lp ip]; [exact I|]. cbn [liq_ok].
    split; [lra|]. apply Qmult_le_0_compat; [exact Hv|]. apply Qle_shift_div_l; lra. }
  2:{ cbn [obind] in H. discriminate H. }
  cbn [obind] in H. inversion H; subst s'.
  pose proof (HOI_process_all _ p when b s1 _ s2 l2 W1 L0 Epa I1) as I2.
  unfold finish_reindex. match goal with |- HOI (if ?f then _ else _) => destruct f end; [|exact I2].
  apply (HOX_same None s2); [reflexivity | reflexivity | exact I2].
Qed.

(* accepting (or rejecting) a request *)
Lemma still_open_snoc s o k :
  still_open s k = true -> still_open (set_orders s (s_orders s ++ [o])) k = true.
Proof.
  unfold still_open, get_order. cbn [set_orders s_orders]. intros H.
  destruct (nth_error (s_orders s) k) as [x|] eqn:E; [|discriminate H].
  rewrite nth_error_app1; [rewrite E; exact H | apply nth_error_Some; rewrite E; discriminate].
Qed.

Lemma HOI_add_order s o :
  WF s -> o_id o = length (s_orders s) -> is_open o = true -> HOI s -> HOI (sof (add_order c s o)).
Proof.
  intros Hw Hid Hop Hi. unfold add_order.
  destruct (estimate_required c s o) as [req|e]; cbn [lift obind sof]; [|exact Hi].
  set (mk := fun lids => mkOrder (o_id o) (o_kind o) (o_op o) (o_pair o) (o_amount o) (o_state o) (o_fb o) (o_fq o)
                                 (o_fee o) (o_hit o) (o_ab o) (o_ar o) lids (o_fills o)).
  assert (App : forall s2 lids, s_orders s2 = s_orders s -> HOI s2 ->
                  HOI (push_update (set_open_idx (set_orders s2 (s_orders s2 ++ [mk lids]))
                         (if is_open (mk lids) then s_open_idx (set_orders s2 (s_orders s2 ++ [mk lids])) ++ [o_id (mk lids)]
                          else s_open_idx (set_orders s2 (s_orders s2 ++ [mk lids])))
                         (s_reidx (set_orders s2 (s_orders s2 ++ [mk lids])))) (mk lids) None)).
  { intros s2 lids Eo I2. apply HOX_push.
    apply (HOX_frame None s2); [reflexivity | | exact I2].
    intros k Hk. apply (still_open_snoc s2 (mk lids) k Hk). }
  destruct (vnonempty req) eqn:Ev.
  - pose proof (kb_borrow_loop (s_orders s) (s_holds s) c (shorts_of (s_acct s) req) s [] (Kb_refl s)) as KB.
    assert (B : Kb (s_orders s) (s_holds s)
                   (sof (if o_ab o then borrow_loop c s (shorts_of (s_acct s) req) [] else Done s []))).
    { destruct (o_ab o); [exact KB | apply Kb_refl]. }
    destruct (if o_ab o then borrow_loop c s (shorts_of (s_acct s) req) [] else Done s []) as [s1 lids|s1 e];
      cbn [sof obind] in *; [|exact (HOX_of_kb None s s1 B Hi)].
    pose proof (HOX_of_kb None s s1 B Hi) as I1. destruct B as [Eo1 Eh1].
    destruct (upd_acct c s1 [] req []) as [s2 []|s2 e] eqn:E; cbn [obind sof].
    + apply upd_acct_done in E. destruct E as (a' & _ & ->).
      (* the reservation is recorded under a fresh key, for an order that is open *)
      apply HOX_push. destruct I1 as [Hn1 Hi1].
      assert (Hab : ~ In (o_id o) (hkeys (s_holds s1))).
      { intros X. apply in_map_iff in X. destruct X as ([k m] & Ek & Hin). cbn [fst] in Ek. subst k.
        rewrite Eh1 in Hin. destruct Hw as (_ & _ & Hk). specialize (Hk _ _ Hin). lia. }
      unfold HOX. cbn [set_open_idx set_orders set_holds set_acct s_holds s_orders]. split.
      * rewrite holds_set_keys_absent by exact Hab. apply NoDup_snoc_nat; assumption.
      * intros k m Hin. destruct (holds_set_in_nodup _ _ _ _ _ Hn1 Hin) as [[-> ->]|[Hne Hin2]].
        -- split; [exact Ev|]. right. unfold still_open, get_order. cbn [set_open_idx set_orders set_holds set_acct s_orders].
           rewrite Eo1, Hid, nth_error_app2, Nat.sub_diag by lia. cbn [nth_error]. exact Hop.
        -- destruct (Hi1 k m Hin2) as [A [B|B]]; [discriminate B|]. split; [exact A|]. right.
           unfold still_open, get_order in *. cbn [set_open_idx set_orders set_holds set_acct s_orders].
           destruct (nth_error (s_orders s1) k) as [x|] eqn:E; [|discriminate B].
           rewrite nth_error_app1; [rewrite E; exact B | apply nth_error_Some; rewrite E; discriminate].
    + apply upd_acct_fail in E. subst. exact I1.
  - cbn [obind sof]. apply (App s [] eq_refl Hi).
Qed.

Lemma HOI_create_order s k op p amount ab ar :
  WF s -> HOI s -> HOI (sof (create_order c s k op p amount ab ar)).
Proof.
  intros Hw Hi. unfold create_order.
  destruct (get_pair_info c p); cbn [lift obind sof]; [|exact Hi].
  destruct (validate _ k amount); cbn [lift obind sof]; [|exact Hi].
  apply HOI_add_order; [exact Hw | reflexivity | reflexivity | exact Hi].
Qed.

(* histories whose bars were all processed without an internal error *)
Definition bars_processed (initial : vmap) (ops : list op) : Prop :=
  forall pre p w b post, ops = pre ++ OBar p w b :: post ->
    snd (step c (run c (init_st initial) pre) (OBar p w b)) = ROk.

Lemma run_snoc s ops o : run c s (ops ++ [o]) = fst (step c (run c s ops) o).
Proof. unfold run. rewrite fold_left_app. reflexivity. Qed.

Theorem reservations_belong_to_open_orders initial ops :
  cfg_ok c -> ops_ok ops -> NoDup (map fst initial) -> (forall kv, In kv initial -> 0 <= snd kv) ->
  bars_processed initial ops ->
  HOI (run c (init_st initial) ops).
Proof.
  intros Hc. induction ops as [|o pre IH] using rev_ind; intros Ho Hnd Hpos Hb.
  - split; [constructor | intros k m []].
  - apply Forall_app in Ho. destruct Ho as [Hpre Ho1]. inversion Ho1 as [|? ? Hoo _]; subst.
    assert (Hbp : bars_processed initial pre).
    { intros pre0 p w b post E. apply (Hb pre0 p w b (post ++ [o])). rewrite E, <- app_assoc. reflexivity. }
    specialize (IH Hpre Hnd Hpos Hbp). rewrite run_snoc.
    set (s := run c (init_st initial) pre) in *.
    assert (Hw : WF s) by (apply (run_prims c pre (init_st initial) Hc Hpre (WF_init initial))).
    destruct o as [p w b|k opr p amount ab ar|id|x a|id|pp]; cbn [step].
    + specialize (Hb pre p w b [] eq_refl). cbn [step] in Hb. fold s in Hb.
      destruct (on_bar c s p w b) as [s' u|s' e] eqn:Eb; cbn [snd fst] in *; [|discriminate Hb].
      cbn [op_ok] in Hoo. exact (HOI_on_bar s p w b s' u Hc Hoo Hw Eb IH).
    + pose proof (HOI_create_order s k opr p amount ab ar Hw IH) as X.
      destruct (create_order c s k opr p amount ab ar); exact X.
    + destruct (cancel_order c s id) as [s' u|s' e] eqn:Ec; cbn [fst].
      * exact (HOI_cancel c s id s' u Hw Ec IH).
      * rewrite (cancel_fail_unchanged_reachable c initial pre id s' e Hc Hpre Hnd Hpos Ec). exact IH.
    + pose proof (kb_create_loan (s_orders s) (s_holds s) c s x a (Kb_refl s)) as X.
      destruct (create_loan c s x a); cbn [fst]; exact (HOX_of_kb None s _ X IH).
    + pose proof (kb_repay_loan (s_orders s) (s_holds s) c s id (Kb_refl s)) as X.
      destruct (repay_loan c s id); cbn [fst]; exact (HOX_of_kb None s _ X IH).
    + destruct (list_open s pp) as [s' ids] eqn:El. cbn [fst].
      unfold list_open, bump_reindex, finish_reindex in El.
      match type of El with context [if ?f then _ else _] => destruct f end; inversion El; subst s';
        apply (HOX_same None s); try reflexivity; exact IH.
Qed.

(* C06: whenever no order is open nothing is reserved, hence nothing is on hold *)
Theorem nothing_on_hold_when_no_order_is_open initial ops x :
  cfg_ok c -> ops_ok ops -> NoDup (map fst initial) -> (forall kv, In kv initial -> 0 <= snd kv) ->
  bars_processed initial ops ->
  let s := run c (init_st initial) ops in
  (forall i o, nth_error (s_orders s) i = Some o -> is_open o = false) ->
  s_holds s = [] /\ vget (hold (s_acct s)) x == 0.
Proof.
  intros Hc Ho Hnd Hpos Hb s Hall.
  destruct (reservations_belong_to_open_orders initial ops Hc Ho Hnd Hpos Hb) as [_ Hi]. fold s in Hi.
  assert (E : s_holds s = []).
  { destruct (s_holds s) as [|[k m] r] eqn:Eh; [reflexivity|]. exfalso.
    destruct (Hi k m (or_introl eq_refl)) as [_ [B|B]]; [discriminate B|].
    unfold still_open, get_order in B. destruct (nth_error (s_orders s) k) as [o|] eqn:En; [|discriminate B].
    rewrite (Hall k o En) in B. discriminate B. }
  split; [exact E|].
  pose proof (holds_reachable c initial ops x Hc Ho Hpos) as Hh. cbv zeta in Hh. fold s in Hh.
  rewrite Hh. unfold hsum. rewrite E. reflexivity.
Qed.

(* the premise, computed along the run *)
Fixpoint bars_processed_from (s : st) (ops : list op) : bool :=
  match ops with
  | [] => true
  | o :: r =>
    (match o with
     | OBar _ _ _ => match snd (step c s o) with ROk => true | _ => false end
     | _ => true
     end) && bars_processed_from (fst (step c s o)) r
  end.

Lemma bars_processed_from_spec ops : forall s pre p w b post,
  bars_processed_from s ops = true -> ops = pre ++ OBar p w b :: post ->
  snd (step c (run c s pre) (OBar p w b)) = ROk.
Proof.
  induction ops as [|o r IH]; intros s pre p w b post H E; [destruct pre; discriminate E|].
  cbn [bars_processed_from] in H. apply andb_true_iff in H. destruct H as [H1 H2].
  destruct pre as [|o' pre']; cbn [app] in E; inversion E; subst.
  - unfold run. cbn [fold_left]. destruct (snd (step c s (OBar p w b))); try discriminate H1. reflexivity.
  - unfold run. cbn [fold_left]. exact (IH _ pre' p w b post H2 eq_refl).
Qed.

Lemma bars_processed_of_bool initial ops :
  bars_processed_from (init_st initial) ops = true -> bars_processed initial ops.
Proof. intros H pre p w b post E. exact (bars_processed_from_spec ops _ pre p w b post H E). Qed.
End Hist.

(* ---------------------------------------------------------------------------------------------- *)
(* Without the premise on the bars.  An operation that aborts half-way with an internal error leaves the reservations
   with open orders too, because the only step between "the record says closed" and "the reservation is deleted" is the
   release of the holds, and in a state that satisfies the invariants of CancelProofs.v a release cannot be refused.  The
   failing paths are followed to the state they stop in: either the invariant holds there, or the operation stopped at
   a refused release -- which is impossible in a reachable state. *)
Definition bad_release (c : cfg) (s : st) : Prop :=
  exists o e, is_open o = false /\ update_balances c s o [] = Fail s e.

Lemma release_succeeds c s o :
  cancel_inv s -> is_open o = false -> exists s2, update_balances c s o [] = Done s2 tt.
Proof.
  intros (Hw & (Hr & _ & Hnh & Hnb) & Hh & Hrn) Hop. unfold update_balances. rewrite Hop.
  set (oh := holds_get (s_holds s) (o_id o)).
  destruct (vnonempty oh) eqn:Ene; cbn [vnonempty orb].
  - assert (Ev : vnonempty (vneg oh) = true) by (destruct oh; [discriminate Ene | reflexivity]).
    rewrite Ev. unfold upd_acct.
    destruct (release_update_ok c s (s_acct s) oh Hr Hnh Hnb) as [a' Ea].
    + intros x. apply res_ok_vsum. apply (Hrn (o_id o) oh). apply holds_get_in. exact Ene.
    + intros x. rewrite (Hh x). unfold hsum. apply hsum_ge_entry; [exact Hrn | exact Ene].
    + rewrite Ea. cbn [obind]. eexists. reflexivity.
  - cbn [obind]. eexists. reflexivity.
Qed.

Lemma no_bad_release c s : cancel_inv s -> ~ bad_release c s.
Proof.
  intros Hc (o & e & Hop & Hf). destruct (release_succeeds c s o Hc Hop) as [s2 E]. rewrite E in Hf. discriminate Hf.
Qed.

Definition HOB (c : cfg) (s : st) : Prop := HOI s \/ bad_release c s.

Lemma HOB_order_closed c s o s' e :
  get_order s (o_id o) = Some o -> is_open o = false -> order_closed c s o = Fail s' e ->
  HOX (Some (o_id o)) s -> HOB c s'.
Proof.
  intros Hg Hop H Hx. unfold order_closed in H.
  destruct (update_balances c s o []) as [s1 u1|s1 e1] eqn:Eu; cbn [obind] in H.
  - pose proof (HOX_release c s o s1 u1 Hop Eu Hx) as H1.
    destruct (o_ar o && negb (Qzero (filled o))); [|discriminate H].
    unfold repay_loans in H.
    destruct (check_infos c s1 (s_loans s1)) as [u2|e2]; cbn [lift obind] in H; [|inversion H; subst; left; exact H1].
    match type of H with obind (repay_each c s1 ?ids []) _ = _ =>
      pose proof (kb_repay_each (s_orders s1) (s_holds s1) c ids s1 [] (Kb_refl s1)) as K2;
      destruct (repay_each c s1 ids []) as [s2 ids2|s2 e3] end; cbn [obind] in H; [discriminate H|].
    unfold kb in K2. cbn [sof] in K2. inversion H; subst. left. exact (HOX_of_kb None s1 _ K2 H1).
  - inversion H; subst. pose proof (update_balances_fail _ _ _ _ _ _ Eu) as Es. subst s'.
    right. exists o, e. split; [exact Hop | exact Eu].
Qed.

Lemma HOB_close_as c s o w s' e :
  (o_id o < length (s_orders s))%nat ->
  obind (order_closed c (put_order s (with_state o SCanceled)) (with_state o SCanceled))
        (fun s o2 => Done (push_update s o2 w) tt) = Fail s' e ->
  HOI s -> HOB c s'.
Proof.
  intros Hl H Hi. set (o1 := with_state o SCanceled) in *.
  assert (Hg : get_order (put_order s o1) (o_id o1) = Some o1) by (apply get_put; exact Hl).
  destruct (order_closed c (put_order s o1) o1) as [s2 o2|s2 e2] eqn:Ec; cbn [obind] in H; [discriminate H|].
  inversion H; subst. apply (HOB_order_closed c (put_order s o1) o1 s' e Hg eq_refl Ec). apply HOX_put_closed. exact Hi.
Qed.

Lemma HOB_order_not_filled c s o when s' e :
  (o_id o < length (s_orders s))%nat -> order_not_filled c s o when = Fail s' e -> HOI s -> HOB c s'.
Proof.
  intros Hl H Hi. unfold order_not_filled in H.
  destruct (o_kind o); try discriminate H;
    (destruct (negb (is_open o)); [inversion H; subst; left; exact Hi|]; cbn zeta in H;
     exact (HOB_close_as c s o (Some when) s' e Hl H Hi)).
Qed.

Lemma HOB_process_order c s l o p when b s' e :
  get_order s (o_id o) = Some o -> is_open o = true ->
  process_order c s l o p when b = Fail s' e -> HOI s -> HOB c s'.
Proof.
  intros Hg Hop H Hi. unfold process_order in H.
  assert (Hl : (o_id o < length (s_orders s))%nat)
    by (apply nth_error_Some; unfold get_order in Hg; rewrite Hg; discriminate).
  destruct (balance_updates c l o b) as [[u hit]|ebu]; cbn [lift obind] in H; [|inversion H; subst; left; exact Hi].
  set (o1 := with_hit o hit) in *. set (s1 := put_order s o1) in *.
  assert (H1 : HOI s1) by (apply (HOX_put_same None s o1 o Hg eq_refl Hi)).
  assert (Hl1 : (o_id o1 < length (s_orders s1))%nat) by (unfold s1; rewrite length_put; exact Hl).
  assert (Hg1 : get_order s1 (o_id o1) = Some o1) by (apply (get_put s o1); exact Hl).
  destruct (get_pair_info c (o_pair o1)) as [pi|epi]; cbn [lift obind] in H; [|inversion H; subst; left; exact H1].
  assert (NF : forall s2, s_orders s2 = s_orders s1 -> HOI s2 ->
                obind (order_not_filled c s2 o1 when) (fun s _ => Done s l) = Fail s' e -> HOB c s').
  { intros s2 E2 I2 X. destruct (order_not_filled c s2 o1 when) as [s3 u3|s3 e3] eqn:En; cbn [obind] in X; [discriminate X|].
    inversion X; subst. apply (HOB_order_not_filled c s2 o1 when s' e); [rewrite E2; exact Hl1 | exact En | exact I2]. }
  destruct (match u with Some (bv, qv) => round_bu pi (Some bv) (Some qv) | None => (None, None) end) as [rb rq].
  destruct rb as [bv|]; [destruct rq as [qv|]|]; try (apply (NF s1 eq_refl H1); exact H).
  destruct (calc_fee c (snd pi) o1 qv) as [fee|ef]; cbn [lift obind] in H; [|inversion H; subst; left; exact H1].
  match type of H with (match update_balances c s1 o1 ?f with _ => _ end) = _ =>
    destruct (update_balances c s1 o1 f) as [s2 u2|s2 e2] eqn:Eu end.
  - destruct (update_balances_orders c s1 o1 _ s2 u2 Eu) as [Eo2 _].
    pose proof (HOX_update_open c s1 o1 _ s2 u2 None Hop Eu H1) as H2.
    destruct (take_liquidity l (Qabsq bv)) as [l2|el]; cbn [lift obind] in H; [|inversion H; subst; left; exact H2].
    set (o2 := add_fill o1 when bv qv (match fee with Some f => f | None => 0 end)) in *.
    assert (Hl2 : (o_id o2 < length (s_orders s2))%nat) by (rewrite Eo2; exact Hl1).
    destruct (is_open o2) eqn:Eo; [cbn [obind] in H; discriminate H|].
    assert (Hg3 : get_order (put_order s2 o2) (o_id o2) = Some o2) by (apply get_put; exact Hl2).
    destruct (order_closed c (put_order s2 o2) o2) as [s4 o4|s4 e4] eqn:Ec; cbn [obind] in H; [discriminate H|].
    inversion H; subst.
    apply (HOB_order_closed c (put_order s2 o2) o2 s' e Hg3 Eo Ec). apply HOX_put_closed. exact H2.
  - pose proof (update_balances_fail _ _ _ _ _ _ Eu) as Es. subst s2.
    destruct e2; try (inversion H; subst; left; exact H1). apply (NF s1 eq_refl H1). exact H.
Qed.

Section Hist2.
Variable c : cfg.

Lemma HOB_process_all ids p when b : forall s l s' e,
  WF s -> liq_ok l -> process_all c s l ids p when b = Fail s' e -> HOI s -> HOB c s'.
Proof.
  induction ids as [|h r IH]; intros s l s' e Hw Hl H Hi; cbn [process_all] in H; [discriminate H|].
  destruct (get_order s h) as [oh|] eqn:Eg; [|exact (IH s l s' e Hw Hl H Hi)].
  destruct (is_open oh && pair_eqb (o_pair oh) p) eqn:Eop; [|exact (IH s l s' e Hw Hl H Hi)].
  assert (Eid : o_id oh = h) by (destruct Hw as (Ho & _); destruct (Ho _ _ Eg); assumption).
  assert (Hg : get_order s (o_id oh) = Some oh) by (rewrite Eid; exact Eg).
  apply andb_true_iff in Eop. destruct Eop as [Hopn _].
  assert (Hwo : was_open s (o_id oh)).
  { intros x Hx. unfold get_order in Hg. rewrite Hg in Hx. inversion Hx; subst. exact Hopn. }
  destruct (rp_process_order c s s l oh p when b (R_of_WF c s Hw) Hg Hwo Hl) as [R1 L1].
  destruct (process_order c s l oh p when b) as [s1 l1|s1 e1] eqn:Ep; cbn [obind sof] in *.
  - destruct R1 as (W1 & _).
    apply (IH s1 l1 s' e W1 L1 H). exact (HOI_process_order c s l oh p when b s1 l1 Hg Hopn Ep Hi).
  - inversion H; subst. exact (HOB_process_order c s l oh p when b s' e Hg Hopn Ep Hi).
Qed.

Lemma HOB_on_bar s p when b s' e :
  cfg_ok c -> 0 <= b_volume b -> WF s -> on_bar c s p when b = Fail s' e -> HOI s -> HOB c s'.
Proof.
  intros Hc Hv Hw H Hi. unfold on_bar, bump_reindex in H.
  set (s1 := set_open_idx (set_close_now s (set_pair (s_close s) p (b_close b)) (Some when))
                          (s_open_idx (set_close_now s (set_pair (s_close s) p (b_close b)) (Some when)))
                          (S (s_reidx (set_close_now s (set_pair (s_close s) p (b_close b)) (Some when))))) in *.
  assert (W1 : WF s1) by exact Hw.
  assert (I1 : HOI s1) by (apply (HOX_same None s s1); [reflexivity | reflexivity | exact Hi]).
  match type of H with obind (process_all c s1 ?l0 ?ids p when b) _ = _ =>
    assert (L0 : liq_ok l0); [|destruct (process_all c s1 l0 ids p when b) as [s2 l2|s2 e2] eqn:Epa] end.
  { unfold cfg_ok in Hc. destruct (c_liq c) as [|lp ip]; [exact I|]. cbn [liq_ok].
    split; [lra|]. apply Qmult_le_0_compat; [exact Hv|]. apply Qle_shift_div_l; lra. }
  - cbn [obind] in H. discriminate H.
  - cbn [obind] in H. inversion H; subst. exact (HOB_process_all _ p when b s1 _ s' e W1 L0 Epa I1).
Qed.

(* every history *)
Theorem reservations_belong_to_open_orders_always initial ops :
  cfg_ok c -> ops_ok ops -> NoDup (map fst initial) -> (forall kv, In kv initial -> 0 <= snd kv) ->
  HOI (run c (init_st initial) ops).
Proof.
  intros Hc. induction ops as [|o pre IH] using rev_ind; intros Ho Hnd Hpos.
  - split; [constructor | intros k m []].
  - pose proof (reachable_cancel_inv c initial (pre ++ [o]) Hc Ho Hnd Hpos) as Hci.
    apply Forall_app in Ho. destruct Ho as [Hpre Ho1]. inversion Ho1 as [|? ? Hoo _]; subst.
    specialize (IH Hpre Hnd Hpos). rewrite run_snoc in *.
    set (s := run c (init_st initial) pre) in *.
    assert (Hw : WF s) by (apply (run_prims c pre (init_st initial) Hc Hpre (WF_init initial))).
    destruct o as [p w b|k opr p amount ab ar|id|x a|id|pp]; cbn [step] in *.
    + destruct (on_bar c s p w b) as [s' u|s' e] eqn:Eb; cbn [snd fst] in *.
      * cbn [op_ok] in Hoo. exact (HOI_on_bar c s p w b s' u Hc Hoo Hw Eb IH).
      * cbn [op_ok] in Hoo. destruct (HOB_on_bar s p w b s' e Hc Hoo Hw Eb IH) as [X|X]; [exact X|].
        exfalso. exact (no_bad_release c s' Hci X).
    + pose proof (HOI_create_order c s k opr p amount ab ar Hw IH) as X.
      destruct (create_order c s k opr p amount ab ar); exact X.
    + destruct (cancel_order c s id) as [s' u|s' e] eqn:Ec; cbn [fst].
      * exact (HOI_cancel c s id s' u Hw Ec IH).
      * rewrite (cancel_fail_unchanged_reachable c initial pre id s' e Hc Hpre Hnd Hpos Ec). exact IH.
    + pose proof (kb_create_loan (s_orders s) (s_holds s) c s x a (Kb_refl s)) as X.
      destruct (create_loan c s x a); cbn [fst]; exact (HOX_of_kb None s _ X IH).
    + pose proof (kb_repay_loan (s_orders s) (s_holds s) c s id (Kb_refl s)) as X.
      destruct (repay_loan c s id); cbn [fst]; exact (HOX_of_kb None s _ X IH).
    + destruct (list_open s pp) as [s' ids] eqn:El. cbn [fst].
      unfold list_open, bump_reindex, finish_reindex in El.
      match type of El with context [if ?f then _ else _] => destruct f end; inversion El; subst s';
        apply (HOX_same None s); try reflexivity; exact IH.
Qed.

(* C06: whenever no order is open nothing is reserved and nothing is on hold -- in every reachable state *)
Theorem nothing_on_hold_when_no_order_is_open_always initial ops x :
  cfg_ok c -> ops_ok ops -> NoDup (map fst initial) -> (forall kv, In kv initial -> 0 <= snd kv) ->
  let s := run c (init_st initial) ops in
  (forall i o, nth_error (s_orders s) i = Some o -> is_open o = false) ->
  s_holds s = [] /\ vget (hold (s_acct s)) x == 0.
Proof.
  intros Hc Ho Hnd Hpos s Hall.
  destruct (reservations_belong_to_open_orders_always initial ops Hc Ho Hnd Hpos) as [_ Hi]. fold s in Hi.
  assert (E : s_holds s = []).
  { destruct (s_holds s) as [|[k m] r] eqn:Eh; [reflexivity|]. exfalso.
    destruct (Hi k m (or_introl eq_refl)) as [_ [B|B]]; [discriminate B|].
    unfold still_open, get_order in B. destruct (nth_error (s_orders s) k) as [o|] eqn:En; [|discriminate B].
    rewrite (Hall k o En) in B. discriminate B. }
  split; [exact E|].
  pose proof (holds_reachable c initial ops x Hc Ho Hpos) as Hh. cbv zeta in Hh. fold s in Hh.
  rewrite Hh. unfold hsum. rewrite E. reflexivity.
Qed.
End Hist2.
