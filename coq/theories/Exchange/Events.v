(* C05, whole history: the order events mirror the orders.  In every state reached by a history that starts with a bar
   (so that the exchange has a clock) and whose bars were all processed without an internal error: for every order, the
   events published for it are one for its acceptance, one for each fill and one more if it was cancelled (a market / stop
   order closed as not filled counts as cancelled) -- and the last of them shows the order as it is now (all of the record
   but the internal stop-hit latch, which is not part of the published order info).
   The proof follows each operation: an order record is only rewritten by the operation that accepts it, fills it or
   closes it, and that operation publishes the record it leaves behind before it ends. *)
From Coq Require Import ZArith QArith Qround Lia Lqa List Bool PArith.
From Basana Require Import Num.DecQ Num.DecQProofs Exchange.Model Exchange.AcctProofs Exchange.StepProofs
  Exchange.OpProofs Exchange.FeeProofs Exchange.OrderProofs Exchange.LifeProofs Exchange.Prims Exchange.FillBounds
  Exchange.Structure Exchange.LedgerProofs Exchange.AtomicProofs Exchange.CancelProofs Exchange.AutoRepayProofs
  Exchange.FillTimes Exchange.NoPartial Exchange.IndexProofs Exchange.FirstBar Exchange.HoldsOpen Exchange.EventTimes.
Import ListNotations.
Open Scope Q_scope.

Definition pub (o : order) : order := with_hit o false.
Definition canceled (o : order) : nat := match o_state o with SCanceled => 1%nat | _ => 0%nat end.
Definition ev_count (o : order) : nat := (1 + length (o_fills o) + canceled o)%nat.
Definition evs_of (i : nat) (es : list (Z * order)) : list order :=
  map snd (filter (fun e => Nat.eqb (o_id (snd e)) i) es).

(* the events of order [i] are as many as the record [o] accounts for, and the last one shows [o] *)
Definition EVo (es : list (Z * order)) (i : nat) (o : order) : Prop :=
  exists l lst, evs_of i es = l ++ [lst] /\ pub lst = pub o /\ length (l ++ [lst]) = ev_count o.

Lemma filter_none {A} (f : A -> bool) l : (forall x, In x l -> f x = false) -> filter f l = [].
Proof.
  induction l as [|a r IH]; intros H; [reflexivity|]. cbn [filter]. rewrite (H a (or_introl eq_refl)).
  apply IH. intros x Hx. apply H. right. exact Hx.
Qed.

Lemma evs_of_app i a b : evs_of i (a ++ b) = evs_of i a ++ evs_of i b.
Proof. unfold evs_of. rewrite filter_app, map_app. reflexivity. Qed.

Lemma evs_of_one_same t o : evs_of (o_id o) [(t, o)] = [o].
Proof. unfold evs_of. cbn [filter snd]. rewrite Nat.eqb_refl. reflexivity. Qed.

Lemma evs_of_one_other i t o : o_id o <> i -> evs_of i [(t, o)] = [].
Proof. intros H. unfold evs_of. cbn [filter snd]. apply Nat.eqb_neq in H. rewrite H. reflexivity. Qed.

(* ---------------------------------------------------------------------------------------------- *)
(* operations below the order manager publish nothing, keep the clock and the order records *)
Section EFrame.
Variable OS : list order.
Variable ES : list (Z * order).
Variable NW : option Z.
Definition Ke (s : st) : Prop := s_orders s = OS /\ s_events s = ES /\ s_now s = NW.
Definition ke {A} (r : outcome A) : Prop := Ke (sof r).

Lemma ke_obind A B (r : outcome A) (f : st -> A -> outcome B) :
  ke r -> (forall s a, Ke s -> ke (f s a)) -> ke (obind r f).
Proof. destruct r as [s a|s e]; unfold ke; cbn [obind sof]; intros H Hf; [apply Hf; exact H | exact H]. Qed.
Lemma ke_lift A s (r : res A) : Ke s -> ke (lift s r).
Proof. destruct r; unfold ke; cbn [lift sof]; auto. Qed.
Lemma ke_upd c s db dh dbo : Ke s -> ke (upd_acct c s db dh dbo).
Proof. intros H. unfold upd_acct. destruct (acct_update _ _ _ _ _); unfold ke; cbn [sof]; exact H. Qed.

Ltac ke_step :=
  match goal with
  | |- ke (obind _ _) => apply ke_obind; [| intros ? ? ?]
  | |- ke (lift _ _) => apply ke_lift
  | |- ke (upd_acct _ _ _ _ _) => apply ke_upd
  | |- ke (Done _ _) => unfold ke; cbn [sof]
  | |- ke (Fail _ _) => unfold ke; cbn [sof]
  | |- ke (if ?b then _ else _) => destruct b
  | |- ke (match ?x with _ => _ end) => destruct x
  | |- Ke _ => first [assumption | (unfold Ke in *; cbn; assumption)]
  end.
Ltac ke_auto := repeat ke_step.

Lemma ke_create_loan c s x a : Ke s -> ke (create_loan c s x a).
Proof. intros H. unfold create_loan. ke_auto. Qed.
Lemma ke_repay_loan c s id : Ke s -> ke (repay_loan c s id).
Proof. intros H. unfold repay_loan. ke_auto. Qed.
Lemma ke_cancel_loan c s id : Ke s -> ke (cancel_loan c s id).
Proof. intros H. unfold cancel_loan. ke_auto. Qed.
Lemma ke_update_balances c s o bu : Ke s -> ke (update_balances c s o bu).
Proof. intros H. unfold update_balances. ke_auto. Qed.

Lemma ke_rollback c ids : forall s, Ke s -> ke (rollback_loans c s ids).
Proof.
  induction ids as [|id r IH]; intros s H; cbn [rollback_loans]; [unfold ke; cbn [sof]; exact H|].
  apply ke_obind; [apply ke_cancel_loan; exact H | intros s' _ H'; apply IH; exact H'].
Qed.

Lemma ke_borrow_loop c shorts : forall s created, Ke s -> ke (borrow_loop c s shorts created).
Proof.
  induction shorts as [|[x a] r IH]; intros s created H; cbn [borrow_loop]; [unfold ke; cbn [sof]; exact H|].
  pose proof (ke_create_loan c s x a H) as H1.
  destruct (create_loan c s x a) as [s1 id|s1 e]; unfold ke in H1; cbn [sof] in H1; [apply IH; exact H1|].
  pose proof (ke_rollback c created s1 H1) as H2.
  destruct (rollback_loans c s1 created) as [s2 u|s2 e2]; unfold ke in *; cbn [sof] in *; exact H2.
Qed.

Lemma ke_repay_each c ids : forall s done, Ke s -> ke (repay_each c s ids done).
Proof.
  induction ids as [|id r IH]; intros s done H; cbn [repay_each]; [unfold ke; cbn [sof]; exact H|].
  pose proof (ke_repay_loan c s id H) as H1.
  destruct (repay_loan c s id) as [s1 u|s1 e]; unfold ke in H1; cbn [sof] in H1; [apply IH; exact H1|].
  destruct e; try (unfold ke; cbn [sof]; exact H1). apply IH; exact H1.
Qed.
End EFrame.

Lemma Ke_refl s : Ke (s_orders s) (s_events s) (s_now s) s.
Proof. repeat split. Qed.

(* ---------------------------------------------------------------------------------------------- *)
(* the invariant; the exception is the order whose record has been rewritten and not yet published, with the record the
   last event shows *)
Definition EVX (ex : option (nat * order)) (s : st) : Prop :=
  (forall e, In e (s_events s) -> (o_id (snd e) < length (s_orders s))%nat) /\
  forall i o, nth_error (s_orders s) i = Some o ->
    match ex with
    | Some (j, oprev) => if Nat.eqb i j then EVo (s_events s) i oprev else EVo (s_events s) i o
    | None => EVo (s_events s) i o
    end.
Definition EVI := EVX None.

Lemma EVX_same ex s s' : s_orders s' = s_orders s -> s_events s' = s_events s -> EVX ex s -> EVX ex s'.
Proof. intros Eo Ee [A B]. unfold EVX. rewrite Eo, Ee. split; assumption. Qed.

Lemma EVX_of_ke ex s s' : Ke (s_orders s) (s_events s) (s_now s) s' -> EVX ex s -> EVX ex s'.
Proof. intros (Eo & Ee & _). apply EVX_same; assumption. Qed.

Lemma nth_put s o i : nth_error (s_orders (put_order s o)) i =
  if Nat.eqb i (o_id o) then (match nth_error (s_orders s) i with Some _ => Some o | None => None end)
  else nth_error (s_orders s) i.
Proof. unfold put_order. cbn [set_orders s_orders]. apply nth_error_replace_nth. Qed.

(* rewriting a record: the order becomes (or stays) the exception *)
Lemma EVX_put_start s o o0 :
  get_order s (o_id o) = Some o0 -> EVX None s -> EVX (Some (o_id o, o0)) (put_order s o).
Proof.
  intros Hg [A B]. split.
  - intros e Hin. rewrite length_put. exact (A e Hin).
  - intros i x Hx. change (s_events (put_order s o)) with (s_events s). rewrite nth_put in Hx.
    destruct (Nat.eqb i (o_id o)) eqn:E.
    + apply Nat.eqb_eq in E. subst i. apply (B _ _ Hg).
    + apply (B _ _ Hx).
Qed.

Lemma EVX_put_again s o j oprev :
  o_id o = j -> EVX (Some (j, oprev)) s -> EVX (Some (j, oprev)) (put_order s o).
Proof.
  intros Ej [A B]. split.
  - intros e Hin. rewrite length_put. exact (A e Hin).
  - intros i x Hx. change (s_events (put_order s o)) with (s_events s). rewrite nth_put in Hx. rewrite Ej in Hx.
    destruct (Nat.eqb i j) eqn:E.
    + apply Nat.eqb_eq in E. subst i. destruct (nth_error (s_orders s) j) as [y|] eqn:Ey; [|discriminate Hx].
      specialize (B j y Ey). rewrite Nat.eqb_refl in B. exact B.
    + specialize (B i x Hx). rewrite E in B. exact B.
Qed.

(* a rewrite that the published info cannot see (the stop-hit latch) *)
Lemma EVX_put_hit s o h :
  get_order s (o_id o) = Some o -> EVX None s -> EVX None (put_order s (with_hit o h)).
Proof.
  intros Hg [A B]. split.
  - intros e Hin. rewrite length_put. exact (A e Hin).
  - intros i x Hx. change (s_events (put_order s (with_hit o h))) with (s_events s). rewrite nth_put in Hx.
    cbn [with_hit o_id] in Hx. destruct (Nat.eqb i (o_id o)) eqn:E.
    + apply Nat.eqb_eq in E. subst i. unfold get_order in Hg. rewrite Hg in Hx. inversion Hx; subst x.
      destruct (B _ _ Hg) as (l & lst & E1 & E2 & E3). exists l, lst. split; [exact E1|]. split; [exact E2 | exact E3].
    + apply (B _ _ Hx).
Qed.

(* publishing the record that is stored ends the exception *)
Lemma EVX_publish s j oprev o w t :
  EVX (Some (j, oprev)) s -> get_order s j = Some o -> o_id o = j -> ev_count o = S (ev_count oprev) ->
  (match w with Some t' => t' = t | None => s_now s = Some t end) ->
  EVX None (push_update s o w).
Proof.
  intros [A B] Hg Ej Ec Hw.
  assert (Ep : push_update s o w = add_event s (t, o)).
  { unfold push_update. destruct w as [t'|]; [subst t'; reflexivity | rewrite Hw; reflexivity]. }
  rewrite Ep. split.
  - intros e Hin. cbn [add_event s_events s_orders] in *. apply in_app_or in Hin. destruct Hin as [Hin|[<-|[]]]; [exact (A e Hin)|].
    cbn [snd]. rewrite Ej. apply nth_error_Some. unfold get_order in Hg. rewrite Hg. discriminate.
  - intros i x Hx. cbn [add_event s_events s_orders] in *. unfold EVo. rewrite evs_of_app. specialize (B i x Hx).
    unfold EVo in B. destruct (Nat.eqb i j) eqn:E.
    + apply Nat.eqb_eq in E. subst i. unfold get_order in Hg. rewrite Hg in Hx. inversion Hx; subst x.
      destruct B as (l & lst & E1 & _ & E3).
      assert (Eone : evs_of j [(t, o)] = [o]) by (rewrite <- Ej; apply evs_of_one_same). rewrite Eone.
      exists (l ++ [lst]), o. split; [rewrite E1; reflexivity|]. split; [reflexivity|].
      rewrite app_length. cbn [length]. rewrite E3, Ec. lia.
    + apply Nat.eqb_neq in E. rewrite evs_of_one_other by (rewrite Ej; congruence). rewrite app_nil_r. exact B.
Qed.

(* ---------------------------------------------------------------------------------------------- *)
(* closing an order: nothing is published, the record left behind is returned *)
Definition same_ev (o o' : order) : Prop :=
  o_id o' = o_id o /\ o_fills o' = o_fills o /\ o_state o' = o_state o.

Lemma order_closed_spec c s o s' o' j oprev :
  get_order s (o_id o) = Some o -> o_id o = j -> order_closed c s o = Done s' o' ->
  EVX (Some (j, oprev)) s ->
  EVX (Some (j, oprev)) s' /\ get_order s' j = Some o' /\ same_ev o o' /\ s_now s' = s_now s.
Proof.
  intros Hg Ej H Hx. unfold order_closed in H.
  pose proof (ke_update_balances (s_orders s) (s_events s) (s_now s) c s o [] (Ke_refl s)) as K1.
  destruct (update_balances c s o []) as [s1 u1|s1 e1]; cbn [obind] in H; [|discriminate H].
  unfold ke in K1. cbn [sof] in K1. pose proof (EVX_of_ke _ s s1 K1 Hx) as H1. destruct K1 as (Eo1 & Ee1 & En1).
  destruct (o_ar o && negb (Qzero (filled o))).
  - unfold repay_loans in H.
    destruct (check_infos c s1 (s_loans s1)) as [u2|e2]; cbn [lift obind] in H; [|discriminate H].
    match type of H with obind (repay_each c s1 ?ids []) _ = _ =>
      pose proof (ke_repay_each (s_orders s1) (s_events s1) (s_now s1) c ids s1 [] (Ke_refl s1)) as K2;
      destruct (repay_each c s1 ids []) as [s2 ids2|s2 e3] end; cbn [obind] in H; [|discriminate H].
    unfold ke in K2. cbn [sof] in K2. pose proof (EVX_of_ke _ s1 s2 K2 H1) as H2. destruct K2 as (Eo2 & Ee2 & En2).
    inversion H; subst s' o'. split; [apply EVX_put_again; [exact Ej | exact H2]|]. split.
    + rewrite <- Ej. change (o_id o) with (o_id (add_loans o ids2)). apply get_put. cbn [add_loans o_id].
      rewrite Eo2, Eo1. apply nth_error_Some. unfold get_order in Hg. rewrite Hg. discriminate.
    + split; [repeat split|]. change (s_now (put_order s2 (add_loans o ids2))) with (s_now s2). congruence.
  - inversion H; subst s' o'. split; [exact H1|]. split; [unfold get_order in *; rewrite Eo1, <- Ej; exact Hg|].
    split; [repeat split | exact En1].
Qed.

Section Hist.
Variable c : cfg.

(* cancellation, and market / stop orders closed as not filled *)
Lemma EVI_close_as s o w t s' u :
  get_order s (o_id o) = Some o -> is_open o = true ->
  (match w with Some t' => t' = t | None => s_now s = Some t end) ->
  obind (order_closed c (put_order s (with_state o SCanceled)) (with_state o SCanceled))
        (fun s o2 => Done (push_update s o2 w) tt) = Done s' u ->
  EVI s -> EVI s'.
Proof.
  intros Hg Hop Hw H Hi. set (o1 := with_state o SCanceled) in *.
  assert (Hl : (o_id o < length (s_orders s))%nat)
    by (apply nth_error_Some; unfold get_order in Hg; rewrite Hg; discriminate).
  assert (Hg1 : get_order (put_order s o1) (o_id o1) = Some o1) by (apply get_put; exact Hl).
  pose proof (EVX_put_start s o1 o Hg Hi) as H1.
  destruct (order_closed c (put_order s o1) o1) as [s2 o2|s2 e2] eqn:Ec; cbn [obind] in H; [|discriminate H].
  destruct (order_closed_spec c (put_order s o1) o1 s2 o2 (o_id o) o Hg1 eq_refl Ec H1) as (H2 & Hg2 & (Ei & Ef & Es) & En).
  inversion H; subst s'. apply (EVX_publish s2 (o_id o) o o2 w t H2 Hg2 Ei); [|destruct w; [exact Hw | rewrite En; exact Hw]].
  unfold ev_count, canceled. rewrite Ef, Es. cbn [o1 with_state o_fills o_state].
  unfold is_open in Hop. destruct (o_state o); try discriminate Hop. lia.
Qed.

Lemma EVI_cancel s id t s' u :
  WF s -> s_now s = Some t -> cancel_order c s id = Done s' u -> EVI s -> EVI s'.
Proof.
  intros Hw Hn H Hi. unfold cancel_order in H. destruct (get_order s id) as [o|] eqn:Eg; [|discriminate H].
  destruct (negb (is_open o)) eqn:Eo; [discriminate H|]. apply negb_false_iff in Eo.
  destruct (if o_ar o && negb (Qzero (filled o)) then check_infos c s (s_loans s) else Ok tt); cbn [lift obind] in H;
    [|discriminate H].
  assert (Eid : o_id o = id) by (destruct Hw as (Ho & _); destruct (Ho _ _ Eg); assumption).
  apply (EVI_close_as s o None t s' u); [rewrite Eid; exact Eg | exact Eo | exact Hn | exact H | exact Hi].
Qed.

Lemma EVI_order_not_filled s o when s' u :
  get_order s (o_id o) = Some o -> order_not_filled c s o when = Done s' u -> EVI s -> EVI s'.
Proof.
  intros Hg H Hi. unfold order_not_filled in H.
  destruct (o_kind o); try (inversion H; subst; exact Hi);
    (destruct (negb (is_open o)) eqn:Eo; [discriminate H|]; apply negb_false_iff in Eo; cbn zeta in H;
     exact (EVI_close_as s o (Some when) when s' u Hg Eo eq_refl H Hi)).
Qed.

(* processing an order against a bar *)
Lemma EVI_process_order s l o p when b s' l' :
  get_order s (o_id o) = Some o -> is_open o = true ->
  process_order c s l o p when b = Done s' l' -> EVI s -> EVI s'.
Proof.
  intros Hg Hop H Hi. unfold process_order in H.
  assert (Hl : (o_id o < length (s_orders s))%nat)
    by (apply nth_error_Some; unfold get_order in Hg; rewrite Hg; discriminate).
  destruct (balance_updates c l o b) as [[u hit]|ebu]; cbn [lift obind] in H; [|discriminate H].
  set (o1 := with_hit o hit) in *. set (s1 := put_order s o1) in *.
  assert (H1 : EVI s1) by (apply EVX_put_hit; assumption).
  assert (Hg1 : get_order s1 (o_id o1) = Some o1) by (apply (get_put s o1); exact Hl).
  destruct (get_pair_info c (o_pair o1)) as [pi|epi]; cbn [lift obind] in H; [|discriminate H].
  assert (NF : forall s2, s_orders s2 = s_orders s1 -> s_events s2 = s_events s1 -> EVI s2 ->
                obind (order_not_filled c s2 o1 when) (fun s _ => Done s l) = Done s' l' -> EVI s').
  { intros s2 E2 E3 I2 X. destruct (order_not_filled c s2 o1 when) as [s3 u3|s3 e3] eqn:En; cbn [obind] in X; [|discriminate X].
    assert (Es : s3 = s') by (inversion X; reflexivity). subst s'.
    apply (EVI_order_not_filled s2 o1 when s3 u3); [unfold get_order in *; rewrite E2; exact Hg1 | exact En | exact I2]. }
  destruct (match u with Some (bv, qv) => round_bu pi (Some bv) (Some qv) | None => (None, None) end) as [rb rq].
  destruct rb as [bv|]; [destruct rq as [qv|]|]; try (apply (NF s1 eq_refl eq_refl H1); exact H).
  destruct (calc_fee c (snd pi) o1 qv) as [fee|ef]; cbn [lift obind] in H; [|discriminate H].
  match type of H with (match update_balances c s1 o1 ?f with _ => _ end) = _ =>
    pose proof (ke_update_balances (s_orders s1) (s_events s1) (s_now s1) c s1 o1 f (Ke_refl s1)) as K2;
    destruct (update_balances c s1 o1 f) as [s2 u2|s2 e2] eqn:Eu end; unfold ke in K2; cbn [sof] in K2.
  - pose proof (EVX_of_ke None s1 s2 K2 H1) as H2. destruct K2 as (Eo2 & Ee2 & En2).
    destruct (take_liquidity l (Qabsq bv)) as [l2|el]; cbn [lift obind] in H; [|discriminate H].
    set (o2 := add_fill o1 when bv qv (match fee with Some f => f | None => 0 end)) in *.
    assert (Hg2 : get_order s2 (o_id o2) = Some o1) by (unfold get_order in *; rewrite Eo2; exact Hg1).
    assert (Hl2 : (o_id o2 < length (s_orders s2))%nat) by (rewrite Eo2; unfold s1; rewrite length_put; exact Hl).
    pose proof (EVX_put_start s2 o2 o1 Hg2 H2) as H3.
    assert (Hg3 : get_order (put_order s2 o2) (o_id o2) = Some o2) by (apply get_put; exact Hl2).
    assert (Ec2 : ev_count o2 = S (ev_count o1)).
    { unfold ev_count, canceled, o2, add_fill. cbn [o_fills o_state]. rewrite app_length. cbn [length].
      unfold is_open in Hop. cbn [o1 with_hit o_state o_fills o_amount].
      destruct (o_state o) eqn:Es; try discriminate Hop.
      destruct (Qle_bool _ _); lia. }
    destruct (is_open o2) eqn:Eo.
    + cbn [obind] in H. inversion H; subst s'.
      apply (EVX_publish (put_order s2 o2) (o_id o2) o1 o2 (Some when) when H3 Hg3 eq_refl Ec2 eq_refl).
    + destruct (order_closed c (put_order s2 o2) o2) as [s4 o4|s4 e4] eqn:Ec; cbn [obind] in H; [|discriminate H].
      destruct (order_closed_spec c (put_order s2 o2) o2 s4 o4 (o_id o2) o1 Hg3 eq_refl Ec H3) as (H4 & Hg4 & (Ei & Ef & Es) & _).
      inversion H; subst s'.
      apply (EVX_publish s4 (o_id o2) o1 o4 (Some when) when H4 Hg4 Ei); [|reflexivity].
      rewrite <- Ec2. unfold ev_count, canceled. rewrite Ef, Es. reflexivity.
  - destruct e2; try discriminate H. destruct K2 as (Eo2 & Ee2 & _).
    apply (NF s2 Eo2 Ee2); [apply (EVX_same None s1 s2 Eo2 Ee2 H1) | exact H].
Qed.

Lemma EVI_process_all ids p when b : forall s l s' l',
  WF s -> liq_ok l -> process_all c s l ids p when b = Done s' l' -> EVI s -> EVI s'.
Proof.
  induction ids as [|h r IH]; intros s l s' l' Hw Hl H Hi; cbn [process_all] in H; [inversion H; subst; exact Hi|].
  destruct (get_order s h) as [oh|] eqn:Eg; [|exact (IH s l s' l' Hw Hl H Hi)].
  destruct (is_open oh && pair_eqb (o_pair oh) p) eqn:Eop; [|exact (IH s l s' l' Hw Hl H Hi)].
  assert (Eid : o_id oh = h) by (destruct Hw as (Ho & _); destruct (Ho _ _ Eg); assumption).
  assert (Hg : get_order s (o_id oh) = Some oh) by (rewrite Eid; exact Eg).
  apply andb_true_iff in Eop. destruct Eop as [Hopn _].
  assert (Hwo : was_open s (o_id oh)).
  { intros x Hx. unfold get_order in Hg. rewrite Hg in Hx. inversion Hx; subst. exact Hopn. }
  destruct (rp_process_order c s s l oh p when b (R_of_WF c s Hw) Hg Hwo Hl) as [R1 L1].
  destruct (process_order c s l oh p when b) as [s1 l1|s1 e1] eqn:Ep; cbn [obind sof] in *; [|discriminate H].
  destruct R1 as (W1 & _).
  apply (IH s1 l1 s' l' W1 L1 H). exact (EVI_process_order s l oh p when b s1 l1 Hg Hopn Ep Hi).
Qed.

Lemma EVI_on_bar s p when b s' u :
  cfg_ok c -> 0 <= b_volume b -> WF s -> on_bar c s p when b = Done s' u -> EVI s -> EVI s'.
Proof.
  intros Hc Hv Hw H Hi. unfold on_bar, bump_reindex in H.
  set (s1 := set_open_idx (set_close_now s (set_pair (s_close s) p (b_close b)) (Some when))
                          (s_open_idx (set_close_now s (set_pair (s_close s) p (b_close b)) (Some when)))
                          (S (s_reidx (set_close_now s (set_pair (s_close s) p (b_close b)) (Some when))))) in *.
  assert (W1 : WF s1) by exact Hw.
  assert (I1 : EVI s1) by (apply (EVX_same None s s1); [reflexivity | reflexivity | exact Hi]).
  match type of H with obind (process_all c s1 ?l0 ?ids p when b) _ = _ =>
    assert (L0 : liq_ok l0); [|destruct (process_all c s1 l0 ids p when b) as [s2 l2|s2 e2] eqn:Epa] end.
  { unfold cfg_ok in Hc. destruct (c_liq c) as [|lp ip]; [exact I|]. cbn [liq_ok].
    split; [lra|]. apply Qmult_le_0_compat; [exact Hv|]. apply Qle_shift_div_l; lra. }
  2:{ cbn [obind] in H. discriminate H. }
  cbn [obind] in H. inversion H; subst s'.
  pose proof (EVI_process_all _ p when b s1 _ s2 l2 W1 L0 Epa I1) as I2.
  unfold finish_reindex. match goal with |- EVI (if ?f then _ else _) => destruct f end; [|exact I2].
  apply (EVX_same None s2); [reflexivity | reflexivity | exact I2].
Qed.

(* accepting (or rejecting) a request *)
Lemma EVI_add_order s o t :
  s_now s = Some t -> o_id o = length (s_orders s) -> o_state o = SOpen -> o_fills o = [] ->
  EVI s -> EVI (sof (add_order c s o)).
Proof.
  intros Hn Hid Hst Hfl Hi. unfold add_order.
  destruct (estimate_required c s o) as [req|e]; cbn [lift obind sof]; [|exact Hi].
  set (mk := fun lids => mkOrder (o_id o) (o_kind o) (o_op o) (o_pair o) (o_amount o) (o_state o) (o_fb o) (o_fq o)
                                 (o_fee o) (o_hit o) (o_ab o) (o_ar o) lids (o_fills o)).
  (* appending the accepted order and publishing it *)
  assert (App : forall s2 lids, s_orders s2 = s_orders s -> s_events s2 = s_events s -> s_now s2 = Some t ->
                  EVI (push_update (set_open_idx (set_orders s2 (s_orders s2 ++ [mk lids]))
                         (if is_open (mk lids) then s_open_idx (set_orders s2 (s_orders s2 ++ [mk lids])) ++ [o_id (mk lids)]
                          else s_open_idx (set_orders s2 (s_orders s2 ++ [mk lids])))
                         (s_reidx (set_orders s2 (s_orders s2 ++ [mk lids])))) (mk lids) None)).
  { intros s2 lids Eo Ee En2. destruct Hi as [A B]. unfold push_update. cbn [set_open_idx set_orders s_now]. rewrite En2.
    split.
    - intros e Hin. cbn [add_event set_open_idx set_orders s_events s_orders] in *. rewrite app_length. cbn [length].
      apply in_app_or in Hin. destruct Hin as [Hin|[<-|[]]].
      + rewrite Ee in Hin. specialize (A e Hin). rewrite Eo. lia.
      + cbn [snd mk o_id]. rewrite Eo, Hid. lia.
    - intros i x Hx. cbn [add_event set_open_idx set_orders s_events s_orders] in *. unfold EVo. rewrite evs_of_app, Ee.
      rewrite Eo in Hx. rewrite nth_error_snoc in Hx. destruct (Nat.eqb i (length (s_orders s))) eqn:E.
      + apply Nat.eqb_eq in E. subst i. inversion Hx; subst x.
        assert (Enone : evs_of (length (s_orders s)) (s_events s) = []).
        { unfold evs_of. rewrite filter_none; [reflexivity|]. intros e Hin.
          specialize (A e Hin). apply Nat.eqb_neq. lia. }
        rewrite Enone. cbn [app]. rewrite <- Hid. change (o_id o) with (o_id (mk lids)). rewrite evs_of_one_same.
        exists [], (mk lids). split; [reflexivity|]. split; [reflexivity|].
        unfold ev_count, canceled. cbn [mk o_fills o_state app length]. rewrite Hfl, Hst. reflexivity.
      + apply Nat.eqb_neq in E. rewrite evs_of_one_other by (cbn [mk o_id]; rewrite Hid; congruence).
        rewrite app_nil_r. exact (B i x Hx). }
  destruct (vnonempty req).
  - pose proof (ke_borrow_loop (s_orders s) (s_events s) (s_now s) c (shorts_of (s_acct s) req) s [] (Ke_refl s)) as KB.
    assert (B : Ke (s_orders s) (s_events s) (s_now s)
                   (sof (if o_ab o then borrow_loop c s (shorts_of (s_acct s) req) [] else Done s []))).
    { destruct (o_ab o); [exact KB | apply Ke_refl]. }
    destruct (if o_ab o then borrow_loop c s (shorts_of (s_acct s) req) [] else Done s []) as [s1 lids|s1 e];
      cbn [sof obind] in *; [|exact (EVX_of_ke None s s1 B Hi)].
    pose proof (EVX_of_ke None s s1 B Hi) as I1. destruct B as (Eo1 & Ee1 & En1).
    destruct (upd_acct c s1 [] req []) as [s2 []|s2 e] eqn:E; cbn [obind sof].
    + apply upd_acct_done in E. destruct E as (a' & _ & ->).
      apply (App (set_holds (set_acct s1 a') (holds_set (s_holds (set_acct s1 a')) (o_id o) req)) lids);
        cbn [set_holds set_acct s_orders s_events s_now]; congruence.
    + apply upd_acct_fail in E. subst. exact I1.
  - cbn [obind sof]. apply (App s []); [reflexivity | reflexivity | exact Hn].
Qed.

Lemma EVI_create_order s k op p amount ab ar t :
  s_now s = Some t -> EVI s -> EVI (sof (create_order c s k op p amount ab ar)).
Proof.
  intros Hn Hi. unfold create_order.
  destruct (get_pair_info c p); cbn [lift obind sof]; [|exact Hi].
  destruct (validate _ k amount); cbn [lift obind sof]; [|exact Hi].
  apply (EVI_add_order s _ t); [exact Hn | reflexivity | reflexivity | reflexivity | exact Hi].
Qed.

(* the exchange has a clock from its first bar on *)
Definition clocked (ops : list op) : Prop :=
  match ops with [] => True | OBar _ _ _ :: _ => True | _ => False end.

Lemma times_ok_app_l a : forall now b, times_ok now (a ++ b) -> times_ok now a.
Proof.
  induction a as [|o r IH]; intros now b H; [exact I|]. cbn [app times_ok] in *. destruct H as [H1 H2].
  split; [exact H1 | exact (IH _ b H2)].
Qed.

Lemma run_now ops : forall s,
  times_ok (s_now s) ops -> EI s -> (s_now s <> None \/ (clocked ops /\ ops <> [])) -> s_now (run c s ops) <> None.
Proof.
  unfold run. induction ops as [|o r IH]; intros s Ht Hi Hn; cbn [fold_left].
  - destruct Hn as [Hn|[_ Hn]]; [exact Hn | congruence].
  - destruct Ht as [Ho Hr]. destruct (EI_step c s o Ho Hi) as [I1 N1].
    apply IH; [rewrite N1; exact Hr | exact I1 | left]. rewrite N1.
    destruct o; try discriminate; destruct Hn as [Hn|[Hc _]]; try exact Hn; try (destruct Hc).
Qed.

Theorem events_mirror_orders initial ops :
  cfg_ok c -> ops_ok ops -> NoDup (map fst initial) -> (forall kv, In kv initial -> 0 <= snd kv) ->
  bars_processed c initial ops -> clocked ops -> times_ok None ops ->
  EVI (run c (init_st initial) ops).
Proof.
  intros Hc. induction ops as [|o pre IH] using rev_ind; intros Ho Hnd Hpos Hb Hck Ht.
  - split; [intros e [] | intros [|i] x X; discriminate X].
  - apply Forall_app in Ho. destruct Ho as [Hpre Ho1]. inversion Ho1 as [|? ? Hoo _]; subst.
    assert (Hbp : bars_processed c initial pre).
    { intros pre0 p w b post E. apply (Hb pre0 p w b (post ++ [o])). rewrite E, <- app_assoc. reflexivity. }
    assert (Hckp : clocked pre) by (destruct pre as [|[] ?]; cbn in *; auto).
    pose proof (times_ok_app_l pre None [o] Ht) as Htp.
    specialize (IH Hpre Hnd Hpos Hbp Hckp Htp). rewrite run_snoc.
    set (s := run c (init_st initial) pre) in *.
    assert (Hw : WF s) by (apply (run_prims c pre (init_st initial) Hc Hpre (WF_init initial))).
    assert (Hi0 : EI (init_st initial)) by (split; [constructor | reflexivity]).
    assert (Hnow : pre <> [] -> exists t, s_now s = Some t).
    { intros Hne. pose proof (run_now pre (init_st initial) Htp Hi0 (or_intror (conj Hckp Hne))) as X. fold s in X.
      destruct (s_now s) as [t|]; [exists t; reflexivity | congruence]. }
    destruct o as [p w b|k opr p amount ab ar|id|x a|id|pp]; cbn [step].
    + specialize (Hb pre p w b [] eq_refl). cbn [step] in Hb. fold s in Hb.
      destruct (on_bar c s p w b) as [s' u|s' e] eqn:Eb; cbn [snd fst] in *; [|discriminate Hb].
      cbn [op_ok] in Hoo. exact (EVI_on_bar s p w b s' u Hc Hoo Hw Eb IH).
    + assert (Hne : pre <> []) by (destruct pre; [destruct Hck | discriminate]).
      destruct (Hnow Hne) as [t Et].
      pose proof (EVI_create_order s k opr p amount ab ar t Et IH) as X.
      destruct (create_order c s k opr p amount ab ar); exact X.
    + assert (Hne : pre <> []) by (destruct pre; [destruct Hck | discriminate]).
      destruct (Hnow Hne) as [t Et].
      destruct (cancel_order c s id) as [s' u|s' e] eqn:Ec; cbn [fst].
      * exact (EVI_cancel s id t s' u Hw Et Ec IH).
      * rewrite (cancel_fail_unchanged_reachable c initial pre id s' e Hc Hpre Hnd Hpos Ec). exact IH.
    + pose proof (ke_create_loan (s_orders s) (s_events s) (s_now s) c s x a (Ke_refl s)) as X.
      destruct (create_loan c s x a); cbn [fst]; exact (EVX_of_ke None s _ X IH).
    + pose proof (ke_repay_loan (s_orders s) (s_events s) (s_now s) c s id (Ke_refl s)) as X.
      destruct (repay_loan c s id); cbn [fst]; exact (EVX_of_ke None s _ X IH).
    + destruct (list_open s pp) as [s' ids] eqn:El. cbn [fst].
      unfold list_open, bump_reindex, finish_reindex in El.
      match type of El with context [if ?f then _ else _] => destruct f end; inversion El; subst s';
        apply (EVX_same None s); try reflexivity; exact IH.
Qed.

(* C05: one event per acceptance, fill and cancellation, the last of which shows the order as it is *)
Theorem order_events_mirror_the_order initial ops i o :
  cfg_ok c -> ops_ok ops -> NoDup (map fst initial) -> (forall kv, In kv initial -> 0 <= snd kv) ->
  bars_processed c initial ops -> clocked ops -> times_ok None ops ->
  let s := run c (init_st initial) ops in
  nth_error (s_orders s) i = Some o ->
  exists earlier lst, evs_of i (s_events s) = earlier ++ [lst] /\ pub lst = pub o /\
    length (earlier ++ [lst]) = (1 + length (o_fills o) + canceled o)%nat.
Proof.
  intros Hc Ho Hnd Hpos Hb Hck Ht s Hn.
  destruct (events_mirror_orders initial ops Hc Ho Hnd Hpos Hb Hck Ht) as [_ B]. exact (B i o Hn).
Qed.
End Hist.
