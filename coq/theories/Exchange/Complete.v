(* C04, completeness of market and stop orders.  What processing one market / stop order against a bar of its pair
   leads to, for every state, liquidity and bar: the order ends up closed, and it has either traded its whole amount or
   nothing -- and "nothing" only for one of three reasons that can be read off the inputs: the order type proposed no fill
   for this bar (not enough liquidity left for the whole amount, or a stop price the bar does not reach), the proposed
   fill rounds to nothing at the pair's precision, or the account refused the update of the fill for lack of funds.
   Corollaries: with unlimited liquidity a market order, and a stop order whose stop price the bar reaches, are completely
   filled unless the quote amount rounds to nothing or funds are lacking -- "completely filled by the next bar, funds
   permitting". *)
From Coq Require Import ZArith QArith Qround Lia Lqa List Bool PArith.
From Basana Require Import Num.DecQ Num.DecQProofs Exchange.Model Exchange.AcctProofs Exchange.StepProofs
  Exchange.OpProofs Exchange.FeeProofs Exchange.OrderProofs Exchange.LifeProofs Exchange.Prims Exchange.FillBounds
  Exchange.Structure Exchange.FillTimes Exchange.NoPartial Exchange.IndexProofs Exchange.FirstBar.
Import ListNotations.
Open Scope Q_scope.

Section Complete.
Variable c : cfg.

(* why a market / stop order was closed without a fill *)
Definition nothing_proposed (l : liq) (o : order) (b : bar) : Prop :=
  exists hit, balance_updates c l o b = Ok (None, hit).
Definition rounds_to_nothing (l : liq) (o : order) (b : bar) : Prop :=
  exists hit b0 q0 pi, balance_updates c l o b = Ok (Some (b0, q0), hit) /\ get_pair_info c (o_pair o) = Ok pi /\
                       (fst (round_bu pi (Some b0) (Some q0)) = None \/ snd (round_bu pi (Some b0) (Some q0)) = None).
Definition refused_for_funds (s : st) (o : order) : Prop :=
  exists hit final s2, update_balances c (put_order s (with_hit o hit)) (with_hit o hit) final = Fail s2 ENotEnough.

Lemma Qabsq_zero x : x == 0 -> Qabsq x == 0.
Proof. intros E. unfold Qabsq. destruct (Qle_bool 0 x); lra. Qed.

Lemma aon_not_filled_record s o when s' u :
  aon (o_kind o) -> (o_id o < length (s_orders s))%nat ->
  order_not_filled c s o when = Done s' u ->
  exists o', get_order s' (o_id o) = Some o' /\ is_open o' = false /\ o_fb o' = o_fb o.
Proof.
  intros Ka Hl H. unfold order_not_filled in H.
  assert (X : (if negb (is_open o) then Fail s EAssert else
               let o1 := with_state o SCanceled in let s1 := put_order s o1 in
               obind (order_closed c s1 o1) (fun s o2 => Done (push_update s o2 (Some when)) tt)) = Done s' u).
  { destruct Ka as [Ek | [sp Ek]]; rewrite Ek in H; exact H. }
  clear H. destruct (negb (is_open o)); [discriminate X|]. cbn zeta in X.
  assert (Hg : get_order (put_order s (with_state o SCanceled)) (o_id (with_state o SCanceled)) = Some (with_state o SCanceled))
    by (apply get_put; exact Hl).
  destruct (order_closed c (put_order s (with_state o SCanceled)) (with_state o SCanceled)) as [s2 o2|s2 e2] eqn:Ec;
    cbn [obind] in X; [|discriminate X].
  destruct (order_closed_state _ _ _ _ _ Hg Ec) as (o3 & Hg3 & Es3 & Ef3). inversion X; subst s'.
  exists o3. split; [|split].
  - unfold get_order in *. rewrite orders_push. exact Hg3.
  - unfold is_open. rewrite Es3. reflexivity.
  - exact Ef3.
Qed.

(* the outcome of processing a market / stop order *)
Theorem aon_order_outcome s l o p when b s' l' :
  get_order s (o_id o) = Some o -> is_open o = true -> aon (o_kind o) -> NP c o ->
  process_order c s l o p when b = Done s' l' ->
  exists o', get_order s' (o_id o) = Some o' /\ is_open o' = false /\
    (filled o' == o_amount o \/
     (filled o' == 0 /\ (nothing_proposed l o b \/ rounds_to_nothing l o b \/ refused_for_funds s o))).
Proof.
  intros Hg Hop Ka Hnp H. unfold process_order in H.
  assert (Hl : (o_id o < length (s_orders s))%nat)
    by (apply nth_error_Some; unfold get_order in Hg; rewrite Hg; discriminate).
  destruct (Hnp Ka) as (_ & _ & Hz0 & _). specialize (Hz0 Hop).
  destruct (balance_updates c l o b) as [[u hit]|ebu] eqn:Ebu; cbn [lift obind] in H; [|discriminate H].
  set (o1 := with_hit o hit) in *. set (s1 := put_order s o1) in *.
  assert (Ka1 : aon (o_kind o1)) by exact Ka.
  assert (Hl1 : (o_id o1 < length (s_orders s1))%nat) by (unfold s1; rewrite length_put; exact Hl).
  destruct (get_pair_info c (o_pair o1)) as [pi|epi] eqn:Epi; cbn [lift obind] in H; [|discriminate H].
  destruct (match u with Some (bv, qv) => round_bu pi (Some bv) (Some qv) | None => (None, None) end) as [rb rq] eqn:Er.
  (* the not-filled exits *)
  assert (NF : forall s2, s_orders s2 = s_orders s1 ->
                obind (order_not_filled c s2 o1 when) (fun s _ => Done s l) = Done s' l' ->
                (nothing_proposed l o b \/ rounds_to_nothing l o b \/ refused_for_funds s o) ->
                exists o', get_order s' (o_id o) = Some o' /\ is_open o' = false /\
                  (filled o' == o_amount o \/
                   (filled o' == 0 /\ (nothing_proposed l o b \/ rounds_to_nothing l o b \/ refused_for_funds s o)))).
  { intros s2 E2 X Why. destruct (order_not_filled c s2 o1 when) as [s3 u3|s3 e3] eqn:En; cbn [obind] in X; [|discriminate X].
    assert (Es : s3 = s') by (inversion X; reflexivity). subst s'.
    assert (Hl2 : (o_id o1 < length (s_orders s2))%nat) by (rewrite E2; exact Hl1).
    destruct (aon_not_filled_record s2 o1 when s3 u3 Ka1 Hl2 En) as (o' & G' & C' & F').
    exists o'. split; [exact G'|]. split; [exact C'|]. right. split; [|exact Why].
    unfold filled. rewrite F'. apply Qabsq_zero. exact Hz0. }
  assert (Why1 : u = None -> nothing_proposed l o b) by (intros E; exists hit; rewrite Ebu, E; reflexivity).
  assert (Why2 : forall b0 q0, u = Some (b0, q0) -> (rb = None \/ rq = None) -> rounds_to_nothing l o b).
  { intros b0 q0 E Hn. subst u. exists hit, b0, q0, pi. split; [exact Ebu|]. split; [exact Epi|]. rewrite Er. exact Hn. }
  destruct rb as [bv|].
  2:{ apply (NF s1 eq_refl H). destruct u as [[b0 q0]|]; [right; left; apply (Why2 b0 q0 eq_refl); left; reflexivity | left; apply Why1; reflexivity]. }
  destruct rq as [qv|].
  2:{ apply (NF s1 eq_refl H). destruct u as [[b0 q0]|]; [right; left; apply (Why2 b0 q0 eq_refl); right; reflexivity | left; apply Why1; reflexivity]. }
  destruct u as [[b0 q0]|]; [|discriminate Er].
  destruct (calc_fee c (snd pi) o1 qv) as [fee|ef] eqn:Ef; cbn [lift obind] in H; [|discriminate H].
  match type of H with (match update_balances c s1 o1 ?f with _ => _ end) = _ =>
    pose proof (ko_update_balances (s_orders s1) c s1 o1 f eq_refl) as K2;
    destruct (update_balances c s1 o1 f) as [s2 u2|s2 e2] eqn:Eu end; unfold ko, Ko in K2; cbn [sof] in K2.
  - destruct (take_liquidity l (Qabsq bv)) as [l2|el] eqn:El; cbn [lift obind] in H; [|discriminate H].
    set (o2 := add_fill o1 when bv qv (match fee with Some f => f | None => 0 end)) in *.
    assert (Hl2 : (o_id o2 < length (s_orders s2))%nat) by (rewrite K2; exact Hl1).
    pose proof (NP_fill c l o b when Hop hit pi b0 q0 bv qv fee Ebu Epi Er Ef Hnp) as N2.
    destruct (N2 Ka) as (_ & _ & Hz & Hall).
    assert (Hnz : ~ o_fb o2 == 0).
    { destruct pi as [bp qp]. destruct (round_bu_some bp qp b0 q0 bv qv Er) as (Eb & Enz & _).
      apply Qzero_false in Enz. intros E. apply Enz. rewrite <- Eb.
      unfold o2, add_fill in E. cbn [o_fb with_hit o1] in E. rewrite Qred_correct in E. lra. }
    assert (Hcl : is_open o2 = false).
    { destruct (is_open o2) eqn:Eo2; [exfalso|reflexivity]. apply Hnz. exact (Hz Eo2). }
    rewrite Hcl in H.
    assert (Hg2 : get_order (put_order s2 o2) (o_id o2) = Some o2) by (apply get_put; exact Hl2).
    destruct (order_closed c (put_order s2 o2) o2) as [s4 o4|s4 e4] eqn:Ec; cbn [obind] in H; [|discriminate H].
    destruct (order_closed_state _ _ _ _ _ Hg2 Ec) as (o5 & Hg5 & Es5 & Ef5). inversion H; subst s'.
    exists o5. split; [|split].
    + unfold get_order in *. rewrite orders_push. exact Hg5.
    + unfold is_open in *. rewrite Es5. exact Hcl.
    + left. unfold filled. rewrite Ef5. destruct Hall as [Hall|Hall]; [exfalso; exact (Hnz Hall) | exact Hall].
  - destruct e2; try discriminate H. apply (NF s2 K2 H). right. right.
    match type of Eu with update_balances c s1 o1 ?f = _ => exists hit, f, s2 end. exact Eu.
Qed.

Lemma Qltb_intro a b : a < b -> Qltb a b = true.
Proof. intros H. destruct (Qltb a b) eqn:E; [reflexivity|]. apply Qltb_false' in E. lra. Qed.

(* with unlimited liquidity a market order always proposes its whole amount *)
Lemma market_always_proposes o b : o_kind o = KMarket -> 0 < pending o -> ~ nothing_proposed None o b.
Proof.
  intros Hk Hp (hit & H). unfold balance_updates in H. rewrite Hk in H. cbn [gt_avail liq_avail] in H.
  assert (Hlt : Qltb 0 (pending o) = true) by (apply Qltb_intro; exact Hp).
  destruct (o_op o); unfold slipped, price_impact in H; rewrite Hlt in H; cbn [rbind] in H; discriminate H.
Qed.

Lemma Qminq_pos a b : 0 < a -> 0 < b -> 0 < Qminq a b.
Proof. intros Ha Hb. unfold Qminq. destruct (Qle_bool a b); assumption. Qed.
Lemma Qmaxq_pos a b : 0 < a -> 0 < Qmaxq a b.
Proof. intros Ha. pose proof (Qmaxq_ge_l a b). lra. Qed.

(* ... and so does a stop order whose stop price the bar reaches *)
Definition reaches_stop (o : order) (b : bar) (sp : Q) : Prop :=
  match o_op o with Buy => sp <= b_high b | Sell => b_low b <= sp end.

Lemma stop_proposes_when_reached o b sp :
  o_kind o = KStop sp -> 0 < sp -> bar_ok b -> 0 < pending o -> reaches_stop o b sp -> ~ nothing_proposed None o b.
Proof.
  intros Hk Hsp (Hlo & Hoh & _ & _ & Hpos) Hp Hr (hit & H). unfold balance_updates in H. rewrite Hk in H.
  cbn [gt_avail liq_avail] in H. unfold reaches_stop in Hr.
  assert (Hlt : Qltb 0 (pending o) = true) by (apply Qltb_intro; exact Hp).
  assert (Z1 : forall x, 0 < x -> Qzero x = false).
  { intros x Hx. unfold Qzero. destruct (Qeq_bool x 0) eqn:E; [apply Qeq_bool_iff in E; lra | reflexivity]. }
  destruct (o_op o).
  - destruct (Qle_bool sp (b_open b)) eqn:E1.
    + rewrite (Z1 (b_open b)) in H by lra. unfold slipped, price_impact in H. rewrite Hlt in H. cbn [rbind] in H.
      match type of H with context [Qzero ?x] => rewrite (Z1 x) in H end; [discriminate H|].
      apply Qminq_pos; nra.
    + apply Qle_bool_iff in Hr. rewrite Hr in H. rewrite (Z1 sp Hsp) in H.
      unfold slipped, price_impact in H. rewrite Hlt in H. cbn [rbind] in H.
      match type of H with context [Qzero ?x] => rewrite (Z1 x) in H end; [discriminate H|].
      apply Qminq_pos; nra.
  - destruct (Qle_bool (b_open b) sp) eqn:E1.
    + rewrite (Z1 (b_open b)) in H by lra. unfold slipped, price_impact in H. rewrite Hlt in H. cbn [rbind] in H.
      match type of H with context [Qzero ?x] => rewrite (Z1 x) in H end; [discriminate H|].
      apply Qmaxq_pos; nra.
    + apply Qle_bool_iff in Hr. rewrite Hr in H. rewrite (Z1 sp Hsp) in H.
      unfold slipped, price_impact in H. rewrite Hlt in H. cbn [rbind] in H.
      match type of H with context [Qzero ?x] => rewrite (Z1 x) in H end; [discriminate H|].
      apply Qmaxq_pos; nra.
Qed.

Lemma NP_pending o : aon (o_kind o) -> NP c o -> is_open o = true -> 0 < pending o.
Proof.
  intros Ka Hnp Hop. destruct (Hnp Ka) as (_ & Hpos & Hz & _). specialize (Hz Hop).
  unfold pending, filled. rewrite (Qabsq_zero _ Hz). lra.
Qed.

(* C04: with unlimited liquidity a market order is completely filled by the bar that processes it, unless the quote
   amount of the fill rounds to nothing or the account lacks the funds *)
Theorem market_order_filled_funds_permitting s o p when b s' l' :
  get_order s (o_id o) = Some o -> is_open o = true -> o_kind o = KMarket -> NP c o ->
  process_order c s None o p when b = Done s' l' ->
  exists o', get_order s' (o_id o) = Some o' /\ is_open o' = false /\
    (filled o' == o_amount o \/ (filled o' == 0 /\ (rounds_to_nothing None o b \/ refused_for_funds s o))).
Proof.
  intros Hg Hop Hk Hnp H. assert (Ka : aon (o_kind o)) by (left; exact Hk).
  destruct (aon_order_outcome s None o p when b s' l' Hg Hop Ka Hnp H) as (o' & G & C & [F|[F [W|W]]]);
    exists o'; (split; [exact G|]); (split; [exact C|]); [left; exact F | | right; split; [exact F | exact W]].
  exfalso. exact (market_always_proposes o b Hk (NP_pending o Ka Hnp Hop) W).
Qed.

Theorem stop_order_filled_when_reached_funds_permitting s o p when b sp s' l' :
  get_order s (o_id o) = Some o -> is_open o = true -> o_kind o = KStop sp -> 0 < sp -> NP c o -> bar_ok b ->
  reaches_stop o b sp ->
  process_order c s None o p when b = Done s' l' ->
  exists o', get_order s' (o_id o) = Some o' /\ is_open o' = false /\
    (filled o' == o_amount o \/ (filled o' == 0 /\ (rounds_to_nothing None o b \/ refused_for_funds s o))).
Proof.
  intros Hg Hop Hk Hsp Hnp Hb Hr H. assert (Ka : aon (o_kind o)) by (right; exists sp; exact Hk).
  destruct (aon_order_outcome s None o p when b s' l' Hg Hop Ka Hnp H) as (o' & G & C & [F|[F [W|W]]]);
    exists o'; (split; [exact G|]); (split; [exact C|]); [left; exact F | | right; split; [exact F | exact W]].
  exfalso. exact (stop_proposes_when_reached o b sp Hk Hsp Hb (NP_pending o Ka Hnp Hop) Hr W).
Qed.

(* ---------------------------------------------------------------------------------------------- *)
(* limit orders: with unlimited liquidity, a bar whose range reaches the limit fills the whole pending amount *)
Definition reaches_limit (o : order) (b : bar) (lp : Q) : Prop :=
  match o_op o with Buy => b_low b <= lp | Sell => lp <= b_high b end.

Lemma Z1 x : 0 < x -> Qzero x = false.
Proof. intros Hx. unfold Qzero. destruct (Qeq_bool x 0) eqn:E; [apply Qeq_bool_iff in E; lra | reflexivity]. Qed.

Lemma limit_proposes_when_reached o b lp :
  o_kind o = KLimit lp -> 0 < lp -> bar_ok b -> 0 < pending o -> reaches_limit o b lp ->
  exists price, 0 < price /\
    balance_updates c None o b = Ok (Some (pending o * sign_of (o_op o), price * pending o * - sign_of (o_op o)), o_hit o).
Proof.
  intros Hk Hlp (Hlo & Hoh & _ & _ & Hpos) Hp Hr. unfold balance_updates. rewrite Hk. unfold limit_updates.
  cbn [min_avail liq_avail]. rewrite (Z1 _ Hp). unfold reaches_limit in Hr.
  assert (Hlt : Qltb 0 (pending o) = true) by (apply Qltb_intro; exact Hp).
  destruct (o_op o) eqn:Eop.
  - destruct (Qltb (b_open b) lp) eqn:E1.
    + unfold slipped, price_impact. rewrite Hlt. cbn [rbind]. unfold mk_updates. rewrite (Z1 _ Hp). cbn [orb].
      match goal with |- context [Qzero ?x] => assert (Hx : 0 < x) by (apply Qminq_pos; nra); rewrite (Z1 x Hx); exists x end.
      split; [exact Hx | rewrite ?Eop; reflexivity].
    + apply Qle_bool_iff in Hr. rewrite Hr. cbn [rbind]. unfold mk_updates. rewrite (Z1 _ Hp), (Z1 _ Hlp). cbn [orb].
      exists lp. split; [exact Hlp | rewrite ?Eop; reflexivity].
  - destruct (Qltb lp (b_open b)) eqn:E1.
    + unfold slipped, price_impact. rewrite Hlt. cbn [rbind]. unfold mk_updates. rewrite (Z1 _ Hp). cbn [orb].
      match goal with |- context [Qzero ?x] => assert (Hx : 0 < x) by (apply Qmaxq_pos; nra); rewrite (Z1 x Hx); exists x end.
      split; [exact Hx | rewrite ?Eop; reflexivity].
    + apply Qle_bool_iff in Hr. rewrite Hr. cbn [rbind]. unfold mk_updates. rewrite (Z1 _ Hp), (Z1 _ Hlp). cbn [orb].
      exists lp. split; [exact Hlp | rewrite ?Eop; reflexivity].
Qed.

Theorem limit_order_filled_when_reached_funds_permitting s o p when b lp bp qp s' l' :
  get_order s (o_id o) = Some o -> is_open o = true -> o_kind o = KLimit lp -> 0 < lp -> bar_ok b ->
  get_pair_info c (o_pair o) = Ok (bp, qp) -> on_grid bp (o_amount o) -> on_grid bp (o_fb o) -> OW o -> 0 < pending o ->
  reaches_limit o b lp ->
  process_order c s None o p when b = Done s' l' ->
  exists o', get_order s' (o_id o) = Some o' /\
    ((is_open o' = false /\ filled o' == o_amount o) \/
     (is_open o' = true /\ o_fb o' = o_fb o /\ (rounds_to_nothing None o b \/ refused_for_funds s o))).
Proof.
  intros Hg Hop Hk Hlp Hb Epi0 Ga Gf [Ow1 Ow2] Hp Hr H.
  destruct (limit_proposes_when_reached o b lp Hk Hlp Hb Hp Hr) as (price & Hprice & Ebu).
  unfold process_order in H. rewrite Ebu in H. cbn [lift obind] in H.
  assert (Hl : (o_id o < length (s_orders s))%nat)
    by (apply nth_error_Some; unfold get_order in Hg; rewrite Hg; discriminate).
  set (o1 := with_hit o (o_hit o)) in *. set (s1 := put_order s o1) in *.
  assert (Hl1 : (o_id o1 < length (s_orders s1))%nat) by (unfold s1; rewrite length_put; exact Hl).
  assert (Hg1 : get_order s1 (o_id o) = Some o1) by (apply (get_put s o1); exact Hl).
  change (o_pair o1) with (o_pair o) in H. rewrite Epi0 in H. cbn [lift obind] in H.
  set (b0 := pending o * sign_of (o_op o)) in *. set (q0 := price * pending o * - sign_of (o_op o)) in *.
  (* the proposed base amount is on the grid, so truncation leaves it alone *)
  assert (Eabs : Qabsq (o_fb o) == o_fb o * sign_of (o_op o)) by (apply Qabsq_dir; exact Ow1).
  assert (Eb0 : b0 == o_amount o * sign_of (o_op o) - o_fb o).
  { unfold b0, pending, filled. rewrite Eabs. destruct (o_op o); cbn [sign_of]; ring. }
  assert (Gb0 : on_grid bp b0).
  { rewrite Eb0. apply on_grid_plus; [|apply on_grid_opp; exact Gf].
    destruct (o_op o); cbn [sign_of].
    - assert (E1 : o_amount o * 1 == o_amount o) by ring. rewrite E1. exact Ga.
    - assert (E1 : o_amount o * -1 == - o_amount o) by ring. rewrite E1. apply on_grid_opp. exact Ga. }
  (* the not-filled exit: a limit order stays as it is *)
  assert (NF : forall s2, get_order s2 (o_id o) = Some o1 ->
                obind (order_not_filled c s2 o1 when) (fun s _ => Done s None) = Done s' l' ->
                (rounds_to_nothing None o b \/ refused_for_funds s o) ->
                exists o', get_order s' (o_id o) = Some o' /\
                  ((is_open o' = false /\ filled o' == o_amount o) \/
                   (is_open o' = true /\ o_fb o' = o_fb o /\ (rounds_to_nothing None o b \/ refused_for_funds s o)))).
  { intros s2 G2 X Why. unfold order_not_filled in X. change (o_kind o1) with (o_kind o) in X. rewrite Hk in X.
    cbn [obind] in X. assert (Es : s2 = s') by (inversion X; reflexivity). subst s'.
    exists o1. split; [exact G2|]. right. split; [exact Hop|]. split; [reflexivity | exact Why]. }
  destruct (round_bu (bp, qp) (Some b0) (Some q0)) as [rb rq] eqn:Er.
  assert (Why2 : rb = None \/ rq = None -> rounds_to_nothing None o b).
  { intros Hn. exists (o_hit o), b0, q0, (bp, qp). split; [exact Ebu|]. split; [exact Epi0|]. rewrite Er. exact Hn. }
  destruct rb as [bv|]; [|apply (NF s1 Hg1 H); left; apply Why2; left; reflexivity].
  destruct rq as [qv|]; [|apply (NF s1 Hg1 H); left; apply Why2; right; reflexivity].
  destruct (round_bu_some bp qp b0 q0 bv qv Er) as (Ebv & _ & _).
  assert (Ebv2 : bv == b0) by (rewrite Ebv; apply qtrunc_of_grid; exact Gb0).
  cbn [snd] in H.
  destruct (calc_fee c qp o1 qv) as [fee|ef] eqn:Ef; cbn [lift obind] in H; [|discriminate H].
  match type of H with (match update_balances c s1 o1 ?f with _ => _ end) = _ =>
    pose proof (ko_update_balances (s_orders s1) c s1 o1 f eq_refl) as K2;
    destruct (update_balances c s1 o1 f) as [s2 u2|s2 e2] eqn:Eu end; unfold ko, Ko in K2; cbn [sof] in K2.
  - destruct (take_liquidity None (Qabsq bv)) as [l2|el] eqn:El; cbn [lift obind] in H; [|discriminate H].
    set (o2 := add_fill o1 when bv qv (match fee with Some f => f | None => 0 end)) in *.
    assert (Hl2 : (o_id o2 < length (s_orders s2))%nat) by (rewrite K2; exact Hl1).
    assert (Efb2 : o_fb o2 == o_amount o * sign_of (o_op o)).
    { unfold o2, add_fill. cbn [o_fb with_hit o1]. rewrite Qred_correct, Ebv2, Eb0. ring. }
    assert (Eabs2 : Qabsq (o_fb o2) == o_amount o).
    { rewrite (Qabsq_dir _ (o_op o)); rewrite Efb2; pose proof (sg_sq (o_op o)); unfold pending, filled in Hp; nra. }
    assert (Hcl : is_open o2 = false).
    { unfold o2, add_fill, is_open. cbn [o_state].
      match goal with |- context [if ?cnd then _ else _] => destruct cnd eqn:Ec end; [reflexivity|].
      exfalso. apply Qle_bool_false' in Ec. cbn [with_hit o1 o_amount o_fb] in Ec.
      unfold o2, add_fill in Eabs2. cbn [o_fb with_hit o1] in Eabs2. lra. }
    rewrite Hcl in H.
    assert (Hg2 : get_order (put_order s2 o2) (o_id o2) = Some o2) by (apply get_put; exact Hl2).
    destruct (order_closed c (put_order s2 o2) o2) as [s4 o4|s4 e4] eqn:Ec; cbn [obind] in H; [|discriminate H].
    destruct (order_closed_state _ _ _ _ _ Hg2 Ec) as (o5 & Hg5 & Es5 & Ef5). inversion H; subst s'.
    exists o5. split; [unfold get_order in *; rewrite orders_push; exact Hg5|].
    left. split; [unfold is_open in *; rewrite Es5; exact Hcl | unfold filled; rewrite Ef5; exact Eabs2].
  - destruct e2; try discriminate H. apply (NF s2); [unfold get_order in *; rewrite K2; exact Hg1 | exact H |].
    right. match type of Eu with update_balances c s1 o1 ?f = _ => exists (o_hit o), f, s2 end. exact Eu.
Qed.
End Complete.

(* ---------------------------------------------------------------------------------------------- *)
(* the premise "something is pending" holds for every open order of every reachable state *)
Section OpenPending.
Variable c : cfg.

Definition OPj (o : order) : Prop := is_open o = true -> Qabsq (o_fb o) < o_amount o.

Lemma OPj_hit o h : OPj o -> OPj (with_hit o h).
Proof. intros H. exact H. Qed.
Lemma OPj_loans o ids : OPj o -> OPj (add_loans o ids).
Proof. intros H. exact H. Qed.
Lemma OPj_state o : OPj o -> OPj (with_state o SCanceled).
Proof. intros _ H. cbn [with_state is_open o_state] in H. discriminate H. Qed.

Lemma OPj_fresh o : fresh o -> accepted c o -> OPj o.
Proof.
  intros (_ & Eb & _ & _) (pi & Epi & Eva) _. unfold validate in Eva.
  destruct (Qle_bool (o_amount o) 0) eqn:E0; [discriminate Eva|]. apply Qle_bool_false' in E0.
  rewrite Eb. unfold Qabsq. cbn. exact E0.
Qed.

Lemma OPj_fill l o b when : fill_keeps OPj c l o b when.
Proof.
  intros hit pi bv0 qv0 bv qv fee _ _ _ _ _ Hop. unfold add_fill, is_open in Hop. cbn [o_state] in Hop.
  match type of Hop with context [if ?cnd then _ else _] => destruct cnd eqn:Ec end; [discriminate Hop|].
  apply Qle_bool_false' in Ec. unfold add_fill. cbn [o_fb o_amount with_hit] in *. exact Ec.
Qed.

Definition OI (s : st) : Prop := forall i o, nth_error (s_orders s) i = Some o -> OPj o.

Lemma OI_step s o : cfg_ok c -> op_ok o -> WF s -> OI s -> OI (fst (step c s o)).
Proof.
  intros Hc Ho Hw Hi.
  assert (S1 : ST (fun _ _ => True) OPj c s (fst (step c s o))).
  { apply step_ST; try assumption.
    - exact OPj_hit.
    - exact OPj_state.
    - exact OPj_loans.
    - intros; exact I.
    - intros p w b _ l x _ _ _. apply OPj_fill. }
  destruct S1 as [Sa Sb]. intros i x Hx.
  destruct (nth_error (s_orders s) i) as [o0|] eqn:E0.
  - destruct (Sa i o0 E0) as (o1 & E1 & _ & _ & HJ). rewrite E1 in Hx. inversion Hx; subst o1. exact (HJ (Hi i o0 E0)).
  - apply nth_error_None in E0. destruct (Sb i x Hx E0) as [Hf Ha]. exact (OPj_fresh x Hf Ha).
Qed.

Theorem run_OI ops : forall s, cfg_ok c -> ops_ok ops -> WF s -> OI s -> OI (run c s ops).
Proof.
  unfold run. induction ops as [|op r IH]; intros s Hc Ho Hw Hi; cbn [fold_left]; [exact Hi|].
  inversion Ho as [|? ? Ho1 Hor]; subst.
  apply IH; try assumption; [exact (proj1 (step_prims c s op Hc Ho1 Hw)) | apply OI_step; assumption].
Qed.

Theorem open_orders_have_something_pending initial ops i o :
  cfg_ok c -> ops_ok ops ->
  nth_error (s_orders (run c (init_st initial) ops)) i = Some o -> is_open o = true -> 0 < pending o.
Proof.
  intros Hc Ho Hn Hop.
  assert (Hi : OI (init_st initial)) by (intros j x Hj; destruct j; discriminate Hj).
  pose proof (run_OI ops (init_st initial) Hc Ho (WF_init initial) Hi i o Hn Hop) as H.
  unfold pending, filled. lra.
Qed.
End OpenPending.
