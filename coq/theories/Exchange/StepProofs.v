(* The account invariant (NonZero + ValidHold) holds in every reachable state of the exchange model:
   every mutation of the account goes through AccountBalances.update, which checks the rules on
   the result.  Also: what a rejected request leaves behind. *)
From Coq Require Import ZArith QArith Qround Lia Lqa List Bool PArith.
From Basana Require Import Num.DecQ Exchange.Model Exchange.AcctProofs.
Import ListNotations.
Open Scope Q_scope.

Definition sof {A} (r : outcome A) : st := match r with Done s _ => s | Fail s _ => s end.

(* the argument is generic in the account predicate: any predicate that AccountBalances.update preserves
   (or establishes) holds in every reachable state *)
Section Generic.
Variable GA : acct -> Prop.
Hypothesis GA_update : forall extra a db dh dbo a', GA a -> acct_update extra a db dh dbo = Ok a' -> GA a'.

Definition G (s : st) : Prop := GA (s_acct s).
Definition gp {A} (r : outcome A) : Prop := G (sof r).

Lemma gp_obind A B (r : outcome A) (f : st -> A -> outcome B) :
  gp r -> (forall s a, G s -> gp (f s a)) -> gp (obind r f).
Proof. destruct r as [s a|s e]; unfold gp; cbn [obind sof]; intros H Hf; [apply Hf; exact H | exact H]. Qed.

Lemma gp_lift A s (r : res A) : G s -> gp (lift s r).
Proof. destruct r; unfold gp; cbn [lift sof]; auto. Qed.

Lemma gp_upd c s db dh dbo : G s -> gp (upd_acct c s db dh dbo).
Proof.
  intros H. unfold upd_acct. destruct (acct_update _ _ _ _ _) eqn:E; unfold gp; cbn [sof].
  - unfold G. cbn [set_acct s_acct]. eapply GA_update; [exact H | exact E].
  - exact H.
Qed.

Lemma G_same s s' : s_acct s' = s_acct s -> G s -> G s'.
Proof. unfold G. intros E. rewrite E. auto. Qed.

Ltac G_setter :=
  match goal with
  | H : G ?s |- G _ => apply (G_same s); [reflexivity | exact H]
  end.

Ltac gp_step :=
  match goal with
  | |- gp (obind _ _) => apply gp_obind; [| intros ? ? ?]
  | |- gp (lift _ _) => apply gp_lift
  | |- gp (upd_acct _ _ _ _ _) => apply gp_upd
  | |- gp (Done _ _) => unfold gp; cbn [sof]
  | |- gp (Fail _ _) => unfold gp; cbn [sof]
  | |- gp (if ?b then _ else _) => destruct b
  | |- gp (match ?x with _ => _ end) => destruct x
  | |- gp (let '(_, _) := ?x in _) => destruct x
  | |- G _ => first [assumption | G_setter]
  end.
Ltac gp_auto := repeat gp_step.

Lemma gp_create_loan c s x a : G s -> gp (create_loan c s x a).
Proof. intros H. unfold create_loan. gp_auto. Qed.

Lemma gp_repay_loan c s id : G s -> gp (repay_loan c s id).
Proof. intros H. unfold repay_loan. gp_auto. Qed.

Lemma gp_cancel_loan c s id : G s -> gp (cancel_loan c s id).
Proof. intros H. unfold cancel_loan. gp_auto. Qed.

Lemma gp_rollback c ids : forall s, G s -> gp (rollback_loans c s ids).
Proof.
  induction ids as [|id r IH]; intros s H; cbn [rollback_loans].
  - gp_auto.
  - apply gp_obind; [apply gp_cancel_loan; exact H | intros s' _ H'; apply IH; exact H'].
Qed.

Lemma gp_borrow_loop c shorts : forall s created, G s -> gp (borrow_loop c s shorts created).
Proof.
  induction shorts as [|[x a] r IH]; intros s created H; cbn [borrow_loop].
  - gp_auto.
  - pose proof (gp_create_loan c s x a H) as Hc.
    destruct (create_loan c s x a) as [s' id|s' e]; unfold gp in Hc; cbn [sof] in Hc.
    + apply IH. exact Hc.
    + pose proof (gp_rollback c created s' Hc) as Hr.
      destruct (rollback_loans c s' created) as [s'' u|s'' e']; unfold gp in *; cbn [sof] in *; exact Hr.
Qed.

Lemma gp_add_order c s o : G s -> gp (add_order c s o).
Proof.
  intros H. unfold add_order.
  apply gp_obind; [gp_auto|]. intros s1 req H1.
  apply gp_obind.
  - destruct (vnonempty req); [|gp_auto].
    apply gp_obind.
    + destruct (o_ab o); [apply gp_borrow_loop; exact H1 | gp_auto].
    + intros s2 lids H2. gp_auto.
  - intros s2 lids H2. unfold gp. cbn [sof]. unfold push_update.
    destruct (s_now _); G_setter.
Qed.

Lemma gp_create_order c s k op p amount ab ar : G s -> gp (create_order c s k op p amount ab ar).
Proof.
  intros H. unfold create_order. apply gp_obind; [gp_auto|]. intros s1 pi H1.
  apply gp_obind; [gp_auto|]. intros s2 u H2. apply gp_add_order. exact H2.
Qed.

Lemma gp_update_balances c s o bu : G s -> gp (update_balances c s o bu).
Proof. intros H. unfold update_balances. gp_auto. Qed.

Lemma gp_repay_each c ids : forall s done, G s -> gp (repay_each c s ids done).
Proof.
  induction ids as [|id r IH]; intros s done H; cbn [repay_each].
  - gp_auto.
  - pose proof (gp_repay_loan c s id H) as Hc.
    destruct (repay_loan c s id) as [s' u|s' e]; unfold gp in Hc; cbn [sof] in Hc.
    + apply IH. exact Hc.
    + destruct e; try (unfold gp; cbn [sof]; exact Hc). apply IH. exact Hc.
Qed.

Lemma gp_repay_loans c s o : G s -> gp (repay_loans c s o).
Proof.
  intros H. unfold repay_loans. apply gp_obind; [gp_auto|]. intros s1 u H1.
  apply gp_obind; [apply gp_repay_each; exact H1|]. intros s2 ids H2. gp_auto.
Qed.

Lemma gp_order_closed c s o : G s -> gp (order_closed c s o).
Proof.
  intros H. unfold order_closed. apply gp_obind; [apply gp_update_balances; exact H|].
  intros s1 u H1. destruct (o_ar o && negb (Qzero (filled o))); [apply gp_repay_loans; exact H1 | gp_auto].
Qed.

Lemma G_push_update s o w : G s -> G (push_update s o w).
Proof. intros H. unfold push_update. destruct w; [G_setter|]. destruct (s_now s); [G_setter | exact H]. Qed.

Lemma gp_cancel_order c s id : G s -> gp (cancel_order c s id).
Proof.
  intros H. unfold cancel_order. destruct (get_order s id) as [o|]; [|gp_auto].
  destruct (negb (is_open o)); [gp_auto|].
  apply gp_obind; [apply gp_lift; exact H|]. intros s0 u0 H0.
  apply gp_obind.
  - apply gp_order_closed. G_setter.
  - intros s1 o2 H1. unfold gp. cbn [sof]. apply G_push_update. exact H1.
Qed.

Lemma gp_order_not_filled c s o when : G s -> gp (order_not_filled c s o when).
Proof.
  intros H. unfold order_not_filled.
  destruct (o_kind o); try (gp_auto; fail);
    (destruct (negb (is_open o)); [gp_auto|];
     apply gp_obind; [apply gp_order_closed; G_setter |
                      intros s1 o2 H1; unfold gp; cbn [sof]; apply G_push_update; exact H1]).
Qed.

Lemma gp_process_order c s l o p when b : G s -> gp (process_order c s l o p when b).
Proof.
  intros H. unfold process_order.
  apply gp_obind; [gp_auto|]. intros s1 [u hit] H1.
  apply gp_obind; [apply gp_lift; G_setter|]. intros s2 pi H2.
  destruct (match u with Some (bv, qv) => round_bu pi (Some bv) (Some qv) | None => (None, None) end) as [rb rq].
  destruct rb as [bv|]; [destruct rq as [qv|]|];
    try (apply gp_obind; [apply gp_order_not_filled; exact H2 | intros; gp_auto]).
  apply gp_obind; [gp_auto|]. intros s3 fee H3.
  match goal with |- gp (match update_balances ?c ?s ?o ?f with _ => _ end) =>
    pose proof (gp_update_balances c s o f H3) as Hu; destruct (update_balances c s o f) as [s4 u4|s4 e4] end;
    unfold gp in Hu; cbn [sof] in Hu.
  - apply gp_obind; [gp_auto|]. intros s5 l' H5.
    apply gp_obind.
    + match goal with |- gp (if ?b then _ else _) => destruct b end;
        [gp_auto | apply gp_order_closed; G_setter].
    + intros s6 o2 H6. unfold gp. cbn [sof]. apply G_push_update. exact H6.
  - destruct e4; try (unfold gp; cbn [sof]; exact Hu).
    apply gp_obind; [apply gp_order_not_filled; exact Hu | intros; gp_auto].
Qed.

Lemma gp_process_all c ids p when b : forall s l, G s -> gp (process_all c s l ids p when b).
Proof.
  induction ids as [|id r IH]; intros s l H; cbn [process_all].
  - gp_auto.
  - destruct (get_order s id) as [o|]; [|apply IH; exact H].
    destruct (is_open o && pair_eqb (o_pair o) p); [|apply IH; exact H].
    apply gp_obind; [apply gp_process_order; exact H | intros s' l' H'; apply IH; exact H'].
Qed.

Lemma gp_on_bar c s p when b : G s -> gp (on_bar c s p when b).
Proof.
  intros H. unfold on_bar, bump_reindex.
  apply gp_obind.
  - apply gp_process_all. G_setter.
  - intros s' u H'. unfold gp. cbn [sof]. unfold finish_reindex.
    match goal with |- G (if ?b then _ else _) => destruct b end; [G_setter | exact H'].
Qed.

Lemma G_list_open s p : G s -> G (fst (list_open s p)).
Proof.
  intros H. unfold list_open, bump_reindex, finish_reindex.
  match goal with |- context [if ?b then _ else _] => destruct b end; cbn [fst]; G_setter.
Qed.

(* every operation preserves the account invariant, whether it succeeds or raises *)
Theorem step_G c s o : G s -> G (fst (step c s o)).
Proof.
  intros H. destruct o; cbn [step].
  - pose proof (gp_on_bar c s p when b H) as X. destruct (on_bar c s p when b); exact X.
  - pose proof (gp_create_order c s k o p amount ab ar H) as X. destruct (create_order _ _ _ _ _ _ _ _); exact X.
  - pose proof (gp_cancel_order c s id H) as X. destruct (cancel_order c s id); exact X.
  - pose proof (gp_create_loan c s x amount H) as X. destruct (create_loan c s x amount); exact X.
  - pose proof (gp_repay_loan c s id H) as X. destruct (repay_loan c s id); exact X.
  - pose proof (G_list_open s p H) as X. destruct (list_open s p). exact X.
Qed.

Theorem run_G c ops : forall s, G s -> G (run c s ops).
Proof.
  unfold run. induction ops as [|o r IH]; intros s H; cbn [fold_left]; [exact H|].
  apply IH. apply step_G. exact H.
Qed.

End Generic.

(* instance: NonZero + ValidHold *)
Lemma acct_good_update extra a db dh dbo a' : acct_good a -> acct_update extra a db dh dbo = Ok a' -> acct_good a'.
Proof. intros _ H. eapply acct_update_good. exact H. Qed.

Theorem step_good c s o : acct_good (s_acct s) -> acct_good (s_acct (fst (step c s o))).
Proof. exact (step_G acct_good acct_good_update c s o). Qed.

Theorem reachable_good c initial ops :
  (forall kv, In kv initial -> 0 <= snd kv) ->
  acct_good (s_acct (run c (init_st initial) ops)).
Proof.
  intros Hpos. apply (run_G acct_good acct_good_update). unfold G, init_st. cbn [s_acct]. apply init_acct_good. exact Hpos.
Qed.
