(* C08, first sentence: within one bar, the total base amount filled across all orders never exceeds the
   liquidity the volume-share model grants for that bar.  The sum of the filled amounts of all orders grows, while a
   bar is processed, by exactly what is taken from the bar's liquidity, and what is taken never exceeds the total. *)
From Coq Require Import ZArith QArith Qround Lia Lqa List Bool PArith.
From Basana Require Import Num.DecQ Num.DecQProofs Exchange.Model Exchange.AcctProofs Exchange.StepProofs
  Exchange.OpProofs Exchange.OrderProofs Exchange.Prims Exchange.FillBounds Exchange.Structure Exchange.LedgerProofs.
Import ListNotations.
Open Scope Q_scope.

(* total filled base amount over all orders *)
Definition tfa (s : st) : Q := qsum filled (s_orders s).

Lemma tfa_orders s s' : s_orders s' = s_orders s -> tfa s' = tfa s.
Proof. unfold tfa. intros ->. reflexivity. Qed.

Lemma tfa_put s o' o0 :
  get_order s (o_id o') = Some o0 -> tfa (put_order s o') == tfa s - filled o0 + filled o'.
Proof. intros H. unfold tfa, put_order. cbn [set_orders s_orders]. apply qsum_replace. exact H. Qed.

Lemma filled_same_money a b : same_money a b -> filled a = filled b.
Proof. unfold same_money, filled. intros (_ & _ & _ & _ & -> & _). reflexivity. Qed.

Lemma tfa_put_meta s o' o0 :
  get_order s (o_id o') = Some o0 -> same_money o0 o' -> tfa (put_order s o') == tfa s.
Proof. intros H Hm. rewrite (tfa_put _ _ _ H), (filled_same_money _ _ Hm). lra. Qed.

Definition tsame {A} (s : st) (r : outcome A) : Prop := tfa (sof r) == tfa s.

Section Bar.
Variable c : cfg.

Lemma tsame_repay_each ids : forall s done, WF s -> s_orders (sof (repay_each c s ids done)) = s_orders s.
Proof.
  intros s done Hw.
  destruct (rpf_repay_each c s ids s done) as [_ [Fo _]]; [|exact Fo].
  split; [exact Hw | split; [apply prims_refl | intros i o Hi _; exact Hi]].
Qed.

Lemma tsame_repay_loans s o : WF s -> stored s o -> tsame s (repay_loans c s o).
Proof.
  intros Hw (o0 & Hg & Hm). unfold tsame, repay_loans.
  destruct (check_infos c s (s_loans s)) as [u|e]; cbn [lift obind sof]; [|reflexivity].
  match goal with |- context [repay_each c s ?ids []] =>
    pose proof (tsame_repay_each ids s [] Hw) as Eo; destruct (repay_each c s ids []) as [s1 done|s1 e] end;
    cbn [obind sof] in *; [|rewrite (tfa_orders _ _ Eo); reflexivity].
  rewrite (tfa_put_meta s1 (add_loans o done) o0).
  - rewrite (tfa_orders _ _ Eo). reflexivity.
  - unfold get_order. rewrite Eo. cbn [add_loans o_id]. exact Hg.
  - unfold same_money in *. cbn [add_loans o_id o_pair o_op o_amount o_fb o_fq o_fee]. exact Hm.
Qed.

Lemma WF_sof_update_balances s o bu : WF s -> WF (sof (update_balances c s o bu)).
Proof.
  intros Hw. destruct (update_balances c s o bu) as [s1 u|s1 e] eqn:E; cbn [sof].
  - eapply WF_update_balances; eauto.
  - apply update_balances_fail in E. subst. exact Hw.
Qed.

Lemma tsame_order_closed s o : WF s -> stored s o -> tsame s (order_closed c s o).
Proof.
  intros Hw Hst. unfold tsame, order_closed.
  destruct (update_balances c s o []) as [s1 u|s1 e] eqn:E; cbn [obind sof].
  - destruct (update_balances_orders _ _ _ _ _ _ E) as [Eo _].
    destruct (o_ar o && negb (Qzero (filled o))); cbn [sof]; [|rewrite (tfa_orders _ _ Eo); reflexivity].
    pose proof (tsame_repay_loans s1 o (WF_update_balances _ _ _ _ _ _ Hw E) (stored_orders _ _ _ Eo Hst)) as T.
    unfold tsame in T. rewrite T, (tfa_orders _ _ Eo). reflexivity.
  - apply update_balances_fail in E. subst. reflexivity.
Qed.

Lemma tfa_push_update s o w : tfa (push_update s o w) = tfa s.
Proof. unfold push_update. destruct w; [reflexivity | destruct (s_now s); reflexivity]. Qed.

Lemma tsame_close_as s o stt w :
  WF s -> stored s o ->
  tsame s (obind (order_closed c (put_order s (with_state o stt)) (with_state o stt))
                 (fun s o2 => Done (push_update s o2 w) tt)).
Proof.
  intros Hw (o0 & Hg & Hm). unfold tsame.
  assert (Hm1 : same_money o0 (with_state o stt)) by (apply same_money_state; exact Hm).
  assert (Hg1 : get_order s (o_id (with_state o stt)) = Some o0) by (cbn [with_state o_id]; exact Hg).
  assert (W1 : WF (put_order s (with_state o stt))).
  { eapply WF_put_order; [exact Hw | exact Hg1 |]. destruct Hw as (Ho & _). destruct (Ho _ _ Hg) as [_ How].
    eapply OW_same_money; eauto. }
  pose proof (tsame_order_closed _ (with_state o stt) W1 (stored_put _ _ _ Hg1)) as T. unfold tsame in T.
  destruct (order_closed c (put_order s (with_state o stt)) (with_state o stt)) as [s2 o2|s2 e]; cbn [obind sof] in *.
  - rewrite tfa_push_update, T. apply tfa_put_meta with (o0 := o0); assumption.
  - rewrite T. apply tfa_put_meta with (o0 := o0); assumption.
Qed.

Lemma tsame_order_not_filled s o when : WF s -> stored s o -> tsame s (order_not_filled c s o when).
Proof.
  intros Hw Hst. unfold order_not_filled.
  destruct (o_kind o); try (unfold tsame; cbn [sof]; reflexivity);
    (destruct (negb (is_open o)); [unfold tsame; cbn [sof]; reflexivity | apply tsame_close_as; assumption]).
Qed.

(* one order against the bar: the filled total grows by exactly what is taken from the liquidity *)
Definition liq_post (s s' : st) (l l' : liq) : Prop :=
  forall t u, l = Some (t, u) -> exists u', l' = Some (t, u') /\ tfa s' - tfa s == u' - u.

Lemma process_order_liq s l o p when b :
  WF s -> get_order s (o_id o) = Some o -> liq_ok l ->
  match process_order c s l o p when b with
  | Done s' l' => liq_post s s' l l'
  | Fail _ _ => True
  end.
Proof.
  intros Hw Hg Hl. unfold process_order.
  destruct (balance_updates c l o b) as [[u hit]|e] eqn:Ebu; cbn [lift obind]; [|exact I].
  set (o1 := with_hit o hit).
  assert (Hm1 : same_money o o1) by (apply same_money_hit, same_money_refl).
  assert (Hg0 : get_order s (o_id o1) = Some o) by exact Hg.
  assert (How : OW o) by (destruct Hw as (Ho & _); destruct (Ho _ _ Hg); assumption).
  assert (W1 : WF (put_order s o1)) by (eapply WF_put_order; [exact Hw | exact Hg0 | eapply OW_same_money; eauto]).
  assert (T1 : tfa (put_order s o1) == tfa s) by (apply tfa_put_meta with (o0 := o); assumption).
  assert (Hg1 : get_order (put_order s o1) (o_id o1) = Some o1).
  { unfold get_order, put_order in *. cbn [set_orders s_orders]. rewrite nth_error_replace_nth, Nat.eqb_refl, Hg0. reflexivity. }
  assert (Hst1 : stored (put_order s o1) o1) by (exists o1; split; [exact Hg1 | apply same_money_refl]).
  (* the "not filled" exits *)
  assert (NF : match obind (order_not_filled c (put_order s o1) o1 when) (fun s _ => Done s l) with
               | Done s' l' => liq_post s s' l l'
               | Fail _ _ => True end).
  { pose proof (tsame_order_not_filled _ o1 when W1 Hst1) as T. unfold tsame in T.
    destruct (order_not_filled c (put_order s o1) o1 when) as [s2 u2|s2 e2]; cbn [obind sof] in *; [|exact I].
    intros t0 u0 El. exists u0. split; [exact El|]. rewrite T, T1. lra. }
  destruct (get_pair_info c (o_pair o1)) as [pi|e]; cbn [lift obind]; [|exact I].
  destruct (match u with Some (bv, qv) => round_bu pi (Some bv) (Some qv) | None => (None, None) end) as [rb rq] eqn:Er.
  destruct rb as [bv|]; [destruct rq as [qv|]|]; try exact NF.
  destruct (calc_fee c (snd pi) o1 qv) as [fee|e]; cbn [lift obind]; [|exact I].
  set (feev := match fee with Some f => f | None => 0 end).
  change ([(fst (o_pair o1), bv)] ++ (if Qzero (qv + feev) then [] else [(snd (o_pair o1), qv + feev)]))
    with (fill_updates o1 bv qv feev).
  destruct (update_balances c (put_order s o1) o1 (fill_updates o1 bv qv feev)) as [s4 u4|s4 e4] eqn:Eu.
  - destruct u as [[bv0 qv0]|]; [|inversion Er].
    destruct pi as [bp qp]. destruct (round_bu_some _ _ _ _ _ _ Er) as (Ebv & Enz & _).
    destruct (bu_bounds _ _ _ _ _ _ _ Ebu How Hl) as (B0 & B1 & B2).
    destruct (qtrunc_dir bp bv0 (o_op o) B0) as [T0 T1']. rewrite <- Ebv in T0, T1'.
    assert (Habs : Qabsq bv == bv * sign_of (o_op o)) by (apply Qabsq_dir; exact T0).
    assert (Hpos' : 0 <= Qabsq bv) by (rewrite Habs; exact T0).
    destruct (take_liquidity l (Qabsq bv)) as [l'|e] eqn:Et; cbn [lift obind]; [|exact I].
    destruct (take_liquidity_ok _ _ _ Hl Hpos' Et) as [_ Hshape].
    set (o2 := add_fill o1 when bv qv feev).
    assert (How2 : OW o2).
    { apply OW_add_fill; [exact How | exact T0 |]. change (bv * sign_of (o_op o) <= pending o). lra. }
    destruct (update_balances_orders _ _ _ _ _ _ Eu) as [Eo4 _].
    assert (W4 : WF s4) by (eapply WF_update_balances; eauto).
    assert (Hg4 : get_order s4 (o_id o2) = Some o1) by (unfold get_order; rewrite Eo4; exact Hg1).
    assert (W5 : WF (put_order s4 o2)) by (eapply WF_put_order; [exact W4 | exact Hg4 | exact How2]).
    assert (T5 : tfa (put_order s4 o2) == tfa s + Qabsq bv).
    { rewrite (tfa_put _ _ _ Hg4), (tfa_orders _ _ Eo4), T1.
      assert (F1 : filled o1 == o_fb o * sign_of (o_op o)) by (apply Qabsq_dir; apply How).
      assert (F2 : filled o2 == (o_fb o + bv) * sign_of (o_op o)).
      { unfold filled, o2, add_fill. cbn [o_fb]. change (o_fb o1) with (o_fb o). rewrite (Qabsq_dir _ (o_op o)).
        - rewrite Qred_correct. reflexivity.
        - rewrite Qred_correct. destruct How as [H0 _].
          assert (X : (o_fb o + bv) * sign_of (o_op o) == o_fb o * sign_of (o_op o) + bv * sign_of (o_op o)) by ring.
          rewrite X. lra. }
      rewrite F1, F2, Habs. ring. }
    assert (Fin : forall s6, tfa s6 == tfa (put_order s4 o2) -> liq_post s s6 l l').
    { intros s6 T6 t0 u0 El. subst l. destruct l' as [[t' u']|]; [|contradiction].
      destruct Hshape as [-> Hu]. exists u'. split; [reflexivity|]. rewrite T6, T5, Hu. ring. }
    fold o2.
    destruct (is_open o2); cbn [obind].
    + apply Fin. rewrite tfa_push_update. reflexivity.
    + pose proof (tsame_order_closed _ o2 W5 (stored_put _ _ _ Hg4)) as T. unfold tsame in T.
      destruct (order_closed c (put_order s4 o2) o2) as [s6 o6|s6 e6]; cbn [obind sof] in *; [|exact I].
      apply Fin. rewrite tfa_push_update. exact T.
  - apply update_balances_fail in Eu. subst s4.
    destruct e4; try exact I. exact NF.
Qed.

Lemma process_all_liq ids p when b : forall s l,
  WF s -> liq_ok l ->
  match process_all c s l ids p when b with
  | Done s' l' => liq_post s s' l l' /\ liq_ok l'
  | Fail _ _ => True
  end.
Proof.
  induction ids as [|id r IH]; intros s l Hw Hl; cbn [process_all].
  - split; [|exact Hl]. intros t u El. exists u. split; [exact El | lra].
  - destruct (get_order s id) as [o|] eqn:Eg; [|apply IH; assumption].
    destruct (is_open o && pair_eqb (o_pair o) p) eqn:Eop; [|apply IH; assumption].
    assert (Eid : o_id o = id) by (destruct Hw as (Ho & _); destruct (Ho _ _ Eg); assumption).
    assert (Hg : get_order s (o_id o) = Some o) by (rewrite Eid; exact Eg).
    pose proof (process_order_liq s l o p when b Hw Hg Hl) as P.
    assert (RR : R c s s) by (split; [exact Hw | split; [apply prims_refl | intros i x Hi _; exact Hi]]).
    assert (Hwo : was_open s (o_id o)).
    { intros x Hx. unfold get_order in Hg. rewrite Hg in Hx. inversion Hx; subst. apply andb_true_iff in Eop. apply Eop. }
    destruct (rp_process_order c s s l o p when b RR Hg Hwo Hl) as [R1 L1].
    destruct (process_order c s l o p when b) as [s1 l1|s1 e]; cbn [obind sof] in *; [|exact I].
    destruct R1 as (W1 & _).
    pose proof (IH s1 l1 W1 L1) as P2.
    destruct (process_all c s1 l1 r p when b) as [s2 l2|s2 e2]; [|exact I].
    destruct P2 as [P2 L2]. split; [|exact L2].
    intros t u El. destruct (P t u El) as (u1 & E1 & D1). destruct (P2 t u1 E1) as (u2 & E2 & D2).
    exists u2. split; [exact E2 | lra].
Qed.

(* C08: what one bar fills, over all orders, never exceeds the share of the bar's volume the liquidity model grants *)
Theorem bar_fills_within_liquidity s p when b s' u lp ip :
  c_liq c = VolShare lp ip -> 0 <= lp -> 0 <= b_volume b -> WF s ->
  on_bar c s p when b = Done s' u ->
  0 <= tfa s' - tfa s /\ tfa s' - tfa s <= b_volume b * (lp / 100).
Proof.
  intros Hc Hlp Hv Hw. unfold on_bar, bump_reindex. rewrite Hc.
  match goal with |- obind (process_all c ?s1 ?l0 ?ids p when b) _ = _ -> _ =>
    assert (W1 : WF s1) by exact Hw; assert (T1 : tfa s1 = tfa s) by reflexivity;
    assert (L0 : liq_ok l0); [|pose proof (process_all_liq ids p when b s1 l0 W1 L0) as P;
                               destruct (process_all c s1 l0 ids p when b) as [s2 l2|s2 e2]] end.
  { cbn [liq_ok]. split; [lra|]. apply Qmult_le_0_compat; [exact Hv|]. apply Qle_shift_div_l; lra. }
  - cbn [obind]. intros H. inversion H; subst s'. destruct P as [P L2].
    destruct (P _ _ eq_refl) as (u2 & -> & D). cbn [liq_ok] in L2.
    assert (Tf : forall flag ids0, tfa (finish_reindex s2 flag ids0) = tfa s2).
    { intros flag ids0. unfold finish_reindex. destruct flag; reflexivity. }
    rewrite Tf, <- T1. split; lra.
  - cbn [obind]. discriminate.
Qed.
End Bar.

Theorem bar_fills_within_liquidity_reachable c initial ops p when b s' u lp ip :
  c_liq c = VolShare lp ip -> 0 <= lp -> ops_ok ops -> 0 <= b_volume b ->
  let s := run c (init_st initial) ops in
  on_bar c s p when b = Done s' u ->
  0 <= tfa s' - tfa s /\ tfa s' - tfa s <= b_volume b * (lp / 100).
Proof.
  intros Hc Hlp Ho Hv s H.
  assert (Hcfg : cfg_ok c) by (unfold cfg_ok; rewrite Hc; exact Hlp).
  destruct (run_prims c ops (init_st initial) Hcfg Ho (WF_init initial)) as (Hw & _ & _).
  eapply bar_fills_within_liquidity; eauto.
Qed.
