(* C09: the percentage fee charged to an order is, after every fill, the fee due on its cumulative
   traded quote amount rounded up once -- however the trade was split into partial fills. *)
From Coq Require Import ZArith QArith Qround Lia Lqa List Bool PArith.
From Basana Require Import Num.DecQ Num.DecQProofs Exchange.Model Exchange.AcctProofs.
Import ListNotations.
Open Scope Q_scope.

Lemma qroundup_comp p x y : x == y -> qroundup p x == qroundup p y.
Proof.
  intros E. unfold qroundup, zroundup. rewrite !unscale_eq.
  assert (E2 : x * pow10 p == y * pow10 p) by (rewrite E; reflexivity).
  rewrite (Qleb_comp 0 0 (Qeq_refl 0) _ _ E2).
  destruct (Qle_bool 0 (y * pow10 p)).
  - rewrite (Qceiling_comp _ _ E2). reflexivity.
  - rewrite (Qfloor_comp _ _ E2). reflexivity.
Qed.

(* fees are negative numbers in the model, as in the code: the amount due on a traded quote amount *)
Definition fee_target (pct mn q : Q) : Q := - Qmaxq (Qabsq q * pct / 100) mn.

Lemma Qmaxq_ge_r a b : b <= Qmaxq a b.
Proof. unfold Qmaxq. destruct (Qle_bool a b) eqn:E; [lra|]. apply Qle_bool_false' in E. lra. Qed.
Lemma Qmaxq_ge_l a b : a <= Qmaxq a b.
Proof. unfold Qmaxq. destruct (Qle_bool a b) eqn:E; [apply Qle_bool_iff in E; lra | lra]. Qed.
Lemma Qmaxq_mono a a' b : a <= a' -> Qmaxq a b <= Qmaxq a' b.
Proof.
  intros H. unfold Qmaxq. destruct (Qle_bool a b) eqn:E1, (Qle_bool a' b) eqn:E2;
    try apply Qle_bool_iff in E1; try apply Qle_bool_iff in E2;
    try apply Qle_bool_false' in E1; try apply Qle_bool_false' in E2; lra.
Qed.

Lemma fee_target_nonpos pct mn q : 0 <= mn -> fee_target pct mn q <= 0.
Proof. intros H. unfold fee_target. pose proof (Qmaxq_ge_r (Qabsq q * pct / 100) mn). lra. Qed.

(* the arithmetic core: charging the difference between what is due now and what was charged,
   rounded away from zero, lands exactly on the rounding of what is due now *)
Lemma fee_step qp charged x :
  on_grid qp charged -> x <= 0 ->
  (charged == 0 \/ exists x0, charged == qroundup qp x0 /\ x <= x0 /\ x0 < 0) ->
  charged + (if Qltb (x - charged) 0 then qroundup qp (x - charged) else 0) == qroundup qp x.
Proof.
  intros Hg Hx Hc.
  destruct (Qltb (x - charged) 0) eqn:Ep.
  - apply Qltb_true in Ep. destruct Hc as [Hz | (x0 & Hc & Hle & Hneg)].
    + assert (E : x - charged == x) by lra. rewrite (qroundup_comp qp _ _ E). lra.
    + assert (Hxn : x < 0) by lra. rewrite (qroundup_shift qp x charged Hg Hxn Ep). lra.
  - apply Qltb_false in Ep. destruct Hc as [Hz | (x0 & Hc & Hle & Hneg)].
    + assert (E : x == 0) by lra. rewrite (qroundup_comp qp _ _ E), qroundup_zero. lra.
    + assert (Hxn : x < 0) by lra.
      assert (H1 : charged <= qroundup qp x) by (apply qroundup_neg_greatest; [exact Hxn | exact Hg | lra]).
      assert (H2 : qroundup qp x <= qroundup qp x0) by (apply qroundup_neg_mono; assumption).
      lra.
Qed.

Definition fee_val (f : option Q) : Q := match f with Some v => v | None => 0 end.

Lemma prune_val v : fee_val (prune (Some v)) == v.
Proof. unfold prune, fee_val. destruct (Qzero v) eqn:E; [apply Qeq_bool_iff in E; lra | lra]. Qed.

(* one fill: Percentage.calculate_fees + _round_fees + Order.add_fill *)
Theorem fee_after_fill c qp o pct mn w bv qv fee :
  c_fee c = PctFee pct mn -> 0 <= mn ->
  on_grid qp (o_fee o) ->
  (o_fee o == 0 \/ exists x0, o_fee o == qroundup qp x0 /\ fee_target pct mn (o_fq o + qv) <= x0 /\ x0 < 0) ->
  calc_fee c qp o qv = Ok fee ->
  o_fee (add_fill o w bv qv (fee_val fee)) == qroundup qp (fee_target pct mn (o_fq o + qv)).
Proof.
  intros Hc Hmn Hg Hprev Hcalc. unfold calc_fee in Hcalc. rewrite Hc in Hcalc.
  destruct (Qltb 0 (o_fee o)) eqn:Epos; [discriminate Hcalc|].
  unfold add_fill. cbn [o_fee]. rewrite Qred_correct.
  fold (fee_target pct mn (o_fq o + qv)) in Hcalc.
  pose proof (fee_step qp (o_fee o) (fee_target pct mn (o_fq o + qv)) Hg (fee_target_nonpos _ _ _ Hmn) Hprev) as Hstep.
  destruct (Qltb (fee_target pct mn (o_fq o + qv) - o_fee o) 0) eqn:Ep; rewrite ?Ep in Hstep, Hcalc.
  - inversion Hcalc; subst fee. cbn [fee_val] in *.
    pose proof (prune_val (qroundup qp (fee_target pct mn (o_fq o + qv) - o_fee o))) as Hpv.
    unfold prune in Hpv. lra.
  - inversion Hcalc; subst fee. cbn [fee_val]. exact Hstep.
Qed.

(* what is charged by one fill is never positive (a fee, not a refund), and lies on the quote grid *)
Theorem fee_charge_nonpos c qp o qv fee :
  calc_fee c qp o qv = Ok fee -> fee_val fee <= 0 /\ on_grid qp (fee_val fee).
Proof.
  unfold calc_fee. destruct (c_fee c) as [|pct mn].
  - intros H. inversion H. cbn [fee_val]. split; [lra | apply on_grid_zero].
  - destruct (Qltb 0 (o_fee o)); [discriminate|].
    destruct (Qltb _ 0) eqn:Ep; intros H; inversion H; subst fee.
    + apply Qltb_true in Ep.
      set (v := qroundup qp (- Qmaxq (Qabsq (o_fq o + qv) * pct / 100) mn - o_fee o)).
      pose proof (prune_val v) as Hpv. unfold prune in Hpv.
      assert (Hv : v <= 0) by (apply qroundup_nonpos; lra).
      split.
      * change (fee_val (prune (Some v)) <= 0). unfold prune. lra.
      * change (on_grid qp (fee_val (prune (Some v)))). unfold prune. rewrite Hpv. apply qroundup_on_grid.
    + cbn [fee_val]. split; [lra | apply on_grid_zero].
Qed.

Theorem nofee_charges_nothing c qp o qv : c_fee c = NoFee -> calc_fee c qp o qv = Ok None.
Proof. intros H. unfold calc_fee. rewrite H. reflexivity. Qed.

(* ---------------------------------------------------------------------------------------------- *)
(* any number of partial fills: fold of (calc_fee; add_fill) over quote amounts of one sign *)

Fixpoint apply_fills (c : cfg) (qp : nat) (o : order) (fills : list (Q * Q)) : option order :=
  match fills with
  | [] => Some o
  | (bv, qv) :: r =>
    match calc_fee c qp o qv with
    | Ok fee => apply_fills c qp (add_fill o 0%Z bv qv (fee_val fee)) r
    | Err _ => None
    end
  end.

Definition same_side (sg : Q) (fills : list (Q * Q)) : Prop := Forall (fun f => 0 < snd f * sg) fills.

Lemma Qabsq_sg sg x : (sg == 1 \/ sg == -1) -> 0 <= x * sg -> Qabsq x == x * sg.
Proof.
  intros Hs Hx. unfold Qabsq. destruct (Qle_bool 0 x) eqn:E.
  - apply Qle_bool_iff in E. destruct Hs as [Hs|Hs]; rewrite Hs in *; nra.
  - apply Qle_bool_false' in E. destruct Hs as [Hs|Hs]; rewrite Hs in *; nra.
Qed.

Lemma fee_target_mono pct mn sg a b :
  0 <= pct -> (sg == 1 \/ sg == -1) -> 0 <= a * sg -> a * sg <= b * sg ->
  fee_target pct mn b <= fee_target pct mn a.
Proof.
  intros Hp Hs Ha Hab. unfold fee_target.
  pose proof (Qabsq_sg sg a Hs Ha) as Ea.
  assert (Hb : 0 <= b * sg) by lra.
  pose proof (Qabsq_sg sg b Hs Hb) as Eb.
  assert (H : Qabsq a * pct / 100 <= Qabsq b * pct / 100).
  { unfold Qdiv. rewrite Ea, Eb.
    assert (H1 : a * sg * pct <= b * sg * pct) by nra.
    apply Qmult_le_compat_r; [exact H1 | discriminate]. }
  pose proof (Qmaxq_mono _ _ mn H). lra.
Qed.

Definition fee_inv (pct mn : Q) (qp : nat) (sg : Q) (o : order) : Prop :=
  on_grid qp (o_fee o) /\ 0 <= o_fq o * sg /\
  ((o_fee o == 0 /\ o_fq o == 0) \/
   (0 < o_fq o * sg /\ o_fee o == qroundup qp (fee_target pct mn (o_fq o)))).

Lemma add_fill_fq o w bv qv f : o_fq (add_fill o w bv qv f) == o_fq o + qv.
Proof. unfold add_fill. cbn [o_fq]. apply Qred_correct. Qed.

Theorem fees_total c qp pct mn sg fills : forall o o',
  c_fee c = PctFee pct mn -> 0 <= pct -> 0 <= mn -> (sg == 1 \/ sg == -1) ->
  same_side sg fills ->
  fee_inv pct mn qp sg o ->
  apply_fills c qp o fills = Some o' ->
  fee_inv pct mn qp sg o'.
Proof.
  induction fills as [|[bv qv] r IH]; intros o o' Hc Hp Hmn Hs Hside Hinv Happ; cbn [apply_fills] in Happ.
  - inversion Happ; subst. exact Hinv.
  - destruct (calc_fee c qp o qv) as [fee|] eqn:Ecalc; [|discriminate Happ].
    inversion Hside as [|f fs Hq Hrest]; subst. cbn [snd] in Hq.
    destruct Hinv as (Hg & Hsign & Hcase).
    apply (IH (add_fill o 0%Z bv qv (fee_val fee)) o' Hc Hp Hmn Hs Hrest); [|exact Happ].
    assert (Hnew : 0 < (o_fq o + qv) * sg) by nra.
    assert (Hfee : o_fee (add_fill o 0%Z bv qv (fee_val fee)) == qroundup qp (fee_target pct mn (o_fq o + qv))).
    { apply (fee_after_fill c qp o pct mn 0%Z bv qv fee Hc Hmn Hg); [|exact Ecalc].
      destruct Hcase as [[Hz _] | [Hpos Hf]]; [left; exact Hz|].
      destruct (Qlt_le_dec (fee_target pct mn (o_fq o)) 0) as [Hneg|Hzero].
      - right. exists (fee_target pct mn (o_fq o)). split; [exact Hf|]. split; [|exact Hneg].
        apply (fee_target_mono pct mn sg); try assumption; nra.
      - left. pose proof (fee_target_nonpos pct mn (o_fq o) Hmn).
        assert (E : fee_target pct mn (o_fq o) == 0) by lra.
        rewrite Hf, (qroundup_comp qp _ _ E). apply qroundup_zero. }
    unfold fee_inv. split; [|split].
    + rewrite Hfee. apply qroundup_on_grid.
    + rewrite add_fill_fq. lra.
    + right. split; [rewrite add_fill_fq; exact Hnew|].
      rewrite Hfee. apply qroundup_comp. unfold fee_target.
      assert (E : Qabsq (o_fq o + qv) == Qabsq (o_fq (add_fill o 0%Z bv qv (fee_val fee)))).
      { rewrite (Qabsq_sg sg _ Hs) by lra. rewrite (Qabsq_sg sg (o_fq (add_fill o 0%Z bv qv (fee_val fee))) Hs).
        - rewrite add_fill_fq. reflexivity.
        - rewrite add_fill_fq. lra. }
      unfold Qmaxq.
      assert (E2 : Qabsq (o_fq o + qv) * pct / 100 == Qabsq (o_fq (add_fill o 0%Z bv qv (fee_val fee))) * pct / 100)
        by (rewrite E; reflexivity).
      rewrite (Qleb_comp _ _ E2 mn mn (Qeq_refl mn)).
      destruct (Qle_bool _ mn); [reflexivity | rewrite E2; reflexivity].
Qed.
