(* C11: how the list of loans can change.  Over any operation sequence the loan list only ever changes by appending a
   new open loan (create_loan: explicit, or automatic for an order) or by closing one open loan through a repayment
   (explicit, or by an auto-repay order) or through the cancellation of a loan granted at the same instant (roll-back
   of an auto-borrow request); a closed loan never changes again. *)
From Coq Require Import ZArith QArith Qround Lia Lqa List Bool PArith.
From Basana Require Import Num.DecQ Exchange.Model Exchange.AcctProofs Exchange.StepProofs Exchange.OpProofs
  Exchange.Prims Exchange.FillBounds Exchange.Structure.
Import ListNotations.
Open Scope Q_scope.

Inductive loans_step (c : cfg) (s : st) : list loan -> list loan -> Prop :=
| LSame ls : loans_step c s ls ls
| LNew ls x a t k : 0 < a -> loans_step c s ls (ls ++ [mkLoan (length ls) x a true t k 0])
| LRepaid ls id l i : nth_error ls id = Some l -> l_open l = true -> outstanding c s l = Ok i ->
    loans_step c s ls (replace_nth ls id (close_loan l i))
| LCancelled ls id l : nth_error ls id = Some l -> l_open l = true -> s_now s = Some (l_created l) ->
    loans_step c s ls (replace_nth ls id (close_loan l 0)).

Lemma cancel_loan_now c s id s' u :
  cancel_loan c s id = Done s' u -> exists l, open_loan s id = Ok l /\ s_now s = Some (l_created l).
Proof.
  unfold cancel_loan. destruct (open_loan s id) as [l|]; cbn [lift obind]; [|discriminate].
  unfold now_of. destruct (s_now s) as [t|]; cbn [lift obind]; [|discriminate].
  destruct (Z.eqb (l_created l) t) eqn:E; cbn [negb]; [|discriminate]. apply Z.eqb_eq in E. subst.
  intros _. exists l. split; reflexivity.
Qed.

Theorem prim_loans c s s' : WF s -> prim c s s' -> loans_step c s (s_loans s) (s_loans s').
Proof.
  intros Hw Hp. destruct Hp.
  - destruct H as (_ & _ & _ & ->). apply LSame.
  - apply LSame.
  - assert (E : s_loans s1 = s_loans s).
    { destruct (vnonempty req); [apply upd_acct_done in H; destruct H as (a' & _ & ->); reflexivity | inversion H; reflexivity]. }
    destruct (vnonempty req); cbn [set_orders set_holds s_loans]; rewrite E; apply LSame.
  - pose proof H as H'. apply create_loan_shape in H'. destruct H' as (a' & t & k & _ & _ & ->).
    cbn [set_loans set_acct s_loans]. apply LNew.
    unfold create_loan in H. destruct (Qle_bool a 0) eqn:Ea; [discriminate|]. apply Qle_bool_false in Ea. exact Ea.
  - apply repay_loan_shape in H. destruct H as (l & i & a' & Eo & Ei & _ & ->).
    apply open_loan_get in Eo. destruct Eo as [Eg Eop].
    assert (Eid : l_id l = id) by (destruct Hw as (_ & Hl & _); apply (Hl _ _ Eg)).
    unfold put_loan. cbn [set_loans set_acct s_loans close_loan l_id]. rewrite Eid. apply LRepaid; assumption.
  - destruct (cancel_loan_now _ _ _ _ _ H) as (l0 & Eo0 & En).
    apply cancel_loan_shape in H. destruct H as (l & a' & Eo & _ & ->).
    assert (l0 = l) by congruence. subst l0.
    apply open_loan_get in Eo. destruct Eo as [Eg Eop].
    assert (Eid : l_id l = id) by (destruct Hw as (_ & Hl & _); apply (Hl _ _ Eg)).
    unfold put_loan. cbn [set_loans set_acct s_loans close_loan l_id]. rewrite Eid. apply LCancelled; assumption.
  - destruct (update_balances_orders _ _ _ _ _ _ H) as [_ ->]. apply LSame.
  - destruct (update_balances_orders _ _ _ _ _ _ H0) as [_ El]. unfold put_order. cbn [set_orders s_loans]. rewrite El. apply LSame.
Qed.

(* a closed loan is never touched again *)
Lemma loans_step_closed c s ls ls' i l :
  loans_step c s ls ls' -> nth_error ls i = Some l -> l_open l = false -> nth_error ls' i = Some l.
Proof.
  intros H Hi Hc. destruct H.
  - exact Hi.
  - rewrite nth_error_app1; [exact Hi | apply nth_error_Some; rewrite Hi; discriminate].
  - rewrite nth_error_replace_nth. destruct (Nat.eqb i id) eqn:E; [|exact Hi].
    apply Nat.eqb_eq in E. subst. congruence.
  - rewrite nth_error_replace_nth. destruct (Nat.eqb i id) eqn:E; [|exact Hi].
    apply Nat.eqb_eq in E. subst. congruence.
Qed.

Theorem closed_loans_final c ops : forall s i l,
  cfg_ok c -> ops_ok ops -> WF s ->
  nth_error (s_loans s) i = Some l -> l_open l = false -> nth_error (s_loans (run c s ops)) i = Some l.
Proof.
  intros s i l Hc Ho Hw Hi Hcl.
  destruct (run_prims c ops s Hc Ho Hw) as (_ & P & _).
  induction P as [|s1 s2 s3 P12 IH P23]; [exact Hi|].
  eapply loans_step_closed; [eapply prim_loans; [eapply WF_prims; eauto | exact P23] | apply IH; assumption | exact Hcl].
Qed.
