(* Every operation of the exchange model is a finite sequence of *primitive transactions*: a loan
   created / repaid / cancelled, an order accepted (together with its reservation), a fill (account
   update and order record together), a release of holds, a change of an order's non-monetary fields,
   or a change of bookkeeping that carries no money (clock, prices, index, events).  This is proved
   once, for every state, configuration and operation (Structure.v); whole-history invariants (ledger,
   loans, holds) then only have to be checked against the primitives (LedgerProofs.v). *)
From Coq Require Import ZArith QArith Qround Lia Lqa List Bool PArith.
From Basana Require Import Num.DecQ Num.DecQProofs Exchange.Model Exchange.AcctProofs Exchange.StepProofs Exchange.OpProofs.
Import ListNotations.
Open Scope Q_scope.

(* ---------------------------------------------------------------------------------------------- *)
(* well-formed containers: ids are positions, reservations belong to existing orders, and the filled
   amount of every order lies between 0 and the ordered amount (in the direction of the order) *)
Definition OW (o : order) : Prop :=
  0 <= o_fb o * sign_of (o_op o) /\ o_fb o * sign_of (o_op o) <= o_amount o.

Definition WF (s : st) : Prop :=
  (forall i o, nth_error (s_orders s) i = Some o -> o_id o = i /\ OW o) /\
  (forall i l, nth_error (s_loans s) i = Some l -> l_id l = i) /\
  (forall k v, In (k, v) (s_holds s) -> (k < length (s_orders s))%nat).

Definition same_money (a b : order) : Prop :=
  o_id a = o_id b /\ o_pair a = o_pair b /\ o_op a = o_op b /\ o_amount a = o_amount b /\
  o_fb a = o_fb b /\ o_fq a = o_fq b /\ o_fee a = o_fee b.

Definition neutral (s s' : st) : Prop :=
  s_acct s' = s_acct s /\ s_orders s' = s_orders s /\ s_holds s' = s_holds s /\ s_loans s' = s_loans s.

(* the account update of a fill: base amount, and quote amount net of the fee *)
Definition fill_updates (o : order) (bv qv feev : Q) : vmap :=
  [(fst (o_pair o), bv)] ++ (if Qzero (qv + feev) then [] else [(snd (o_pair o), qv + feev)]).

(* the required balances of an order: at most one entry for the base and one for the quote symbol, positive *)
Definition req_form (p : pair) (req : vmap) : Prop :=
  exists rb rq, req = rb ++ rq /\
    (rb = [] \/ exists v, 0 < v /\ rb = [(fst p, v)]) /\ (rq = [] \/ exists v, 0 < v /\ rq = [(snd p, v)]).

Lemma estimate_req_form c s o req : estimate_required c s o = Ok req -> req_form (o_pair o) req.
Proof.
  unfold estimate_required. destruct (get_pair_info c (o_pair o)) as [pi|]; cbn [rbind]; [|discriminate].
  destruct (round_bu pi _ _) as [b q].
  match goal with |- rbind ?r _ = _ -> _ => destruct r as [fee|]; cbn [rbind]; [|discriminate] end.
  intros H; inversion H; subst; clear H. eexists. eexists. split; [reflexivity|]. split.
  - destruct b as [bv|]; [|left; reflexivity]. destruct (Qltb bv 0) eqn:E; [|left; reflexivity].
    right. apply Qltb_true in E. exists (- bv). split; [lra | reflexivity].
  - match goal with |- (match ?x with Some _ => _ | None => _ end = _) \/ _ => destruct x as [qv|] end; [|left; reflexivity].
    destruct (Qltb qv 0) eqn:E; [|left; reflexivity].
    right. apply Qltb_true in E. exists (- qv). split; [lra | reflexivity].
Qed.

Inductive prim (c : cfg) : st -> st -> Prop :=
| PNeutral s s' : neutral s s' -> prim c s s'
| PMeta s o0 o' : get_order s (o_id o') = Some o0 -> same_money o0 o' -> prim c s (put_order s o')
| PAccept s req s1 o' u :
    (if vnonempty req then upd_acct c s [] req [] else Done s tt) = Done s1 u ->
    o_id o' = length (s_orders s) -> o_fb o' = 0 -> o_fq o' = 0 -> o_fee o' = 0 -> 0 <= o_amount o' ->
    fst (o_pair o') <> snd (o_pair o') -> req_form (o_pair o') req ->
    prim c s (set_orders (if vnonempty req then set_holds s1 (holds_set (s_holds s1) (o_id o') req) else s1)
                         (s_orders s ++ [o']))
| PCreate s x a s' id : create_loan c s x a = Done s' id -> prim c s s'
| PRepay s id s' u : repay_loan c s id = Done s' u -> prim c s s'
| PCancel s id s' u : cancel_loan c s id = Done s' u -> prim c s s'
| PRelease s o s' u : update_balances c s o [] = Done s' u -> prim c s s'
| PFill s o bv qv feev w s1 u :
    get_order s (o_id o) = Some o ->
    update_balances c s o (fill_updates o bv qv feev) = Done s1 u ->
    OW (add_fill o w bv qv feev) ->
    prim c s (put_order s1 (add_fill o w bv qv feev)).

Inductive prims (c : cfg) : st -> st -> Prop :=
| prims_refl s : prims c s s
| prims_snoc s1 s2 s3 : prims c s1 s2 -> prim c s2 s3 -> prims c s1 s3.

Lemma prims_trans c s1 s2 s3 : prims c s1 s2 -> prims c s2 s3 -> prims c s1 s3.
Proof.
  intros H12 H23. revert H12. induction H23 as [s|a b d Hab IH Hbd]; intros H12; [exact H12|].
  eapply prims_snoc; [apply IH; exact H12 | exact Hbd].
Qed.

Lemma prims_one c s s' : prim c s s' -> prims c s s'.
Proof. intros H. eapply prims_snoc; [apply prims_refl | exact H]. Qed.

(* ---------------------------------------------------------------------------------------------- *)
(* list facts *)
Lemma nth_error_replace_nth {A} (l : list A) n x i :
  nth_error (replace_nth l n x) i =
  if Nat.eqb i n then (match nth_error l i with Some _ => Some x | None => None end) else nth_error l i.
Proof.
  revert n i. induction l as [|y r IH]; intros n i; cbn [replace_nth].
  - destruct i; cbn [nth_error]; destruct (Nat.eqb _ n); reflexivity.
  - destruct n as [|n]; destruct i as [|i]; cbn [nth_error Nat.eqb]; try reflexivity. apply IH.
Qed.

Lemma length_replace_nth {A} (l : list A) n x : length (replace_nth l n x) = length l.
Proof. revert n. induction l as [|y r IH]; intros [|n]; cbn [replace_nth length]; auto. Qed.

Lemma nth_error_snoc {A} (l : list A) x i :
  nth_error (l ++ [x]) i = if Nat.eqb i (length l) then Some x else nth_error l i.
Proof.
  revert i. induction l as [|y r IH]; intros [|i]; cbn [app nth_error length Nat.eqb]; try reflexivity.
  - destruct i; reflexivity.
  - apply IH.
Qed.

(* ---------------------------------------------------------------------------------------------- *)
(* shapes of the loan operations *)
Lemma create_loan_shape c s x a s' id :
  create_loan c s x a = Done s' id ->
  exists a' t k, acct_update (margin_rule c s) (s_acct s) [(x, a)] [] [(x, a)] = Ok a' /\
    id = length (s_loans s) /\
    s' = set_loans (set_acct s a') (s_loans s ++ [mkLoan (length (s_loans s)) x a true t k 0]).
Proof.
  unfold create_loan. intros H. done_chain H.
  unfold upd_acct in H. destruct (acct_update _ _ _ _ _) as [a'|] eqn:E; cbn [obind] in H; [|discriminate H].
  inversion H; subst. exists a'. eexists. eexists. split; [reflexivity|]. split; reflexivity.
Qed.

Lemma repay_loan_shape c s id s' u :
  repay_loan c s id = Done s' u ->
  exists l i a', open_loan s id = Ok l /\ outstanding c s l = Ok i /\
    acct_update (margin_rule c s) (s_acct s)
      (vadd [(l_sym l, - l_amount l)] (if Qzero i then [] else [(interest_sym (l_cond l), - i)]))
      [] [(l_sym l, - l_amount l)] = Ok a' /\
    s' = put_loan (set_acct s a') (close_loan l i).
Proof.
  unfold repay_loan. intros H.
  destruct (open_loan s id) as [l|] eqn:El; cbn [lift obind] in H; [|discriminate H].
  destruct (outstanding c s l) as [i|] eqn:Ei; cbn [lift obind] in H; [|discriminate H].
  unfold upd_acct in H. destruct (acct_update _ _ _ _ _) as [a'|] eqn:E; cbn [obind] in H; [|discriminate H].
  inversion H; subst. exists l, i, a'. repeat split; auto.
Qed.

Lemma cancel_loan_shape c s id s' u :
  cancel_loan c s id = Done s' u ->
  exists l a', open_loan s id = Ok l /\
    acct_update (margin_rule c s) (s_acct s) [(l_sym l, - l_amount l)] [] [(l_sym l, - l_amount l)] = Ok a' /\
    s' = put_loan (set_acct s a') (close_loan l 0).
Proof.
  unfold cancel_loan. intros H.
  destruct (open_loan s id) as [l|] eqn:El; cbn [lift obind] in H; [|discriminate H].
  destruct (now_of s) as [t|]; cbn [lift obind] in H; [|discriminate H].
  destruct (negb (Z.eqb (l_created l) t)); [discriminate H|].
  unfold upd_acct in H. destruct (acct_update _ _ _ _ _) as [a'|] eqn:E; cbn [obind] in H; [|discriminate H].
  inversion H; subst. exists l, a'. repeat split; auto.
Qed.

Lemma open_loan_get s id l : open_loan s id = Ok l -> get_loan s id = Some l /\ l_open l = true.
Proof.
  unfold open_loan. destruct (get_loan s id) as [l0|]; [|discriminate].
  destruct (l_open l0) eqn:E; [|discriminate]. intros H; inversion H; subst. split; auto.
Qed.

(* update_balances: shape *)
Definition hold_updates (o : order) (oh bu : vmap) : vmap :=
  if vnonempty oh then
    if is_open o then
      flat_map (fun kv => if Qltb (snd kv) 0 && existsb (Pos.eqb (fst kv)) (vkeys oh)
                          then [(fst kv, Qmaxq (snd kv) (- vget oh (fst kv)))] else []) bu
    else vneg oh
  else [].

Lemma update_balances_shape c s o bu s' u :
  update_balances c s o bu = Done s' u ->
  let oh := holds_get (s_holds s) (o_id o) in
  let hu := hold_updates o oh bu in
  exists s1, (if vnonempty bu || vnonempty hu then upd_acct c s bu hu [] else Done s tt) = Done s1 tt /\
    s' = (if vnonempty oh then
            if is_open o then set_holds s1 (holds_set (s_holds s1) (o_id o) (vadd oh hu))
            else set_holds s1 (holds_del (s_holds s1) (o_id o))
          else s1).
Proof.
  unfold update_balances, hold_updates. cbn zeta. intros H.
  match type of H with obind ?r _ = _ => destruct r as [s1 []|s1 e1] eqn:E end; cbn [obind] in H; [|discriminate H].
  exists s1. split; [exact E|].
  destruct (vnonempty (holds_get (s_holds s) (o_id o))); [destruct (is_open o)|]; inversion H; reflexivity.
Qed.

Lemma update_balances_fail c s o bu s' e : update_balances c s o bu = Fail s' e -> s' = s.
Proof.
  unfold update_balances.
  match goal with |- obind ?r _ = _ -> _ => destruct r as [s1 u1|s1 e1] eqn:E end; cbn [obind].
  - intros H. repeat match type of H with (if ?b then _ else _) = _ => destruct b end; discriminate H.
  - intros H; inversion H; subst.
    destruct (_ || _); [apply upd_acct_fail in E; exact E | discriminate E].
Qed.

Lemma upd_acct_done c s db dh dbo s' u :
  upd_acct c s db dh dbo = Done s' u ->
  exists a', acct_update (margin_rule c s) (s_acct s) db dh dbo = Ok a' /\ s' = set_acct s a'.
Proof.
  unfold upd_acct. destruct (acct_update _ _ _ _ _) as [a'|]; intros H; inversion H. exists a'. auto.
Qed.
