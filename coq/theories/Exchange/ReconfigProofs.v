(* Whole-history theorems survive reconfiguration: the invariants of LedgerProofs / Structure are predicates of the
   exchange state alone and every operation preserves them under any configuration, so they hold along histories in
   which precisions are changed between any two operations. *)
From Coq Require Import ZArith QArith Qround Lia Lqa List Bool PArith.
From Basana Require Import Num.DecQ Num.DecQProofs Exchange.Model Exchange.AcctProofs Exchange.Obs Exchange.Prims Exchange.FillBounds Exchange.Structure
  Exchange.LedgerProofs Exchange.Reconfig.
Import ListNotations.
Open Scope Q_scope.

Definition xop_ok (x : xop) : Prop := match x with XOp o => op_ok o | _ => True end.
Definition xops_ok (xs : list xop) : Prop := Forall xop_ok xs.

Lemma cfg_ok_reconf c x : cfg_ok c -> cfg_ok (reconf c x).
Proof. destruct x; intros H; exact H. Qed.

(* the setters do not touch the exchange state, and keep fees, liquidity model and lending conditions *)
Lemma reconf_state cs x : match x with XOp _ | XTick _ => True | _ => snd (fst (xstep cs x)) = snd cs end.
Proof. destruct x; cbn; auto. Qed.

(* a clock tick moves the clock and nothing else: account, orders, reservations, loans, prices and events stay *)
Lemma tick_state cs w :
  let s := snd cs in let s' := snd (fst (xstep cs (XTick w))) in
  (fst (fst (xstep cs (XTick w))) = fst cs) /\ (s_now s' = Some w) /\
  (s_acct s' = s_acct s) /\ (s_orders s' = s_orders s) /\ (s_holds s' = s_holds s) /\ (s_loans s' = s_loans s) /\
  (s_close s' = s_close s) /\ (s_events s' = s_events s).
Proof. cbn. repeat split; reflexivity. Qed.

Lemma reconf_keeps c x : c_fee (reconf c x) = c_fee c /\ c_liq (reconf c x) = c_liq c /\
                         c_default_pair (reconf c x) = c_default_pair c /\
                         (match x with XLend _ => True | _ => c_lend (reconf c x) = c_lend c end).
Proof. destruct x; cbn; auto. Qed.

(* a history without setters is a history of the plain model *)
Lemma xrun_plain c ops : forall s, xrun (c, s) (map XOp ops) = (c, run c s ops).
Proof.
  induction ops as [|o r IH]; intros s; [reflexivity|].
  cbn [map]. unfold xrun, run. cbn [fold_left]. unfold xstep at 2. cbn [fst snd].
  destruct (step c s o) as [s' rep] eqn:E. cbn [fst]. apply IH.
Qed.

Lemma step_as_run c s o : fst (step c s o) = run c s [o].
Proof. reflexivity. Qed.

Lemma xstep_invariants K cs x :
  cfg_ok (fst cs) -> xop_ok x -> WF (snd cs) -> all_inv K (snd cs) ->
  let cs' := fst (xstep cs x) in cfg_ok (fst cs') /\ WF (snd cs') /\ all_inv K (snd cs') /\ frozen (snd cs) (snd cs').
Proof.
  destruct cs as [c s]. cbn [fst snd]. intros Hc Hx Hw Hi.
  destruct x as [o|y p|pr bq|l|w]; cbn [xstep fst snd].
  - destruct (step c s o) as [s' rep] eqn:E. cbn [fst snd].
    assert (Es : s' = run c s [o]) by (unfold run; cbn [fold_left]; rewrite E; reflexivity).
    assert (Ho : ops_ok [o]) by (constructor; [exact Hx | constructor]).
    destruct (run_invariants c K [o] s Hc Ho Hw Hi) as [W I].
    destruct (run_prims c [o] s Hc Ho Hw) as (_ & _ & F).
    rewrite <- Es in W, I, F. split; [|split; [|split]]; assumption.
  - split; [|split; [|split]]; try assumption. intros i o Hn _; exact Hn.
  - split; [|split; [|split]]; try assumption. intros i o Hn _; exact Hn.
  - split; [|split; [|split]]; try assumption. intros i o Hn _; exact Hn.
  - split; [exact Hc|]. split; [exact Hw|]. split; [exact Hi|]. intros i o Hn _; exact Hn.
Qed.

Lemma frozen_trans s1 s2 s3 : frozen s1 s2 -> frozen s2 s3 -> frozen s1 s3.
Proof. intros A B i o Hn Hc. apply B; [apply A; assumption | exact Hc]. Qed.

Theorem xrun_invariants K xs : forall cs,
  cfg_ok (fst cs) -> xops_ok xs -> WF (snd cs) -> all_inv K (snd cs) ->
  let cs' := xrun cs xs in cfg_ok (fst cs') /\ WF (snd cs') /\ all_inv K (snd cs') /\ frozen (snd cs) (snd cs').
Proof.
  induction xs as [|x r IH]; intros cs Hc Hx Hw Hi.
  - cbn. split; [|split; [|split]]; try assumption. intros i o Hn _; exact Hn.
  - inversion Hx as [|x0 r0 Hx1 Hxr]; subst.
    destruct (xstep_invariants K cs x Hc Hx1 Hw Hi) as (C1 & W1 & I1 & F1).
    destruct (IH (fst (xstep cs x)) C1 Hxr W1 I1) as (C2 & W2 & I2 & F2).
    unfold xrun in *. cbn [fold_left]. split; [|split; [|split]]; try assumption.
    eapply frozen_trans; eassumption.
Qed.

(* C01 under reconfiguration: the ledger identity in every state of every history with setters anywhere *)
Theorem ledger_reachable_reconf c initial xs x :
  cfg_ok c -> xops_ok xs -> (forall kv, In kv initial -> 0 <= snd kv) ->
  let s := snd (xrun (c, init_st initial) xs) in
  total (s_acct s) x == vget (bal (init_acct initial)) x + osum x s - psum x s.
Proof.
  intros Hc Hx Hpos s.
  destruct (xrun_invariants _ xs (c, init_st initial) Hc Hx (WF_init initial) (init_all_inv initial Hpos))
    as (_ & _ & (L & _ & _) & _).
  specialize (L x). cbv beta in L. fold s in L. lra.
Qed.

(* C02 / C06 under reconfiguration *)
Theorem loans_holds_reachable_reconf c initial xs x :
  cfg_ok c -> xops_ok xs -> (forall kv, In kv initial -> 0 <= snd kv) ->
  let s := snd (xrun (c, init_st initial) xs) in
  vget (bor (s_acct s)) x == lsum x s /\ vget (hold (s_acct s)) x == hsum x s.
Proof.
  intros Hc Hx Hpos s.
  destruct (xrun_invariants _ xs (c, init_st initial) Hc Hx (WF_init initial) (init_all_inv initial Hpos))
    as (_ & _ & (_ & L & H) & _).
  split; [exact (L x) | exact (H x)].
Qed.

(* C05 under reconfiguration: 0 <= filled <= amount, and closed orders are final *)
Theorem filled_reachable_reconf c initial xs i o :
  cfg_ok c -> xops_ok xs -> (forall kv, In kv initial -> 0 <= snd kv) ->
  nth_error (s_orders (snd (xrun (c, init_st initial) xs))) i = Some o ->
  o_id o = i /\ 0 <= filled o /\ filled o <= o_amount o.
Proof.
  intros Hc Hx Hpos Hn.
  destruct (xrun_invariants _ xs (c, init_st initial) Hc Hx (WF_init initial) (init_all_inv initial Hpos))
    as (_ & (W & _) & _ & _).
  destruct (W _ _ Hn) as [Eid [H0 H1]]. split; [exact Eid|].
  unfold filled. rewrite (Qabsq_dir _ _ H0). split; assumption.
Qed.

Theorem closed_final_reconf c initial xs1 xs2 i o :
  cfg_ok c -> xops_ok xs1 -> xops_ok xs2 -> (forall kv, In kv initial -> 0 <= snd kv) ->
  nth_error (s_orders (snd (xrun (c, init_st initial) xs1))) i = Some o -> is_open o = false ->
  nth_error (s_orders (snd (xrun (c, init_st initial) (xs1 ++ xs2)))) i = Some o.
Proof.
  intros Hc H1 H2 Hpos Hn Hcl.
  destruct (xrun_invariants _ xs1 (c, init_st initial) Hc H1 (WF_init initial) (init_all_inv initial Hpos))
    as (C1 & W1 & I1 & _).
  destruct (xrun_invariants _ xs2 (xrun (c, init_st initial) xs1) C1 H2 W1 I1) as (_ & _ & _ & F).
  unfold xrun in *. rewrite fold_left_app. apply F; assumption.
Qed.

(* the setters take effect at once: what the exchange rounds with from the next operation on *)
Lemma pair_eqb_refl p : pair_eqb p p = true.
Proof. unfold pair_eqb. rewrite !Pos.eqb_refl. reflexivity. Qed.

Theorem set_pair_info_effective c pr bq : get_pair_info (reconf c (XPairInfo pr bq)) pr = Ok bq.
Proof. unfold get_pair_info, reconf. cbn [c_pair_info lookup_pair]. rewrite pair_eqb_refl. reflexivity. Qed.

Theorem set_pair_info_others c pr bq p : pair_eqb pr p = false ->
  get_pair_info (reconf c (XPairInfo pr bq)) p = get_pair_info c p.
Proof. intros E. unfold get_pair_info, reconf. cbn [c_pair_info c_sym_prec c_default_pair lookup_pair]. rewrite E. reflexivity. Qed.

Theorem set_base_precision_effective c p b q :
  fst p <> snd p -> lookup_pair (c_pair_info c) p = None -> lookup_sym (c_sym_prec c) (snd p) = Some q ->
  get_pair_info (reconf c (XSymPrec (fst p) b)) p = Ok (b, q).
Proof.
  intros Hd Hp Hq. unfold get_pair_info, reconf. cbn [c_pair_info c_sym_prec lookup_sym]. rewrite Hp.
  rewrite Pos.eqb_refl. destruct (Pos.eqb (fst p) (snd p)) eqn:E; [apply Pos.eqb_eq in E; contradiction|].
  rewrite Hq. reflexivity.
Qed.

Theorem set_quote_precision_effective c p b q :
  fst p <> snd p -> lookup_pair (c_pair_info c) p = None -> lookup_sym (c_sym_prec c) (fst p) = Some b ->
  get_pair_info (reconf c (XSymPrec (snd p) q)) p = Ok (b, q).
Proof.
  intros Hd Hp Hb. unfold get_pair_info, reconf. cbn [c_pair_info c_sym_prec lookup_sym]. rewrite Hp.
  rewrite Pos.eqb_refl. destruct (Pos.eqb (snd p) (fst p)) eqn:E; [apply Pos.eqb_eq in E; congruence|].
  rewrite Hb. reflexivity.
Qed.

Theorem set_symbol_precision_effective c p b q :
  fst p <> snd p -> lookup_pair (c_pair_info c) p = None ->
  (lookup_sym (c_sym_prec c) (snd p) = Some q -> get_pair_info (reconf c (XSymPrec (fst p) b)) p = Ok (b, q)) /\
  (lookup_sym (c_sym_prec c) (fst p) = Some b -> get_pair_info (reconf c (XSymPrec (snd p) q)) p = Ok (b, q)).
Proof.
  intros Hd Hp. split; intros H.
  - exact (set_base_precision_effective c p b q Hd Hp H).
  - exact (set_quote_precision_effective c p b q Hd Hp H).
Qed.
