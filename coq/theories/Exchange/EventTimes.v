(* C05, order events in time order: every event an operation emits is stamped with the clock of the exchange (the time
   of the bar being processed, or the time of the last bar for requests made from a handler), operations other than bars
   do not move the clock, and so, along any history whose bars come in non-decreasing time order, the event list is sorted
   by time and no event is dated after the clock. *)
From Coq Require Import ZArith QArith Lia List Bool PArith Sorted.
From Basana Require Import Num.DecQ Exchange.Model Exchange.StepProofs.
Import ListNotations.

Section Pass.
Variable s0 : st.

(* since [s0]: the clock did not move and the events appended carry the clock *)
Definition EP (s : st) : Prop :=
  s_now s = s_now s0 /\
  exists k, s_events s = s_events s0 ++ k /\ Forall (fun e => s_now s0 = Some (fst e)) k.
Definition ep {A} (r : outcome A) : Prop := EP (sof r).

Lemma EP_same s s' : s_now s' = s_now s -> s_events s' = s_events s -> EP s -> EP s'.
Proof. intros En Ee [Hn Hk]. split; [congruence | rewrite Ee; exact Hk]. Qed.

Lemma EP_push s o w : (forall t, w = Some t -> s_now s0 = Some t) -> EP s -> EP (push_update s o w).
Proof.
  intros Hw [Hn (k & Ek & Fk)]. unfold push_update.
  assert (G : forall t, s_now s0 = Some t -> EP (add_event s (t, o))).
  { intros t Et. split; [exact Hn|]. exists (k ++ [(t, o)]). cbn [add_event s_events]. rewrite Ek, app_assoc.
    split; [reflexivity|]. apply Forall_app. split; [exact Fk | constructor; [exact Et | constructor]]. }
  destruct w as [t|].
  - apply G. apply Hw. reflexivity.
  - destruct (s_now s) as [t|] eqn:E; [apply G; congruence | split; [congruence | exists k; split; assumption]].
Qed.

Lemma ep_obind A B (r : outcome A) (f : st -> A -> outcome B) :
  ep r -> (forall s a, EP s -> ep (f s a)) -> ep (obind r f).
Proof. destruct r as [s a|s e]; unfold ep; cbn [obind sof]; intros H Hf; [apply Hf; exact H | exact H]. Qed.

Lemma ep_lift A s (r : res A) : EP s -> ep (lift s r).
Proof. destruct r; unfold ep; cbn [lift sof]; auto. Qed.

Lemma ep_upd c s db dh dbo : EP s -> ep (upd_acct c s db dh dbo).
Proof.
  intros H. unfold upd_acct. destruct (acct_update _ _ _ _ _); unfold ep; cbn [sof]; [|exact H].
  apply (EP_same s); [reflexivity | reflexivity | exact H].
Qed.

Ltac EP_same := match goal with H : EP ?s |- EP _ => apply (EP_same s); [reflexivity | reflexivity | exact H] end.
Ltac ep_step :=
  match goal with
  | |- ep (obind _ _) => apply ep_obind; [| intros ? ? ?]
  | |- ep (lift _ _) => apply ep_lift
  | |- ep (upd_acct _ _ _ _ _) => apply ep_upd
  | |- ep (Done _ _) => unfold ep; cbn [sof]
  | |- ep (Fail _ _) => unfold ep; cbn [sof]
  | |- ep (if ?b then _ else _) => destruct b
  | |- ep (match ?x with _ => _ end) => destruct x
  | |- EP _ => first [assumption | EP_same]
  end.
Ltac ep_auto := repeat ep_step.

Lemma ep_create_loan c s x a : EP s -> ep (create_loan c s x a).
Proof. intros H. unfold create_loan. ep_auto. Qed.
Lemma ep_repay_loan c s id : EP s -> ep (repay_loan c s id).
Proof. intros H. unfold repay_loan. ep_auto. Qed.
Lemma ep_cancel_loan c s id : EP s -> ep (cancel_loan c s id).
Proof. intros H. unfold cancel_loan. ep_auto. Qed.
Lemma ep_update_balances c s o bu : EP s -> ep (update_balances c s o bu).
Proof. intros H. unfold update_balances. ep_auto. Qed.

Lemma ep_rollback c ids : forall s, EP s -> ep (rollback_loans c s ids).
Proof.
  induction ids as [|id r IH]; intros s H; cbn [rollback_loans]; [ep_auto|].
  apply ep_obind; [apply ep_cancel_loan; exact H | intros s1 u H1; apply IH; exact H1].
Qed.

Lemma ep_borrow_loop c shorts : forall s created, EP s -> ep (borrow_loop c s shorts created).
Proof.
  induction shorts as [|[x a] r IH]; intros s created H; cbn [borrow_loop]; [ep_auto|].
  pose proof (ep_create_loan c s x a H) as Hc.
  destruct (create_loan c s x a) as [s1 id|s1 e]; unfold ep in Hc; cbn [sof] in Hc; [apply IH; exact Hc|].
  pose proof (ep_rollback c created s1 Hc) as Hr.
  destruct (rollback_loans c s1 created); unfold ep in *; cbn [sof] in *; exact Hr.
Qed.

Lemma ep_repay_each c ids : forall s done, EP s -> ep (repay_each c s ids done).
Proof.
  induction ids as [|id r IH]; intros s done H; cbn [repay_each]; [ep_auto|].
  pose proof (ep_repay_loan c s id H) as Hc.
  destruct (repay_loan c s id) as [s' u|s' e]; unfold ep in Hc; cbn [sof] in Hc; [apply IH; exact Hc|].
  destruct e; try (unfold ep; cbn [sof]; exact Hc). apply IH. exact Hc.
Qed.

Lemma ep_repay_loans c s o : EP s -> ep (repay_loans c s o).
Proof.
  intros H. unfold repay_loans. apply ep_obind; [ep_auto|]. intros s1 u H1.
  apply ep_obind; [apply ep_repay_each; exact H1|]. intros s2 ids H2. ep_auto.
Qed.

Lemma ep_order_closed c s o : EP s -> ep (order_closed c s o).
Proof.
  intros H. unfold order_closed. apply ep_obind; [apply ep_update_balances; exact H|].
  intros s1 u H1. destruct (o_ar o && negb (Qzero (filled o))); [apply ep_repay_loans; exact H1 | ep_auto].
Qed.

Lemma ep_close_as c s o w :
  (forall t, w = Some t -> s_now s0 = Some t) -> EP s ->
  ep (obind (order_closed c (put_order s (with_state o SCanceled)) (with_state o SCanceled))
            (fun s o2 => Done (push_update s o2 w) tt)).
Proof.
  intros Hw H. apply ep_obind.
  - apply ep_order_closed. EP_same.
  - intros s1 o2 H1. unfold ep. cbn [sof]. apply EP_push; assumption.
Qed.

Lemma ep_order_not_filled c s o when : s_now s0 = Some when -> EP s -> ep (order_not_filled c s o when).
Proof.
  intros Hn H. unfold order_not_filled.
  assert (Hw : forall t, Some when = Some t -> s_now s0 = Some t) by (intros t E; inversion E; subst; exact Hn).
  destruct (o_kind o); try (ep_auto; fail); (destruct (negb (is_open o)); [ep_auto | apply ep_close_as; assumption]).
Qed.

Lemma ep_process_order c s l o p when b : s_now s0 = Some when -> EP s -> ep (process_order c s l o p when b).
Proof.
  intros Hn H. unfold process_order.
  assert (Hw : forall t, Some when = Some t -> s_now s0 = Some t) by (intros t E; inversion E; subst; exact Hn).
  apply ep_obind; [ep_auto|]. intros s1 [u hit] H1.
  apply ep_obind; [apply ep_lift; EP_same|]. intros s2 pi H2.
  destruct (match u with Some (bv, qv) => round_bu pi (Some bv) (Some qv) | None => (None, None) end) as [rb rq].
  destruct rb as [bv|]; [destruct rq as [qv|]|];
    try (apply ep_obind; [apply ep_order_not_filled; assumption | intros; ep_auto]).
  apply ep_obind; [ep_auto|]. intros s3 fee H3.
  match goal with |- ep (match update_balances ?c ?s ?o ?f with _ => _ end) =>
    pose proof (ep_update_balances c s o f H3) as Hu; destruct (update_balances c s o f) as [s4 u4|s4 e4] end;
    unfold ep in Hu; cbn [sof] in Hu.
  - apply ep_obind; [ep_auto|]. intros s5 l' H5.
    apply ep_obind.
    + match goal with |- ep (if ?bb then _ else _) => destruct bb end;
        [unfold ep; cbn [sof]; EP_same | apply ep_order_closed; EP_same].
    + intros s6 o2 H6. unfold ep. cbn [sof]. apply EP_push; assumption.
  - destruct e4; try (unfold ep; cbn [sof]; exact Hu).
    apply ep_obind; [apply ep_order_not_filled; assumption | intros; ep_auto].
Qed.

Lemma ep_process_all c ids p when b : s_now s0 = Some when ->
  forall s l, EP s -> ep (process_all c s l ids p when b).
Proof.
  intros Hn. induction ids as [|id r IH]; intros s l H; cbn [process_all]; [exact H|].
  destruct (get_order s id) as [o|]; [|apply IH; exact H].
  destruct (is_open o && pair_eqb (o_pair o) p); [|apply IH; exact H].
  apply ep_obind; [apply ep_process_order; assumption | intros s1 l1 H1; apply IH; exact H1].
Qed.

Lemma ep_add_order c s o : EP s -> ep (add_order c s o).
Proof.
  intros H. unfold add_order. apply ep_obind; [ep_auto|]. intros s1 req H1.
  apply ep_obind.
  - destruct (vnonempty req); [|ep_auto].
    apply ep_obind; [destruct (o_ab o); [apply ep_borrow_loop; exact H1 | ep_auto]|].
    intros s2 lids H2. ep_auto.
  - intros s2 lids H2. unfold ep. cbn [sof]. apply EP_push; [intros t E; discriminate E|]. EP_same.
Qed.

Lemma ep_create_order c s k op p amount ab ar : EP s -> ep (create_order c s k op p amount ab ar).
Proof.
  intros H. unfold create_order. apply ep_obind; [ep_auto|]. intros s1 pi H1.
  apply ep_obind; [ep_auto|]. intros s2 u H2. apply ep_add_order. exact H2.
Qed.

Lemma ep_cancel_order c s id : EP s -> ep (cancel_order c s id).
Proof.
  intros H. unfold cancel_order. destruct (get_order s id) as [o|]; [|ep_auto].
  destruct (negb (is_open o)); [ep_auto|].
  apply ep_obind; [ep_auto|]. intros s1 u H1. apply ep_close_as; [intros t E; discriminate E | exact H1].
Qed.
End Pass.

Lemma EP_refl s : EP s s.
Proof. split; [reflexivity|]. exists []. split; [symmetry; apply app_nil_r | constructor]. Qed.

(* ---------------------------------------------------------------------------------------------- *)
Definition le_now (now : option Z) (w : Z) : Prop := match now with Some t => (t <= w)%Z | None => True end.

(* events sorted by time, none dated after the clock, none at all before the first bar *)
Definition EI (s : st) : Prop :=
  StronglySorted Z.le (map fst (s_events s)) /\
  match s_now s with
  | None => s_events s = []
  | Some t => Forall (fun e => (fst e <= t)%Z) (s_events s)
  end.

Lemma SS_app (l k : list Z) t :
  StronglySorted Z.le l -> Forall (fun x => (x <= t)%Z) l -> Forall (fun x => x = t) k -> StronglySorted Z.le (l ++ k).
Proof.
  intros Hs Hl Hk. induction l as [|x r IH]; cbn [app].
  - induction Hk as [|y k' Ey Hk' IHk]; [constructor|]. constructor; [exact IHk|].
    subst y. eapply Forall_impl; [|exact Hk']. intros z Ez. cbv beta in Ez. subst z. lia.
  - inversion Hs as [|? ? Hr Hx]; subst. inversion Hl as [|? ? Hxt Hrt]; subst.
    constructor; [apply IH; assumption|]. apply Forall_app. split; [exact Hx|].
    eapply Forall_impl; [|exact Hk]. intros z Ez. cbv beta in Ez. subst z. exact Hxt.
Qed.

Lemma EI_EP s0 s : EI s0 -> EP s0 s -> EI s.
Proof.
  intros [Hs Hb] [Hn (k & Ek & Fk)]. unfold EI. rewrite Hn, Ek.
  destruct (s_now s0) as [t|] eqn:E.
  - assert (Fk' : Forall (fun x => x = t) (map fst k)).
    { apply Forall_forall. intros x Hx. apply in_map_iff in Hx. destruct Hx as (e & Ee & Hin).
      rewrite Forall_forall in Fk. specialize (Fk e Hin). inversion Fk. subst. reflexivity. }
    split.
    + rewrite map_app. apply (SS_app _ _ t); [exact Hs| |exact Fk'].
      apply Forall_forall. intros x Hx. apply in_map_iff in Hx. destruct Hx as (e & Ee & Hin).
      rewrite Forall_forall in Hb. subst x. apply Hb. exact Hin.
    + apply Forall_app. split; [exact Hb|]. apply Forall_forall. intros e Hin.
      rewrite Forall_forall in Fk. specialize (Fk e Hin). inversion Fk. lia.
  - assert (k = []) by (destruct k as [|e k']; [reflexivity | inversion Fk as [|? ? X _]; discriminate X]).
    subst k. rewrite app_nil_r. split; [exact Hs | exact Hb].
Qed.

Lemma EI_set_now s cl w : le_now (s_now s) w -> EI s -> EI (set_close_now s cl (Some w)).
Proof.
  intros Hle [Hs Hb]. unfold EI. cbn [set_close_now s_now s_events]. split; [exact Hs|].
  destruct (s_now s) as [t|]; cbn [le_now] in Hle.
  - eapply Forall_impl; [|exact Hb]. intros e He. cbv beta in *. lia.
  - rewrite Hb. constructor.
Qed.

Definition op_time_ok (now : option Z) (o : op) : Prop :=
  match o with OBar _ w _ => le_now now w | _ => True end.

Lemma EI_step c s o : op_time_ok (s_now s) o -> EI s ->
  EI (fst (step c s o)) /\ s_now (fst (step c s o)) = match o with OBar _ w _ => Some w | _ => s_now s end.
Proof.
  intros Ht Hi. destruct o; cbn [step op_time_ok] in *.
  - (* bar *)
    unfold on_bar, bump_reindex, finish_reindex.
    set (s1 := set_close_now s (set_pair (s_close s) p (b_close b)) (Some when)).
    set (s2 := set_open_idx s1 (s_open_idx s1) (S (s_reidx s1))).
    assert (I2 : EI s2) by (change (EI s1); apply EI_set_now; assumption).
    assert (N2 : s_now s2 = Some when) by reflexivity.
    match goal with |- context [process_all c s2 ?l0 ?ids p when b] =>
      pose proof (ep_process_all s2 c ids p when b N2 s2 l0 (EP_refl s2)) as F;
      destruct (process_all c s2 l0 ids p when b) as [s3 l3|s3 e3] end; unfold ep in F; cbn [sof obind fst] in *.
    + match goal with |- context [if ?f then _ else _] => destruct f end; cbn [fst];
        (split; [eapply EI_EP; [exact I2|]; first [exact F | apply (EP_same s2 s3); [reflexivity | reflexivity | exact F]]
                | destruct F as [Fn _]; cbn [set_open_idx s_now]; rewrite Fn; exact N2]).
    + split; [exact (EI_EP s2 s3 I2 F) | destruct F as [Fn _]; rewrite Fn; exact N2].
  - pose proof (ep_create_order s c s k o p amount ab ar (EP_refl s)) as F.
    destruct (create_order c s k o p amount ab ar); unfold ep in F; cbn [sof fst] in *;
      (split; [exact (EI_EP s _ Hi F) | exact (proj1 F)]).
  - pose proof (ep_cancel_order s c s id (EP_refl s)) as F.
    destruct (cancel_order c s id); unfold ep in F; cbn [sof fst] in *;
      (split; [exact (EI_EP s _ Hi F) | exact (proj1 F)]).
  - pose proof (ep_create_loan s c s x amount (EP_refl s)) as F.
    destruct (create_loan c s x amount); unfold ep in F; cbn [sof fst] in *;
      (split; [exact (EI_EP s _ Hi F) | exact (proj1 F)]).
  - pose proof (ep_repay_loan s c s id (EP_refl s)) as F.
    destruct (repay_loan c s id); unfold ep in F; cbn [sof fst] in *;
      (split; [exact (EI_EP s _ Hi F) | exact (proj1 F)]).
  - unfold list_open, bump_reindex, finish_reindex.
    match goal with |- context [if ?f then _ else _] => destruct f end; cbn [fst]; (split; [exact Hi | reflexivity]).
Qed.

(* bars come in non-decreasing time order *)
Fixpoint times_ok (now : option Z) (ops : list op) : Prop :=
  match ops with
  | [] => True
  | o :: r => op_time_ok now o /\ times_ok (match o with OBar _ w _ => Some w | _ => now end) r
  end.

Theorem run_EI c ops : forall s, times_ok (s_now s) ops -> EI s -> EI (run c s ops).
Proof.
  unfold run. induction ops as [|o r IH]; intros s Ht Hi; cbn [fold_left]; [exact Hi|].
  destruct Ht as [Ho Hr]. destruct (EI_step c s o Ho Hi) as [I1 N1].
  apply IH; [rewrite N1; exact Hr | exact I1].
Qed.

(* C05: the order events of any history are in time order, and none is dated after the clock *)
Theorem events_in_time_order c initial ops :
  times_ok None ops ->
  let s := run c (init_st initial) ops in
  StronglySorted Z.le (map fst (s_events s)) /\
  forall t, s_now s = Some t -> Forall (fun e => (fst e <= t)%Z) (s_events s).
Proof.
  intros Ht s.
  assert (Hi : EI (init_st initial)) by (split; [constructor | reflexivity]).
  destruct (run_EI c ops (init_st initial) Ht Hi) as [Hs Hb]. fold s in Hs, Hb.
  split; [exact Hs|]. intros t Et. rewrite Et in Hb. exact Hb.
Qed.
