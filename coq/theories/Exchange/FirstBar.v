(* C05, whole history: market and stop orders do not survive the first bar of their pair.  Whenever the exchange has
   processed a bar of pair [p] without an internal error, no market or stop order of pair [p] that existed before the bar
   is open any more: it was filled completely (NoPartial.v: such an order never fills partially) or closed as not filled
   (no liquidity for its whole amount, a stop price the bar did not reach, an amount that rounds to nothing, funds that
   do not cover the fill).  The proof follows the traversal of the open-order index (IndexProofs.v: it contains the id of
   every open order wherever the 50-call re-indexing falls): processing a market / stop order ends with that order
   closed, processing another order never touches it, and a closed order never changes again. *)
From Coq Require Import ZArith QArith Qround Lia Lqa List Bool PArith.
From Basana Require Import Num.DecQ Num.DecQProofs Exchange.Model Exchange.AcctProofs Exchange.StepProofs
  Exchange.OpProofs Exchange.FeeProofs Exchange.OrderProofs Exchange.LifeProofs Exchange.Prims Exchange.FillBounds
  Exchange.Structure Exchange.FillTimes Exchange.NoPartial Exchange.IndexProofs.
Import ListNotations.
Open Scope Q_scope.

(* ---------------------------------------------------------------------------------------------- *)
(* operations below the order manager leave the order records alone *)
Section OFrame.
Variable OS : list order.
Definition Ko (s : st) : Prop := s_orders s = OS.
Definition ko {A} (r : outcome A) : Prop := Ko (sof r).

Lemma ko_obind A B (r : outcome A) (f : st -> A -> outcome B) :
  ko r -> (forall s a, Ko s -> ko (f s a)) -> ko (obind r f).
Proof. destruct r as [s a|s e]; unfold ko; cbn [obind sof]; intros H Hf; [apply Hf; exact H | exact H]. Qed.

Lemma ko_lift A s (r : res A) : Ko s -> ko (lift s r).
Proof. destruct r; unfold ko; cbn [lift sof]; auto. Qed.

Lemma ko_upd c s db dh dbo : Ko s -> ko (upd_acct c s db dh dbo).
Proof. intros H. unfold upd_acct. destruct (acct_update _ _ _ _ _); unfold ko; cbn [sof]; exact H. Qed.

Ltac ko_step :=
  match goal with
  | |- ko (obind _ _) => apply ko_obind; [| intros ? ? ?]
  | |- ko (lift _ _) => apply ko_lift
  | |- ko (upd_acct _ _ _ _ _) => apply ko_upd
  | |- ko (Done _ _) => unfold ko; cbn [sof]
  | |- ko (Fail _ _) => unfold ko; cbn [sof]
  | |- ko (if ?b then _ else _) => destruct b
  | |- ko (match ?x with _ => _ end) => destruct x
  | |- Ko _ => first [assumption | (unfold Ko in *; cbn; assumption)]
  end.
Ltac ko_auto := repeat ko_step.

Lemma ko_repay_loan c s id : Ko s -> ko (repay_loan c s id).
Proof. intros H. unfold repay_loan. ko_auto. Qed.

Lemma ko_update_balances c s o bu : Ko s -> ko (update_balances c s o bu).
Proof. intros H. unfold update_balances. ko_auto. Qed.

Lemma ko_repay_each c ids : forall s done, Ko s -> ko (repay_each c s ids done).
Proof.
  induction ids as [|id r IH]; intros s done H; cbn [repay_each]; [unfold ko; cbn [sof]; exact H|].
  pose proof (ko_repay_loan c s id H) as H1.
  destruct (repay_loan c s id) as [s1 u|s1 e]; unfold ko in H1; cbn [sof] in H1; [apply IH; exact H1|].
  destruct e; try (unfold ko; cbn [sof]; exact H1). apply IH; exact H1.
Qed.
End OFrame.

(* ---------------------------------------------------------------------------------------------- *)
Definition closed_at (s : st) (id : nat) : Prop :=
  exists o, get_order s id = Some o /\ is_open o = false.

Lemma get_put s o : (o_id o < length (s_orders s))%nat -> get_order (put_order s o) (o_id o) = Some o.
Proof.
  intros H. unfold get_order, put_order. cbn [set_orders s_orders]. rewrite nth_error_replace_nth, Nat.eqb_refl.
  destruct (nth_error (s_orders s) (o_id o)) eqn:E; [reflexivity|]. apply nth_error_None in E. lia.
Qed.

Lemma length_put s o : length (s_orders (put_order s o)) = length (s_orders s).
Proof. unfold put_order. cbn [set_orders s_orders]. apply length_replace_nth. Qed.

Lemma orders_push s o w : s_orders (push_update s o w) = s_orders s.
Proof. unfold push_update. destruct w; [reflexivity|]. destruct (s_now s); reflexivity. Qed.

(* closing an order that is stored at its id leaves a record with the same state there *)
Lemma order_closed_state c s o s' o' :
  get_order s (o_id o) = Some o -> order_closed c s o = Done s' o' ->
  exists o2, get_order s' (o_id o) = Some o2 /\ o_state o2 = o_state o /\ o_fb o2 = o_fb o.
Proof.
  intros Hg H. unfold order_closed in H.
  pose proof (ko_update_balances (s_orders s) c s o [] eq_refl) as K1.
  destruct (update_balances c s o []) as [s1 u1|s1 e1]; cbn [obind] in H; [|discriminate H].
  unfold ko, Ko in K1. cbn [sof] in K1.
  destruct (o_ar o && negb (Qzero (filled o))).
  - unfold repay_loans in H.
    destruct (check_infos c s1 (s_loans s1)) as [u2|e2]; cbn [lift obind] in H; [|discriminate H].
    match type of H with obind (repay_each c s1 ?ids []) _ = _ =>
      pose proof (ko_repay_each (s_orders s) c ids s1 [] K1) as K2; destruct (repay_each c s1 ids []) as [s2 ids2|s2 e3] end;
      cbn [obind] in H; [|discriminate H].
    unfold ko, Ko in K2. cbn [sof] in K2. inversion H; subst s' o'.
    exists (add_loans o ids2). split; [|split; reflexivity].
    change (o_id o) with (o_id (add_loans o ids2)). apply get_put. cbn [add_loans o_id]. rewrite K2.
    apply nth_error_Some. unfold get_order in Hg. rewrite Hg. discriminate.
  - inversion H; subst s' o'. exists o. split; [|split; reflexivity]. unfold get_order in *. rewrite K1. exact Hg.
Qed.

Lemma aon_not_filled_closes c s o when s' u :
  aon (o_kind o) -> (o_id o < length (s_orders s))%nat ->
  order_not_filled c s o when = Done s' u -> closed_at s' (o_id o).
Proof.
  intros Ka Hl H. unfold order_not_filled in H.
  assert (X : (if negb (is_open o) then Fail s EAssert else
               let o1 := with_state o SCanceled in let s1 := put_order s o1 in
               obind (order_closed c s1 o1) (fun s o2 => Done (push_update s o2 (Some when)) tt)) = Done s' u).
  { destruct Ka as [Ek | [sp Ek]]; rewrite Ek in H; exact H. }
  clear H. destruct (negb (is_open o)); [discriminate X|]. cbn zeta in X.
  assert (Hg : get_order (put_order s (with_state o SCanceled)) (o_id (with_state o SCanceled)) = Some (with_state o SCanceled))
    by (apply get_put; exact Hl).
  destruct (order_closed c (put_order s (with_state o SCanceled)) (with_state o SCanceled)) as [s2 o2|s2 e2] eqn:Ec;
    cbn [obind] in X; [|discriminate X].
  destruct (order_closed_state _ _ _ _ _ Hg Ec) as (o3 & Hg3 & Es3 & _). inversion X; subst s'.
  exists o3. split.
  - unfold get_order in *. rewrite orders_push. exact Hg3.
  - unfold is_open. rewrite Es3. reflexivity.
Qed.

Lemma Qzero_false x : Qzero x = false -> ~ x == 0.
Proof. unfold Qzero. intros H E. apply Qeq_bool_iff in E. congruence. Qed.

Section FirstBar.
Variable c : cfg.

(* processing a market / stop order against a bar of its pair ends with the order closed *)
Lemma process_order_closes_aon s l o p when b s' l' :
  get_order s (o_id o) = Some o -> is_open o = true -> aon (o_kind o) -> NP c o ->
  process_order c s l o p when b = Done s' l' -> closed_at s' (o_id o).
Proof.
  intros Hg Hop Ka Hnp H. unfold process_order in H.
  assert (Hl : (o_id o < length (s_orders s))%nat)
    by (apply nth_error_Some; unfold get_order in Hg; rewrite Hg; discriminate).
  destruct (balance_updates c l o b) as [[u hit]|ebu] eqn:Ebu; cbn [lift obind] in H; [|discriminate H].
  set (o1 := with_hit o hit) in *. set (s1 := put_order s o1) in *.
  assert (Ka1 : aon (o_kind o1)) by exact Ka.
  assert (Hl1 : (o_id o1 < length (s_orders s1))%nat) by (unfold s1; rewrite length_put; exact Hl).
  destruct (get_pair_info c (o_pair o1)) as [pi|epi] eqn:Epi; cbn [lift obind] in H; [|discriminate H].
  destruct (match u with Some (bv, qv) => round_bu pi (Some bv) (Some qv) | None => (None, None) end) as [rb rq] eqn:Er.
  assert (NF : forall s2, s_orders s2 = s_orders s1 ->
                obind (order_not_filled c s2 o1 when) (fun s _ => Done s l) = Done s' l' -> closed_at s' (o_id o)).
  { intros s2 E2 X. destruct (order_not_filled c s2 o1 when) as [s3 u3|s3 e3] eqn:En; cbn [obind] in X; [|discriminate X].
    inversion X; subst s'. change (o_id o) with (o_id o1). apply (aon_not_filled_closes c s2 o1 when s3 u3 Ka1); [|exact En].
    rewrite E2. exact Hl1. }
  destruct rb as [bv|]; [destruct rq as [qv|]|]; try (apply (NF s1 eq_refl); exact H).
  destruct u as [[b0 q0]|]; [|discriminate Er].
  destruct (calc_fee c (snd pi) o1 qv) as [fee|ef] eqn:Ef; cbn [lift obind] in H; [|discriminate H].
  match type of H with (match update_balances c s1 o1 ?f with _ => _ end) = _ =>
    pose proof (ko_update_balances (s_orders s1) c s1 o1 f eq_refl) as K2;
    destruct (update_balances c s1 o1 f) as [s2 u2|s2 e2] end; unfold ko, Ko in K2; cbn [sof] in K2.
  - destruct (take_liquidity l (Qabsq bv)) as [l2|el] eqn:El; cbn [lift obind] in H; [|discriminate H].
    set (o2 := add_fill o1 when bv qv (match fee with Some f => f | None => 0 end)) in *.
    assert (Hl2 : (o_id o2 < length (s_orders s2))%nat) by (rewrite K2; exact Hl1).
    assert (Hcl : is_open o2 = false).
    { destruct (is_open o2) eqn:Eo2; [exfalso|reflexivity].
      pose proof (NP_fill c l o b when Hop hit pi b0 q0 bv qv fee Ebu Epi Er Ef Hnp) as N2.
      destruct (N2 Ka) as (_ & _ & Hz & _). specialize (Hz Eo2).
      destruct (Hnp Ka) as (_ & _ & Hz0 & _). specialize (Hz0 Hop).
      destruct pi as [bp qp]. destruct (round_bu_some bp qp b0 q0 bv qv Er) as (Eb & Enz & _).
      apply Qzero_false in Enz. apply Enz. rewrite <- Eb.
      unfold add_fill in Hz. cbn [o_fb with_hit] in Hz. rewrite Qred_correct in Hz. lra. }
    rewrite Hcl in H.
    assert (Hg2 : get_order (put_order s2 o2) (o_id o2) = Some o2) by (apply get_put; exact Hl2).
    destruct (order_closed c (put_order s2 o2) o2) as [s4 o4|s4 e4] eqn:Ec; cbn [obind] in H; [|discriminate H].
    destruct (order_closed_state _ _ _ _ _ Hg2 Ec) as (o5 & Hg5 & Es5 & _). inversion H; subst s'.
    exists o5. split.
    + unfold get_order in *. rewrite orders_push. exact Hg5.
    + unfold is_open in *. rewrite Es5. exact Hcl.
  - destruct e2; try discriminate H. apply (NF s2 K2). exact H.
Qed.

Definition T2 : pair -> fill -> Prop := fun _ _ => True.
Definition Jk (o : order) : Prop := aon (o_kind o).

Lemma Jk_fill l o b when : fill_keeps Jk c l o b when.
Proof. intros hit pi bv0 qv0 bv qv fee _ _ _ _ H. exact H. Qed.

(* the traversal: every market / stop order of pair [p] that is listed is closed at the end *)
Lemma process_all_closes_aon os0 ids p when b : forall s l s' l',
  WF s -> liq_ok l -> FT T2 (NP c) os0 s -> FT T2 Jk os0 s ->
  (forall i o0, nth_error os0 i = Some o0 -> NP c o0) ->
  process_all c s l ids p when b = Done s' l' ->
  forall id o0, In id ids -> nth_error os0 id = Some o0 -> aon (o_kind o0) -> pair_eqb (o_pair o0) p = true ->
  closed_at s' id.
Proof.
  induction ids as [|h r IH]; intros s l s' l' Hw Hl F1 F2 N0 H id o0 Hin E0 Ka Hp; [destruct Hin|].
  cbn [process_all] in H.
  (* closed now -> closed at the end *)
  assert (CS : forall s1 l1, WF s1 -> liq_ok l1 -> process_all c s1 l1 r p when b = Done s' l' ->
                             closed_at s1 id -> closed_at s' id).
  { intros s1 l1 W1 L1 X (ox & Gx & Cx).
    destruct (rp_process_all c s1 r p when b s1 l1 (R_of_WF c s1 W1) L1) as [(_ & _ & Fn) _].
    rewrite X in Fn. cbn [sof] in Fn. exists ox. split; [exact (Fn id ox Gx Cx) | exact Cx]. }
  destruct (get_order s h) as [oh|] eqn:Eg.
  2:{ destruct Hin as [<-|Hin]; [|exact (IH s l s' l' Hw Hl F1 F2 N0 H id o0 Hin E0 Ka Hp)].
      exfalso. destruct F1 as [Len _]. unfold get_order in Eg. apply nth_error_None in Eg.
      assert (h < length os0)%nat by (apply nth_error_Some; rewrite E0; discriminate). lia. }
  destruct (is_open oh && pair_eqb (o_pair oh) p) eqn:Eop.
  - assert (Eid : o_id oh = h) by (destruct Hw as (Ho & _); destruct (Ho _ _ Eg); assumption).
    assert (Hg : get_order s (o_id oh) = Some oh) by (rewrite Eid; exact Eg).
    assert (Hoo : OW oh) by (destruct Hw as (Ho & _); destruct (Ho _ _ Eg); assumption).
    apply andb_true_iff in Eop. destruct Eop as [Hopn Hpp].
    assert (Hwo : was_open s (o_id oh)).
    { intros x Hx. unfold get_order in Hg. rewrite Hg in Hx. inversion Hx; subst. exact Hopn. }
    destruct (rp_process_order c s s l oh p when b (R_of_WF c s Hw) Hg Hwo Hl) as [R1 L1].
    assert (Pw : forall J0 : order -> Prop, forall pr pi bq qq fq, get_pair_info c pr = Ok pi -> on_grid (fst pi) bq ->
                   on_grid (snd pi) qq -> on_grid (snd pi) fq -> T2 pr (mkFill when bq qq fq)) by (intros; exact I).
    pose proof (fp_process_order T2 (NP c) (NP_hit c) (NP_state c) (NP_loans c) os0 c s l oh p when b (Pw (NP c))
                                 (NP_fill c l oh b when Hopn) F1 (ext_of_FT T2 (NP c) os0 s h oh Hw F1 Eg)) as G1.
    pose proof (fp_process_order T2 Jk (fun o _ H => H) (fun o H => H) (fun o _ H => H) os0 c s l oh p when b (Pw Jk)
                                 (Jk_fill l oh b when) F2 (ext_of_FT T2 Jk os0 s h oh Hw F2 Eg)) as G2.
    destruct (process_order c s l oh p when b) as [s1 l1|s1 e1] eqn:Ep; cbn [obind sof] in *; [|discriminate H].
    unfold fp in G1, G2. cbn [sof] in G1, G2. destruct R1 as (W1 & _).
    destruct Hin as [<-|Hin]; [|exact (IH s1 l1 s' l' W1 L1 G1 G2 N0 H id o0 Hin E0 Ka Hp)].
    (* the head: it is a market / stop order, so processing it closed it *)
    apply (CS s1 l1 W1 L1 H). rewrite <- Eid.
    destruct F1 as [_ F1]. destruct F2 as [_ F2].
    destruct (F1 h o0 oh E0 Eg) as (_ & _ & J1). destruct (F2 h o0 oh E0 Eg) as (_ & _ & J2).
    apply (process_order_closes_aon s l oh p when b s1 l1 Hg Hopn (J2 Ka) (J1 (N0 h o0 E0)) Ep).
  - destruct Hin as [<-|Hin]; [|exact (IH s l s' l' Hw Hl F1 F2 N0 H id o0 Hin E0 Ka Hp)].
    (* the head is not processed: it has the pair of the bar, so it is not open *)
    apply (CS s l Hw Hl H). exists oh. split; [exact Eg|].
    destruct F1 as [_ F1]. destruct (F1 h o0 oh E0 Eg) as (Epair & _ & _).
    rewrite Epair, Hp in Eop. rewrite andb_true_r in Eop. exact Eop.
Qed.

(* one bar *)
Lemma on_bar_closes_aon s p when b s' u :
  cfg_ok c -> 0 <= b_volume b -> WF s -> IdxInv s -> NI c s ->
  on_bar c s p when b = Done s' u ->
  forall id o0, get_order s id = Some o0 -> aon (o_kind o0) -> pair_eqb (o_pair o0) p = true -> closed_at s' id.
Proof.
  intros Hc Hv Hw Hi Hn H id o0 Eg Ka Hp. unfold on_bar, bump_reindex in H.
  set (s1 := set_open_idx (set_close_now s (set_pair (s_close s) p (b_close b)) (Some when))
                          (s_open_idx (set_close_now s (set_pair (s_close s) p (b_close b)) (Some when)))
                          (S (s_reidx (set_close_now s (set_pair (s_close s) p (b_close b)) (Some when))))) in *.
  assert (W1 : WF s1) by exact Hw.
  match type of H with obind (process_all c s1 ?l0 ?ids p when b) _ = _ =>
    assert (L0 : liq_ok l0); [|destruct (process_all c s1 l0 ids p when b) as [s2 l2|s2 e2] eqn:Epa] end.
  { unfold cfg_ok in Hc. destruct (c_liq c) as [|lp ip]; [exact I|]. cbn [liq_ok].
    split; [lra|]. apply Qmult_le_0_compat; [exact Hv|]. apply Qle_shift_div_l; lra. }
  2:{ cbn [obind] in H. discriminate H. }
  cbn [obind] in H.
  assert (C2 : closed_at s2 id).
  { destruct (is_open o0) eqn:Eo.
    - match type of Epa with process_all c s1 ?l0 ?ids p when b = _ =>
        apply (process_all_closes_aon (s_orders s) ids p when b s1 l0 s2 l2 W1 L0 (FT_refl T2 (NP c) s) (FT_refl T2 Jk s)
                                      Hn Epa id o0); try assumption end.
      destruct Hi as (Ha & _). exact (Ha id o0 Eg Eo).
    - match type of Epa with process_all c s1 ?l0 ?ids p when b = _ =>
        destruct (rp_process_all c s1 ids p when b s1 l0 (R_of_WF c s1 W1) L0) as [(_ & _ & Fn) _] end.
      rewrite Epa in Fn. cbn [sof] in Fn. exists o0. split; [exact (Fn id o0 Eg Eo) | exact Eo]. }
  inversion H; subst s'. destruct C2 as (ox & Gx & Cx). exists ox. split; [|exact Cx].
  unfold finish_reindex. match goal with |- context [if ?f then _ else _] => destruct f end; exact Gx.
Qed.

(* C05, whole history *)
Theorem market_and_stop_orders_do_not_survive_a_bar initial ops p when b s' :
  cfg_ok c -> ops_ok (ops ++ [OBar p when b]) ->
  let s := run c (init_st initial) ops in
  step c s (OBar p when b) = (s', ROk) ->
  forall id o, get_order s id = Some o -> aon (o_kind o) -> pair_eqb (o_pair o) p = true ->
  exists o', get_order s' id = Some o' /\ is_open o' = false.
Proof.
  intros Hc Ho s Hs id o Eg Ka Hp.
  apply Forall_app in Ho. destruct Ho as [Ho Hb]. inversion Hb as [|? ? Hb1 _]; subst. cbn [op_ok] in Hb1.
  assert (Hw : WF s) by (apply (run_prims c ops (init_st initial) Hc Ho (WF_init initial))).
  assert (Hi : IdxInv s) by (apply run_IdxInv; [exact Hc | exact Ho | apply WF_init | apply IdxInv_init]).
  assert (Hn : NI c s).
  { apply run_NI; [exact Hc | exact Ho | apply WF_init | intros j x Hj; destruct j; discriminate Hj]. }
  cbn [step] in Hs. destruct (on_bar c s p when b) as [s2 u2|s2 e2] eqn:Eb; inversion Hs; subst s2.
  exact (on_bar_closes_aon s p when b s' u2 Hc Hb1 Hw Hi Hn Eb id o Eg Ka Hp).
Qed.
End FirstBar.
