(* Executable model of the backtesting exchange (basana/backtesting): AccountBalances + update rules,
   OrderManager, the four order types, fees, liquidity, LoanManager, MarginLoans, Prices, Config and
   ExchangeObjectContainer — a transliteration, in the same order of effects, of the Python code at
   /repo HEAD.  Money is exact [Q]; ids are creation indices; time is [Z] microseconds.
   Nothing in this file is a proof; proofs live in Exchange/*Proofs.v. *)
From Coq Require Import ZArith QArith Qround List Bool PArith.
From Basana Require Import Num.DecQ.
Import ListNotations.
Open Scope Q_scope.

Definition sym := positive.
Definition pair := (sym * sym)%type.                     (* (base, quote) *)
Definition pair_eqb (a b : pair) : bool := Pos.eqb (fst a) (fst b) && Pos.eqb (snd a) (snd b).

(* ---------------------------------------------------------------------------------------------- *)
(* ValueMap: association list, missing key = 0 *)
Definition vmap := list (sym * Q).
Fixpoint vget (m : vmap) (x : sym) : Q :=
  match m with [] => 0 | (k, v) :: r => if Pos.eqb k x then v else vget r x end.
Fixpoint vset (m : vmap) (x : sym) (v : Q) : vmap :=
  match m with
  | [] => [(x, v)]
  | (k, w) :: r => if Pos.eqb k x then (k, v) :: r else (k, w) :: vset r x v
  end.
Definition vaddk (m : vmap) (x : sym) (d : Q) : vmap := vset m x (Qred (vget m x + d)).
Definition vadd (a b : vmap) : vmap := fold_left (fun acc kv => vaddk acc (fst kv) (snd kv)) b a.
Definition vneg (a : vmap) : vmap := map (fun kv => (fst kv, - snd kv)) a.
Definition vkeys (m : vmap) : list sym := map fst m.
Definition vnonempty (m : vmap) : bool := match m with [] => false | _ => true end.

(* ---------------------------------------------------------------------------------------------- *)
Inductive err := ENotEnough | EError | ENotFound | ENoPrice | EAssert.
Inductive res (A : Type) := Ok (a : A) | Err (e : err).
Arguments Ok {A} a. Arguments Err {A} e.
Definition rbind {A B} (r : res A) (f : A -> res B) : res B :=
  match r with Ok a => f a | Err e => Err e end.
Notation "'do' x <- r ; k" := (rbind r (fun x => k)) (at level 200, x name, r at level 100, k at level 200).

(* ---------------------------------------------------------------------------------------------- *)
(* AccountBalances *)
Record acct := mkAcct { bal : vmap; hold : vmap; bor : vmap }.

Definition anyneg (m : vmap) : bool := existsb (fun kv => Qltb (snd kv) 0) m.

(* NonZero.check *)
Definition nonzero_rule (a : acct) : option err :=
  if anyneg (bal a) then Some ENotEnough
  else if anyneg (hold a) then Some EError
  else if anyneg (bor a) then Some EError
  else None.

(* ValidHold.check *)
Definition validhold_rule (a : acct) : option err :=
  if existsb (fun x => Qltb (vget (bal a) x) (vget (hold a) x)) (vkeys (hold a) ++ vkeys (bal a))
  then Some ENotEnough else None.

(* AccountBalances.update: compute, check every rule on the result, then commit *)
Definition acct_update (extra : acct -> acct -> option err) (a : acct) (db dh dbo : vmap) : res acct :=
  let a' := mkAcct (vadd (bal a) db) (vadd (hold a) dh) (vadd (bor a) dbo) in
  match nonzero_rule a' with Some e => Err e | None =>
  match validhold_rule a' with Some e => Err e | None =>
  match extra a a' with Some e => Err e | None => Ok a' end end end.

Definition avail (a : acct) (x : sym) : Q := vget (bal a) x - vget (hold a) x.

(* ---------------------------------------------------------------------------------------------- *)
(* Configuration *)
Record cond := mkCond {
  interest_sym : sym; interest_pct : Q; interest_period : Z (* microseconds; 0 = no period *);
  min_interest : Q; margin_req : Q }.
Inductive fee_cfg := NoFee | PctFee (pct minfee : Q).
Inductive liq_cfg := InfLiq | VolShare (limit_pct impact_pct : Q).
Inductive lend_cfg := NoLoans | Margin (quote : sym) (dflt : option cond) (conds : list (sym * cond)).
Record cfg := mkCfg {
  c_sym_prec : list (sym * nat);
  c_pair_info : list (pair * (nat * nat));
  c_default_pair : option (nat * nat);
  c_fee : fee_cfg; c_liq : liq_cfg; c_lend : lend_cfg }.

Fixpoint lookup_sym {A} (l : list (sym * A)) (x : sym) : option A :=
  match l with [] => None | (k, v) :: r => if Pos.eqb k x then Some v else lookup_sym r x end.
Fixpoint lookup_pair {A} (l : list (pair * A)) (p : pair) : option A :=
  match l with [] => None | (k, v) :: r => if pair_eqb k p then Some v else lookup_pair r p end.
Fixpoint set_pair {A} (l : list (pair * A)) (p : pair) (v : A) : list (pair * A) :=
  match l with
  | [] => [(p, v)]
  | (k, w) :: r => if pair_eqb k p then (k, v) :: r else (k, w) :: set_pair r p v
  end.

(* Config.get_pair_info *)
Definition get_pair_info (c : cfg) (p : pair) : res (nat * nat) :=
  match lookup_pair (c_pair_info c) p with
  | Some pi => Ok pi
  | None =>
    match lookup_sym (c_sym_prec c) (fst p), lookup_sym (c_sym_prec c) (snd p) with
    | Some bp, Some qp => Ok (bp, qp)
    | _, _ => match c_default_pair c with Some pi => Ok pi | None => Err EError end
    end
  end.
(* Config.get_symbol_info (the exchange sets no default symbol info) *)
Definition get_sym_prec (c : cfg) (x : sym) : res nat :=
  match lookup_sym (c_sym_prec c) x with Some p => Ok p | None => Err EError end.

(* ---------------------------------------------------------------------------------------------- *)
(* Orders and loans *)
Inductive okind := KMarket | KLimit (lp : Q) | KStop (sp : Q) | KStopLimit (sp lp : Q).
Inductive oper := Buy | Sell.
Inductive ostate := SOpen | SCompleted | SCanceled.
Record fill := mkFill { f_when : Z; f_base : Q; f_quote : Q; f_fee : Q }.
Record order := mkOrder {
  o_id : nat; o_kind : okind; o_op : oper; o_pair : pair; o_amount : Q; o_state : ostate;
  o_fb : Q;          (* balance_updates[base], signed *)
  o_fq : Q;          (* balance_updates[quote], signed *)
  o_fee : Q;         (* fees[quote], <= 0 *)
  o_hit : bool;      (* StopLimitOrder._stop_price_hit *)
  o_ab : bool; o_ar : bool;
  o_loans : list nat; o_fills : list fill }.
Record loan := mkLoan {
  l_id : nat; l_sym : sym; l_amount : Q; l_open : bool; l_created : Z; l_cond : cond; l_paid : Q }.

Definition is_open (o : order) : bool := match o_state o with SOpen => true | _ => false end.
Definition sign_of (op : oper) : Q := match op with Buy => 1 | Sell => -1 end.
Definition filled (o : order) : Q := Qabsq (o_fb o).
Definition pending (o : order) : Q := o_amount o - filled o.
Definition qfilled (o : order) : Q := Qabsq (o_fq o).

Record st := mkSt {
  s_acct : acct;
  s_orders : list order;             (* ExchangeObjectContainer._items, insertion order *)
  s_open_idx : list nat;             (* ExchangeObjectContainer._open_items *)
  s_reidx : nat;                     (* _reindex_counter *)
  s_holds : list (nat * vmap);       (* OrderManager._holds_by_order *)
  s_loans : list loan;
  s_close : list (pair * Q);         (* Prices._last_bars (close only) *)
  s_now : option Z;                  (* dispatcher clock *)
  s_events : list (Z * order) }.     (* order events pushed so far *)

Definition set_acct (s : st) (a : acct) : st :=
  mkSt a (s_orders s) (s_open_idx s) (s_reidx s) (s_holds s) (s_loans s) (s_close s) (s_now s) (s_events s).
Definition set_orders (s : st) (os : list order) : st :=
  mkSt (s_acct s) os (s_open_idx s) (s_reidx s) (s_holds s) (s_loans s) (s_close s) (s_now s) (s_events s).
Definition set_open_idx (s : st) (ix : list nat) (n : nat) : st :=
  mkSt (s_acct s) (s_orders s) ix n (s_holds s) (s_loans s) (s_close s) (s_now s) (s_events s).
Definition set_holds (s : st) (h : list (nat * vmap)) : st :=
  mkSt (s_acct s) (s_orders s) (s_open_idx s) (s_reidx s) h (s_loans s) (s_close s) (s_now s) (s_events s).
Definition set_loans (s : st) (ls : list loan) : st :=
  mkSt (s_acct s) (s_orders s) (s_open_idx s) (s_reidx s) (s_holds s) ls (s_close s) (s_now s) (s_events s).
Definition set_close_now (s : st) (cl : list (pair * Q)) (t : option Z) : st :=
  mkSt (s_acct s) (s_orders s) (s_open_idx s) (s_reidx s) (s_holds s) (s_loans s) cl t (s_events s).
Definition add_event (s : st) (e : Z * order) : st :=
  mkSt (s_acct s) (s_orders s) (s_open_idx s) (s_reidx s) (s_holds s) (s_loans s) (s_close s) (s_now s)
       (s_events s ++ [e]).

Definition get_order (s : st) (id : nat) : option order := nth_error (s_orders s) id.
Fixpoint replace_nth {A} (l : list A) (n : nat) (x : A) : list A :=
  match l, n with
  | [], _ => []
  | _ :: r, O => x :: r
  | y :: r, S n' => y :: replace_nth r n' x
  end.
Definition put_order (s : st) (o : order) : st := set_orders s (replace_nth (s_orders s) (o_id o) o).
Definition get_loan (s : st) (id : nat) : option loan := nth_error (s_loans s) id.
Definition put_loan (s : st) (l : loan) : st := set_loans s (replace_nth (s_loans s) (l_id l) l).

Fixpoint holds_get (h : list (nat * vmap)) (id : nat) : vmap :=
  match h with [] => [] | (k, v) :: r => if Nat.eqb k id then v else holds_get r id end.
Fixpoint holds_set (h : list (nat * vmap)) (id : nat) (v : vmap) : list (nat * vmap) :=
  match h with
  | [] => [(id, v)]
  | (k, w) :: r => if Nat.eqb k id then (k, v) :: r else (k, w) :: holds_set r id v
  end.
Fixpoint holds_del (h : list (nat * vmap)) (id : nat) : list (nat * vmap) :=
  match h with [] => [] | (k, w) :: r => if Nat.eqb k id then r else (k, w) :: holds_del r id end.

(* computations that may fail after having changed the state *)
Inductive outcome (A : Type) := Done (s : st) (a : A) | Fail (s : st) (e : err).
Arguments Done {A} s a. Arguments Fail {A} s e.
Definition obind {A B} (r : outcome A) (f : st -> A -> outcome B) : outcome B :=
  match r with Done s a => f s a | Fail s e => Fail s e end.
Definition lift {A} (s : st) (r : res A) : outcome A :=
  match r with Ok a => Done s a | Err e => Fail s e end.

(* ---------------------------------------------------------------------------------------------- *)
(* Prices *)
Definition convert (cl : list (pair * Q)) (amount : Q) (from to : sym) : res Q :=
  if Qzero amount then Ok 0 else
  match lookup_pair cl (from, to) with
  | Some p => Ok (amount * p)
  | None => match lookup_pair cl (to, from) with
            | Some p => Ok (amount * (1 / p))
            | None => Err ENoPrice
            end
  end.

(* Prices.convert_value_map *)
Fixpoint convert_value_map (cl : list (pair * Q)) (m : vmap) (to : sym) : res Q :=
  match m with
  | [] => Ok 0
  | (x, v) :: r =>
    do v' <- (if Pos.eqb x to then Ok v else convert cl v x to) ;
    do rest <- convert_value_map cl r to ;
    Ok (v' + rest)
  end.

(* ---------------------------------------------------------------------------------------------- *)
(* Loans: MarginLoan.calculate_interest followed by truncate + prune (LoanManager) *)
Definition calc_interest (cl : list (pair * Q)) (l : loan) (at_ : Z) : res Q :=
  if Z.ltb at_ (l_created l) then Err EAssert else
  let cnd := l_cond l in
  let i0 := interest_pct cnd / 100 * l_amount l in
  let i1 := if Z.eqb (interest_period cnd) 0 then i0
            else i0 * (inject_Z (at_ - l_created l) / inject_Z (interest_period cnd)) in
  do i2 <- (if Pos.eqb (interest_sym cnd) (l_sym l) then Ok i1
          else convert cl i1 (l_sym l) (interest_sym cnd)) ;
  Ok (Qmaxq i2 (min_interest cnd)).

Definition now_of (s : st) : res Z := match s_now s with Some t => Ok t | None => Err EError end.

(* outstanding interest as reported / charged: truncated to the interest symbol's precision *)
Definition outstanding (c : cfg) (s : st) (l : loan) : res Q :=
  do t <- now_of s ;
  do i <- calc_interest (s_close s) l t ;
  do p <- get_sym_prec c (interest_sym (l_cond l)) ;
  Ok (qtrunc p i).

Definition get_cond (c : cfg) (x : sym) : res cond :=
  match c_lend c with
  | NoLoans => Err EError
  | Margin _ dflt conds =>
    match lookup_sym conds x with
    | Some k => Ok k
    | None => match dflt with Some k => Ok k | None => Err EError end
    end
  end.

(* sum of the outstanding interest of the open loans, by interest symbol *)
Fixpoint interest_by_symbol (c : cfg) (s : st) (ls : list loan) (acc : vmap) : res vmap :=
  match ls with
  | [] => Ok acc
  | l :: r =>
    if l_open l then
      do i <- outstanding c s l ;
      interest_by_symbol c s r (if Qzero i then acc else vaddk acc (interest_sym (l_cond l)) i)
    else interest_by_symbol c s r acc
  end.

Fixpoint used_margin_map (c : cfg) (b : vmap) : res vmap :=
  match b with
  | [] => Ok []
  | (x, v) :: r =>
    do k <- get_cond c x ;
    do rest <- used_margin_map c r ;
    Ok ((x, margin_req k * v) :: rest)
  end.

Fixpoint equity_of (cl : list (pair * Q)) (q : sym) (ubal ubor : vmap) (keys : vmap) : res Q :=
  match keys with
  | [] => Ok 0
  | (x, b) :: r =>
    let net := b - vget ubor x in
    do v <- (if Qle_bool net 0 then Ok 0 else if Pos.eqb x q then Ok net else convert cl net x q) ;
    do rest <- equity_of cl q ubal ubor r ;
    Ok (v + rest)
  end.

(* MarginLoans._calculate_margin_level: None = no margin in use; Some (equity, used + interest) *)
Definition margin_level (c : cfg) (s : st) (q : sym) (upd : acct) : res (option (Q * Q)) :=
  do um <- used_margin_map c (bor upd) ;
  do used <- convert_value_map (s_close s) um q ;
  if Qzero used then Ok None else
  do im <- interest_by_symbol c s (s_loans s) [] ;
  do interest <- convert_value_map (s_close s) im q ;
  do equity <- equity_of (s_close s) q (bal upd) (bor upd) (bal upd) ;
  Ok (Some (equity, used + interest)).

(* CheckMarginLevel (after the fix: only updates that borrow more are restricted) *)
Definition margin_rule (c : cfg) (s : st) (cur upd : acct) : option err :=
  match c_lend c with
  | NoLoans => None
  | Margin q _ _ =>
    if negb (existsb (fun kv => Qltb (vget (bor cur) (fst kv)) (snd kv)) (bor upd)) then None
    else match margin_level c s q upd with
         | Err e => Some e
         | Ok None => None
         | Ok (Some (equity, denom)) =>
           if Qltb (equity / denom * 100) 100 then Some ENotEnough else None
         end
  end.

Definition upd_acct (c : cfg) (s : st) (db dh dbo : vmap) : outcome unit :=
  match acct_update (margin_rule c s) (s_acct s) db dh dbo with
  | Ok a' => Done (set_acct s a') tt
  | Err e => Fail s e
  end.

(* LoanManager.create_loan *)
Definition create_loan (c : cfg) (s : st) (x : sym) (amount : Q) : outcome nat :=
  if Qle_bool amount 0 then Fail s EError else
  obind (lift s (now_of s)) (fun s t =>
  obind (lift s (get_cond c x)) (fun s k =>
  let id := length (s_loans s) in
  let l := mkLoan id x amount true t k 0 in
  obind (lift s (outstanding c s l)) (fun s _ =>
  obind (upd_acct c s [(x, amount)] [] [(x, amount)]) (fun s _ =>
  Done (set_loans s (s_loans s ++ [l])) id)))).

Definition open_loan (s : st) (id : nat) : res loan :=
  match get_loan s id with
  | None => Err ENotFound
  | Some l => if l_open l then Ok l else Err EError
  end.

Definition close_loan (l : loan) (paid : Q) : loan :=
  mkLoan (l_id l) (l_sym l) (l_amount l) false (l_created l) (l_cond l) (Qred (l_paid l + paid)).

(* LoanManager.repay_loan *)
Definition repay_loan (c : cfg) (s : st) (id : nat) : outcome unit :=
  obind (lift s (open_loan s id)) (fun s l =>
  obind (lift s (outstanding c s l)) (fun s i =>
  let bu := vadd [(l_sym l, - l_amount l)] (if Qzero i then [] else [(interest_sym (l_cond l), - i)]) in
  obind (upd_acct c s bu [] [(l_sym l, - l_amount l)]) (fun s _ =>
  Done (put_loan s (close_loan l i)) tt))).

(* LoanManager.cancel_loan *)
Definition cancel_loan (c : cfg) (s : st) (id : nat) : outcome unit :=
  obind (lift s (open_loan s id)) (fun s l =>
  obind (lift s (now_of s)) (fun s t =>
  if negb (Z.eqb (l_created l) t) then Fail s EAssert else
  obind (upd_acct c s [(l_sym l, - l_amount l)] [] [(l_sym l, - l_amount l)]) (fun s _ =>
  Done (put_loan s (close_loan l 0)) tt))).

(* ---------------------------------------------------------------------------------------------- *)
(* Rounding of balance updates and fees (OrderManager._round_balance_updates / _round_fees) *)
Definition prune (q : option Q) : option Q :=
  match q with Some v => if Qzero v then None else Some v | None => None end.

Definition round_bu (pi : nat * nat) (b q : option Q) : option Q * option Q :=
  let '(bp, qp) := pi in
  let '(b', q1) :=
    match b with
    | None => (None, q)
    | Some bv =>
      let t := qtrunc bp bv in
      let q1 := match q with
                | Some qv => if negb (Qeq_bool t bv) && negb (Qzero qv) then Some (qv * t / bv) else Some qv
                | None => None
                end in
      (Some t, q1)
    end in
  (prune b', prune (option_map (qround qp) q1)).

(* Percentage.calculate_fees + _round_fees: pending fee (negative), in the quote symbol *)
Definition calc_fee (c : cfg) (qp : nat) (o : order) (bu_quote : Q) : res (option Q) :=
  match c_fee c with
  | NoFee => Ok None
  | PctFee pct mn =>
    if Qltb 0 (o_fee o) then Err EAssert else
    let total_q := o_fq o + bu_quote in
    let total_fee := - Qmaxq (Qabsq total_q * pct / 100) mn in
    let pend := total_fee - o_fee o in
    if Qltb pend 0 then Ok (prune (Some (qroundup qp pend))) else Ok None
  end.

Definition limit_of (k : okind) : option Q :=
  match k with KLimit lp => Some lp | KStopLimit _ lp => Some lp | _ => None end.
Definition stop_of (k : okind) : option Q :=
  match k with KStop sp => Some sp | KStopLimit sp _ => Some sp | _ => None end.

(* OrderManager._estimate_required_balances: list in dict order (base, then quote) *)
Definition estimate_required (c : cfg) (s : st) (o : order) : res vmap :=
  let est := match o_kind o with
             | KLimit lp => Some lp | KStopLimit _ lp => Some lp | KStop sp => Some sp
             | KMarket => lookup_pair (s_close s) (o_pair o)
             end in
  let est := match est with Some p => if Qzero p then lookup_pair (s_close s) (o_pair o) else Some p | None => None end in
  do pi <- get_pair_info c (o_pair o) ;
  let sg := sign_of (o_op o) in
  let '(b, q) := round_bu pi (Some (o_amount o * sg))
                          (option_map (fun p => o_amount o * p * - sg) est) in
  do fee <- (match b, q with
           | Some _, Some qv => calc_fee c (snd pi) o qv
           | _, _ => Ok None
           end) ;
  let qtot := match q, fee with
              | Some qv, Some f => Some (qv + f) | Some qv, None => Some qv
              | None, Some f => Some f | None, None => None end in
  let rb := match b with Some bv => if Qltb bv 0 then [(fst (o_pair o), - bv)] else [] | None => [] end in
  let rq := match qtot with Some qv => if Qltb qv 0 then [(snd (o_pair o), - qv)] else [] | None => [] end in
  Ok (rb ++ rq).

Definition push_update (s : st) (o : order) (when : option Z) : st :=
  let w := match when with Some t => Some t | None => s_now s end in
  match w with Some t => add_event s (t, o) | None => s end.

(* OrderManager._borrow *)
Fixpoint rollback_loans (c : cfg) (s : st) (ids : list nat) : outcome unit :=
  match ids with
  | [] => Done s tt
  | id :: r => obind (cancel_loan c s id) (fun s _ => rollback_loans c s r)
  end.

Fixpoint borrow_loop (c : cfg) (s : st) (shorts : vmap) (created : list nat) : outcome (list nat) :=
  match shorts with
  | [] => Done s created
  | (x, a) :: r =>
    match create_loan c s x a with
    | Done s' id => borrow_loop c s' r (created ++ [id])
    | Fail s' e =>
      (* rollback; an exception raised while rolling back replaces the original one *)
      match rollback_loans c s' created with
      | Done s'' _ => Fail s'' e
      | Fail s'' e' => Fail s'' e'
      end
    end
  end.

Definition shorts_of (a : acct) (required : vmap) : vmap :=
  flat_map (fun kv => let ph := avail a (fst kv) - snd kv in
                      if Qltb ph 0 then [(fst kv, Qred (- ph))] else []) required.

(* OrderManager.add_order *)
Definition add_order (c : cfg) (s : st) (o : order) : outcome nat :=
  obind (lift s (estimate_required c s o)) (fun s req =>
  obind (if vnonempty req then
           obind (if o_ab o then borrow_loop c s (shorts_of (s_acct s) req) [] else Done s [])
             (fun s lids =>
              obind (upd_acct c s [] req []) (fun s _ =>
              Done (set_holds s (holds_set (s_holds s) (o_id o) req)) lids))
         else Done s [])
    (fun s lids =>
     let o' := mkOrder (o_id o) (o_kind o) (o_op o) (o_pair o) (o_amount o) (o_state o) (o_fb o) (o_fq o)
                       (o_fee o) (o_hit o) (o_ab o) (o_ar o) lids (o_fills o) in
     let s1 := set_orders s (s_orders s ++ [o']) in
     let s2 := set_open_idx s1 (if is_open o' then s_open_idx s1 ++ [o_id o'] else s_open_idx s1) (s_reidx s1) in
     Done (push_update s2 o' None) (o_id o'))).

(* requests.*.validate *)
Definition validate (pi : nat * nat) (k : okind) (amount : Q) : res unit :=
  if Qle_bool amount 0 then Err EError else
  if negb (on_grid_b (fst pi) amount) then Err EError else
  let chk (p : Q) := if Qle_bool p 0 then false else on_grid_b (snd pi) p in
  match k with
  | KMarket => Ok tt
  | KLimit lp => if chk lp then Ok tt else Err EError
  | KStop sp => if chk sp then Ok tt else Err EError
  | KStopLimit sp lp => if chk sp && chk lp then Ok tt else Err EError
  end.

(* Exchange.create_order *)
Definition create_order (c : cfg) (s : st) (k : okind) (op : oper) (p : pair) (amount : Q) (ab ar : bool)
  : outcome nat :=
  obind (lift s (get_pair_info c p)) (fun s pi =>
  obind (lift s (validate pi k amount)) (fun s _ =>
  add_order c s (mkOrder (length (s_orders s)) k op p amount SOpen 0 0 0 false ab ar [] []))).

(* OrderManager._update_balances *)
Definition update_balances (c : cfg) (s : st) (o : order) (bu : vmap) : outcome unit :=
  let oh := holds_get (s_holds s) (o_id o) in
  let hu := if vnonempty oh then
              if is_open o then
                flat_map (fun kv => if Qltb (snd kv) 0 && existsb (Pos.eqb (fst kv)) (vkeys oh)
                                    then [(fst kv, Qmaxq (snd kv) (- vget oh (fst kv)))] else []) bu
              else vneg oh
            else [] in
  obind (if vnonempty bu || vnonempty hu then upd_acct c s bu hu [] else Done s tt) (fun s _ =>
  if vnonempty oh then
    if is_open o then Done (set_holds s (holds_set (s_holds s) (o_id o) (vadd oh hu))) tt
    else Done (set_holds s (holds_del (s_holds s) (o_id o))) tt
  else Done s tt).

(* stable sort by borrowed amount, descending (list.sort(key=..., reverse=True)) *)
Fixpoint insert_desc (l : loan) (ls : list loan) : list loan :=
  match ls with
  | [] => [l]
  | h :: r => if Qle_bool (l_amount h) (l_amount l) then l :: h :: r else h :: insert_desc l r
  end.
Definition sort_desc (ls : list loan) : list loan := fold_right insert_desc [] ls.

Fixpoint repay_each (c : cfg) (s : st) (ids : list nat) (done : list nat) : outcome (list nat) :=
  match ids with
  | [] => Done s done
  | id :: r =>
    match repay_loan c s id with
    | Done s' _ => repay_each c s' r (done ++ [id])
    | Fail s' ENotEnough => repay_each c s' r done
    | Fail s' e => Fail s' e
    end
  end.

Fixpoint check_infos (c : cfg) (s : st) (ls : list loan) : res unit :=
  match ls with
  | [] => Ok tt
  | l :: r => (if l_open l then do _ <- outstanding c s l ; check_infos c s r else check_infos c s r)
  end.

Definition add_loans (o : order) (ids : list nat) : order :=
  mkOrder (o_id o) (o_kind o) (o_op o) (o_pair o) (o_amount o) (o_state o) (o_fb o) (o_fq o) (o_fee o)
          (o_hit o) (o_ab o) (o_ar o) (o_loans o ++ filter (fun i => negb (existsb (Nat.eqb i) (o_loans o))) ids)
          (o_fills o).

(* OrderManager._repay_loans; get_loans(is_open=True) builds the info of every open loan first *)
Definition repay_loans (c : cfg) (s : st) (o : order) : outcome order :=
  let credit := match o_op o with Buy => fst (o_pair o) | Sell => snd (o_pair o) end in
  obind (lift s (check_infos c s (s_loans s))) (fun s _ =>
  let cands := sort_desc (filter (fun l => l_open l && Pos.eqb (l_sym l) credit) (s_loans s)) in
  obind (repay_each c s (map l_id cands) []) (fun s ids =>
  let o' := add_loans o ids in
  Done (put_order s o') o')).

(* OrderManager._order_closed *)
Definition order_closed (c : cfg) (s : st) (o : order) : outcome order :=
  obind (update_balances c s o []) (fun s _ =>
  if o_ar o && negb (Qzero (filled o)) then repay_loans c s o else Done s o).

Definition with_state (o : order) (stt : ostate) : order :=
  mkOrder (o_id o) (o_kind o) (o_op o) (o_pair o) (o_amount o) stt (o_fb o) (o_fq o) (o_fee o)
          (o_hit o) (o_ab o) (o_ar o) (o_loans o) (o_fills o).
Definition with_hit (o : order) (h : bool) : order :=
  mkOrder (o_id o) (o_kind o) (o_op o) (o_pair o) (o_amount o) (o_state o) (o_fb o) (o_fq o) (o_fee o)
          h (o_ab o) (o_ar o) (o_loans o) (o_fills o).

(* OrderManager.cancel_order *)
Definition cancel_order (c : cfg) (s : st) (id : nat) : outcome unit :=
  match get_order s id with
  | None => Fail s EError
  | Some o =>
    if negb (is_open o) then Fail s EError else
    (* closing an auto-repay order that traded prices the interest of every open loan: if that is going to fail it
       fails here, before anything is changed *)
    obind (lift s (if o_ar o && negb (Qzero (filled o)) then check_infos c s (s_loans s) else Ok tt)) (fun s _ =>
    let o1 := with_state o SCanceled in
    let s1 := put_order s o1 in
    obind (order_closed c s1 o1) (fun s o2 => Done (push_update s o2 None) tt))
  end.

(* ---------------------------------------------------------------------------------------------- *)
(* Liquidity strategies: (total, used); None = InfiniteLiquidity *)
Definition liq := option (Q * Q).
Definition liq_avail (l : liq) : option Q := match l with None => None | Some (t, u) => Some (t - u) end.
Definition gt_avail (x : Q) (l : liq) : bool :=
  match liq_avail l with None => false | Some a => Qltb a x end.
Definition min_avail (x : Q) (l : liq) : Q :=
  match liq_avail l with None => x | Some a => Qminq x a end.

(* calculate_price_impact *)
Definition price_impact (c : cfg) (l : liq) (amount : Q) : res Q :=
  match l with
  | None => if Qltb 0 amount then Ok 0 else Err EAssert
  | Some (t, u) =>
    if Qltb amount 0 then Err EAssert else
    if Qltb (t - u) amount then Err EError else
    let used := u + amount in
    if Qzero used then Ok 0 else
    let ip := match c_liq c with VolShare _ ip => ip / 100 | InfLiq => 0 end in
    let up := used / t in
    Ok (up * up * ip)
  end.

(* orders.slipped_price *)
Definition slipped (c : cfg) (l : liq) (price : Q) (op : oper) (amount : Q) (cap_low cap_high : option Q)
  : res Q :=
  do imp <- price_impact c l amount ;
  let p := match op with Buy => price * (1 + imp) | Sell => price * (1 - imp) end in
  let p := match cap_low with Some lo => Qmaxq p lo | None => p end in
  let p := match cap_high with Some hi => Qminq p hi | None => p end in
  Ok p.

Record bar := mkBar { b_open : Q; b_high : Q; b_low : Q; b_close : Q; b_volume : Q }.

Definition mk_updates (o : order) (amount : Q) (price : option Q) : option (Q * Q) :=
  match price with
  | Some p => if Qzero amount || Qzero p then None
              else Some (amount * sign_of (o_op o), p * amount * - sign_of (o_op o))
  | None => None
  end.

(* LimitOrder.get_balance_updates (also StopLimitOrder after the stop was hit) *)
Definition limit_updates (c : cfg) (l : liq) (o : order) (b : bar) (lp : Q) : res (option (Q * Q)) :=
  let amount := min_avail (pending o) l in
  if Qzero amount then Ok None else
  do price <- (match o_op o with
             | Buy => if Qltb (b_open b) lp
                      then do p <- slipped c l (b_open b) Buy amount None (Some lp) ; Ok (Some p)
                      else if Qle_bool (b_low b) lp then Ok (Some lp) else Ok None
             | Sell => if Qltb lp (b_open b)
                       then do p <- slipped c l (b_open b) Sell amount (Some lp) None ; Ok (Some p)
                       else if Qle_bool lp (b_high b) then Ok (Some lp) else Ok None
             end) ;
  Ok (mk_updates o amount price).

Definition in_range (b : bar) (p : Q) : bool := Qle_bool (b_low b) p && Qle_bool p (b_high b).

(* Order.get_balance_updates: returns the updates and the new value of the stop-hit latch *)
Definition balance_updates (c : cfg) (l : liq) (o : order) (b : bar) : res (option (Q * Q) * bool) :=
  match o_kind o with
  | KMarket =>
    if gt_avail (pending o) l then Ok (None, o_hit o) else
    let amount := pending o in
    do p <- (match o_op o with
           | Buy => slipped c l (b_open b) Buy amount None (Some (b_high b))
           | Sell => slipped c l (b_open b) Sell amount (Some (b_low b)) None
           end) ;
    Ok (Some (amount * sign_of (o_op o), p * amount * - sign_of (o_op o)), o_hit o)
  | KLimit lp => do u <- limit_updates c l o b lp ; Ok (u, o_hit o)
  | KStop sp =>
    if gt_avail (pending o) l then Ok (None, o_hit o) else
    let amount := pending o in
    let p0 := match o_op o with
              | Buy => if Qle_bool sp (b_open b) then Some (b_open b)
                       else if Qle_bool sp (b_high b) then Some sp else None
              | Sell => if Qle_bool (b_open b) sp then Some (b_open b)
                        else if Qle_bool (b_low b) sp then Some sp else None
              end in
    match p0 with
    | Some pv =>
      if Qzero pv then Ok (None, o_hit o) else
      do p <- (match o_op o with
             | Buy => slipped c l pv Buy amount None (Some (b_high b))
             | Sell => slipped c l pv Sell amount (Some (b_low b)) None
             end) ;
      Ok (if Qzero p then None else Some (amount * sign_of (o_op o), p * amount * - sign_of (o_op o)), o_hit o)
    | None => Ok (None, o_hit o)
    end
  | KStopLimit sp lp =>
    if o_hit o then do u <- limit_updates c l o b lp ; Ok (u, true) else
    let amount := min_avail (pending o) l in
    match o_op o with
    | Buy =>
      let '(hit, p0) :=
        if Qle_bool sp (b_open b) then
          (true, if Qle_bool (b_open b) lp then Some (b_open b) else if in_range b lp then Some lp else None)
        else if Qle_bool sp (b_high b) then (true, if in_range b lp then Some lp else None)
        else (false, None) in
      do p <- (match p0 with
             | Some pv => if Qeq_bool pv lp then Ok (Some pv)
                          else do pp <- slipped c l pv Buy amount None (Some lp) ; Ok (Some pp)
             | None => Ok None
             end) ;
      Ok (mk_updates o amount p, hit)
    | Sell =>
      let '(hit, p0) :=
        if Qle_bool (b_open b) sp then
          (true, if Qle_bool lp (b_open b) then Some (b_open b) else if in_range b lp then Some lp else None)
        else if Qle_bool (b_low b) sp then (true, if in_range b lp then Some lp else None)
        else (false, None) in
      do p <- (match p0 with
             | Some pv => if Qeq_bool pv lp then Ok (Some pv)
                          else do pp <- slipped c l pv Sell amount (Some lp) None ; Ok (Some pp)
             | None => Ok None
             end) ;
      Ok (mk_updates o amount p, hit)
    end
  end.

Definition take_liquidity (l : liq) (amount : Q) : res liq :=
  match l with
  | None => if Qltb 0 amount then Ok None else Err EAssert
  | Some (t, u) => if Qltb (t - u) amount then Err EError else Ok (Some (t, Qred (u + amount)))
  end.

(* Order.add_fill *)
Definition add_fill (o : order) (when : Z) (b q : Q) (fee : Q) : order :=
  let fb := Qred (o_fb o + b) in
  let stt := if Qle_bool (o_amount o) (Qabsq fb) then SCompleted else o_state o in
  mkOrder (o_id o) (o_kind o) (o_op o) (o_pair o) (o_amount o) stt fb (Qred (o_fq o + q)) (Qred (o_fee o + fee))
          (o_hit o) (o_ab o) (o_ar o) (o_loans o) (o_fills o ++ [mkFill when b q fee]).

(* order_not_filled() inside _process_order *)
Definition order_not_filled (c : cfg) (s : st) (o : order) (when : Z) : outcome unit :=
  match o_kind o with
  | KMarket | KStop _ =>
    (* Order.not_filled -> cancel (asserts the order is open) *)
    if negb (is_open o) then Fail s EAssert else
    let o1 := with_state o SCanceled in
    let s1 := put_order s o1 in
    obind (order_closed c s1 o1) (fun s o2 => Done (push_update s o2 (Some when)) tt)
  | _ => Done s tt
  end.

(* OrderManager._process_order *)
Definition process_order (c : cfg) (s : st) (l : liq) (o : order) (p : pair) (when : Z) (b : bar)
  : outcome liq :=
  obind (lift s (balance_updates c l o b)) (fun s uh =>
  let '(u, hit) := uh in
  let o := with_hit o hit in
  let s := put_order s o in
  obind (lift s (get_pair_info c (o_pair o))) (fun s pi =>
  let '(rb, rq) := match u with
                   | Some (bv, qv) => round_bu pi (Some bv) (Some qv)
                   | None => (None, None)
                   end in
  match rb, rq with
  | Some bv, Some qv =>
    obind (lift s (calc_fee c (snd pi) o qv)) (fun s fee =>
    let feev := match fee with Some f => f | None => 0 end in
    let qfinal := qv + feev in
    let final := [(fst (o_pair o), bv)] ++ (if Qzero qfinal then [] else [(snd (o_pair o), qfinal)]) in
    match update_balances c s o final with
    | Fail s' ENotEnough => obind (order_not_filled c s' o when) (fun s _ => Done s l)
    | Fail s' e => Fail s' e
    | Done s' _ =>
      obind (lift s' (take_liquidity l (Qabsq bv))) (fun s l' =>
      let o1 := add_fill o when bv qv feev in
      let s1 := put_order s o1 in
      obind (if is_open o1 then Done s1 o1 else order_closed c s1 o1) (fun s o2 =>
      Done (push_update s o2 (Some when)) l'))
    end)
  | _, _ => obind (order_not_filled c s o when) (fun s _ => Done s l)
  end)).

Fixpoint process_all (c : cfg) (s : st) (l : liq) (ids : list nat) (p : pair) (when : Z) (b : bar)
  : outcome liq :=
  match ids with
  | [] => Done s l
  | id :: r =>
    match get_order s id with
    | Some o =>
      if is_open o && pair_eqb (o_pair o) p then
        obind (process_order c s l o p when b) (fun s l' => process_all c s l' r p when b)
      else process_all c s l r p when b
    | None => process_all c s l r p when b
    end
  end.

Definition still_open (s : st) (id : nat) : bool :=
  match get_order s id with Some o => is_open o | None => false end.

(* ExchangeObjectContainer.get_open bookkeeping: counter, re-index every 50 calls *)
Definition bump_reindex (s : st) : st * bool :=
  let n := S (s_reidx s) in
  (set_open_idx s (s_open_idx s) n, Nat.eqb (Nat.modulo n 50) 0).
Definition finish_reindex (s : st) (do_reindex : bool) (yielded : list nat) : st :=
  if do_reindex then set_open_idx s (filter (still_open s) yielded) (s_reidx s) else s.

(* Exchange._on_bar_event: prices, then OrderManager.on_bar_event (the forwarding to the per-pair
   source is the dispatcher's business: Dispatch/) *)
Definition on_bar (c : cfg) (s : st) (p : pair) (when : Z) (b : bar) : outcome unit :=
  let s := set_close_now s (set_pair (s_close s) p (b_close b)) (Some when) in
  let l0 : liq := match c_liq c with
                  | InfLiq => None
                  | VolShare lp _ => Some (b_volume b * (lp / 100), 0)
                  end in
  let '(s, do_reindex) := bump_reindex s in
  let ids := s_open_idx s in
  (* the generator only yields items that are open when their turn comes *)
  obind (process_all c s l0 ids p when b) (fun s' _ =>
  Done (finish_reindex s' do_reindex (filter (fun id => still_open s id) ids)) tt).

(* Exchange.get_open_orders(pair) *)
Definition list_open (s : st) (p : option pair) : st * list nat :=
  let '(s, do_reindex) := bump_reindex s in
  let opens := filter (still_open s) (s_open_idx s) in
  let s := finish_reindex s do_reindex opens in
  (s, filter (fun id => match p, get_order s id with
                        | Some pp, Some o => pair_eqb (o_pair o) pp
                        | None, Some _ => true
                        | _, None => false
                        end) opens).

(* ---------------------------------------------------------------------------------------------- *)
(* Operations and the step function *)
Inductive op :=
| OBar (p : pair) (when : Z) (b : bar)
| OCreate (k : okind) (o : oper) (p : pair) (amount : Q) (ab ar : bool)
| OCancel (id : nat)
| OLoan (x : sym) (amount : Q)
| ORepay (id : nat)
| OListOpen (p : option pair).

Inductive reply := ROk | RId (n : nat) | RIds (l : list nat) | RErr (e : err).

Definition step (c : cfg) (s : st) (o : op) : st * reply :=
  match o with
  | OBar p when b =>
    match on_bar c s p when b with Done s' _ => (s', ROk) | Fail s' e => (s', RErr e) end
  | OCreate k opr p amount ab ar =>
    match create_order c s k opr p amount ab ar with Done s' id => (s', RId id) | Fail s' e => (s', RErr e) end
  | OCancel id =>
    match cancel_order c s id with Done s' _ => (s', ROk) | Fail s' e => (s', RErr e) end
  | OLoan x a =>
    match create_loan c s x a with Done s' id => (s', RId id) | Fail s' e => (s', RErr e) end
  | ORepay id =>
    match repay_loan c s id with Done s' _ => (s', ROk) | Fail s' e => (s', RErr e) end
  | OListOpen p => let '(s', ids) := list_open s p in (s', RIds ids)
  end.

(* AccountBalances.__init__ *)
Definition init_acct (initial : vmap) : acct :=
  mkAcct (filter (fun kv => Qle_bool 0 (snd kv)) initial) []
         (map (fun kv => (fst kv, - snd kv)) (filter (fun kv => Qltb (snd kv) 0) initial)).
Definition init_st (initial : vmap) : st := mkSt (init_acct initial) [] [] 0 [] [] [] None [].

Definition run (c : cfg) (s : st) (ops : list op) : st := fold_left (fun s o => fst (step c s o)) ops s.
