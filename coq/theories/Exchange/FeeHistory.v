(* C09, whole history: in every state reachable through any operation sequence, the total fee charged to an order that
   has traded is the configured percentage of its total traded quote amount, at least the minimum, rounded up to the
   quote precision of its pair; an order that has not traded has paid nothing.  Obtained with the pass of FillTimes.v,
   instantiated with the order invariant of FeeProofs.v (fee_inv); what a fill must satisfy for the invariant to be
   kept -- its quote amount has the sign of the order's side -- follows from the prices being positive: those of the
   bars (premise) and the limit / stop prices of accepted orders (validated on acceptance, part of the invariant). *)
From Coq Require Import ZArith QArith Qround Lia Lqa List Bool PArith.
From Basana Require Import Num.DecQ Num.DecQProofs Exchange.Model Exchange.AcctProofs Exchange.StepProofs
  Exchange.OpProofs Exchange.FeeProofs Exchange.OrderProofs Exchange.LifeProofs Exchange.Prims Exchange.FillBounds
  Exchange.Structure Exchange.FillTimes.
Import ListNotations.
Open Scope Q_scope.

(* ---------------------------------------------------------------------------------------------- *)
(* half-even rounding keeps the sign *)
Lemma zround_nonneg s : 0 <= s -> (0 <= zround s)%Z.
Proof.
  intros Hs. unfold zround.
  assert (F : (0 <= Qfloor s)%Z).
  { apply Qfloor_resp_le in Hs. change (Qfloor 0) with 0%Z in Hs. exact Hs. }
  destruct (Qltb _ _); [exact F|]. destruct (Qltb _ _); [lia|]. destruct (Z.even _); lia.
Qed.

Lemma zround_nonpos s : s <= 0 -> (zround s <= 0)%Z.
Proof.
  intros Hs. unfold zround.
  pose proof (Qfloor_le s) as F1. pose proof (Qlt_floor s) as F2.
  rewrite inject_Z_plus in F2. change (inject_Z 1) with 1 in F2.
  assert (F : (Qfloor s <= 0)%Z).
  { apply Qfloor_resp_le in Hs. change (Qfloor 0) with 0%Z in Hs. exact Hs. }
  destruct (Qltb (s - inject_Z (Qfloor s)) (1 # 2)) eqn:E1; [exact F|].
  apply Qltb_false' in E1.
  assert (F' : (Qfloor s < 0)%Z).
  { destruct (Z.eq_dec (Qfloor s) 0) as [E|E]; [|lia]. rewrite E in E1. change (inject_Z 0) with 0 in E1. lra. }
  destruct (Qltb _ _); [lia|]. destruct (Z.even _); lia.
Qed.

Lemma unscale_sign p z : ((0 <= z)%Z -> 0 <= unscale p z) /\ ((z <= 0)%Z -> unscale p z <= 0).
Proof.
  rewrite unscale_eq. pose proof (pow10_pos p) as Hp. split; intros Hz.
  - apply Qle_shift_div_l; [exact Hp|]. rewrite Qmult_0_l. change 0 with (inject_Z 0). rewrite <- Zle_Qle. exact Hz.
  - apply Qle_shift_div_r; [exact Hp|]. rewrite Qmult_0_l. change 0 with (inject_Z 0). rewrite <- Zle_Qle. exact Hz.
Qed.

Lemma qround_nonneg p x : 0 <= x -> 0 <= qround p x.
Proof.
  intros Hx. unfold qround. apply (proj1 (unscale_sign p _)). apply zround_nonneg.
  pose proof (pow10_pos p). nra.
Qed.

Lemma qround_nonpos p x : x <= 0 -> qround p x <= 0.
Proof.
  intros Hx. unfold qround. apply (proj2 (unscale_sign p _)). apply zround_nonpos.
  pose proof (pow10_pos p). nra.
Qed.

(* ---------------------------------------------------------------------------------------------- *)
(* every proposed fill is priced at a positive price *)
Definition kind_pos (k : okind) : Prop :=
  match k with
  | KMarket => True | KLimit lp => 0 < lp | KStop sp => 0 < sp | KStopLimit sp lp => 0 < sp /\ 0 < lp
  end.

Definition priced (o : order) (amt bv qv : Q) : Prop :=
  exists price, 0 < price /\ bv = amt * sign_of (o_op o) /\ qv = price * amt * - sign_of (o_op o).

Lemma Qminq_pos a b : 0 < a -> 0 < b -> 0 < Qminq a b.
Proof. intros Ha Hb. unfold Qminq. destruct (Qle_bool a b); assumption. Qed.

Lemma slipped_buy_pos c l price amount hi p :
  impact_cfg_ok c -> 0 < price -> 0 < hi -> slipped c l price Buy amount None (Some hi) = Ok p -> 0 < p.
Proof.
  intros Hc Hp Hh H. destruct (slipped_buy c l price amount hi p Hc (Qlt_le_weak _ _ Hp) H) as [_ H1].
  pose proof (Qminq_pos price hi Hp Hh). lra.
Qed.

Lemma slipped_sell_pos c l price amount lo p :
  impact_cfg_ok c -> 0 <= price -> 0 < lo -> slipped c l price Sell amount (Some lo) None = Ok p -> 0 < p.
Proof. intros Hc Hp Hl H. destruct (slipped_sell c l price amount lo p Hc Hp H) as [H1 _]. lra. Qed.

Lemma mk_updates_priced o amount p bv qv :
  0 < p -> mk_updates o amount (Some p) = Some (bv, qv) -> priced o amount bv qv.
Proof.
  intros Hp H. unfold mk_updates in H. destruct (Qzero amount || Qzero p); [discriminate H|].
  inversion H; subst. exists p. repeat split; auto.
Qed.

Lemma limit_priced c l o b lp bv qv :
  impact_cfg_ok c -> bar_ok b -> 0 < lp ->
  limit_updates c l o b lp = Ok (Some (bv, qv)) -> priced o (min_avail (pending o) l) bv qv.
Proof.
  intros Hc (Hlo & Hoh & _ & _ & Hpos) Hlp H. unfold limit_updates in H.
  destruct (Qzero (min_avail (pending o) l)); [discriminate H|].
  assert (Hop : 0 < b_open b) by lra.
  destruct (o_op o) eqn:Eop.
  - destruct (Qltb (b_open b) lp).
    + destruct (slipped c l (b_open b) Buy _ None (Some lp)) as [p|] eqn:Es; cbn [rbind] in H; [|discriminate H].
      apply (mk_updates_priced o _ p); [|congruence].
      apply (slipped_buy_pos c l (b_open b) _ lp p Hc Hop Hlp Es).
    + destruct (Qle_bool (b_low b) lp); cbn [rbind] in H; [|cbn [mk_updates] in H; discriminate H].
      apply (mk_updates_priced o _ lp _ _ Hlp). congruence.
  - destruct (Qltb lp (b_open b)).
    + destruct (slipped c l (b_open b) Sell _ (Some lp) None) as [p|] eqn:Es; cbn [rbind] in H; [|discriminate H].
      apply (mk_updates_priced o _ p); [|congruence].
      apply (slipped_sell_pos c l (b_open b) _ lp p Hc (Qlt_le_weak _ _ Hop) Hlp Es).
    + destruct (Qle_bool lp (b_high b)); cbn [rbind] in H; [|cbn [mk_updates] in H; discriminate H].
      apply (mk_updates_priced o _ lp _ _ Hlp). congruence.
Qed.

Lemma bu_priced c l o b bv qv hit :
  impact_cfg_ok c -> bar_ok b -> kind_pos (o_kind o) ->
  balance_updates c l o b = Ok (Some (bv, qv), hit) ->
  exists amt, priced o amt bv qv.
Proof.
  intros Hc Hb Hk H. pose proof Hb as (Hlo & Hoh & _ & _ & Hpos).
  assert (Hop : 0 < b_open b) by lra. assert (Hhi : 0 < b_high b) by lra.
  unfold balance_updates in H. destruct (o_kind o) as [|lp|sp|sp lp] eqn:Ek; cbn [kind_pos] in Hk.
  - (* market *)
    destruct (gt_avail (pending o) l); [discriminate H|]. exists (pending o).
    destruct (o_op o) eqn:Eop.
    + destruct (slipped c l (b_open b) Buy (pending o) None (Some (b_high b))) as [p|] eqn:Es; cbn [rbind] in H; [|discriminate H].
      inversion H; subst. exists p. split; [apply (slipped_buy_pos c l _ _ _ p Hc Hop Hhi Es)|]. rewrite Eop. auto.
    + destruct (slipped c l (b_open b) Sell (pending o) (Some (b_low b)) None) as [p|] eqn:Es; cbn [rbind] in H; [|discriminate H].
      inversion H; subst. exists p. split; [apply (slipped_sell_pos c l _ _ _ p Hc (Qlt_le_weak _ _ Hop) Hpos Es)|]. rewrite Eop. auto.
  - (* limit *)
    destruct (limit_updates c l o b lp) as [u|] eqn:El; cbn [rbind] in H; [|discriminate H].
    inversion H; subst. exists (min_avail (pending o) l). apply (limit_priced c l o b lp bv qv Hc Hb Hk El).
  - (* stop *)
    destruct (gt_avail (pending o) l); [discriminate H|]. exists (pending o).
    destruct (o_op o) eqn:Eop.
    + match type of H with (match ?p0 with _ => _ end) = _ => destruct p0 as [pv|] eqn:Ep0; [|discriminate H] end.
      assert (Hpv : 0 < pv).
      { destruct (Qle_bool sp (b_open b)); [inversion Ep0; subst; exact Hop|].
        destruct (Qle_bool sp (b_high b)); [inversion Ep0; subst; exact Hk | discriminate Ep0]. }
      destruct (Qzero pv); [discriminate H|].
      destruct (slipped c l pv Buy (pending o) None (Some (b_high b))) as [p|] eqn:Es; cbn [rbind] in H; [|discriminate H].
      destruct (Qzero p); [discriminate H|]. inversion H; subst.
      exists p. split; [apply (slipped_buy_pos c l _ _ _ p Hc Hpv Hhi Es)|]. rewrite Eop. auto.
    + match type of H with (match ?p0 with _ => _ end) = _ => destruct p0 as [pv|] eqn:Ep0; [|discriminate H] end.
      assert (Hpv : 0 < pv).
      { destruct (Qle_bool (b_open b) sp); [inversion Ep0; subst; exact Hop|].
        destruct (Qle_bool (b_low b) sp); [inversion Ep0; subst; exact Hk | discriminate Ep0]. }
      destruct (Qzero pv); [discriminate H|].
      destruct (slipped c l pv Sell (pending o) (Some (b_low b)) None) as [p|] eqn:Es; cbn [rbind] in H; [|discriminate H].
      destruct (Qzero p); [discriminate H|]. inversion H; subst.
      exists p. split; [apply (slipped_sell_pos c l _ _ _ p Hc (Qlt_le_weak _ _ Hpv) Hpos Es)|]. rewrite Eop. auto.
  - (* stop-limit *)
    destruct Hk as [Hsp Hlp].
    destruct (o_hit o).
    { destruct (limit_updates c l o b lp) as [u|] eqn:El; cbn [rbind] in H; [|discriminate H].
      inversion H; subst. exists (min_avail (pending o) l). apply (limit_priced c l o b lp bv qv Hc Hb Hlp El). }
    exists (min_avail (pending o) l).
    destruct (o_op o) eqn:Eop.
    + match type of H with (let '(_, _) := ?x in _) = _ => destruct x as [h p0] eqn:Ex end.
      assert (Hp0 : forall pv, p0 = Some pv -> 0 < pv).
      { intros pv E. subst p0. 
        destruct (Qle_bool sp (b_open b)).
        - inversion Ex as [[Eh Ep]]. destruct (Qle_bool (b_open b) lp); [inversion Ep; subst; exact Hop|].
          destruct (in_range b lp); inversion Ep; subst; exact Hlp.
        - destruct (Qle_bool sp (b_high b)); inversion Ex as [[Eh Ep]].
          destruct (in_range b lp); inversion Ep; subst; exact Hlp. }
      destruct p0 as [pv|]; [|cbn [rbind mk_updates] in H; discriminate H].
      pose proof (Hp0 pv eq_refl) as Hpv.
      destruct (Qeq_bool pv lp).
      * cbn [rbind] in H. apply (mk_updates_priced o _ pv _ _ Hpv). congruence.
      * destruct (slipped c l pv Buy _ None (Some lp)) as [pp|] eqn:Es; cbn [rbind] in H; [|discriminate H].
        apply (mk_updates_priced o _ pp); [apply (slipped_buy_pos c l _ _ _ pp Hc Hpv Hlp Es) | congruence].
    + match type of H with (let '(_, _) := ?x in _) = _ => destruct x as [h p0] eqn:Ex end.
      assert (Hp0 : forall pv, p0 = Some pv -> 0 < pv).
      { intros pv E. subst p0.
        destruct (Qle_bool (b_open b) sp).
        - inversion Ex as [[Eh Ep]]. destruct (Qle_bool lp (b_open b)); [inversion Ep; subst; exact Hop|].
          destruct (in_range b lp); inversion Ep; subst; exact Hlp.
        - destruct (Qle_bool (b_low b) sp); inversion Ex as [[Eh Ep]].
          destruct (in_range b lp); inversion Ep; subst; exact Hlp. }
      destruct p0 as [pv|]; [|cbn [rbind mk_updates] in H; discriminate H].
      pose proof (Hp0 pv eq_refl) as Hpv.
      destruct (Qeq_bool pv lp).
      * cbn [rbind] in H. apply (mk_updates_priced o _ pv _ _ Hpv). congruence.
      * destruct (slipped c l pv Sell _ (Some lp) None) as [pp|] eqn:Es; cbn [rbind] in H; [|discriminate H].
        apply (mk_updates_priced o _ pp); [apply (slipped_sell_pos c l _ _ _ pp Hc (Qlt_le_weak _ _ Hpv) Hlp Es) | congruence].
Qed.

(* ---------------------------------------------------------------------------------------------- *)
(* the rounded quote amount of a fill is non-zero and has the sign of the order's side (a buy pays, a sell receives) *)
Lemma round_bu_quote_nonzero bp qp bv qv b' q' :
  round_bu (bp, qp) (Some bv) (Some qv) = (Some b', Some q') -> Qzero q' = false.
Proof.
  unfold round_bu, prune. intros H.
  destruct (Qzero (qtrunc bp bv)) eqn:Et; [inversion H|].
  destruct (negb (Qeq_bool (qtrunc bp bv) bv) && negb (Qzero qv)) eqn:Ec; cbn [option_map] in H.
  - destruct (Qzero (qround qp (qv * qtrunc bp bv / bv))) eqn:Eq; [inversion H|]. inversion H; subst. exact Eq.
  - destruct (Qzero (qround qp qv)) eqn:Eq; [inversion H|]. inversion H; subst. exact Eq.
Qed.

Lemma Qzero_false x : Qzero x = false -> ~ x == 0.
Proof. unfold Qzero. intros H E. apply Qeq_bool_iff in E. rewrite E in H. discriminate H. Qed.

Lemma fill_quote_sign c l o b bv0 qv0 hit pi bv qv :
  impact_cfg_ok c -> bar_ok b -> kind_pos (o_kind o) -> OW o -> liq_ok l ->
  balance_updates c l o b = Ok (Some (bv0, qv0), hit) ->
  round_bu pi (Some bv0) (Some qv0) = (Some bv, Some qv) ->
  0 < qv * - sign_of (o_op o).
Proof.
  intros Hc Hb Hk How Hl Ebu Er. destruct pi as [bp qp].
  destruct (bu_priced c l o b bv0 qv0 hit Hc Hb Hk Ebu) as (amt & price & Hp & Eb & Eq).
  destruct (bu_bounds c l o b bv0 qv0 hit Ebu How Hl) as (B0 & _ & _).
  destruct (round_bu_some bp qp bv0 qv0 bv qv Er) as (Et & Etz & Eqv).
  pose proof (Qzero_false _ (round_bu_quote_nonzero bp qp bv0 qv0 bv qv Er)) as Hnz.
  pose proof (Qzero_false _ Etz) as Htnz.
  destruct (qtrunc_dir bp bv0 (o_op o) B0) as [T0 T1].
  set (X := if negb (Qeq_bool (qtrunc bp bv0) bv0) && negb (Qzero qv0) then qv0 * qtrunc bp bv0 / bv0 else qv0) in Eqv.
  assert (HX : 0 <= X * - sign_of (o_op o)).
  { unfold X. destruct (negb (Qeq_bool (qtrunc bp bv0) bv0) && negb (Qzero qv0)).
    - assert (Ha : ~ amt == 0).
      { intros E. apply Htnz. subst bv0. destruct (o_op o); cbn [sign_of] in *; nra. }
      subst bv0 qv0. destruct (o_op o); cbn [sign_of] in *.
      + match type of T0 with 0 <= ?t * ?m => match goal with |- 0 <= ?e =>
          assert (E : e == price * (t * m)) by (field; exact Ha); rewrite E;
          apply Qmult_le_0_compat; [lra | exact T0] end end.
      + match type of T0 with 0 <= ?t * ?m => match goal with |- 0 <= ?e =>
          assert (E : e == price * (t * m)) by (field; exact Ha); rewrite E;
          apply Qmult_le_0_compat; [lra | exact T0] end end.
    - subst bv0 qv0. destruct (o_op o); cbn [sign_of] in *; nra. }
  subst qv. destruct (o_op o); cbn [sign_of] in *.
  - assert (X <= 0) by lra. pose proof (qround_nonpos qp X H). 
    destruct (Qlt_le_dec (qround qp X) 0) as [L|L]; [lra|]. exfalso. apply Hnz. lra.
  - assert (0 <= X) by lra. pose proof (qround_nonneg qp X H).
    destruct (Qlt_le_dec 0 (qround qp X)) as [L|L]; [lra|]. exfalso. apply Hnz. lra.
Qed.

(* ---------------------------------------------------------------------------------------------- *)
(* the order invariant and its preservation *)
Definition bars_ok (ops : list op) : Prop := forall p w b, In (OBar p w b) ops -> bar_ok b.

Lemma fee_inv_fields pct mn qp sg a b : o_fee a = o_fee b -> o_fq a = o_fq b -> fee_inv pct mn qp sg a -> fee_inv pct mn qp sg b.
Proof. unfold fee_inv. intros -> ->. auto. Qed.

Lemma chk_pos (qp : nat) (p : Q) : (if Qle_bool p 0 then false else on_grid_b qp p) = true -> 0 < p.
Proof. destruct (Qle_bool p 0) eqn:E; [discriminate|]. intros _. apply Qle_bool_false' in E. exact E. Qed.

Lemma validate_kind_pos pi k amount : validate pi k amount = Ok tt -> kind_pos k.
Proof.
  unfold validate. destruct (Qle_bool amount 0); [discriminate|]. destruct (negb _); [discriminate|].
  destruct k as [|lp|sp|sp lp]; cbn [kind_pos]; intros H; [exact I| | |].
  - destruct (if Qle_bool lp 0 then false else on_grid_b (snd pi) lp) eqn:E; [|discriminate H]. exact (chk_pos _ _ E).
  - destruct (if Qle_bool sp 0 then false else on_grid_b (snd pi) sp) eqn:E; [|discriminate H]. exact (chk_pos _ _ E).
  - destruct (if Qle_bool sp 0 then false else on_grid_b (snd pi) sp) eqn:E1; [|discriminate H].
    destruct (if Qle_bool lp 0 then false else on_grid_b (snd pi) lp) eqn:E2; [|discriminate H].
    split; [exact (chk_pos _ _ E1) | exact (chk_pos _ _ E2)].
Qed.

Section Fees.
Variable c : cfg.
Variables pct mn : Q.
Hypothesis Hfee : c_fee c = PctFee pct mn.
Hypothesis Hpct : 0 <= pct.
Hypothesis Hmn : 0 <= mn.
Hypothesis Himp : impact_cfg_ok c.

(* limit / stop prices positive; fees follow the formula at the quote precision of the order's pair *)
Definition FJ (o : order) : Prop :=
  kind_pos (o_kind o) /\
  forall pi, get_pair_info c (o_pair o) = Ok pi -> fee_inv pct mn (snd pi) (- sign_of (o_op o)) o.

Lemma FJ_hit o h : FJ o -> FJ (with_hit o h).
Proof. intros [K F]. split; [exact K | exact F]. Qed.
Lemma FJ_state o : FJ o -> FJ (with_state o SCanceled).
Proof. intros [K F]. split; [exact K | exact F]. Qed.
Lemma FJ_loans o ids : FJ o -> FJ (add_loans o ids).
Proof. intros [K F]. split; [exact K | exact F]. Qed.

Lemma FJ_fresh o : fresh o -> accepted c o -> FJ o.
Proof.
  intros (_ & Eb & Eq & Ee) (pi & Epi & Eva). split; [exact (validate_kind_pos pi _ _ Eva)|].
  intros pi' _. unfold fee_inv. rewrite Ee, Eq. split; [apply on_grid_zero|]. split; [lra|]. left. split; reflexivity.
Qed.

Lemma FJ_fill l o b when : bar_ok b -> OW o -> liq_ok l -> fill_keeps FJ c l o b when.
Proof.
  intros Hb How Hl hit pi bv0 qv0 bv qv fee Ebu Epi Er Ef [K F]. split; [exact K|].
  intros pi' Epi'. cbn [add_fill with_hit o_pair] in Epi'. rewrite Epi in Epi'. inversion Epi'; subst pi'.
  pose proof (F pi Epi) as F0.
  assert (Hs : 0 < qv * - sign_of (o_op o)) by exact (fill_quote_sign c l o b bv0 qv0 hit pi bv qv Himp Hb K How Hl Ebu Er).
  assert (Hsg : - sign_of (o_op o) == 1 \/ - sign_of (o_op o) == -1) by (destruct (o_op o); cbn [sign_of]; [right | left]; lra).
  assert (F1 : fee_inv pct mn (snd pi) (- sign_of (o_op o)) (add_fill (with_hit o hit) 0%Z bv qv (fee_val fee))).
  { apply (fees_total c (snd pi) pct mn (- sign_of (o_op o)) [(bv, qv)] (with_hit o hit)); try assumption.
    - constructor; [exact Hs | constructor].
    - cbn [apply_fills]. rewrite Ef. reflexivity. }
  exact (fee_inv_fields _ _ _ _ _ _ eq_refl eq_refl F1).
Qed.

Definition FI (s : st) : Prop := forall i o, nth_error (s_orders s) i = Some o -> FJ o.

Lemma FI_step s o :
  cfg_ok c -> op_ok o -> (forall p w b, o = OBar p w b -> bar_ok b) -> WF s -> FI s -> FI (fst (step c s o)).
Proof.
  intros Hc Ho Hb Hw Hi.
  assert (S1 : ST (fun _ _ => True) FJ c s (fst (step c s o))).
  { apply step_ST; try assumption.
    - exact FJ_hit.
    - exact FJ_state.
    - exact FJ_loans.
    - intros; exact I.
    - intros p w b E l x Hx Hl _. apply FJ_fill; try assumption. exact (Hb p w b E). }
  destruct S1 as [Sa Sb]. intros i x Hx.
  destruct (nth_error (s_orders s) i) as [o0|] eqn:E0.
  - destruct (Sa i o0 E0) as (o1 & E1 & _ & _ & HJ). rewrite E1 in Hx. inversion Hx; subst o1. exact (HJ (Hi i o0 E0)).
  - apply nth_error_None in E0. destruct (Sb i x Hx E0) as [Hf Ha]. exact (FJ_fresh x Hf Ha).
Qed.

Theorem run_FI ops : forall s, cfg_ok c -> ops_ok ops -> bars_ok ops -> WF s -> FI s -> FI (run c s ops).
Proof.
  unfold run. induction ops as [|op r IH]; intros s Hc Ho Hb Hw Hi; cbn [fold_left]; [exact Hi|].
  inversion Ho as [|? ? Ho1 Hor]; subst.
  apply IH; try assumption.
  - intros p w b Hin. apply (Hb p w b). right; exact Hin.
  - exact (proj1 (step_prims c s op Hc Ho1 Hw)).
  - apply FI_step; try assumption. intros p w b E. apply (Hb p w b). left; exact E.
Qed.

(* C09, whole history *)
Theorem fees_follow_formula_reachable initial ops i o bp qp :
  cfg_ok c -> ops_ok ops -> bars_ok ops ->
  nth_error (s_orders (run c (init_st initial) ops)) i = Some o ->
  get_pair_info c (o_pair o) = Ok (bp, qp) ->
  (o_fq o == 0 /\ o_fee o == 0) \/
  (~ o_fq o == 0 /\ o_fee o == qroundup qp (- Qmaxq (Qabsq (o_fq o) * pct / 100) mn)).
Proof.
  intros Hc Ho Hb Hn Epi.
  assert (Hi : FI (init_st initial)) by (intros j x Hj; destruct j; discriminate Hj).
  destruct (run_FI ops (init_st initial) Hc Ho Hb (WF_init initial) Hi i o Hn) as [_ F].
  destruct (F (bp, qp) Epi) as (_ & _ & [[Ez Eq] | [Hpos Ef]]).
  - left. split; assumption.
  - right. split; [intros E; rewrite E in Hpos; lra | exact Ef].
Qed.
End Fees.

(* without a fee scheme nothing is ever charged *)
Theorem no_fee_reachable c initial ops i o :
  c_fee c = NoFee -> cfg_ok c -> ops_ok ops ->
  nth_error (s_orders (run c (init_st initial) ops)) i = Some o -> o_fee o == 0.
Proof.
  intros Hfee Hc Ho. revert i o.
  change (forall i o, nth_error (s_orders (run c (init_st initial) ops)) i = Some o -> (fun x => o_fee x == 0) o).
  assert (G : forall s, WF s -> (forall i o, nth_error (s_orders s) i = Some o -> o_fee o == 0) ->
                        forall i o, nth_error (s_orders (run c s ops)) i = Some o -> o_fee o == 0).
  { unfold run. induction ops as [|op r IH]; intros s Hw Hi; cbn [fold_left]; [exact Hi|].
    inversion Ho as [|? ? Ho1 Hor]; subst.
    apply (IH Hor); [exact (proj1 (step_prims c s op Hc Ho1 Hw))|].
    assert (S1 : ST (fun _ _ => True) (fun x => o_fee x == 0) c s (fst (step c s op))).
    { apply step_ST; try assumption; auto.
      intros p w b _ l x _ _ _ hit pi bv0 qv0 bv qv fee _ _ _ Ef Hx.
      rewrite (nofee_charges_nothing c (snd pi) (with_hit x hit) qv Hfee) in Ef. inversion Ef; subst fee.
      unfold add_fill. cbn [o_fee fee_val with_hit] in *. rewrite Qred_correct. lra. }
    destruct S1 as [Sa Sb]. intros i x Hx.
    destruct (nth_error (s_orders s) i) as [o0|] eqn:E0.
    - destruct (Sa i o0 E0) as (o1 & E1 & _ & _ & HJ). rewrite E1 in Hx. inversion Hx; subst o1. exact (HJ (Hi i o0 E0)).
    - apply nth_error_None in E0. destruct (Sb i x Hx E0) as [(_ & _ & _ & Ee) _]. rewrite Ee. reflexivity. }
  apply G; [apply WF_init|]. intros i o Hi. destruct i; discriminate Hi.
Qed.
