(* C05, whole history: market and stop orders never fill partially.  In every reachable state such an order has
   traded nothing or its whole amount, and while it is open it has traded nothing -- so its first fill closes it.
   Obtained with the pass of FillTimes.v and an order invariant: the amount of an accepted order lies on the base grid
   of its pair (validated on acceptance), the proposed fill of a market / stop order is the whole pending amount, and
   truncating an on-grid amount to the base precision changes nothing. *)
From Coq Require Import ZArith QArith Qround Lia Lqa List Bool PArith.
From Basana Require Import Num.DecQ Num.DecQProofs Exchange.Model Exchange.AcctProofs Exchange.StepProofs
  Exchange.OpProofs Exchange.FeeProofs Exchange.OrderProofs Exchange.LifeProofs Exchange.Prims Exchange.FillBounds
  Exchange.Structure Exchange.FillTimes.
Import ListNotations.
Open Scope Q_scope.

Definition aon (k : okind) : Prop := k = KMarket \/ exists sp, k = KStop sp.

Lemma aon_whole_amount c l o b bv qv h :
  aon (o_kind o) -> balance_updates c l o b = Ok (Some (bv, qv), h) -> bv = pending o * sign_of (o_op o).
Proof.
  intros [Ek | [sp Ek]] H; unfold balance_updates in H; rewrite Ek in H.
  - destruct (gt_avail (pending o) l); [discriminate H|].
    match type of H with rbind ?r _ = _ => destruct r as [p|]; cbn [rbind] in H; [|discriminate H] end.
    inversion H; reflexivity.
  - destruct (gt_avail (pending o) l); [discriminate H|].
    match type of H with (match ?p0 with _ => _ end) = _ => destruct p0 as [pv|]; [|discriminate H] end.
    destruct (Qzero pv); [discriminate H|].
    match type of H with rbind ?r _ = _ => destruct r as [p|]; cbn [rbind] in H; [|discriminate H] end.
    destruct (Qzero p); [discriminate H|]. inversion H; reflexivity.
Qed.

Lemma on_grid_b_true p q : on_grid_b p q = true -> on_grid p q.
Proof.
  unfold on_grid_b. intros H. apply Qeq_bool_iff in H. rewrite <- H. apply qtrunc_on_grid.
Qed.

(* truncation leaves on-grid amounts alone *)
Lemma qtrunc_of_grid p q : on_grid p q -> qtrunc p q == q.
Proof.
  intros [z Hz]. unfold qtrunc. rewrite unscale_eq. pose proof (pow10_pos p) as Hp.
  assert (E : q * pow10 p == inject_Z z) by (rewrite Hz; field; lra).
  assert (Et : ztrunc (q * pow10 p) = z).
  { unfold ztrunc. destruct (Qle_bool 0 (q * pow10 p)).
    - rewrite (Qfloor_comp _ _ E). apply Qfloor_Z.
    - rewrite (Qceiling_comp _ _ E). apply Qceiling_Z. }
  rewrite Et, Hz. reflexivity.
Qed.

Section NoPartial.
Variable c : cfg.

Definition NP (o : order) : Prop :=
  aon (o_kind o) ->
  (exists pi, get_pair_info c (o_pair o) = Ok pi /\ on_grid (fst pi) (o_amount o)) /\
  0 < o_amount o /\
  (is_open o = true -> o_fb o == 0) /\ (o_fb o == 0 \/ Qabsq (o_fb o) == o_amount o).

Lemma NP_hit o h : NP o -> NP (with_hit o h).
Proof. intros H. exact H. Qed.
Lemma NP_loans o ids : NP o -> NP (add_loans o ids).
Proof. intros H. exact H. Qed.
Lemma NP_state o : NP o -> NP (with_state o SCanceled).
Proof.
  intros H K. destruct (H K) as (A & B & _ & D). split; [exact A|]. split; [exact B|]. split; [|exact D].
  cbn [with_state is_open o_state]. discriminate.
Qed.

Lemma NP_fresh o : fresh o -> accepted c o -> NP o.
Proof.
  intros (_ & Eb & _ & _) (pi & Epi & Eva) _. unfold validate in Eva.
  destruct (Qle_bool (o_amount o) 0) eqn:E0; [discriminate Eva|]. apply Qle_bool_false' in E0.
  destruct (on_grid_b (fst pi) (o_amount o)) eqn:Eg; cbn [negb] in Eva; [|discriminate Eva].
  split; [exists pi; split; [exact Epi | exact (on_grid_b_true _ _ Eg)]|]. split; [exact E0|].
  rewrite Eb. split; [reflexivity | left; reflexivity].
Qed.

Lemma abs_sg x op : 0 <= x -> Qabsq (x * sign_of op) == x.
Proof. intros H. rewrite (Qabsq_dir _ op); [|pose proof (sg_sq op); nra]. pose proof (sg_sq op). nra. Qed.

Lemma NP_fill l o b when : is_open o = true -> fill_keeps NP c l o b when.
Proof.
  intros Hopn hit pi bv0 qv0 bv qv fee Ebu Epi Er Ef HJ K.
  destruct (HJ K) as ((pi' & Epi' & Hg) & Hpos & Hfb & _). cbn [with_hit o_pair o_amount is_open o_state o_fb] in *.
  rewrite Epi in Epi'. inversion Epi'; subst pi'. specialize (Hfb Hopn).
  pose proof (aon_whole_amount c l o b bv0 qv0 hit K Ebu) as Eb0.
  destruct pi as [bp qp]. destruct (round_bu_some bp qp bv0 qv0 bv qv Er) as (Et & _ & _). cbn [fst] in Hg.
  assert (Ep : pending o == o_amount o).
  { unfold pending, filled. unfold Qabsq. destruct (Qle_bool 0 (o_fb o)); lra. }
  assert (Egrid : on_grid bp bv0).
  { subst bv0. assert (E : pending o * sign_of (o_op o) == o_amount o * sign_of (o_op o)) by (rewrite Ep; reflexivity).
    rewrite E. destruct (o_op o); cbn [sign_of].
    - assert (E1 : o_amount o * 1 == o_amount o) by ring. rewrite E1. exact Hg.
    - assert (E1 : o_amount o * -1 == - o_amount o) by ring. rewrite E1. apply on_grid_opp. exact Hg. }
  assert (Ebv : bv == o_amount o * sign_of (o_op o)).
  { subst bv. rewrite (qtrunc_of_grid bp bv0 Egrid). subst bv0. rewrite Ep. reflexivity. }
  assert (Efb : o_fb (add_fill (with_hit o hit) when bv qv (fee_val fee)) == o_amount o * sign_of (o_op o)).
  { unfold add_fill. cbn [o_fb with_hit]. rewrite Qred_correct, Hfb, Ebv. ring. }
  assert (Eabs : Qabsq (o_fb (add_fill (with_hit o hit) when bv qv (fee_val fee))) == o_amount o).
  { assert (X : Qabsq (o_amount o * sign_of (o_op o)) == o_amount o) by (apply abs_sg; lra).
    unfold Qabsq in *. destruct (Qle_bool 0 (o_fb (add_fill (with_hit o hit) when bv qv (fee_val fee)))) eqn:E1;
      destruct (Qle_bool 0 (o_amount o * sign_of (o_op o))) eqn:E2;
      try apply Qle_bool_iff in E1; try apply Qle_bool_false' in E1; try apply Qle_bool_iff in E2; try apply Qle_bool_false' in E2; lra. }
  split; [exists (bp, qp); split; [exact Epi | exact Hg]|]. split; [exact Hpos|]. split.
  - (* the fill completed the order *)
    intros Hop. exfalso. unfold add_fill, is_open in Hop. cbn [o_state] in Hop.
    match type of Hop with context [if ?cnd then _ else _] => destruct cnd eqn:Ec end; [discriminate Hop|].
    apply Qle_bool_false' in Ec. unfold add_fill in Eabs. cbn [o_fb] in Eabs. cbn [with_hit o_amount o_fb] in Ec, Eabs. lra.
  - right. exact Eabs.
Qed.

Definition NI (s : st) : Prop := forall i o, nth_error (s_orders s) i = Some o -> NP o.

Lemma NI_step s o : cfg_ok c -> op_ok o -> WF s -> NI s -> NI (fst (step c s o)).
Proof.
  intros Hc Ho Hw Hi.
  assert (S1 : ST (fun _ _ => True) NP c s (fst (step c s o))).
  { apply step_ST; try assumption.
    - exact NP_hit.
    - exact NP_state.
    - exact NP_loans.
    - intros; exact I.
    - intros p w b _ l x _ _ Hopn. apply NP_fill. exact Hopn. }
  destruct S1 as [Sa Sb]. intros i x Hx.
  destruct (nth_error (s_orders s) i) as [o0|] eqn:E0.
  - destruct (Sa i o0 E0) as (o1 & E1 & _ & _ & HJ). rewrite E1 in Hx. inversion Hx; subst o1. exact (HJ (Hi i o0 E0)).
  - apply nth_error_None in E0. destruct (Sb i x Hx E0) as [Hf Ha]. exact (NP_fresh x Hf Ha).
Qed.

Theorem run_NI ops : forall s, cfg_ok c -> ops_ok ops -> WF s -> NI s -> NI (run c s ops).
Proof.
  unfold run. induction ops as [|op r IH]; intros s Hc Ho Hw Hi; cbn [fold_left]; [exact Hi|].
  inversion Ho as [|? ? Ho1 Hor]; subst.
  apply IH; try assumption; [exact (proj1 (step_prims c s op Hc Ho1 Hw)) | apply NI_step; assumption].
Qed.

(* C05, whole history *)
Theorem market_stop_never_partial initial ops i o :
  cfg_ok c -> ops_ok ops ->
  nth_error (s_orders (run c (init_st initial) ops)) i = Some o ->
  aon (o_kind o) ->
  (filled o == 0 \/ filled o == o_amount o) /\ (is_open o = true -> filled o == 0).
Proof.
  intros Hc Ho Hn K.
  assert (Hi : NI (init_st initial)) by (intros j x Hj; destruct j; discriminate Hj).
  destruct (run_NI ops (init_st initial) Hc Ho (WF_init initial) Hi i o Hn K) as (_ & _ & A & B).
  assert (Z : forall x, x == 0 -> Qabsq x == 0).
  { intros x E. unfold Qabsq. destruct (Qle_bool 0 x); lra. }
  unfold filled. split.
  - destruct B as [B|B]; [left; apply Z; exact B | right; exact B].
  - intros Hop. apply Z. exact (A Hop).
Qed.
End NoPartial.
