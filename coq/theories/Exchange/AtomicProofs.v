(* C07 for requests with auto-borrow: a rejected order request leaves no loan behind.
   The roll-back of OrderManager._borrow cancels what was borrowed; this file shows that the cancellation cannot
   itself fail and restores balances and borrowed amounts exactly, and that once the borrowing succeeded the
   reservation cannot fail either (what was borrowed is exactly what was short). *)
From Coq Require Import ZArith QArith Qround Lia Lqa List Bool PArith.
From Basana Require Import Num.DecQ Num.DecQProofs Exchange.Model Exchange.AcctProofs Exchange.StepProofs
  Exchange.OpProofs Exchange.HoldProofs Exchange.Prims.
Import ListNotations.
Open Scope Q_scope.

(* ---------------------------------------------------------------------------------------------- *)
(* representation invariant of ValueMaps: a Python dict has no duplicate keys *)
Definition vnodup (m : vmap) : Prop := NoDup (vkeys m).

Lemma NoDup_snoc {A} (l : list A) x : NoDup l -> ~ In x l -> NoDup (l ++ [x]).
Proof.
  induction l as [|y r IH]; cbn [app]; intros H Hn.
  - constructor; [intros [] | constructor].
  - inversion H as [|? ? Hy Hr]; subst. constructor.
    + intros Hin. apply in_app_or in Hin. destruct Hin as [Hin|[->|[]]]; [exact (Hy Hin) | apply Hn; left; reflexivity].
    + apply IH; [exact Hr | intros Hin; apply Hn; right; exact Hin].
Qed.

Lemma vkeys_vset m k v : vkeys (vset m k v) = if existsb (Pos.eqb k) (vkeys m) then vkeys m else vkeys m ++ [k].
Proof.
  induction m as [|[k0 v0] r IH]; cbn [vset vkeys map fst existsb]; [reflexivity|].
  fold (vkeys r). destruct (Pos.eqb k0 k) eqn:E.
  - apply Pos.eqb_eq in E. subst. rewrite Pos.eqb_refl. reflexivity.
  - rewrite Pos.eqb_sym, E. cbn [orb map fst]. fold (vkeys (vset r k v)). rewrite IH.
    destruct (existsb (Pos.eqb k) (vkeys r)); reflexivity.
Qed.

Lemma vnodup_vset m k v : vnodup m -> vnodup (vset m k v).
Proof.
  unfold vnodup. intros H. rewrite vkeys_vset. destruct (existsb (Pos.eqb k) (vkeys m)) eqn:E; [exact H|].
  apply NoDup_snoc; [exact H|].
  intros Hin. assert (X : existsb (Pos.eqb k) (vkeys m) = true).
  { apply existsb_exists. exists k. split; [exact Hin | apply Pos.eqb_refl]. }
  congruence.
Qed.

Lemma vnodup_vadd a b : vnodup a -> vnodup (vadd a b).
Proof.
  unfold vadd. revert a. induction b as [|[k v] r IH]; intros a H; cbn [fold_left fst snd]; [exact H|].
  apply IH. unfold vaddk. apply vnodup_vset. exact H.
Qed.

Lemma vnodup_get m k v : vnodup m -> In (k, v) m -> vget m k = v.
Proof.
  unfold vnodup. induction m as [|[k0 v0] r IH]; cbn [vkeys map fst vget]; intros H Hin; [destruct Hin|].
  inversion H as [|? ? Hk Hr]; subst. destruct Hin as [E|Hin].
  - inversion E; subst. rewrite Pos.eqb_refl. reflexivity.
  - destruct (Pos.eqb k0 k) eqn:E; [|apply IH; assumption].
    apply Pos.eqb_eq in E. subst. exfalso. apply Hk. apply (in_map fst) in Hin. exact Hin.
Qed.

Lemma vget_notin m k : ~ In k (vkeys m) -> vget m k = 0.
Proof.
  induction m as [|[k0 v0] r IH]; cbn [vkeys map fst vget]; intros H; [reflexivity|].
  destruct (Pos.eqb k0 k) eqn:E; [apply Pos.eqb_eq in E; subst; exfalso; apply H; left; reflexivity|].
  apply IH. intros Hin. apply H. right. exact Hin.
Qed.

Lemma vset_vset m k v1 v2 : vset (vset m k v1) k v2 = vset m k v2.
Proof.
  induction m as [|[k0 v0] r IH]; cbn [vset].
  - rewrite Pos.eqb_refl. reflexivity.
  - destruct (Pos.eqb k0 k) eqn:E; cbn [vset]; rewrite E; [reflexivity | rewrite IH; reflexivity].
Qed.

Lemma in_vset_val m k v k' v' :
  vnodup m -> In (k', v') (vset m k v) -> v' = (if Pos.eqb k k' then v else vget m k').
Proof.
  intros Hn Hin. pose proof (vnodup_get _ _ _ (vnodup_vset m k v Hn) Hin) as E. rewrite vget_vset in E. congruence.
Qed.

(* ---------------------------------------------------------------------------------------------- *)
(* what the account looks like to a user *)
Definition acct_same (a b : acct) : Prop :=
  forall x, vget (bal b) x == vget (bal a) x /\ vget (hold b) x == vget (hold a) x /\ vget (bor b) x == vget (bor a) x.

Lemma acct_same_refl a : acct_same a a.
Proof. intros x. split; [reflexivity | split; reflexivity]. Qed.
Lemma acct_same_trans a b c : acct_same a b -> acct_same b c -> acct_same a c.
Proof. intros H1 H2 x. destruct (H1 x) as (A & B & C). destruct (H2 x) as (D & E & F). split; [rewrite D; exact A | split; [rewrite E; exact B | rewrite F; exact C]]. Qed.

Lemma acct_update_ok_shape extra a db dh dbo a' :
  acct_update extra a db dh dbo = Ok a' -> a' = mkAcct (vadd (bal a) db) (vadd (hold a) dh) (vadd (bor a) dbo).
Proof.
  unfold acct_update. destruct (nonzero_rule _); [discriminate|]. destruct (validhold_rule _); [discriminate|].
  destruct (extra _ _); [discriminate|]. intros H; inversion H; reflexivity.
Qed.

Lemma Qltb_irrefl_eq a b : a == b -> Qltb a b = false.
Proof. intros E. unfold Qltb. apply negb_false_iff. apply Qle_bool_iff. rewrite E. apply Qle_refl. Qed.

(* undoing a loan: the update that takes back exactly what a just-granted loan added passes every rule and
   restores the account, whatever the margin configuration *)
Lemma undo_loan_update c s' a x amt :
  rules_pass a -> vnodup (bor a) -> 0 < amt ->
  let a1 := mkAcct (vadd (bal a) [(x, amt)]) (vadd (hold a) []) (vadd (bor a) [(x, amt)]) in
  exists a2, acct_update (margin_rule c s') a1 [(x, - amt)] [] [(x, - amt)] = Ok a2 /\ acct_same a a2 /\
             vnodup (bor a2).
Proof.
  intros Hr Hn Hamt a1.
  pose proof (rules_good a) as Hg. destruct Hr as [Hnz Hvh]. specialize (Hg Hnz Hvh).
  set (v1 := Qred (vget (bal a) x + amt)). set (w1 := Qred (vget (bor a) x + amt)).
  set (v2 := Qred (v1 + - amt)). set (w2 := Qred (w1 + - amt)).
  assert (Ev2 : v2 == vget (bal a) x) by (unfold v2, v1; rewrite !Qred_correct; lra).
  assert (Ew2 : w2 == vget (bor a) x) by (unfold w2, w1; rewrite !Qred_correct; lra).
  assert (Eb : vadd (bal a1) [(x, - amt)] = vset (bal a) x v2).
  { unfold a1, vadd. cbn [bal fold_left fst snd]. unfold vaddk. rewrite !vget_vset, Pos.eqb_refl, vset_vset. reflexivity. }
  assert (Eo : vadd (bor a1) [(x, - amt)] = vset (bor a) x w2).
  { unfold a1, vadd. cbn [bor fold_left fst snd]. unfold vaddk. rewrite !vget_vset, Pos.eqb_refl, vset_vset. reflexivity. }
  assert (Eh : vadd (hold a1) [] = hold a) by reflexivity.
  exists (mkAcct (vset (bal a) x v2) (hold a) (vset (bor a) x w2)).
  assert (Same : acct_same a (mkAcct (vset (bal a) x v2) (hold a) (vset (bor a) x w2))).
  { intros k. cbn [bal hold bor]. rewrite !vget_vset. destruct (Pos.eqb x k) eqn:E.
    - apply Pos.eqb_eq in E. subst k. split; [exact Ev2 | split; [reflexivity | exact Ew2]].
    - split; [reflexivity | split; reflexivity]. }
  split; [|split; [exact Same | apply vnodup_vset; exact Hn]].
  unfold acct_update. rewrite Eb, Eo, Eh.
  unfold nonzero_rule in Hnz.
  destruct (anyneg (bal a)) eqn:A1; [discriminate|]. destruct (anyneg (hold a)) eqn:A2; [discriminate|].
  destruct (anyneg (bor a)) eqn:A3; [discriminate|].
  assert (N1 : anyneg (vset (bal a) x v2) = false).
  { apply anyneg_vset; [exact A1|]. rewrite Ev2. apply (Hg x). }
  assert (N3 : anyneg (vset (bor a) x w2) = false).
  { apply anyneg_vset; [exact A3|]. rewrite Ew2. apply (Hg x). }
  unfold nonzero_rule. cbn [bal hold bor]. rewrite N1, A2, N3.
  assert (V : validhold_rule (mkAcct (vset (bal a) x v2) (hold a) (vset (bor a) x w2)) = None).
  { unfold validhold_rule. cbn [bal hold]. destruct (existsb _ _) eqn:Ex; [|reflexivity].
    exfalso. apply existsb_exists in Ex. destruct Ex as (k & _ & Hk). apply Qltb_true in Hk.
    destruct (Same k) as (S1 & _ & _). cbn [bal] in S1. destruct (Hg k) as (_ & Hle & _). lra. }
  rewrite V.
  assert (M : margin_rule c s' a1 (mkAcct (vset (bal a) x v2) (hold a) (vset (bor a) x w2)) = None).
  { unfold margin_rule. destruct (c_lend c) as [|q dflt conds]; [reflexivity|]. cbn [bor].
    assert (Ex : existsb (fun kv => Qltb (vget (bor a1) (fst kv)) (snd kv)) (vset (bor a) x w2) = false).
    { destruct (existsb _ _) eqn:Ex; [|reflexivity]. exfalso. apply existsb_exists in Ex.
      destruct Ex as ([k v] & Hin & Hlt). cbn [fst snd] in Hlt. apply Qltb_true in Hlt.
      pose proof (in_vset_val _ _ _ _ _ Hn Hin) as Ev.
      unfold a1 in Hlt. cbn [bor] in Hlt. unfold vadd in Hlt. cbn [fold_left fst snd] in Hlt. unfold vaddk in Hlt.
      rewrite vget_vset in Hlt. fold w1 in Hlt. destruct (Pos.eqb x k); subst v; [|lra].
      unfold w2 in Hlt. rewrite Qred_correct in Hlt. lra. }
    rewrite Ex. reflexivity. }
  rewrite M. reflexivity.
Qed.

(* ---------------------------------------------------------------------------------------------- *)
(* what a user can observe of the exchange, apart from closed loans kept for the record *)
Definition obs_same (s s' : st) : Prop :=
  acct_same (s_acct s) (s_acct s') /\ s_orders s' = s_orders s /\ s_open_idx s' = s_open_idx s /\
  s_reidx s' = s_reidx s /\ s_holds s' = s_holds s /\
  filter l_open (s_loans s') = filter l_open (s_loans s) /\
  s_close s' = s_close s /\ s_now s' = s_now s /\ s_events s' = s_events s.

Lemma obs_same_refl s : obs_same s s.
Proof. unfold obs_same. split; [apply acct_same_refl | repeat split; reflexivity]. Qed.

Lemma create_loan_shape2 c s x a s' id :
  create_loan c s x a = Done s' id ->
  exists a' t k, 0 < a /\ s_now s = Some t /\
    acct_update (margin_rule c s) (s_acct s) [(x, a)] [] [(x, a)] = Ok a' /\
    id = length (s_loans s) /\
    s' = set_loans (set_acct s a') (s_loans s ++ [mkLoan (length (s_loans s)) x a true t k 0]).
Proof.
  unfold create_loan. destruct (Qle_bool a 0) eqn:Ea; [discriminate|]. apply Qle_bool_false in Ea.
  unfold now_of. destruct (s_now s) as [t|] eqn:En; cbn [lift obind]; [|discriminate].
  destruct (get_cond c x) as [k|]; cbn [lift obind]; [|discriminate].
  destruct (outstanding c s _) as [i|]; cbn [lift obind]; [|discriminate].
  unfold upd_acct. destruct (acct_update _ _ _ _ _) as [a'|] eqn:E; cbn [obind]; [|discriminate].
  intros H; inversion H; subst. exists a', t, k. repeat split; auto.
Qed.

Lemma replace_last {A} (ls : list A) y z : replace_nth (ls ++ [y]) (length ls) z = ls ++ [z].
Proof. induction ls as [|h r IH]; cbn [app length replace_nth]; [reflexivity | rewrite IH; reflexivity]. Qed.

Lemma create_then_cancel c s x a s1 id :
  create_loan c s x a = Done s1 id -> rules_pass (s_acct s) -> vnodup (bor (s_acct s)) ->
  exists s2 u, cancel_loan c s1 id = Done s2 u /\ obs_same s s2 /\
               rules_pass (s_acct s2) /\ vnodup (bor (s_acct s2)).
Proof.
  intros H Hr Hn. apply create_loan_shape2 in H. destruct H as (a' & t & k & Ha & En & Eu & -> & ->).
  pose proof (acct_update_ok_shape _ _ _ _ _ _ Eu) as Ea'.
  destruct (undo_loan_update c (set_loans (set_acct s a') (s_loans s ++ [mkLoan (length (s_loans s)) x a true t k 0]))
              (s_acct s) x a Hr Hn Ha) as (a2 & E2 & Same & Hn2).
  rewrite <- Ea' in E2.
  unfold cancel_loan, open_loan, get_loan. cbn [set_loans set_acct s_loans].
  rewrite nth_error_snoc, Nat.eqb_refl. cbn [l_open lift obind].
  unfold now_of. cbn [s_now set_loans set_acct]. rewrite En. cbn [lift obind l_created]. rewrite Z.eqb_refl. cbn [negb].
  unfold upd_acct. cbn [s_acct set_loans set_acct l_sym l_amount]. cbn [set_loans set_acct] in E2. rewrite E2. cbn [obind].
  eexists. eexists. split; [reflexivity|]. split; [|split; [eapply rules_pass_of_update; exact E2 | exact Hn2]].
  unfold obs_same, put_loan. cbn [set_loans set_acct s_acct s_orders s_open_idx s_reidx s_holds s_loans s_close s_now s_events close_loan l_id].
  split; [exact Same|]. repeat split; try reflexivity.
  rewrite replace_last, filter_app. cbn [filter l_open]. apply app_nil_r.
Qed.

(* ---------------------------------------------------------------------------------------------- *)
Lemma shorts_cons a k r rest :
  shorts_of a ((k, r) :: rest) =
  (if Qltb (avail a k - r) 0 then [(k, Qred (- (avail a k - r)))] else []) ++ shorts_of a rest.
Proof. reflexivity. Qed.

(* borrowing: what a successful _borrow leaves *)
Lemma borrow_loop_done c shorts : forall s created s' ids,
  borrow_loop c s shorts created = Done s' ids ->
  rules_pass (s_acct s) -> vnodup (bor (s_acct s)) ->
  (forall x, vget (bal (s_acct s')) x == vget (bal (s_acct s)) x + vsum shorts x /\
             vget (hold (s_acct s')) x == vget (hold (s_acct s)) x) /\
  rules_pass (s_acct s') /\ vnodup (bor (s_acct s')).
Proof.
  induction shorts as [|[x a] r IH]; intros s created s' ids H Hr Hn; cbn [borrow_loop] in H.
  - inversion H; subst. split; [|split; assumption]. intros x. cbn [vsum]. split; [lra | reflexivity].
  - destruct (create_loan c s x a) as [s1 id|s1 e1] eqn:E1.
    + pose proof E1 as E1'. apply create_loan_shape2 in E1'. destruct E1' as (a' & t & k & _ & _ & Eu & _ & ->).
      destruct (IH _ _ _ _ H) as (P & R' & N').
      * cbn [set_loans set_acct s_acct]. eapply rules_pass_of_update; exact Eu.
      * cbn [set_loans set_acct s_acct]. rewrite (acct_update_ok_shape _ _ _ _ _ _ Eu). cbn [bor]. apply vnodup_vadd. exact Hn.
      * split; [|split; assumption]. intros y. destruct (P y) as [P1 P2].
        destruct (acct_update_values _ _ _ _ _ _ Eu y) as (V1 & V2 & _). cbn [set_loans set_acct s_acct] in P1, P2.
        cbn [vsum] in *. split; [rewrite P1, V1; lra | rewrite P2, V2; lra].
    + destruct (rollback_loans c s1 created); discriminate H.
Qed.

Lemma margin_rule_hold c s a a' :
  vnodup (bor a) -> bor a' = bor a -> margin_rule c s a a' = None.
Proof.
  intros Hn Eb. unfold margin_rule. destruct (c_lend c); [reflexivity|]. rewrite Eb.
  assert (Ex : existsb (fun kv => Qltb (vget (bor a) (fst kv)) (snd kv)) (bor a) = false).
  { destruct (existsb _ _) eqn:Ex; [|reflexivity]. exfalso. apply existsb_exists in Ex.
    destruct Ex as ([k v] & Hin & Hlt). cbn [fst snd] in Hlt. rewrite (vnodup_get _ _ _ Hn Hin) in Hlt.
    rewrite Qltb_irrefl_eq in Hlt; [discriminate | reflexivity]. }
  rewrite Ex. reflexivity.
Qed.

Lemma acct_update_with_extra extra a db dh dbo a' :
  acct_update (fun _ _ => None) a db dh dbo = Ok a' -> extra a a' = None -> acct_update extra a db dh dbo = Ok a'.
Proof.
  unfold acct_update. destruct (nonzero_rule _); [discriminate|]. destruct (validhold_rule _); [discriminate|].
  intros H; inversion H; subst. intros ->. reflexivity.
Qed.

(* what was borrowed is exactly what was short: the reservation that follows cannot be refused *)
Lemma vsum_shorts_covers a p req x :
  req_form p req -> fst p <> snd p -> acct_good a ->
  vget (hold a) x + vsum req x <= vget (bal a) x + vsum (shorts_of a req) x.
Proof.
  intros (rb & rq & -> & Hb & Hq) Hne Hg. destruct (Hg x) as (_ & Hle & _).
  destruct Hb as [->|(v & Hv & ->)]; destruct Hq as [->|(w & Hw & ->)]; cbn [app]; rewrite ?shorts_cons;
    cbn [shorts_of flat_map app vsum];
    repeat match goal with |- context [Qltb ?a ?b] =>
      let E := fresh "E" in destruct (Qltb a b) eqn:E; [apply Qltb_true in E | apply Qltb_false in E] end;
    cbn [app vsum]; unfold avail in *;
    destruct (Pos.eqb (fst p) x) eqn:E1; destruct (Pos.eqb (snd p) x) eqn:E2;
    try (apply Pos.eqb_eq in E1); try (apply Pos.eqb_eq in E2);
    try (exfalso; apply Hne; congruence); subst; rewrite ?Qred_correct; try lra.
Qed.

Lemma hold_after_borrow c s req lids sb p :
  borrow_loop c s (shorts_of (s_acct s) req) [] = Done sb lids ->
  rules_pass (s_acct s) -> vnodup (bor (s_acct s)) -> req_form p req -> fst p <> snd p ->
  exists s', upd_acct c sb [] req [] = Done s' tt.
Proof.
  intros Hb Hr Hn Hf Hne.
  destruct (borrow_loop_done _ _ _ _ _ _ Hb Hr Hn) as (P & Rb & Nb).
  assert (Hg : acct_good (s_acct s)) by (destruct Hr; apply rules_good; assumption).
  assert (Hreq : forall kv, In kv req -> 0 <= snd kv).
  { destruct Hf as (rb & rq & -> & [->|(v & Hv & ->)] & [->|(w & Hw & ->)]); cbn [app];
      intros kv Hin; repeat (destruct Hin as [<-|Hin]; [cbn [snd]; lra|]); destruct Hin. }
  destruct (proj2 (hold_update_iff_covered_rules (s_acct sb) req Rb Hreq)) as [a' Ha'].
  { intros x. destruct (P x) as [P1 P2]. rewrite P1, P2. apply (vsum_shorts_covers _ p); assumption. }
  unfold upd_acct. rewrite (acct_update_with_extra _ _ _ _ _ _ Ha').
  - eexists. reflexivity.
  - apply margin_rule_hold; [exact Nb|]. rewrite (acct_update_ok_shape _ _ _ _ _ _ Ha'). reflexivity.
Qed.

Lemma shorts_len a p req : req_form p req -> (length (shorts_of a req) <= 2)%nat.
Proof.
  intros (rb & rq & -> & [->|(v & _ & ->)] & [->|(w & _ & ->)]); cbn [app]; rewrite ?shorts_cons;
    cbn [shorts_of flat_map];
    repeat match goal with |- context [Qltb ?a ?b] => destruct (Qltb a b) end; cbn [app length]; lia.
Qed.

(* a failed _borrow has rolled everything back *)
Lemma borrow_fail_atomic c s shorts s' e :
  (length shorts <= 2)%nat -> rules_pass (s_acct s) -> vnodup (bor (s_acct s)) ->
  borrow_loop c s shorts [] = Fail s' e -> obs_same s s'.
Proof.
  intros Hlen Hr Hn H. destruct shorts as [|[x1 a1] [|[x2 a2] [|? ?]]]; cbn [length] in Hlen; try lia;
    cbn [borrow_loop app] in H.
  - discriminate H.
  - destruct (create_loan c s x1 a1) as [s1 id1|s1 e1] eqn:E1; [discriminate H|].
    apply create_loan_fail_unchanged in E1. subst s1. cbn [rollback_loans] in H. inversion H; subst. apply obs_same_refl.
  - destruct (create_loan c s x1 a1) as [s1 id1|s1 e1] eqn:E1.
    + destruct (create_loan c s1 x2 a2) as [s2 id2|s2 e2] eqn:E2; [discriminate H|].
      apply create_loan_fail_unchanged in E2. subst s2. cbn [rollback_loans] in H.
      destruct (create_then_cancel _ _ _ _ _ _ E1 Hr Hn) as (s3 & u & Ec & Hobs & _). rewrite Ec in H. cbn [obind] in H.
      inversion H; subst. exact Hobs.
    + apply create_loan_fail_unchanged in E1. subst s1. cbn [rollback_loans] in H. inversion H; subst. apply obs_same_refl.
Qed.

(* C07: an order request with auto-borrow that is rejected -- for whatever reason: validation, lending conditions,
   margin requirement, missing price -- leaves balances, holds, borrowed amounts, orders, reservations and the set of
   open loans exactly as they were *)
Theorem rejected_autoborrow_order_leaves_nothing c s k op p amount ar s' e :
  create_order c s k op p amount true ar = Fail s' e ->
  rules_pass (s_acct s) -> vnodup (bor (s_acct s)) -> fst p <> snd p -> obs_same s s'.
Proof.
  intros H Hr Hn Hne. unfold create_order in H.
  destruct (get_pair_info c p) as [pi|]; cbn [lift obind] in H; [|inversion H; subst; apply obs_same_refl].
  destruct (validate pi k amount) as [u|]; cbn [lift obind] in H; [|inversion H; subst; apply obs_same_refl].
  unfold add_order in H.
  match type of H with obind (lift s (estimate_required c s ?o)) _ = _ =>
    destruct (estimate_required c s o) as [req|] eqn:Ereq; cbn [lift obind] in H; [|inversion H; subst; apply obs_same_refl];
    pose proof (estimate_req_form _ _ _ _ Ereq) as Hf; cbn [o_pair] in Hf end.
  destruct (vnonempty req); [|cbn [obind] in H; discriminate H].
  cbn [o_ab] in H.
  destruct (borrow_loop c s (shorts_of (s_acct s) req) []) as [sb lids|sb eb] eqn:Eb; cbn [obind] in H.
  - destruct (hold_after_borrow _ _ _ _ _ _ Eb Hr Hn Hf Hne) as [s2 E2]. rewrite E2 in H. cbn [obind] in H. discriminate H.
  - inversion H; subst. eapply borrow_fail_atomic; [eapply shorts_len; exact Hf | exact Hr | exact Hn | exact Eb].
Qed.

(* ---------------------------------------------------------------------------------------------- *)
(* the premises hold in every reachable state *)
Definition RI (a : acct) : Prop := rules_pass a /\ vnodup (bal a) /\ vnodup (hold a) /\ vnodup (bor a).

Lemma RI_update extra a db dh dbo a' : RI a -> acct_update extra a db dh dbo = Ok a' -> RI a'.
Proof.
  intros (_ & N1 & N2 & N3) H. split; [eapply rules_pass_of_update; exact H|].
  rewrite (acct_update_ok_shape _ _ _ _ _ _ H). cbn [bal hold bor]. repeat split; apply vnodup_vadd; assumption.
Qed.

Theorem reachable_RI c initial ops :
  RI (init_acct initial) -> RI (s_acct (run c (init_st initial) ops)).
Proof. intros H. apply (run_G RI RI_update). exact H. Qed.

Lemma init_RI initial :
  NoDup (map fst initial) -> (forall kv, In kv initial -> 0 <= snd kv) -> RI (init_acct initial).
Proof.
  intros Hnd Hpos.
  assert (Ef : filter (fun kv : sym * Q => Qle_bool 0 (snd kv)) initial = initial).
  { clear Hnd. induction initial as [|[k v] r IH]; cbn [filter snd]; [reflexivity|].
    assert (E : Qle_bool 0 v = true) by (apply Qle_bool_iff; apply (Hpos (k, v)); left; reflexivity).
    rewrite E, IH; [reflexivity|]. intros kv Hin. apply Hpos. right; exact Hin. }
  assert (En : filter (fun kv : sym * Q => Qltb (snd kv) 0) initial = []).
  { clear Hnd Ef. induction initial as [|[k v] r IH]; cbn [filter snd]; [reflexivity|].
    assert (E : Qltb v 0 = false).
    { unfold Qltb. apply negb_false_iff. apply Qle_bool_iff. apply (Hpos (k, v)). left; reflexivity. }
    rewrite E. apply IH. intros kv Hin. apply Hpos. right; exact Hin. }
  unfold RI, init_acct. rewrite Ef, En. cbn [map bal hold bor]. unfold vnodup. cbn [vkeys map].
  split; [|split; [exact Hnd | split; constructor]].
  assert (Hnn : anyneg initial = false).
  { unfold anyneg. destruct (existsb _ _) eqn:Ex; [|reflexivity]. exfalso. apply existsb_exists in Ex.
    destruct Ex as (kv & Hin & Hlt). apply Qltb_true in Hlt. specialize (Hpos kv Hin). lra. }
  split.
  - unfold nonzero_rule. cbn [bal hold bor]. rewrite Hnn. reflexivity.
  - unfold validhold_rule. cbn [bal hold vkeys map app]. destruct (existsb _ _) eqn:Ex; [|reflexivity].
    exfalso. apply existsb_exists in Ex. destruct Ex as (k & _ & Hlt). apply Qltb_true in Hlt. cbn [vget] in Hlt.
    pose proof (anyneg_false_nonneg initial k Hnn). lra.
Qed.

(* C07, every reachable state: from initial balances that are non-negative (one entry per symbol), after any
   history, a rejected auto-borrow order request on a pair of two different symbols leaves everything as it was *)
Theorem rejected_autoborrow_reachable c initial ops k op p amount ar s' e :
  NoDup (map fst initial) -> (forall kv, In kv initial -> 0 <= snd kv) -> fst p <> snd p ->
  let s := run c (init_st initial) ops in
  create_order c s k op p amount true ar = Fail s' e -> obs_same s s'.
Proof.
  intros Hnd Hpos Hne s H.
  destruct (reachable_RI c initial ops (init_RI initial Hnd Hpos)) as (Hr & _ & _ & Hn).
  eapply rejected_autoborrow_order_leaves_nothing; eauto.
Qed.
