(* Lemmas about ValueMap arithmetic and AccountBalances.update (model: Exchange/Model.v). *)
From Coq Require Import ZArith QArith Qround Lia Lqa List Bool PArith.
From Basana Require Import Num.DecQ Exchange.Model.
Import ListNotations.
Open Scope Q_scope.

Lemma Qle_bool_false a b : Qle_bool a b = false -> b < a.
Proof. intros H. apply Qnot_le_lt. intros Hle. apply Qle_bool_iff in Hle. congruence. Qed.

Lemma Qltb_true a b : Qltb a b = true -> a < b.
Proof. unfold Qltb. intros H. apply negb_true_iff in H. apply Qle_bool_false in H. exact H. Qed.

Lemma Qltb_false a b : Qltb a b = false -> b <= a.
Proof. unfold Qltb. intros H. apply negb_false_iff in H. apply Qle_bool_iff in H. exact H. Qed.

(* ---------------------------------------------------------------------------------------------- *)
(* vget / vset / vadd *)

Lemma vget_vset m x v y : vget (vset m x v) y = if Pos.eqb x y then v else vget m y.
Proof.
  induction m as [|[k w] r IH]; cbn [vset vget].
  - destruct (Pos.eqb x y); reflexivity.
  - destruct (Pos.eqb k x) eqn:Ekx.
    + apply Pos.eqb_eq in Ekx. subst k. cbn [vget]. destruct (Pos.eqb x y); reflexivity.
    + cbn [vget]. destruct (Pos.eqb k y) eqn:Eky.
      * apply Pos.eqb_eq in Eky. subst k. rewrite Pos.eqb_sym in Ekx. rewrite Ekx. reflexivity.
      * exact IH.
Qed.

Lemma vget_vaddk m x d y : vget (vaddk m x d) y == (if Pos.eqb x y then vget m y + d else vget m y).
Proof.
  unfold vaddk. rewrite vget_vset. destruct (Pos.eqb x y) eqn:E.
  - apply Pos.eqb_eq in E. subst y. rewrite Qred_correct. reflexivity.
  - reflexivity.
Qed.

(* sum of the entries of [b] with key [x] *)
Fixpoint vsum (b : vmap) (x : sym) : Q :=
  match b with [] => 0 | (k, v) :: r => (if Pos.eqb k x then v else 0) + vsum r x end.

Lemma vget_vadd a b x : vget (vadd a b) x == vget a x + vsum b x.
Proof.
  unfold vadd. revert a. induction b as [|[k v] r IH]; intros a; cbn [fold_left vsum fst snd].
  - lra.
  - rewrite IH. rewrite vget_vaddk. destruct (Pos.eqb k x); lra.
Qed.

Lemma vsum_nil x : vsum [] x == 0.
Proof. reflexivity. Qed.

Lemma vsum_single k v x : vsum [(k, v)] x == (if Pos.eqb k x then v else 0).
Proof. cbn [vsum]. destruct (Pos.eqb k x); lra. Qed.

(* values found by vget are entries of the list (or 0) *)
Lemma vget_in_or_zero m x : vget m x = 0 \/ In (x, vget m x) m.
Proof.
  induction m as [|[k v] r IH]; cbn [vget]; [left; reflexivity|].
  destruct (Pos.eqb k x) eqn:E.
  - apply Pos.eqb_eq in E. subst k. right. left. reflexivity.
  - destruct IH as [H|H]; [left; exact H | right; right; exact H].
Qed.

Lemma anyneg_false_nonneg m x : anyneg m = false -> 0 <= vget m x.
Proof.
  intros H. destruct (vget_in_or_zero m x) as [E|Hin].
  - rewrite E. lra.
  - unfold anyneg in H. rewrite <- negb_true_iff in H.
    rewrite (existsb_forallb_neg) in H || idtac.
    (* go through existsb_exists *)
    destruct (Qlt_le_dec (vget m x) 0) as [Hneg|Hpos]; [|exact Hpos].
    exfalso. rewrite negb_true_iff in H.
    assert (Hex : existsb (fun kv : sym * Q => Qltb (snd kv) 0) m = true).
    { apply existsb_exists. exists (x, vget m x). split; [exact Hin|].
      cbn [snd]. unfold Qltb. apply negb_true_iff.
      destruct (Qle_bool 0 (vget m x)) eqn:E; [|reflexivity].
      apply Qle_bool_iff in E. lra. }
    congruence.
Qed.

(* ---------------------------------------------------------------------------------------------- *)
(* the account invariant enforced by NonZero + ValidHold *)

Definition acct_good (a : acct) : Prop :=
  forall x, 0 <= vget (hold a) x /\ vget (hold a) x <= vget (bal a) x /\ 0 <= vget (bor a) x /\ 0 <= vget (bal a) x.

Lemma in_keys_of_get m x : vget m x <> 0 -> In x (vkeys m).
Proof.
  induction m as [|[k v] r IH]; cbn [vget vkeys map fst]; intros H.
  - exfalso. apply H. reflexivity.
  - destruct (Pos.eqb k x) eqn:E.
    + apply Pos.eqb_eq in E. left. exact E.
    + right. apply IH. exact H.
Qed.

Lemma rules_good a :
  nonzero_rule a = None -> validhold_rule a = None -> acct_good a.
Proof.
  unfold nonzero_rule, validhold_rule. intros Hnz Hvh.
  destruct (anyneg (bal a)) eqn:Eb; [discriminate|].
  destruct (anyneg (hold a)) eqn:Eh; [discriminate|].
  destruct (anyneg (bor a)) eqn:Eo; [discriminate|].
  destruct (existsb _ _) eqn:Ex in Hvh; [discriminate|].
  intros x.
  pose proof (anyneg_false_nonneg _ x Eb) as Hb.
  pose proof (anyneg_false_nonneg _ x Eh) as Hh.
  pose proof (anyneg_false_nonneg _ x Eo) as Ho.
  repeat split; try assumption.
  destruct (Qeq_dec (vget (hold a) x) 0) as [Hz|Hnzero].
  - rewrite Hz. exact Hb.
  - assert (Hin : In x (vkeys (hold a) ++ vkeys (bal a))).
    { apply in_or_app. left. apply in_keys_of_get. intros E. apply Hnzero. rewrite E. reflexivity. }
    destruct (Qlt_le_dec (vget (bal a) x) (vget (hold a) x)) as [Hlt|Hle]; [|exact Hle].
    exfalso.
    assert (existsb (fun x0 : sym => Qltb (vget (bal a) x0) (vget (hold a) x0)) (vkeys (hold a) ++ vkeys (bal a)) = true).
    { apply existsb_exists. exists x. split; [exact Hin|].
      unfold Qltb. apply negb_true_iff.
      destruct (Qle_bool (vget (hold a) x) (vget (bal a) x)) eqn:E; [|reflexivity].
      apply Qle_bool_iff in E. lra. }
    congruence.
Qed.

(* AccountBalances.update either fails, or yields an account on which the rules hold -- whatever
   the previous account was *)
Theorem acct_update_good extra a db dh dbo a' :
  acct_update extra a db dh dbo = Ok a' -> acct_good a'.
Proof.
  unfold acct_update. intros H.
  destruct (nonzero_rule _) eqn:E1; [discriminate|].
  destruct (validhold_rule _) eqn:E2; [discriminate|].
  destruct (extra _ _); [discriminate|].
  inversion H; subst a'. apply rules_good; assumption.
Qed.

(* ... and its components are the old ones plus the requested updates, symbol by symbol *)
Theorem acct_update_values extra a db dh dbo a' :
  acct_update extra a db dh dbo = Ok a' ->
  forall x, vget (bal a') x == vget (bal a) x + vsum db x /\
            vget (hold a') x == vget (hold a) x + vsum dh x /\
            vget (bor a') x == vget (bor a) x + vsum dbo x.
Proof.
  unfold acct_update. intros H x.
  destruct (nonzero_rule _); [discriminate|].
  destruct (validhold_rule _); [discriminate|].
  destruct (extra _ _); [discriminate|].
  inversion H; subst a'. cbn [bal hold bor]. repeat split; apply vget_vadd.
Qed.

Definition total (a : acct) (x : sym) : Q := vget (bal a) x - vget (bor a) x.

(* total = available + hold - borrowed moves only by balance updates minus borrowed updates;
   holds never move it *)
Corollary acct_update_total extra a db dh dbo a' x :
  acct_update extra a db dh dbo = Ok a' -> total a' x == total a x + vsum db x - vsum dbo x.
Proof.
  intros H. destruct (acct_update_values _ _ _ _ _ _ H x) as (Hb & _ & Ho). unfold total. lra.
Qed.

Lemma init_acct_good initial :
  (forall kv, In kv initial -> 0 <= snd kv) -> acct_good (init_acct initial).
Proof.
  intros Hpos x. unfold init_acct. cbn [bal hold bor vget].
  assert (Hb : 0 <= vget (filter (fun kv : sym * Q => Qle_bool 0 (snd kv)) initial) x).
  { destruct (vget_in_or_zero (filter (fun kv : sym * Q => Qle_bool 0 (snd kv)) initial) x) as [E|Hin].
    - rewrite E. lra.
    - apply filter_In in Hin. destruct Hin as [Hin _]. apply (Hpos _ Hin). }
  assert (Ho : 0 <= vget (map (fun kv : sym * Q => (fst kv, - snd kv))
                              (filter (fun kv : sym * Q => Qltb (snd kv) 0) initial)) x).
  { destruct (vget_in_or_zero (map (fun kv : sym * Q => (fst kv, - snd kv))
                              (filter (fun kv : sym * Q => Qltb (snd kv) 0) initial)) x) as [E|Hin].
    - rewrite E. lra.
    - apply in_map_iff in Hin. destruct Hin as ([k v] & Heq & Hin). apply filter_In in Hin.
      destruct Hin as [Hin Hneg]. cbn [fst snd] in *. apply Qltb_true in Hneg.
      inversion Heq. lra. }
  repeat split; try lra; assumption.
Qed.

(* an accepted update passed the extra (margin) rule, evaluated on the old and the new account *)
Lemma acct_update_extra extra a db dh dbo a' :
  acct_update extra a db dh dbo = Ok a' -> extra a a' = None.
Proof.
  unfold acct_update. intros H.
  destruct (nonzero_rule _); [discriminate|].
  destruct (validhold_rule _); [discriminate|].
  destruct (extra a _) eqn:E; [discriminate|].
  inversion H; subst a'. exact E.
Qed.
