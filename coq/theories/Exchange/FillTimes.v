(* C03, the exchange side of "no look-ahead": every fill recorded on an order carries the time of the bar that produced
   it, and only bars processed after the order was accepted can produce one.  So if every bar that is processed after a
   request is dated later than T, every fill of the order it created is dated later than T.  (That every bar dated <= T
   has been processed before a handler runs at clock T is the dispatcher's part: Dispatch/MuxProofs.v, C03.v.) *)
From Coq Require Import ZArith QArith Qround Lia Lqa List Bool PArith.
From Basana Require Import Num.DecQ Num.DecQProofs Exchange.Model Exchange.AcctProofs Exchange.StepProofs
  Exchange.OpProofs Exchange.OrderProofs Exchange.Prims Exchange.FillBounds Exchange.Structure.
Import ListNotations.
Open Scope Q_scope.

Section Pass.
Variable P : fill -> Prop.          (* the fills an operation may add *)
Variable os0 : list order.          (* the orders when the operation started *)

(* [o] carries the fills its stored version had at the start, plus allowed ones *)
Definition ext (o : order) : Prop :=
  exists o0 fs, nth_error os0 (o_id o) = Some o0 /\ o_fills o = o_fills o0 ++ fs /\ Forall P fs.

Definition FT (s : st) : Prop :=
  length (s_orders s) = length os0 /\
  forall i o0 o, nth_error os0 i = Some o0 -> nth_error (s_orders s) i = Some o ->
                 exists fs, o_fills o = o_fills o0 ++ fs /\ Forall P fs.
Definition fp {A} (r : outcome A) : Prop := FT (sof r).

Lemma FT_orders s s' : s_orders s' = s_orders s -> FT s -> FT s'.
Proof. unfold FT. intros ->. auto. Qed.

Lemma FT_put s o : FT s -> ext o -> FT (put_order s o).
Proof.
  intros [Hl Hf] (o0 & fs & H0 & Ef & Hp). unfold FT, put_order. cbn [set_orders s_orders].
  rewrite length_replace_nth. split; [exact Hl|].
  intros i x0 x Hi. rewrite nth_error_replace_nth. destruct (Nat.eqb i (o_id o)) eqn:E.
  - apply Nat.eqb_eq in E. subst i. destruct (nth_error (s_orders s) (o_id o)); [|discriminate].
    intros X; inversion X; subst x. rewrite H0 in Hi. inversion Hi; subst x0. exists fs. split; assumption.
  - apply Hf. exact Hi.
Qed.

Lemma fp_obind A B (r : outcome A) (f : st -> A -> outcome B) :
  fp r -> (forall s a, FT s -> fp (f s a)) -> fp (obind r f).
Proof. destruct r as [s a|s e]; unfold fp; cbn [obind sof]; intros H Hf; [apply Hf; exact H | exact H]. Qed.

Lemma fp_lift A s (r : res A) : FT s -> fp (lift s r).
Proof. destruct r; unfold fp; cbn [lift sof]; auto. Qed.

Lemma fp_upd c s db dh dbo : FT s -> fp (upd_acct c s db dh dbo).
Proof. intros H. unfold upd_acct. destruct (acct_update _ _ _ _ _); unfold fp; cbn [sof]; exact H. Qed.

Ltac FT_same := match goal with H : FT ?s |- FT _ => apply (FT_orders s); [reflexivity | exact H] end.
Ltac fp_step :=
  match goal with
  | |- fp (obind _ _) => apply fp_obind; [| intros ? ? ?]
  | |- fp (lift _ _) => apply fp_lift
  | |- fp (upd_acct _ _ _ _ _) => apply fp_upd
  | |- fp (Done _ _) => unfold fp; cbn [sof]
  | |- fp (Fail _ _) => unfold fp; cbn [sof]
  | |- fp (if ?b then _ else _) => destruct b
  | |- fp (match ?x with _ => _ end) => destruct x
  | |- FT _ => first [assumption | FT_same]
  end.
Ltac fp_auto := repeat fp_step.

Lemma fp_repay_loan c s id : FT s -> fp (repay_loan c s id).
Proof. intros H. unfold repay_loan. fp_auto. Qed.

Lemma fp_update_balances c s o bu : FT s -> fp (update_balances c s o bu).
Proof. intros H. unfold update_balances. fp_auto. Qed.

Lemma fp_repay_each c ids : forall s done, FT s -> fp (repay_each c s ids done).
Proof.
  induction ids as [|id r IH]; intros s done H; cbn [repay_each]; [fp_auto|].
  pose proof (fp_repay_loan c s id H) as Hc.
  destruct (repay_loan c s id) as [s' u|s' e]; unfold fp in Hc; cbn [sof] in Hc; [apply IH; exact Hc|].
  destruct e; try (unfold fp; cbn [sof]; exact Hc). apply IH. exact Hc.
Qed.

Lemma ext_loans o ids : ext o -> ext (add_loans o ids).
Proof. intros H. exact H. Qed.
Lemma ext_state o stt : ext o -> ext (with_state o stt).
Proof. intros H. exact H. Qed.
Lemma ext_hit o h : ext o -> ext (with_hit o h).
Proof. intros H. exact H. Qed.
Lemma ext_fill o w b q f : ext o -> P (mkFill w b q f) -> ext (add_fill o w b q f).
Proof.
  intros (o0 & fs & H0 & Ef & Hp) Hw. exists o0, (fs ++ [mkFill w b q f]). split; [exact H0|]. split.
  - unfold add_fill. cbn [o_fills]. rewrite Ef, app_assoc. reflexivity.
  - apply Forall_app. split; [exact Hp | constructor; [exact Hw | constructor]].
Qed.

Lemma fp_repay_loans c s o : FT s -> ext o -> fp (repay_loans c s o).
Proof.
  intros H He. unfold repay_loans. apply fp_obind; [fp_auto|]. intros s1 u H1.
  apply fp_obind; [apply fp_repay_each; exact H1|]. intros s2 ids H2.
  unfold fp. cbn [sof]. apply FT_put; [exact H2 | apply ext_loans; exact He].
Qed.

Lemma fp_order_closed c s o : FT s -> ext o -> fp (order_closed c s o).
Proof.
  intros H He. unfold order_closed. apply fp_obind; [apply fp_update_balances; exact H|].
  intros s1 u H1. destruct (o_ar o && negb (Qzero (filled o))); [apply fp_repay_loans; assumption | fp_auto].
Qed.

Lemma FT_push_update s o w : FT s -> FT (push_update s o w).
Proof. intros H. unfold push_update. destruct w; [FT_same|]. destruct (s_now s); [FT_same | exact H]. Qed.

Lemma fp_close_as c s o stt w :
  FT s -> ext o ->
  fp (obind (order_closed c (put_order s (with_state o stt)) (with_state o stt))
            (fun s o2 => Done (push_update s o2 w) tt)).
Proof.
  intros H He. apply fp_obind.
  - apply fp_order_closed; [apply FT_put; [exact H | apply ext_state; exact He] | apply ext_state; exact He].
  - intros s1 o2 H1. unfold fp. cbn [sof]. apply FT_push_update. exact H1.
Qed.

Lemma fp_order_not_filled c s o when : FT s -> ext o -> fp (order_not_filled c s o when).
Proof.
  intros H He. unfold order_not_filled.
  destruct (o_kind o); try (fp_auto; fail); (destruct (negb (is_open o)); [fp_auto | apply fp_close_as; assumption]).
Qed.

Lemma fp_process_order c s l o p when b :
  (forall bq qq fq, P (mkFill when bq qq fq)) -> FT s -> ext o -> fp (process_order c s l o p when b).
Proof.
  intros Pw H He. unfold process_order.
  apply fp_obind; [fp_auto|]. intros s1 [u hit] H1.
  assert (He1 : ext (with_hit o hit)) by (apply ext_hit; exact He).
  apply fp_obind; [apply fp_lift; apply FT_put; assumption|]. intros s2 pi H2.
  destruct (match u with Some (bv, qv) => round_bu pi (Some bv) (Some qv) | None => (None, None) end) as [rb rq].
  destruct rb as [bv|]; [destruct rq as [qv|]|];
    try (apply fp_obind; [apply fp_order_not_filled; assumption | intros; fp_auto]).
  apply fp_obind; [fp_auto|]. intros s3 fee H3.
  match goal with |- fp (match update_balances ?c ?s ?o ?f with _ => _ end) =>
    pose proof (fp_update_balances c s o f H3) as Hu; destruct (update_balances c s o f) as [s4 u4|s4 e4] end;
    unfold fp in Hu; cbn [sof] in Hu.
  - apply fp_obind; [fp_auto|]. intros s5 l' H5.
    match goal with |- fp (obind (if is_open ?o1 then _ else _) _) =>
      assert (He2 : ext o1) by (apply ext_fill; [exact He1 | apply Pw]) end.
    apply fp_obind.
    + match goal with |- fp (if ?bb then _ else _) => destruct bb end;
        [unfold fp; cbn [sof]; apply FT_put; assumption
        | apply fp_order_closed; [apply FT_put; assumption | exact He2]].
    + intros s6 o2 H6. unfold fp. cbn [sof]. apply FT_push_update. exact H6.
  - destruct e4; try (unfold fp; cbn [sof]; exact Hu).
    apply fp_obind; [apply fp_order_not_filled; assumption | intros; fp_auto].
Qed.
End Pass.

(* ---------------------------------------------------------------------------------------------- *)
Lemma FT_refl (P : fill -> Prop) s : FT P (s_orders s) s.
Proof.
  split; [reflexivity|]. intros i o0 o H0 H1. rewrite H0 in H1. inversion H1; subst. exists []. split; [symmetry; apply app_nil_r | constructor].
Qed.

Lemma ext_of_FT (P : fill -> Prop) os0 s id o :
  WF s -> FT P os0 s -> get_order s id = Some o -> ext P os0 o.
Proof.
  intros Hw [Hl Hf] Hg. assert (Eid : o_id o = id) by (destruct Hw as (Ho & _); destruct (Ho _ _ Hg); assumption).
  unfold get_order in Hg.
  destruct (nth_error os0 id) as [o0|] eqn:E0.
  - destruct (Hf id o0 o E0 Hg) as (fs & Ef & Hp). exists o0, fs. rewrite Eid. split; [exact E0 | split; assumption].
  - apply nth_error_None in E0. assert (id < length (s_orders s))%nat by (apply nth_error_Some; rewrite Hg; discriminate). lia.
Qed.

Lemma fp_process_all (P : fill -> Prop) os0 c ids p when b :
  (forall bq qq fq, P (mkFill when bq qq fq)) ->
  forall s l, WF s -> FT P os0 s -> liq_ok l -> fp P os0 (process_all c s l ids p when b).
Proof.
  intros Pw. induction ids as [|id r IH]; intros s l Hw H Hl; cbn [process_all]; [exact H|].
  destruct (get_order s id) as [o|] eqn:Eg; [|apply IH; assumption].
  destruct (is_open o && pair_eqb (o_pair o) p) eqn:Eop; [|apply IH; assumption].
  assert (Eid : o_id o = id) by (destruct Hw as (Ho & _); destruct (Ho _ _ Eg); assumption).
  assert (Hg : get_order s (o_id o) = Some o) by (rewrite Eid; exact Eg).
  pose proof (fp_process_order P os0 c s l o p when b Pw H (ext_of_FT P os0 s id o Hw H Eg)) as F1.
  assert (RR : R c s s) by (split; [exact Hw | split; [apply prims_refl | intros i x Hi _; exact Hi]]).
  assert (Hwo : was_open s (o_id o)).
  { intros x Hx. unfold get_order in Hg. rewrite Hg in Hx. inversion Hx; subst. apply andb_true_iff in Eop. apply Eop. }
  destruct (rp_process_order c s s l o p when b RR Hg Hwo Hl) as [R1 L1].
  destruct (process_order c s l o p when b) as [s1 l1|s1 e]; cbn [obind sof] in *; [|exact F1].
  destruct R1 as (W1 & _). apply IH; assumption.
Qed.

(* what one operation does to the fills of the orders *)
Definition ST (P : fill -> Prop) (s s' : st) : Prop :=
  (forall i o0, nth_error (s_orders s) i = Some o0 ->
     exists o fs, nth_error (s_orders s') i = Some o /\ o_fills o = o_fills o0 ++ fs /\ Forall P fs) /\
  (forall i o, nth_error (s_orders s') i = Some o -> (length (s_orders s) <= i)%nat -> o_fills o = []).

Lemma ST_of_FT (P : fill -> Prop) s s' : FT P (s_orders s) s' -> ST P s s'.
Proof.
  intros [Hl Hf]. split.
  - intros i o0 H0. destruct (nth_error (s_orders s') i) as [o|] eqn:E.
    + destruct (Hf i o0 o H0 E) as (fs & Ef & Hp). exists o, fs. split; [reflexivity | split; assumption].
    + apply nth_error_None in E. assert (i < length (s_orders s))%nat by (apply nth_error_Some; rewrite H0; discriminate). lia.
  - intros i o Hi Hle. assert (i < length (s_orders s'))%nat by (apply nth_error_Some; rewrite Hi; discriminate). lia.
Qed.

Lemma ST_on_bar (P : fill -> Prop) c s p when b :
  (forall bq qq fq, P (mkFill when bq qq fq)) -> cfg_ok c -> 0 <= b_volume b -> WF s ->
  ST P s (sof (on_bar c s p when b)).
Proof.
  intros Pw Hc Hv Hw. apply ST_of_FT. unfold on_bar, bump_reindex.
  match goal with |- FT P _ (sof (obind (process_all c ?s1 ?l0 ?ids p when b) _)) =>
    assert (L0 : liq_ok l0);
    [|pose proof (fp_process_all P (s_orders s) c ids p when b Pw s1 l0 Hw (FT_refl P s) L0) as F;
      destruct (process_all c s1 l0 ids p when b) as [s2 l2|s2 e2]] end.
  { unfold cfg_ok in Hc. destruct (c_liq c) as [|lp ip]; [exact I|]. cbn [liq_ok].
    split; [lra|]. apply Qmult_le_0_compat; [exact Hv|]. apply Qle_shift_div_l; lra. }
  - cbn [obind sof] in *. unfold finish_reindex. match goal with |- FT P _ (if ?f then _ else _) => destruct f end; exact F.
  - exact F.
Qed.

Lemma ST_cancel (P : fill -> Prop) c s id : WF s -> ST P s (sof (cancel_order c s id)).
Proof.
  intros Hw. apply ST_of_FT. unfold cancel_order. destruct (get_order s id) as [o|] eqn:Eg; [|apply FT_refl].
  destruct (negb (is_open o)); [apply FT_refl|].
  destruct (if o_ar o && negb (Qzero (filled o)) then check_infos c s (s_loans s) else Ok tt); cbn [lift obind]; [|apply FT_refl].
  apply fp_close_as; [apply FT_refl | apply (ext_of_FT P (s_orders s) s id o Hw (FT_refl P s) Eg)].
Qed.

Lemma ST_same_orders (P : fill -> Prop) s s' : s_orders s' = s_orders s -> ST P s s'.
Proof. intros E. apply ST_of_FT. apply (FT_orders P (s_orders s) s s' E). apply FT_refl. Qed.

Lemma ST_create_loan (P : fill -> Prop) c s x a : WF s -> ST P s (sof (create_loan c s x a)).
Proof.
  intros Hw. apply ST_same_orders.
  destruct (rpf_create_loan c s s x a) as [_ [Fo _]]; [|exact Fo].
  split; [exact Hw | split; [apply prims_refl | intros i o Hi _; exact Hi]].
Qed.

Lemma ST_repay_loan (P : fill -> Prop) c s id : WF s -> ST P s (sof (repay_loan c s id)).
Proof.
  intros Hw. apply ST_same_orders.
  destruct (rpf_repay_loan c s s id) as [_ [Fo _]]; [|exact Fo].
  split; [exact Hw | split; [apply prims_refl | intros i o Hi _; exact Hi]].
Qed.

Lemma ST_list_open (P : fill -> Prop) s p : ST P s (fst (list_open s p)).
Proof.
  apply ST_same_orders. unfold list_open, bump_reindex, finish_reindex.
  match goal with |- context [if ?f then _ else _] => destruct f end; reflexivity.
Qed.

(* accepting an order: the orders that were there keep their fills, the new one has none *)
Lemma ST_create_order (P : fill -> Prop) c s k op p amount ab ar :
  WF s -> ST P s (sof (create_order c s k op p amount ab ar)).
Proof.
  intros Hw. unfold create_order.
  destruct (get_pair_info c p); cbn [lift obind sof]; [|apply ST_same_orders; reflexivity].
  destruct (validate _ k amount); cbn [lift obind sof]; [|apply ST_same_orders; reflexivity].
  unfold add_order.
  match goal with |- context [estimate_required c s ?o] => destruct (estimate_required c s o) as [req|e] end;
    cbn [lift obind sof]; [|apply ST_same_orders; reflexivity].
  (* borrowing and reserving keep the orders *)
  match goal with |- ST P s (sof (obind ?r _)) =>
    assert (Eo : s_orders (sof r) = s_orders s);
    [|destruct r as [sx lids|sx ex]; cbn [obind sof] in *] end.
  - destruct (vnonempty req); [|reflexivity]. cbn [o_ab].
    assert (E1 : s_orders (sof (if ab then borrow_loop c s (shorts_of (s_acct s) req) [] else Done s [])) = s_orders s).
    { destruct ab; [|reflexivity].
      destruct (rpf_borrow_loop c s (shorts_of (s_acct s) req) s []) as [_ [Fo _]]; [|exact Fo].
      split; [exact Hw | split; [apply prims_refl | intros i o Hi _; exact Hi]]. }
    destruct (if ab then borrow_loop c s (shorts_of (s_acct s) req) [] else Done s []) as [s1 l1|s1 e1];
      cbn [obind sof] in *; [|exact E1].
    unfold upd_acct. destruct (acct_update _ _ _ _ _); cbn [obind sof]; exact E1.
  - (* accepted: one more order, without fills *)
    match goal with |- ST P s ?fs => assert (Ef : exists o', s_orders fs = s_orders s ++ [o'] /\ o_fills o' = []) end.
    { eexists. split.
      - unfold push_update. cbn [set_open_idx set_orders s_now]. destruct (s_now sx); cbn [add_event set_open_idx set_orders s_orders];
          rewrite Eo; reflexivity.
      - reflexivity. }
    destruct Ef as (o' & Ef & Efl). split.
    + intros i o0 H0. rewrite Ef. exists o0, []. split; [|split; [symmetry; apply app_nil_r | constructor]].
      rewrite nth_error_app1; [exact H0 | apply nth_error_Some; rewrite H0; discriminate].
    + intros i o Hi Hle. rewrite Ef, nth_error_snoc in Hi. destruct (Nat.eqb i (length (s_orders s))) eqn:E.
      * inversion Hi; subst. exact Efl.
      * apply Nat.eqb_neq in E. assert (i < length (s_orders s))%nat by (apply nth_error_Some; rewrite Hi; discriminate). lia.
  - apply ST_same_orders. exact Eo.
Qed.

Theorem step_ST (P : fill -> Prop) c s o :
  cfg_ok c -> op_ok o -> WF s ->
  (forall p w b, o = OBar p w b -> forall bq qq fq, P (mkFill w bq qq fq)) ->
  ST P s (fst (step c s o)).
Proof.
  intros Hc Ho Hw Hp. destruct o; cbn [step op_ok] in *.
  - pose proof (ST_on_bar P c s p when b (Hp p when b eq_refl) Hc Ho Hw) as X. destruct (on_bar c s p when b); exact X.
  - pose proof (ST_create_order P c s k o p amount ab ar Hw) as X. destruct (create_order _ _ _ _ _ _ _ _); exact X.
  - pose proof (ST_cancel P c s id Hw) as X. destruct (cancel_order c s id); exact X.
  - pose proof (ST_create_loan P c s x amount Hw) as X. destruct (create_loan c s x amount); exact X.
  - pose proof (ST_repay_loan P c s id Hw) as X. destruct (repay_loan c s id); exact X.
  - pose proof (ST_list_open P s p) as X. destruct (list_open s p). exact X.
Qed.

(* C03 (exchange side): the orders accepted during [ops] are only ever filled by the bars of [ops]; if all of those are
   dated later than T, so is every fill of every such order *)
Lemma fills_later_gen c ops T n0 : forall s,
  cfg_ok c -> ops_ok ops -> WF s ->
  (forall p w b, In (OBar p w b) ops -> (T < w)%Z) ->
  (forall i o, nth_error (s_orders s) i = Some o -> (n0 <= i)%nat -> Forall (fun f => (T < f_when f)%Z) (o_fills o)) ->
  forall i o, nth_error (s_orders (run c s ops)) i = Some o -> (n0 <= i)%nat ->
              Forall (fun f => (T < f_when f)%Z) (o_fills o).
Proof.
  unfold run. induction ops as [|op r IH]; intros s Hc Ho Hw Hbars Hinv; cbn [fold_left]; [exact Hinv|].
  inversion Ho as [|? ? Ho1 Hor]; subst.
  assert (S1 : ST (fun f => (T < f_when f)%Z) s (fst (step c s op))).
  { apply step_ST; try assumption. intros p w b -> bq qq fq. cbn [f_when]. apply (Hbars p w b). left; reflexivity. }
  apply (IH (fst (step c s op)) Hc Hor (proj1 (step_prims c s op Hc Ho1 Hw))
            (fun p w b Hin => Hbars p w b (or_intror Hin))).
  intros i o Hi Hn. destruct S1 as [S1a S1b].
  destruct (nth_error (s_orders s) i) as [o0|] eqn:E0.
  - destruct (S1a i o0 E0) as (o1 & fs & E1 & Ef & Hp). rewrite E1 in Hi. inversion Hi; subst o1.
    rewrite Ef. apply Forall_app. split; [apply (Hinv i o0 E0 Hn) | exact Hp].
  - apply nth_error_None in E0. rewrite (S1b i o Hi E0). constructor.
Qed.

Theorem fills_only_from_later_bars c s ops T i o :
  cfg_ok c -> ops_ok ops -> WF s ->
  (forall p w b, In (OBar p w b) ops -> (T < w)%Z) ->
  nth_error (s_orders (run c s ops)) i = Some o -> (length (s_orders s) <= i)%nat ->
  Forall (fun f => (T < f_when f)%Z) (o_fills o).
Proof.
  intros Hc Ho Hw Hb Hi Hn. apply (fills_later_gen c ops T (length (s_orders s)) s Hc Ho Hw Hb) with (i := i); try assumption.
  intros j x Hj Hle. assert (j < length (s_orders s))%nat by (apply nth_error_Some; rewrite Hj; discriminate). lia.
Qed.

Theorem fills_only_from_later_bars_reachable c initial ops1 ops2 T i o :
  cfg_ok c -> ops_ok ops1 -> ops_ok ops2 ->
  (forall p w b, In (OBar p w b) ops2 -> (T < w)%Z) ->
  let s1 := run c (init_st initial) ops1 in
  nth_error (s_orders (run c s1 ops2)) i = Some o -> (length (s_orders s1) <= i)%nat ->
  Forall (fun f => (T < f_when f)%Z) (o_fills o).
Proof.
  intros Hc H1 H2 Hb s1 Hi Hn.
  apply (fills_only_from_later_bars c s1 ops2 T i o Hc H2); try assumption.
  apply (run_prims c ops1 (init_st initial) Hc H1 (WF_init initial)).
Qed.
