(* C03, the exchange side of "no look-ahead": every fill recorded on an order carries the time of the bar that produced
   it, and only bars processed after the order was accepted can produce one.  So if every bar that is processed after a
   request is dated later than T, every fill of the order it created is dated later than T.  (That every bar dated <= T
   has been processed before a handler runs at clock T is the dispatcher's part: Dispatch/MuxProofs.v, C03.v.) *)
From Coq Require Import ZArith QArith Qround Lia Lqa List Bool PArith.
From Basana Require Import Num.DecQ Num.DecQProofs Exchange.Model Exchange.AcctProofs Exchange.StepProofs
  Exchange.OpProofs Exchange.FeeProofs Exchange.OrderProofs Exchange.LifeProofs Exchange.Prims Exchange.FillBounds
  Exchange.Structure.
Import ListNotations.
Open Scope Q_scope.

Definition fsum (g : fill -> Q) (fs : list fill) : Q := fold_right (fun f acc => g f + acc) 0 fs.

Lemma fsum_app g a b : fsum g (a ++ b) == fsum g a + fsum g b.
Proof.
  induction a as [|x r IH]; [cbn [app]; unfold fsum at 2; cbn [fold_right]; lra|].
  change (g x + fsum g (r ++ b) == (g x + fsum g r) + fsum g b). rewrite IH. lra.
Qed.

(* [o] is [o0] plus the fills [fs]: same pair, the fill records appended, and the cumulative amounts moved by their sums *)
Definition grew (P : pair -> fill -> Prop) (J : order -> Prop) (o0 o : order) : Prop :=
  o_pair o = o_pair o0 /\
  (exists fs, o_fills o = o_fills o0 ++ fs /\ Forall (P (o_pair o0)) fs /\
              o_fb o == o_fb o0 + fsum f_base fs /\ o_fq o == o_fq o0 + fsum f_quote fs /\
              o_fee o == o_fee o0 + fsum f_fee fs) /\
  (J o0 -> J o).

(* what a fill of the model is: the amounts [balance_updates] proposes for the bar, rounded to the pair's precision,
   and the fee [calc_fee] charges for them.  [fill_keeps] says that such a fill keeps the order invariant [J]. *)
Definition fill_keeps (J : order -> Prop) (c : cfg) (l : liq) (o : order) (b : bar) (when : Z) : Prop :=
  forall hit pi bv0 qv0 bv qv fee,
    balance_updates c l o b = Ok (Some (bv0, qv0), hit) ->
    get_pair_info c (o_pair o) = Ok pi ->
    round_bu pi (Some bv0) (Some qv0) = (Some bv, Some qv) ->
    calc_fee c (snd pi) (with_hit o hit) qv = Ok fee ->
    J (with_hit o hit) -> J (add_fill (with_hit o hit) when bv qv (fee_val fee)).

Section Pass.
Variable P : pair -> fill -> Prop.  (* the fills an operation may add to an order of a pair *)
Variable J : order -> Prop.         (* an invariant of single orders, insensitive to their non-monetary fields *)
Hypothesis J_hit : forall o h, J o -> J (with_hit o h).
Hypothesis J_state : forall o, J o -> J (with_state o SCanceled).
Hypothesis J_loans : forall o ids, J o -> J (add_loans o ids).
Variable os0 : list order.          (* the orders when the operation started *)

(* [o] carries the fills its stored version had at the start, plus allowed ones *)
Definition ext (o : order) : Prop := exists o0, nth_error os0 (o_id o) = Some o0 /\ grew P J o0 o.

Definition FT (s : st) : Prop :=
  length (s_orders s) = length os0 /\
  forall i o0 o, nth_error os0 i = Some o0 -> nth_error (s_orders s) i = Some o -> grew P J o0 o.
Definition fp {A} (r : outcome A) : Prop := FT (sof r).

Lemma FT_orders s s' : s_orders s' = s_orders s -> FT s -> FT s'.
Proof. unfold FT. intros ->. auto. Qed.

Lemma FT_put s o : FT s -> ext o -> FT (put_order s o).
Proof.
  intros [Hl Hf] (o0 & H0 & Hg). unfold FT, put_order. cbn [set_orders s_orders].
  rewrite length_replace_nth. split; [exact Hl|].
  intros i x0 x Hi. rewrite nth_error_replace_nth. destruct (Nat.eqb i (o_id o)) eqn:E.
  - apply Nat.eqb_eq in E. subst i. destruct (nth_error (s_orders s) (o_id o)); [|discriminate].
    intros X; inversion X; subst x. rewrite H0 in Hi. inversion Hi; subst x0. exact Hg.
  - apply Hf. exact Hi.
Qed.

Lemma fp_obind A B (r : outcome A) (f : st -> A -> outcome B) :
  fp r -> (forall s a, FT s -> fp (f s a)) -> fp (obind r f).
Proof. destruct r as [s a|s e]; unfold fp; cbn [obind sof]; intros H Hf; [apply Hf; exact H | exact H]. Qed.

Lemma fp_lift A s (r : res A) : FT s -> fp (lift s r).
Proof. destruct r; unfold fp; cbn [lift sof]; auto. Qed.

Lemma fp_upd c s db dh dbo : FT s -> fp (upd_acct c s db dh dbo).
Proof. intros H. unfold upd_acct. destruct (acct_update _ _ _ _ _); unfold fp; cbn [sof]; exact H. Qed.

Ltac FT_same := match goal with H : FT ?s |- FT _ => apply (FT_orders s); [reflexivity | exact H] end.
Ltac fp_step :=
  match goal with
  | |- fp (obind _ _) => apply fp_obind; [| intros ? ? ?]
  | |- fp (lift _ _) => apply fp_lift
  | |- fp (upd_acct _ _ _ _ _) => apply fp_upd
  | |- fp (Done _ _) => unfold fp; cbn [sof]
  | |- fp (Fail _ _) => unfold fp; cbn [sof]
  | |- fp (if ?b then _ else _) => destruct b
  | |- fp (match ?x with _ => _ end) => destruct x
  | |- FT _ => first [assumption | FT_same]
  end.
Ltac fp_auto := repeat fp_step.

Lemma fp_repay_loan c s id : FT s -> fp (repay_loan c s id).
Proof. intros H. unfold repay_loan. fp_auto. Qed.

Lemma fp_update_balances c s o bu : FT s -> fp (update_balances c s o bu).
Proof. intros H. unfold update_balances. fp_auto. Qed.

Lemma fp_repay_each c ids : forall s done, FT s -> fp (repay_each c s ids done).
Proof.
  induction ids as [|id r IH]; intros s done H; cbn [repay_each]; [fp_auto|].
  pose proof (fp_repay_loan c s id H) as Hc.
  destruct (repay_loan c s id) as [s' u|s' e]; unfold fp in Hc; cbn [sof] in Hc; [apply IH; exact Hc|].
  destruct e; try (unfold fp; cbn [sof]; exact Hc). apply IH. exact Hc.
Qed.

Lemma ext_loans o ids : ext o -> ext (add_loans o ids).
Proof.
  intros (o0 & H0 & Epr & Hf & HJ). exists o0. split; [exact H0|]. split; [exact Epr|]. split; [exact Hf|].
  intros X. apply J_loans. apply HJ. exact X.
Qed.
Lemma ext_state o : ext o -> ext (with_state o SCanceled).
Proof.
  intros (o0 & H0 & Epr & Hf & HJ). exists o0. split; [exact H0|]. split; [exact Epr|]. split; [exact Hf|].
  intros X. apply J_state. apply HJ. exact X.
Qed.
Lemma ext_hit o h : ext o -> ext (with_hit o h).
Proof.
  intros (o0 & H0 & Epr & Hf & HJ). exists o0. split; [exact H0|]. split; [exact Epr|]. split; [exact Hf|].
  intros X. apply J_hit. apply HJ. exact X.
Qed.
Lemma ext_fill o w b q f :
  ext o -> P (o_pair o) (mkFill w b q f) -> (J o -> J (add_fill o w b q f)) -> ext (add_fill o w b q f).
Proof.
  intros (o0 & H0 & Epr & (fs & Ef & Hp & Sb & Sq & Sf) & HJ) Hw Hk. exists o0. split; [exact H0|]. split; [exact Epr|].
  split; [|intros X; apply Hk; apply HJ; exact X].
  exists (fs ++ [mkFill w b q f]). split; [|split; [|split; [|split]]].
  - unfold add_fill. cbn [o_fills]. rewrite Ef, app_assoc. reflexivity.
  - apply Forall_app. split; [exact Hp | constructor; [rewrite <- Epr; exact Hw | constructor]].
  - unfold add_fill. cbn [o_fb]. rewrite Qred_correct, fsum_app, Sb. cbn [fsum fold_right f_base]. lra.
  - unfold add_fill. cbn [o_fq]. rewrite Qred_correct, fsum_app, Sq. cbn [fsum fold_right f_quote]. lra.
  - unfold add_fill. cbn [o_fee]. rewrite Qred_correct, fsum_app, Sf. cbn [fsum fold_right f_fee]. lra.
Qed.

Lemma fp_repay_loans c s o : FT s -> ext o -> fp (repay_loans c s o).
Proof.
  intros H He. unfold repay_loans. apply fp_obind; [fp_auto|]. intros s1 u H1.
  apply fp_obind; [apply fp_repay_each; exact H1|]. intros s2 ids H2.
  unfold fp. cbn [sof]. apply FT_put; [exact H2 | apply ext_loans; exact He].
Qed.

Lemma fp_order_closed c s o : FT s -> ext o -> fp (order_closed c s o).
Proof.
  intros H He. unfold order_closed. apply fp_obind; [apply fp_update_balances; exact H|].
  intros s1 u H1. destruct (o_ar o && negb (Qzero (filled o))); [apply fp_repay_loans; assumption | fp_auto].
Qed.

Lemma FT_push_update s o w : FT s -> FT (push_update s o w).
Proof. intros H. unfold push_update. destruct w; [FT_same|]. destruct (s_now s); [FT_same | exact H]. Qed.

Lemma fp_close_as c s o w :
  FT s -> ext o ->
  fp (obind (order_closed c (put_order s (with_state o SCanceled)) (with_state o SCanceled))
            (fun s o2 => Done (push_update s o2 w) tt)).
Proof.
  intros H He. apply fp_obind.
  - apply fp_order_closed; [apply FT_put; [exact H | apply ext_state; exact He] | apply ext_state; exact He].
  - intros s1 o2 H1. unfold fp. cbn [sof]. apply FT_push_update. exact H1.
Qed.

Lemma fp_order_not_filled c s o when : FT s -> ext o -> fp (order_not_filled c s o when).
Proof.
  intros H He. unfold order_not_filled.
  destruct (o_kind o); try (fp_auto; fail); (destruct (negb (is_open o)); [fp_auto | apply fp_close_as; assumption]).
Qed.

Lemma fp_process_order c s l o p when b :
  (forall pr pi bq qq fq, get_pair_info c pr = Ok pi -> on_grid (fst pi) bq -> on_grid (snd pi) qq ->
                          on_grid (snd pi) fq -> P pr (mkFill when bq qq fq)) ->
  fill_keeps J c l o b when ->
  FT s -> ext o -> fp (process_order c s l o p when b).
Proof.
  intros Pw Jw H He. unfold process_order.
  destruct (balance_updates c l o b) as [[u hit]|ebu] eqn:Ebu; cbn [lift obind]; [|unfold fp; cbn [sof]; exact H].
  assert (He1 : ext (with_hit o hit)) by (apply ext_hit; exact He).
  assert (H2 : FT (put_order s (with_hit o hit))) by (apply FT_put; assumption).
  destruct (get_pair_info c (o_pair (with_hit o hit))) as [pi|epi] eqn:Epi; cbn [lift obind];
    [|unfold fp; cbn [sof]; exact H2].
  destruct (match u with Some (bv, qv) => round_bu pi (Some bv) (Some qv) | None => (None, None) end) as [rb rq] eqn:Er.
  destruct rb as [bv|]; [destruct rq as [qv|]|];
    try (apply fp_obind; [apply fp_order_not_filled; assumption | intros; fp_auto]).
  destruct u as [[b0 q0]|]; [|discriminate Er].
  assert (G : on_grid (fst pi) bv /\ on_grid (snd pi) qv).
  { destruct pi as [bp qp]. exact (round_bu_on_grid _ _ _ _ _ _ Er). }
  destruct (calc_fee c (snd pi) (with_hit o hit) qv) as [fee|ef] eqn:Ef; cbn [lift obind];
    [|unfold fp; cbn [sof]; exact H2].
  destruct (fee_charge_nonpos _ _ _ _ _ Ef) as [_ Gf].
  match goal with |- fp (match update_balances ?c ?s ?o ?f with _ => _ end) =>
    pose proof (fp_update_balances c s o f H2) as Hu; destruct (update_balances c s o f) as [s4 u4|s4 e4] end;
    unfold fp in Hu; cbn [sof] in Hu.
  - apply fp_obind; [fp_auto|]. intros s5 l' H5.
    match goal with |- fp (obind (if is_open ?o1 then _ else _) _) =>
      assert (He2 : ext o1)
        by (apply ext_fill; [exact He1 | apply (Pw _ pi); [exact Epi | apply G | apply G | exact Gf]
                            | exact (Jw hit pi b0 q0 bv qv fee Ebu Epi Er Ef)]) end.
    apply fp_obind.
    + match goal with |- fp (if ?bb then _ else _) => destruct bb end;
        [unfold fp; cbn [sof]; apply FT_put; assumption
        | apply fp_order_closed; [apply FT_put; assumption | exact He2]].
    + intros s6 o2 H6. unfold fp. cbn [sof]. apply FT_push_update. exact H6.
  - destruct e4; try (unfold fp; cbn [sof]; exact Hu).
    apply fp_obind; [apply fp_order_not_filled; assumption | intros; fp_auto].
Qed.
End Pass.

(* ---------------------------------------------------------------------------------------------- *)
Section History.
Variable P : pair -> fill -> Prop.
Variable J : order -> Prop.
Hypothesis J_hit : forall o h, J o -> J (with_hit o h).
Hypothesis J_state : forall o, J o -> J (with_state o SCanceled).
Hypothesis J_loans : forall o ids, J o -> J (add_loans o ids).

Lemma grew_refl o : grew P J o o.
Proof.
  split; [reflexivity|]. split; [|exact (fun X => X)].
  exists []. unfold fsum; cbn [fold_right]. split; [symmetry; apply app_nil_r|]. split; [constructor|]. split; [|split]; lra.
Qed.

Lemma FT_refl s : FT P J (s_orders s) s.
Proof.
  split; [reflexivity|]. intros i o0 o H0 H1. rewrite H0 in H1. inversion H1; subst. apply grew_refl.
Qed.

Lemma ext_of_FT os0 s id o :
  WF s -> FT P J os0 s -> get_order s id = Some o -> ext P J os0 o.
Proof.
  intros Hw [Hl Hf] Hg. assert (Eid : o_id o = id) by (destruct Hw as (Ho & _); destruct (Ho _ _ Hg); assumption).
  unfold get_order in Hg.
  destruct (nth_error os0 id) as [o0|] eqn:E0.
  - exists o0. rewrite Eid. split; [exact E0 | exact (Hf id o0 o E0 Hg)].
  - apply nth_error_None in E0. assert (id < length (s_orders s))%nat by (apply nth_error_Some; rewrite Hg; discriminate). lia.
Qed.

Lemma fp_process_all os0 c ids p when b :
  (forall pr pi bq qq fq, get_pair_info c pr = Ok pi -> on_grid (fst pi) bq -> on_grid (snd pi) qq ->
                          on_grid (snd pi) fq -> P pr (mkFill when bq qq fq)) ->
  (forall l o, OW o -> liq_ok l -> is_open o = true -> fill_keeps J c l o b when) ->
  forall s l, WF s -> FT P J os0 s -> liq_ok l -> fp P J os0 (process_all c s l ids p when b).
Proof.
  intros Pw Jw. induction ids as [|id r IH]; intros s l Hw H Hl; cbn [process_all]; [exact H|].
  destruct (get_order s id) as [o|] eqn:Eg; [|apply IH; assumption].
  destruct (is_open o && pair_eqb (o_pair o) p) eqn:Eop; [|apply IH; assumption].
  assert (Eid : o_id o = id) by (destruct Hw as (Ho & _); destruct (Ho _ _ Eg); assumption).
  assert (Hg : get_order s (o_id o) = Some o) by (rewrite Eid; exact Eg).
  assert (Hoo : OW o) by (destruct Hw as (Ho & _); destruct (Ho _ _ Eg); assumption).
  assert (Hopn : is_open o = true) by (apply andb_true_iff in Eop; apply Eop).
  pose proof (fp_process_order P J J_hit J_state J_loans os0 c s l o p when b Pw (Jw l o Hoo Hl Hopn) H
                               (ext_of_FT os0 s id o Hw H Eg)) as F1.
  assert (RR : R c s s) by (split; [exact Hw | split; [apply prims_refl | intros i x Hi _; exact Hi]]).
  assert (Hwo : was_open s (o_id o)).
  { intros x Hx. unfold get_order in Hg. rewrite Hg in Hx. inversion Hx; subst. apply andb_true_iff in Eop. apply Eop. }
  destruct (rp_process_order c s s l o p when b RR Hg Hwo Hl) as [R1 L1].
  destruct (process_order c s l o p when b) as [s1 l1|s1 e]; cbn [obind sof] in *; [|exact F1].
  destruct R1 as (W1 & _). apply IH; assumption.
Qed.

(* what one operation does to the fills of the orders *)
Definition fresh (o : order) : Prop := o_fills o = [] /\ o_fb o = 0 /\ o_fq o = 0 /\ o_fee o = 0.
(* what is known of an order that was just accepted: its request passed the validation against the pair's precision *)
Definition accepted (c : cfg) (o : order) : Prop :=
  exists pi, get_pair_info c (o_pair o) = Ok pi /\ validate pi (o_kind o) (o_amount o) = Ok tt.

Definition ST (c : cfg) (s s' : st) : Prop :=
  (forall i o0, nth_error (s_orders s) i = Some o0 ->
     exists o, nth_error (s_orders s') i = Some o /\ grew P J o0 o) /\
  (forall i o, nth_error (s_orders s') i = Some o -> (length (s_orders s) <= i)%nat -> fresh o /\ accepted c o).

Lemma ST_of_FT c s s' : FT P J (s_orders s) s' -> ST c s s'.
Proof.
  intros [Hl Hf]. split.
  - intros i o0 H0. destruct (nth_error (s_orders s') i) as [o|] eqn:E.
    + exists o. split; [reflexivity | exact (Hf i o0 o H0 E)].
    + apply nth_error_None in E. assert (i < length (s_orders s))%nat by (apply nth_error_Some; rewrite H0; discriminate). lia.
  - intros i o Hi Hle. assert (i < length (s_orders s'))%nat by (apply nth_error_Some; rewrite Hi; discriminate). lia.
Qed.

Lemma ST_on_bar c s p when b :
  (forall pr pi bq qq fq, get_pair_info c pr = Ok pi -> on_grid (fst pi) bq -> on_grid (snd pi) qq ->
                          on_grid (snd pi) fq -> P pr (mkFill when bq qq fq)) ->
  (forall l o, OW o -> liq_ok l -> is_open o = true -> fill_keeps J c l o b when) -> cfg_ok c -> 0 <= b_volume b -> WF s ->
  ST c s (sof (on_bar c s p when b)).
Proof.
  intros Pw Jw Hc Hv Hw. apply ST_of_FT. unfold on_bar, bump_reindex.
  match goal with |- FT P J _ (sof (obind (process_all c ?s1 ?l0 ?ids p when b) _)) =>
    assert (L0 : liq_ok l0);
    [|pose proof (fp_process_all (s_orders s) c ids p when b Pw Jw s1 l0 Hw (FT_refl s) L0) as F;
      destruct (process_all c s1 l0 ids p when b) as [s2 l2|s2 e2]] end.
  { unfold cfg_ok in Hc. destruct (c_liq c) as [|lp ip]; [exact I|]. cbn [liq_ok].
    split; [lra|]. apply Qmult_le_0_compat; [exact Hv|]. apply Qle_shift_div_l; lra. }
  - cbn [obind sof] in *. unfold finish_reindex. match goal with |- FT P J _ (if ?f then _ else _) => destruct f end; exact F.
  - exact F.
Qed.

Lemma ST_cancel c s id : WF s -> ST c s (sof (cancel_order c s id)).
Proof.
  intros Hw. apply ST_of_FT. unfold cancel_order. destruct (get_order s id) as [o|] eqn:Eg; [|apply FT_refl].
  destruct (negb (is_open o)); [apply FT_refl|].
  destruct (if o_ar o && negb (Qzero (filled o)) then check_infos c s (s_loans s) else Ok tt); cbn [lift obind]; [|apply FT_refl].
  apply fp_close_as; first [assumption | apply FT_refl | apply (ext_of_FT (s_orders s) s id o Hw (FT_refl s) Eg)].
Qed.

Lemma ST_same_orders c s s' : s_orders s' = s_orders s -> ST c s s'.
Proof. intros E. apply ST_of_FT. apply (FT_orders P J (s_orders s) s s' E). apply FT_refl. Qed.

Lemma ST_create_loan c s x a : WF s -> ST c s (sof (create_loan c s x a)).
Proof.
  intros Hw. apply ST_same_orders.
  destruct (rpf_create_loan c s s x a) as [_ [Fo _]]; [|exact Fo].
  split; [exact Hw | split; [apply prims_refl | intros i o Hi _; exact Hi]].
Qed.

Lemma ST_repay_loan c s id : WF s -> ST c s (sof (repay_loan c s id)).
Proof.
  intros Hw. apply ST_same_orders.
  destruct (rpf_repay_loan c s s id) as [_ [Fo _]]; [|exact Fo].
  split; [exact Hw | split; [apply prims_refl | intros i o Hi _; exact Hi]].
Qed.

Lemma ST_list_open c s p : ST c s (fst (list_open s p)).
Proof.
  apply ST_same_orders. unfold list_open, bump_reindex, finish_reindex.
  match goal with |- context [if ?f then _ else _] => destruct f end; reflexivity.
Qed.

(* accepting an order: the orders that were there keep their fills, the new one has none *)
Lemma ST_create_order c s k op p amount ab ar :
  WF s -> ST c s (sof (create_order c s k op p amount ab ar)).
Proof.
  intros Hw. unfold create_order.
  destruct (get_pair_info c p) as [pi0|] eqn:Epi0; cbn [lift obind sof]; [|apply ST_same_orders; reflexivity].
  destruct (validate pi0 k amount) as [[]|] eqn:Eva; cbn [lift obind sof]; [|apply ST_same_orders; reflexivity].
  unfold add_order.
  match goal with |- context [estimate_required c s ?o] => destruct (estimate_required c s o) as [req|e] end;
    cbn [lift obind sof]; [|apply ST_same_orders; reflexivity].
  (* borrowing and reserving keep the orders *)
  match goal with |- ST c s (sof (obind ?r _)) =>
    assert (Eo : s_orders (sof r) = s_orders s);
    [|destruct r as [sx lids|sx ex]; cbn [obind sof] in *] end.
  - destruct (vnonempty req); [|reflexivity]. cbn [o_ab].
    assert (E1 : s_orders (sof (if ab then borrow_loop c s (shorts_of (s_acct s) req) [] else Done s [])) = s_orders s).
    { destruct ab; [|reflexivity].
      destruct (rpf_borrow_loop c s (shorts_of (s_acct s) req) s []) as [_ [Fo _]]; [|exact Fo].
      split; [exact Hw | split; [apply prims_refl | intros i o Hi _; exact Hi]]. }
    destruct (if ab then borrow_loop c s (shorts_of (s_acct s) req) [] else Done s []) as [s1 l1|s1 e1];
      cbn [obind sof] in *; [|exact E1].
    unfold upd_acct. destruct (acct_update _ _ _ _ _); cbn [obind sof]; exact E1.
  - (* accepted: one more order, without fills *)
    match goal with |- ST c s ?fs =>
      assert (Ef : exists o', s_orders fs = s_orders s ++ [o'] /\ fresh o' /\ accepted c o') end.
    { eexists. split; [|split].
      - unfold push_update. cbn [set_open_idx set_orders s_now]. destruct (s_now sx); cbn [add_event set_open_idx set_orders s_orders];
          rewrite Eo; reflexivity.
      - repeat split; reflexivity.
      - exists pi0. cbn [o_pair o_kind o_amount]. split; [exact Epi0 | exact Eva]. }
    destruct Ef as (o' & Ef & Efl & Eacc). split.
    + intros i o0 H0. rewrite Ef. exists o0. split; [|apply grew_refl].
      rewrite nth_error_app1; [exact H0 | apply nth_error_Some; rewrite H0; discriminate].
    + intros i o Hi Hle. rewrite Ef, nth_error_snoc in Hi. destruct (Nat.eqb i (length (s_orders s))) eqn:E.
      * inversion Hi; subst. split; [exact Efl | exact Eacc].
      * apply Nat.eqb_neq in E. assert (i < length (s_orders s))%nat by (apply nth_error_Some; rewrite Hi; discriminate). lia.
  - apply ST_same_orders. exact Eo.
Qed.

Theorem step_ST c s o :
  cfg_ok c -> op_ok o -> WF s ->
  (forall p w b, o = OBar p w b ->
     forall pr pi bq qq fq, get_pair_info c pr = Ok pi -> on_grid (fst pi) bq -> on_grid (snd pi) qq ->
                            on_grid (snd pi) fq -> P pr (mkFill w bq qq fq)) ->
  (forall p w b, o = OBar p w b -> forall l x, OW x -> liq_ok l -> is_open x = true -> fill_keeps J c l x b w) ->
  ST c s (fst (step c s o)).
Proof.
  intros Hc Ho Hw Hp HJ. destruct o; cbn [step op_ok] in *.
  - pose proof (ST_on_bar c s p when b (Hp p when b eq_refl) (HJ p when b eq_refl) Hc Ho Hw) as X.
    destruct (on_bar c s p when b); exact X.
  - pose proof (ST_create_order c s k o p amount ab ar Hw) as X. destruct (create_order _ _ _ _ _ _ _ _); exact X.
  - pose proof (ST_cancel c s id Hw) as X. destruct (cancel_order c s id); exact X.
  - pose proof (ST_create_loan c s x amount Hw) as X. destruct (create_loan c s x amount); exact X.
  - pose proof (ST_repay_loan c s id Hw) as X. destruct (repay_loan c s id); exact X.
  - pose proof (ST_list_open c s p) as X. destruct (list_open s p). exact X.
Qed.
End History.


(* C03 (exchange side): the orders accepted during [ops] are only ever filled by the bars of [ops]; if all of those are
   dated later than T, so is every fill of every such order *)
Lemma fills_later_gen c ops T n0 : forall s,
  cfg_ok c -> ops_ok ops -> WF s ->
  (forall p w b, In (OBar p w b) ops -> (T < w)%Z) ->
  (forall i o, nth_error (s_orders s) i = Some o -> (n0 <= i)%nat -> Forall (fun f => (T < f_when f)%Z) (o_fills o)) ->
  forall i o, nth_error (s_orders (run c s ops)) i = Some o -> (n0 <= i)%nat ->
              Forall (fun f => (T < f_when f)%Z) (o_fills o).
Proof.
  unfold run. induction ops as [|op r IH]; intros s Hc Ho Hw Hbars Hinv; cbn [fold_left]; [exact Hinv|].
  inversion Ho as [|? ? Ho1 Hor]; subst.
  assert (S1 : ST (fun _ f => (T < f_when f)%Z) (fun _ => True) c s (fst (step c s op))).
  { apply step_ST; try assumption; auto.
    - intros p w b -> pr pi bq qq fq _ _ _ _. cbn [f_when]. apply (Hbars p w b). left; reflexivity.
    - intros p w b _ l x _ _ _ hit pi bv0 qv0 bv qv fee _ _ _ _ _. exact I. }
  apply (IH (fst (step c s op)) Hc Hor (proj1 (step_prims c s op Hc Ho1 Hw))
            (fun p w b Hin => Hbars p w b (or_intror Hin))).
  intros i o Hi Hn. destruct S1 as [S1a S1b].
  destruct (nth_error (s_orders s) i) as [o0|] eqn:E0.
  - destruct (S1a i o0 E0) as (o1 & E1 & _ & (fs & Ef & Hp & _) & _). rewrite E1 in Hi. inversion Hi; subst o1.
    rewrite Ef. apply Forall_app. split; [apply (Hinv i o0 E0 Hn) | exact Hp].
  - apply nth_error_None in E0. destruct (S1b i o Hi E0) as [[Efl _] _]. rewrite Efl. constructor.
Qed.

Theorem fills_only_from_later_bars c s ops T i o :
  cfg_ok c -> ops_ok ops -> WF s ->
  (forall p w b, In (OBar p w b) ops -> (T < w)%Z) ->
  nth_error (s_orders (run c s ops)) i = Some o -> (length (s_orders s) <= i)%nat ->
  Forall (fun f => (T < f_when f)%Z) (o_fills o).
Proof.
  intros Hc Ho Hw Hb Hi Hn. apply (fills_later_gen c ops T (length (s_orders s)) s Hc Ho Hw Hb) with (i := i); try assumption.
  intros j x Hj Hle. assert (j < length (s_orders s))%nat by (apply nth_error_Some; rewrite Hj; discriminate). lia.
Qed.

Theorem fills_only_from_later_bars_reachable c initial ops1 ops2 T i o :
  cfg_ok c -> ops_ok ops1 -> ops_ok ops2 ->
  (forall p w b, In (OBar p w b) ops2 -> (T < w)%Z) ->
  let s1 := run c (init_st initial) ops1 in
  nth_error (s_orders (run c s1 ops2)) i = Some o -> (length (s_orders s1) <= i)%nat ->
  Forall (fun f => (T < f_when f)%Z) (o_fills o).
Proof.
  intros Hc H1 H2 Hb s1 Hi Hn.
  apply (fills_only_from_later_bars c s1 ops2 T i o Hc H2); try assumption.
  apply (run_prims c ops1 (init_st initial) Hc H1 (WF_init initial)).
Qed.
