(* C05: the open-order index.  ExchangeObjectContainer keeps a lazily pruned list of the ids of open orders and rebuilds
   it on every 50th traversal.  Over any operation sequence: the index has no duplicates, only contains ids of existing
   orders, and contains the id of every open order -- so that the listing of open orders (optionally of one pair) is exact,
   however long the history and wherever the re-indexing falls. *)
From Coq Require Import ZArith QArith Qround Lia Lqa List Bool PArith.
From Basana Require Import Num.DecQ Num.DecQProofs Exchange.Model Exchange.AcctProofs Exchange.StepProofs
  Exchange.OpProofs Exchange.OrderProofs Exchange.LifeProofs Exchange.Prims Exchange.FillBounds Exchange.Structure.
Import ListNotations.
Open Scope Q_scope.

(* ---------------------------------------------------------------------------------------------- *)
(* nothing below the level of add_order / on_bar / list_open touches the index *)
Section Frame.
Variable I : list nat.
Variable N : nat.
Variable L : nat.
Definition K (s : st) : Prop := s_open_idx s = I /\ s_reidx s = N /\ length (s_orders s) = L.
Definition kp {A} (r : outcome A) : Prop := K (sof r).

Lemma kp_obind A B (r : outcome A) (f : st -> A -> outcome B) :
  kp r -> (forall s a, K s -> kp (f s a)) -> kp (obind r f).
Proof. destruct r as [s a|s e]; unfold kp; cbn [obind sof]; intros H Hf; [apply Hf; exact H | exact H]. Qed.

Lemma kp_lift A s (r : res A) : K s -> kp (lift s r).
Proof. destruct r; unfold kp; cbn [lift sof]; auto. Qed.

Lemma kp_upd c s db dh dbo : K s -> kp (upd_acct c s db dh dbo).
Proof. intros H. unfold upd_acct. destruct (acct_update _ _ _ _ _); unfold kp; cbn [sof]; exact H. Qed.

Ltac K_setter :=
  match goal with
  | H : K ?s |- K _ => unfold K, put_order in *; cbn; rewrite ?length_replace_nth; exact H
  end.

Ltac kp_step :=
  match goal with
  | |- kp (obind _ _) => apply kp_obind; [| intros ? ? ?]
  | |- kp (lift _ _) => apply kp_lift
  | |- kp (upd_acct _ _ _ _ _) => apply kp_upd
  | |- kp (Done _ _) => unfold kp; cbn [sof]
  | |- kp (Fail _ _) => unfold kp; cbn [sof]
  | |- kp (if ?b then _ else _) => destruct b
  | |- kp (match ?x with _ => _ end) => destruct x
  | |- kp (let '(_, _) := ?x in _) => destruct x
  | |- K _ => first [assumption | K_setter]
  end.
Ltac kp_auto := repeat kp_step.

Lemma kp_create_loan c s x a : K s -> kp (create_loan c s x a).
Proof. intros H. unfold create_loan. kp_auto. Qed.
Lemma kp_repay_loan c s id : K s -> kp (repay_loan c s id).
Proof. intros H. unfold repay_loan. kp_auto. Qed.
Lemma kp_cancel_loan c s id : K s -> kp (cancel_loan c s id).
Proof. intros H. unfold cancel_loan. kp_auto. Qed.

Lemma kp_rollback c ids : forall s, K s -> kp (rollback_loans c s ids).
Proof.
  induction ids as [|id r IH]; intros s H; cbn [rollback_loans]; [kp_auto|].
  apply kp_obind; [apply kp_cancel_loan; exact H | intros s' _ H'; apply IH; exact H'].
Qed.

Lemma kp_borrow_loop c shorts : forall s created, K s -> kp (borrow_loop c s shorts created).
Proof.
  induction shorts as [|[x a] r IH]; intros s created H; cbn [borrow_loop]; [kp_auto|].
  pose proof (kp_create_loan c s x a H) as Hc.
  destruct (create_loan c s x a) as [s' id|s' e]; unfold kp in Hc; cbn [sof] in Hc; [apply IH; exact Hc|].
  pose proof (kp_rollback c created s' Hc) as Hr.
  destruct (rollback_loans c s' created) as [s'' u|s'' e']; unfold kp in *; cbn [sof] in *; exact Hr.
Qed.

Lemma kp_update_balances c s o bu : K s -> kp (update_balances c s o bu).
Proof. intros H. unfold update_balances. kp_auto. Qed.

Lemma kp_repay_each c ids : forall s done, K s -> kp (repay_each c s ids done).
Proof.
  induction ids as [|id r IH]; intros s done H; cbn [repay_each]; [kp_auto|].
  pose proof (kp_repay_loan c s id H) as Hc.
  destruct (repay_loan c s id) as [s' u|s' e]; unfold kp in Hc; cbn [sof] in Hc; [apply IH; exact Hc|].
  destruct e; try (unfold kp; cbn [sof]; exact Hc). apply IH. exact Hc.
Qed.

Lemma kp_repay_loans c s o : K s -> kp (repay_loans c s o).
Proof.
  intros H. unfold repay_loans. apply kp_obind; [kp_auto|]. intros s1 u H1.
  apply kp_obind; [apply kp_repay_each; exact H1|]. intros s2 ids H2. kp_auto.
Qed.

Lemma kp_order_closed c s o : K s -> kp (order_closed c s o).
Proof.
  intros H. unfold order_closed. apply kp_obind; [apply kp_update_balances; exact H|].
  intros s1 u H1. destruct (o_ar o && negb (Qzero (filled o))); [apply kp_repay_loans; exact H1 | kp_auto].
Qed.

Lemma K_push_update s o w : K s -> K (push_update s o w).
Proof. intros H. unfold push_update. destruct w; [K_setter|]. destruct (s_now s); [K_setter | exact H]. Qed.

Lemma kp_cancel_order c s id : K s -> kp (cancel_order c s id).
Proof.
  intros H. unfold cancel_order. destruct (get_order s id) as [o|]; [|kp_auto].
  destruct (negb (is_open o)); [kp_auto|].
  apply kp_obind; [apply kp_lift; exact H|]. intros s0 u0 H0.
  apply kp_obind; [apply kp_order_closed; K_setter|].
  intros s1 o2 H1. unfold kp. cbn [sof]. apply K_push_update. exact H1.
Qed.

Lemma kp_order_not_filled c s o when : K s -> kp (order_not_filled c s o when).
Proof.
  intros H. unfold order_not_filled.
  destruct (o_kind o); try (kp_auto; fail);
    (destruct (negb (is_open o)); [kp_auto|];
     apply kp_obind; [apply kp_order_closed; K_setter |
                      intros s1 o2 H1; unfold kp; cbn [sof]; apply K_push_update; exact H1]).
Qed.

Lemma kp_process_order c s l o p when b : K s -> kp (process_order c s l o p when b).
Proof.
  intros H. unfold process_order.
  apply kp_obind; [kp_auto|]. intros s1 [u hit] H1.
  apply kp_obind; [apply kp_lift; K_setter|]. intros s2 pi H2.
  destruct (match u with Some (bv, qv) => round_bu pi (Some bv) (Some qv) | None => (None, None) end) as [rb rq].
  destruct rb as [bv|]; [destruct rq as [qv|]|];
    try (apply kp_obind; [apply kp_order_not_filled; exact H2 | intros; kp_auto]).
  apply kp_obind; [kp_auto|]. intros s3 fee H3.
  match goal with |- kp (match update_balances ?c ?s ?o ?f with _ => _ end) =>
    pose proof (kp_update_balances c s o f H3) as Hu; destruct (update_balances c s o f) as [s4 u4|s4 e4] end;
    unfold kp in Hu; cbn [sof] in Hu.
  - apply kp_obind; [kp_auto|]. intros s5 l' H5.
    apply kp_obind.
    + match goal with |- kp (if ?b then _ else _) => destruct b end;
        [kp_auto | apply kp_order_closed; K_setter].
    + intros s6 o2 H6. unfold kp. cbn [sof]. apply K_push_update. exact H6.
  - destruct e4; try (unfold kp; cbn [sof]; exact Hu).
    apply kp_obind; [apply kp_order_not_filled; exact Hu | intros; kp_auto].
Qed.

Lemma kp_process_all c ids p when b : forall s l, K s -> kp (process_all c s l ids p when b).
Proof.
  induction ids as [|id r IH]; intros s l H; cbn [process_all]; [kp_auto|].
  destruct (get_order s id) as [o|]; [|apply IH; exact H].
  destruct (is_open o && pair_eqb (o_pair o) p); [|apply IH; exact H].
  apply kp_obind; [apply kp_process_order; exact H | intros s' l' H'; apply IH; exact H'].
Qed.
End Frame.

(* ---------------------------------------------------------------------------------------------- *)
Definition IdxInv (s : st) : Prop :=
  (forall id o, get_order s id = Some o -> is_open o = true -> In id (s_open_idx s)) /\
  NoDup (s_open_idx s) /\
  (forall id, In id (s_open_idx s) -> (id < length (s_orders s))%nat).

Lemma open_back s s' id o' :
  frozen s s' -> nth_error (s_orders s') id = Some o' -> is_open o' = true -> (id < length (s_orders s))%nat ->
  exists o, nth_error (s_orders s) id = Some o /\ is_open o = true.
Proof.
  intros Hf Hn Ho Hl. destruct (nth_error (s_orders s) id) as [o|] eqn:E; [|apply nth_error_None in E; lia].
  exists o. split; [reflexivity|]. destruct (is_open o) eqn:Eo; [reflexivity|].
  specialize (Hf id o E Eo). congruence.
Qed.

(* a change that keeps the index and the number of orders, and never reopens an order *)
Lemma IdxInv_keep s s' :
  IdxInv s -> frozen s s' -> s_open_idx s' = s_open_idx s -> length (s_orders s') = length (s_orders s) -> IdxInv s'.
Proof.
  intros (Ha & Hn & Hb) Hf Ei El. unfold IdxInv. rewrite Ei, El. split; [|split; assumption].
  intros id o' Hg Ho. unfold get_order in *.
  assert (Hl : (id < length (s_orders s))%nat) by (rewrite <- El; apply nth_error_Some; rewrite Hg; discriminate).
  destruct (open_back s s' id o' Hf Hg Ho Hl) as (o & Hgo & Hoo). apply (Ha id o Hgo Hoo).
Qed.

Lemma NoDup_filter {A} (p : A -> bool) l : NoDup l -> NoDup (filter p l).
Proof.
  induction l as [|a r IH]; cbn [filter]; intros H; [constructor|]. inversion H as [|? ? Hn Hr]; subst.
  destruct (p a); [constructor; [intros Hin; apply Hn; apply filter_In in Hin; apply Hin | apply IH; exact Hr] | apply IH; exact Hr].
Qed.

(* re-indexing: keeping the ids that are still open, out of a list that had all of them *)
Lemma IdxInv_reindex s s' n ys :
  IdxInv s -> frozen s s' -> s_open_idx s' = s_open_idx s -> length (s_orders s') = length (s_orders s) ->
  (forall id, In id (s_open_idx s) -> still_open s id = true -> In id ys) -> NoDup ys ->
  (forall id, In id ys -> In id (s_open_idx s)) ->
  IdxInv (set_open_idx s' (filter (still_open s') ys) n).
Proof.
  intros (Ha & Hn & Hb) Hf Ei El Hys Hnd Hsub. unfold IdxInv. cbn [set_open_idx s_open_idx s_orders]. split; [|split].
  - intros id o' Hg Ho. unfold get_order in Hg. cbn [set_open_idx s_orders] in Hg.
    assert (Hl : (id < length (s_orders s))%nat) by (rewrite <- El; apply nth_error_Some; rewrite Hg; discriminate).
    destruct (open_back s s' id o' Hf Hg Ho Hl) as (o & Hgo & Hoo).
    apply filter_In. split.
    + apply Hys; [apply (Ha id o Hgo Hoo) | unfold still_open, get_order; rewrite Hgo; exact Hoo].
    + unfold still_open, get_order. rewrite Hg. exact Ho.
  - apply NoDup_filter. exact Hnd.
  - intros id Hin. apply filter_In in Hin. destruct Hin as [Hin _]. rewrite El. apply Hb. apply Hsub. exact Hin.
Qed.

Lemma R_of_WF c s : WF s -> R c s s.
Proof. intros Hw. split; [exact Hw | split; [apply prims_refl | intros i x Hi _; exact Hi]]. Qed.

Lemma K_refl s : K (s_open_idx s) (s_reidx s) (length (s_orders s)) s.
Proof. repeat split. Qed.

(* bars *)
Lemma IdxInv_on_bar c s p when b :
  cfg_ok c -> 0 <= b_volume b -> WF s -> IdxInv s -> IdxInv (sof (on_bar c s p when b)).
Proof.
  intros Hc Hv Hw Hi. unfold on_bar, bump_reindex.
  set (s1 := set_open_idx (set_close_now s (set_pair (s_close s) p (b_close b)) (Some when))
                          (s_open_idx (set_close_now s (set_pair (s_close s) p (b_close b)) (Some when)))
                          (S (s_reidx (set_close_now s (set_pair (s_close s) p (b_close b)) (Some when))))).
  assert (W1 : WF s1) by exact Hw.
  assert (I1 : IdxInv s1) by exact Hi.
  match goal with |- IdxInv (sof (obind (process_all c s1 ?l0 ?ids p when b) _)) =>
    assert (L0 : liq_ok l0);
    [|pose proof (rp_process_all c s1 ids p when b s1 l0 (R_of_WF c s1 W1) L0) as [(W2 & _ & F2) _];
      pose proof (kp_process_all _ _ _ c ids p when b s1 l0 (K_refl s1)) as K2;
      destruct (process_all c s1 l0 ids p when b) as [s2 l2|s2 e2]] end.
  { unfold cfg_ok in Hc. destruct (c_liq c) as [|lp ip]; [exact I|]. cbn [liq_ok].
    split; [lra|]. apply Qmult_le_0_compat; [exact Hv|]. apply Qle_shift_div_l; lra. }
  - cbn [obind sof] in *. destruct K2 as (Ki & _ & Kl). unfold finish_reindex.
    match goal with |- IdxInv (if ?f then _ else _) => destruct f end.
    + apply (IdxInv_reindex s1 s2); try assumption.
      * intros id Hin Hso. apply filter_In. split; assumption.
      * apply NoDup_filter. apply I1.
      * intros id Hin. apply filter_In in Hin. apply Hin.
    + apply (IdxInv_keep s1 s2); assumption.
  - cbn [obind sof] in *. destruct K2 as (Ki & _ & Kl). apply (IdxInv_keep s1 s2); assumption.
Qed.

(* listings *)
Lemma IdxInv_list_open s p : IdxInv s -> IdxInv (fst (list_open s p)).
Proof.
  intros Hi. unfold list_open, bump_reindex, finish_reindex.
  set (s1 := set_open_idx s (s_open_idx s) (S (s_reidx s))).
  assert (I1 : IdxInv s1) by exact Hi.
  match goal with |- context [if ?f then _ else _] => destruct f end; cbn [fst]; [|exact I1].
  apply (IdxInv_reindex s1 s1); try reflexivity; try assumption.
  - intros i x Hx _. exact Hx.
  - intros id Hin Hso. apply filter_In. split; assumption.
  - apply NoDup_filter. apply I1.
  - intros id Hin. apply filter_In in Hin. apply Hin.
Qed.

(* cancellations and loan operations keep the index and the number of orders *)
Lemma IdxInv_cancel c s id : WF s -> IdxInv s -> IdxInv (sof (cancel_order c s id)).
Proof.
  intros Hw Hi.
  destruct (rp_cancel_order c s s id (R_of_WF c s Hw)) as (_ & _ & F).
  destruct (kp_cancel_order _ _ _ c s id (K_refl s)) as (Ki & _ & Kl).
  apply (IdxInv_keep s); assumption.
Qed.

Lemma IdxInv_create_loan c s x a : WF s -> IdxInv s -> IdxInv (sof (create_loan c s x a)).
Proof.
  intros Hw Hi. destruct (rpf_create_loan c s s x a (R_of_WF c s Hw)) as [(_ & _ & F) _].
  destruct (kp_create_loan _ _ _ c s x a (K_refl s)) as (Ki & _ & Kl). apply (IdxInv_keep s); assumption.
Qed.

Lemma IdxInv_repay_loan c s id : WF s -> IdxInv s -> IdxInv (sof (repay_loan c s id)).
Proof.
  intros Hw Hi. destruct (rpf_repay_loan c s s id (R_of_WF c s Hw)) as [(_ & _ & F) _].
  destruct (kp_repay_loan _ _ _ c s id (K_refl s)) as (Ki & _ & Kl). apply (IdxInv_keep s); assumption.
Qed.

Lemma NoDup_snoc_nat (l : list nat) x : NoDup l -> ~ In x l -> NoDup (l ++ [x]).
Proof.
  induction l as [|y r IH]; cbn [app]; intros H Hn; [constructor; [intros [] | constructor]|].
  inversion H as [|? ? Hy Hr]; subst. constructor.
  - intros Hin. apply in_app_or in Hin. destruct Hin as [Hin|[->|[]]]; [exact (Hy Hin) | apply Hn; left; reflexivity].
  - apply IH; [exact Hr | intros Hin; apply Hn; right; exact Hin].
Qed.

(* accepting an order appends its id to the index *)
Lemma IdxInv_add_order c s o :
  WF s -> IdxInv s -> o_id o = length (s_orders s) -> IdxInv (sof (add_order c s o)).
Proof.
  intros Hw Hi Hid. unfold add_order.
  destruct (estimate_required c s o) as [req|e]; cbn [lift obind sof]; [|exact Hi].
  (* the state after the (possible) borrowing and reservation keeps index and orders *)
  assert (Pre : forall r : outcome (list nat),
            r = obind (if vnonempty req then
                         obind (if o_ab o then borrow_loop c s (shorts_of (s_acct s) req) [] else Done s [])
                           (fun s lids => obind (upd_acct c s [] req []) (fun s _ =>
                              Done (set_holds s (holds_set (s_holds s) (o_id o) req)) lids))
                       else Done s []) (fun s lids => Done s lids) ->
            K (s_open_idx s) (s_reidx s) (length (s_orders s)) (sof r) /\ s_orders (sof r) = s_orders s).
  { intros r ->. destruct (vnonempty req); [|cbn [obind sof]; split; [apply K_refl | reflexivity]].
    assert (B : K (s_open_idx s) (s_reidx s) (length (s_orders s))
                  (sof (if o_ab o then borrow_loop c s (shorts_of (s_acct s) req) [] else Done s [])) /\
                s_orders (sof (if o_ab o then borrow_loop c s (shorts_of (s_acct s) req) [] else Done s [])) = s_orders s).
    { destruct (o_ab o); [|cbn [sof]; split; [apply K_refl | reflexivity]].
      split; [apply kp_borrow_loop; apply K_refl|].
      destruct (rpf_borrow_loop c s (shorts_of (s_acct s) req) s [] (R_of_WF c s Hw)) as [_ [Fo _]]. exact Fo. }
    destruct (if o_ab o then borrow_loop c s (shorts_of (s_acct s) req) [] else Done s []) as [s1 lids|s1 e1];
      cbn [obind sof] in *; [|exact B].
    destruct B as [K1 O1]. unfold upd_acct. destruct (acct_update _ _ _ _ _) as [a'|e']; cbn [obind sof].
    - split; [unfold K in *; cbn; exact K1 | cbn; exact O1].
    - split; assumption. }
  match goal with |- IdxInv (sof (obind ?r _)) =>
    destruct (Pre (obind r (fun s lids => Done s lids))) as [Kx Ox];
      [destruct r; reflexivity|]; destruct r as [sx lids|sx ex] end; cbn [obind sof] in *.
  - (* accepted *)
    destruct Kx as (Ki & Kr & Kl). destruct Hi as (Ha & Hn & Hb).
    match goal with |- IdxInv ?fs => set (fs' := fs) end.
    set (o' := mkOrder (o_id o) (o_kind o) (o_op o) (o_pair o) (o_amount o) (o_state o) (o_fb o) (o_fq o) (o_fee o)
                       (o_hit o) (o_ab o) (o_ar o) lids (o_fills o)).
    assert (Eo' : is_open o' = is_open o) by reflexivity.
    assert (Eidx : s_open_idx fs' = (if is_open o then s_open_idx s ++ [o_id o] else s_open_idx s)).
    { unfold fs', push_update. cbn [set_open_idx set_orders s_now]. destruct (s_now sx); cbn [add_event set_open_idx s_open_idx].
      all: fold o'; rewrite Eo'; change (s_open_idx (set_orders sx (s_orders sx ++ [o']))) with (s_open_idx sx);
        rewrite Ki; cbn [o' o_id]; reflexivity. }
    assert (Eord : s_orders fs' = s_orders s ++ [o']).
    { unfold fs', push_update. cbn [set_open_idx set_orders s_now]. destruct (s_now sx); cbn [add_event set_open_idx set_orders s_orders];
        rewrite Ox; reflexivity. }
    clearbody fs'.
    unfold IdxInv. rewrite Eidx, Eord. rewrite app_length. cbn [length]. split; [|split].
    + intros id x Hg Hx. unfold get_order in Hg. rewrite Eord, nth_error_snoc in Hg.
      destruct (Nat.eqb id (length (s_orders s))) eqn:E.
      * apply Nat.eqb_eq in E. inversion Hg; subst x. rewrite Eo' in Hx. rewrite Hx. apply in_or_app. right. left.
        rewrite Hid. symmetry. exact E.
      * assert (In id (s_open_idx s)) by (apply (Ha id x Hg Hx)). destruct (is_open o); [apply in_or_app; left|]; assumption.
    + destruct (is_open o); [|exact Hn]. apply NoDup_snoc_nat; [exact Hn|]. intros Hin. apply Hb in Hin. rewrite Hid in Hin. lia.
    + intros id Hin. destruct (is_open o); [apply in_app_or in Hin; destruct Hin as [Hin|[<-|[]]]|];
        [apply Hb in Hin; lia | rewrite Hid; lia | apply Hb in Hin; lia].
  - (* rejected *)
    destruct Kx as (Ki & _ & Kl). apply (IdxInv_keep s); try assumption.
    intros i x Hx _. rewrite Ox. exact Hx.
Qed.

Lemma IdxInv_create_order c s k op p amount ab ar :
  WF s -> IdxInv s -> IdxInv (sof (create_order c s k op p amount ab ar)).
Proof.
  intros Hw Hi. unfold create_order.
  destruct (get_pair_info c p); cbn [lift obind sof]; [|exact Hi].
  destruct (validate _ k amount); cbn [lift obind sof]; [|exact Hi].
  apply IdxInv_add_order; [exact Hw | exact Hi | reflexivity].
Qed.

Theorem step_IdxInv c s o : cfg_ok c -> op_ok o -> WF s -> IdxInv s -> IdxInv (fst (step c s o)).
Proof.
  intros Hc Ho Hw Hi. destruct o; cbn [step op_ok] in *.
  - pose proof (IdxInv_on_bar c s p when b Hc Ho Hw Hi) as X. destruct (on_bar c s p when b); exact X.
  - pose proof (IdxInv_create_order c s k o p amount ab ar Hw Hi) as X. destruct (create_order _ _ _ _ _ _ _ _); exact X.
  - pose proof (IdxInv_cancel c s id Hw Hi) as X. destruct (cancel_order c s id); exact X.
  - pose proof (IdxInv_create_loan c s x amount Hw Hi) as X. destruct (create_loan c s x amount); exact X.
  - pose proof (IdxInv_repay_loan c s id Hw Hi) as X. destruct (repay_loan c s id); exact X.
  - pose proof (IdxInv_list_open s p Hi) as X. destruct (list_open s p). exact X.
Qed.

Theorem run_IdxInv c ops : forall s, cfg_ok c -> ops_ok ops -> WF s -> IdxInv s -> IdxInv (run c s ops).
Proof.
  unfold run. induction ops as [|o r IH]; intros s Hc Ho Hw Hi; cbn [fold_left]; [exact Hi|].
  inversion Ho as [|? ? Ho1 Hor]; subst.
  apply IH; [exact Hc | exact Hor | apply (step_prims c s o Hc Ho1 Hw) | apply step_IdxInv; assumption].
Qed.

Lemma IdxInv_init initial : IdxInv (init_st initial).
Proof.
  unfold IdxInv, init_st, get_order. cbn. split; [intros [|id] o X; discriminate X | split; [constructor | intros id []]].
Qed.

(* C05: the listing of open orders is exact in every reachable state: an id is listed iff it is the id of an open order
   (of the requested pair), and no id is listed twice *)
Theorem listing_exact c initial ops p id :
  cfg_ok c -> ops_ok ops ->
  let s := run c (init_st initial) ops in
  (In id (snd (list_open s p)) <->
   exists o, get_order s id = Some o /\ is_open o = true /\
             match p with Some pp => pair_eqb (o_pair o) pp = true | None => True end) /\
  NoDup (snd (list_open s p)).
Proof.
  intros Hc Ho s.
  assert (Hi : IdxInv s) by (apply run_IdxInv; [exact Hc | exact Ho | apply WF_init | apply IdxInv_init]).
  destruct Hi as (Ha & Hn & _). rewrite list_open_spec. split.
  - split.
    + intros Hin. apply filter_In in Hin. destruct Hin as [Hin Hp]. apply filter_In in Hin. destruct Hin as [_ Hso].
      unfold still_open in Hso. destruct (get_order s id) as [o|] eqn:Eg; [|discriminate].
      exists o. split; [reflexivity|]. split; [exact Hso|]. destruct p; [exact Hp | exact I].
    + intros (o & Eg & Hop & Hp). apply filter_In. split.
      * apply filter_In. split; [apply (Ha id o Eg Hop) | unfold still_open; rewrite Eg; exact Hop].
      * rewrite Eg. destruct p; [exact Hp | reflexivity].
  - apply NoDup_filter. apply NoDup_filter. exact Hn.
Qed.
