(* C08, whole history: balances stay on the precision grid.  If the initial balances and the amounts of explicitly
   requested loans are multiples of their symbols' precisions, and no pair is configured with a finer precision than its
   symbols, then in every reachable state every balance, every amount on hold and every borrowed amount of every symbol
   that has a configured precision is a multiple of it -- no sub-precision dust, whatever happened before (rejected
   requests and operations that aborted half-way included: an account update is applied as a whole or not at all).
   Every account update goes through [upd_acct]; what it adds is: fill amounts (truncated / rounded to the pair's grid),
   fees (rounded up to the pair's quote grid), interest (truncated to the interest symbol's grid), principals of loans
   (requested amounts, or shortfalls computed from on-grid balances and reservations) and reservations (estimates rounded
   like fills, later reduced by fills or released). *)
From Coq Require Import ZArith QArith Qround Lia Lqa List Bool PArith.
From Basana Require Import Num.DecQ Num.DecQProofs Exchange.Model Exchange.AcctProofs Exchange.StepProofs
  Exchange.OpProofs Exchange.FeeProofs Exchange.OrderProofs Exchange.LifeProofs Exchange.Prims Exchange.FillBounds
  Exchange.Structure Exchange.LedgerProofs Exchange.CancelProofs Exchange.IndexProofs Exchange.FirstBar Exchange.HoldsOpen.
Import ListNotations.
Open Scope Q_scope.

(* a coarser grid is contained in a finer one *)
Lemma pow10_mul a b : pow10 (a + b) == pow10 a * pow10 b.
Proof.
  unfold pow10. rewrite Nat2Z.inj_add, Z.pow_add_r; [|apply Nat2Z.is_nonneg|apply Nat2Z.is_nonneg].
  rewrite inject_Z_mult. reflexivity.
Qed.

Lemma on_grid_mono p p' v : (p <= p')%nat -> on_grid p v -> on_grid p' v.
Proof.
  intros Hle [z Hz]. exists (z * 10 ^ Z.of_nat (p' - p))%Z.
  replace p' with (p + (p' - p))%nat at 2 by lia. rewrite pow10_mul. rewrite inject_Z_mult.
  pose proof (pow10_pos p) as H1. pose proof (pow10_pos (p' - p)) as H2.
  rewrite Hz. change (inject_Z (10 ^ Z.of_nat (p' - p))) with (pow10 (p' - p)).
  set (A := pow10 p) in *. set (B := pow10 (p' - p)) in *. field. split; lra.
Qed.

Section Grid.
Variable c : cfg.

Definition gridof (x : sym) (v : Q) : Prop := forall p, get_sym_prec c x = Ok p -> on_grid p v.

Lemma gridof_eq x a b : a == b -> gridof x a -> gridof x b.
Proof. intros E H p Hp. rewrite <- E. exact (H p Hp). Qed.
Lemma gridof_zero x : gridof x 0.
Proof. intros p _. apply on_grid_zero. Qed.
Lemma gridof_plus x a b : gridof x a -> gridof x b -> gridof x (a + b).
Proof. intros Ha Hb p Hp. apply on_grid_plus; [exact (Ha p Hp) | exact (Hb p Hp)]. Qed.
Lemma gridof_opp x a : gridof x a -> gridof x (- a).
Proof. intros Ha p Hp. apply on_grid_opp. exact (Ha p Hp). Qed.
Lemma gridof_red x a : gridof x a -> gridof x (Qred a).
Proof. apply gridof_eq. symmetry. apply Qred_correct. Qed.
Lemma gridof_max x a b : gridof x a -> gridof x b -> gridof x (Qmaxq a b).
Proof. intros Ha Hb. unfold Qmaxq. destruct (Qle_bool a b); assumption. Qed.

(* entry-wise: every value of the list is on the grid of its key *)
Definition eG (m : vmap) : Prop := forall kv, In kv m -> gridof (fst kv) (snd kv).

Lemma eG_nil : eG [].
Proof. intros kv []. Qed.
Lemma eG_cons x v m : gridof x v -> eG m -> eG ((x, v) :: m).
Proof. intros Hv Hm kv [<-|Hin]; [exact Hv | exact (Hm kv Hin)]. Qed.
Lemma eG_single x v : gridof x v -> eG [(x, v)].
Proof. intros H. apply eG_cons; [exact H | apply eG_nil]. Qed.
Lemma eG_app a b : eG a -> eG b -> eG (a ++ b).
Proof. intros Ha Hb kv Hin. apply in_app_or in Hin. destruct Hin; [apply Ha | apply Hb]; assumption. Qed.
Lemma eG_vneg m : eG m -> eG (vneg m).
Proof.
  intros H kv Hin. unfold vneg in Hin. apply in_map_iff in Hin. destruct Hin as ([k v] & <- & Hin). cbn [fst snd].
  apply gridof_opp. exact (H (k, v) Hin).
Qed.

Lemma eG_vget m x : eG m -> gridof x (vget m x).
Proof.
  induction m as [|[k v] r IH]; intros H; cbn [vget]; [apply gridof_zero|].
  destruct (Pos.eqb k x) eqn:E.
  - apply Pos.eqb_eq in E. subst k. exact (H (x, v) (or_introl eq_refl)).
  - apply IH. intros kv Hin. apply H. right. exact Hin.
Qed.

Lemma eG_vsum m x : eG m -> gridof x (vsum m x).
Proof.
  induction m as [|[k v] r IH]; intros H; cbn [vsum]; [apply gridof_zero|].
  assert (Hr : eG r) by (intros kv Hin; apply H; right; exact Hin).
  destruct (Pos.eqb k x) eqn:E.
  - apply Pos.eqb_eq in E. subst k. apply gridof_plus; [exact (H (x, v) (or_introl eq_refl)) | exact (IH Hr)].
  - apply gridof_plus; [apply gridof_zero | exact (IH Hr)].
Qed.

Lemma eG_vset m x v : eG m -> gridof x v -> eG (vset m x v).
Proof.
  induction m as [|[k w] r IH]; intros H Hv; cbn [vset]; [apply eG_single; exact Hv|].
  assert (Hr : eG r) by (intros kv Hin; apply H; right; exact Hin).
  destruct (Pos.eqb k x) eqn:E.
  - apply Pos.eqb_eq in E. subst k. apply eG_cons; [exact Hv | exact Hr].
  - apply eG_cons; [exact (H (k, w) (or_introl eq_refl)) | exact (IH Hr Hv)].
Qed.

Lemma eG_vaddk m x d : eG m -> gridof x d -> eG (vaddk m x d).
Proof.
  intros H Hd. unfold vaddk. apply eG_vset; [exact H|]. apply gridof_red. apply gridof_plus; [apply eG_vget; exact H | exact Hd].
Qed.

Lemma eG_vadd a b : eG a -> eG b -> eG (vadd a b).
Proof.
  revert a. unfold vadd. induction b as [|[k v] r IH]; intros a Ha Hb; cbn [fold_left]; [exact Ha|].
  apply IH; [|intros kv Hin; apply Hb; right; exact Hin].
  apply eG_vaddk; [exact Ha | exact (Hb (k, v) (or_introl eq_refl))].
Qed.

(* value-wise, for the maps of the account *)
Definition mG (m : vmap) : Prop := forall x, gridof x (vget m x).

Lemma mG_vadd m d : mG m -> eG d -> mG (vadd m d).
Proof.
  intros Hm Hd x. apply (gridof_eq x (vget m x + vsum d x)); [symmetry; apply vget_vadd|].
  apply gridof_plus; [apply Hm | apply eG_vsum; exact Hd].
Qed.

Definition BG (a : acct) : Prop := mG (bal a) /\ mG (hold a) /\ mG (bor a).

Lemma BG_update extra a db dh dbo a' :
  acct_update extra a db dh dbo = Ok a' -> BG a -> eG db -> eG dh -> eG dbo -> BG a'.
Proof.
  unfold acct_update. intros H (Hb & Hh & Hbo) Gb Gh Gbo.
  destruct (nonzero_rule _); [discriminate H|]. destruct (validhold_rule _); [discriminate H|].
  destruct (extra _ _); [discriminate H|]. inversion H; subst a'. cbn [BG bal hold bor].
  split; [|split]; apply mG_vadd; assumption.
Qed.

(* the state: the account, the principals of the loans, the reservations *)
Definition GI (s : st) : Prop :=
  BG (s_acct s) /\
  (forall l, In l (s_loans s) -> gridof (l_sym l) (l_amount l)) /\
  (forall k m, In (k, m) (s_holds s) -> eG m).

Lemma GI_orders s os : GI s -> GI (set_orders s os).
Proof. intros H. exact H. Qed.
Lemma GI_put s o : GI s -> GI (put_order s o).
Proof. intros H. exact H. Qed.
Lemma GI_push s o w : GI s -> GI (push_update s o w).
Proof. intros H. unfold push_update. destruct w; [exact H|]. destruct (s_now s); exact H. Qed.

Lemma GI_upd s db dh dbo : GI s -> eG db -> eG dh -> eG dbo -> GI (sof (upd_acct c s db dh dbo)).
Proof.
  intros (Ha & Hl & Hr) Gb Gh Gbo. unfold upd_acct.
  destruct (acct_update (margin_rule c s) (s_acct s) db dh dbo) as [a'|e] eqn:E; cbn [sof]; [|split; [exact Ha | split; assumption]].
  split; [exact (BG_update _ _ _ _ _ _ E Ha Gb Gh Gbo) | split; assumption].
Qed.

Definition gp {A} (r : outcome A) : Prop := GI (sof r).

Lemma gp_obind A B (r : outcome A) (f : st -> A -> outcome B) :
  gp r -> (forall s a, r = Done s a -> GI s -> gp (f s a)) -> gp (obind r f).
Proof. destruct r as [s a|s e]; unfold gp; cbn [obind sof]; intros H Hf; [apply (Hf s a eq_refl H) | exact H]. Qed.

Lemma gp_lift A s (r : res A) : GI s -> gp (lift s r).
Proof. destruct r; unfold gp; cbn [lift sof]; auto. Qed.

(* interest is truncated to the grid of the symbol it is charged in *)
Lemma outstanding_grid s l i : outstanding c s l = Ok i -> gridof (interest_sym (l_cond l)) i.
Proof.
  unfold outstanding. destruct (now_of s); cbn [rbind]; [|discriminate].
  destruct (calc_interest _ _ _); cbn [rbind]; [|discriminate].
  destruct (get_sym_prec c (interest_sym (l_cond l))) as [p|] eqn:Ep; cbn [rbind]; [|discriminate].
  intros H; inversion H; subst i. intros p' Hp'. rewrite Ep in Hp'. inversion Hp'; subst p'. apply qtrunc_on_grid.
Qed.

Lemma In_replace_nth {A} (l : list A) n x y : In y (replace_nth l n x) -> y = x \/ In y l.
Proof.
  revert n. induction l as [|a r IH]; intros n H; cbn [replace_nth] in H; [destruct n; destruct H|].
  destruct n as [|n]; cbn [In] in H.
  - destruct H as [<-|H]; [left; reflexivity | right; right; exact H].
  - destruct H as [<-|H]; [right; left; reflexivity|]. destruct (IH n H) as [->|Hin]; [left; reflexivity | right; right; exact Hin].
Qed.

Lemma open_loan_in s id l : open_loan s id = Ok l -> In l (s_loans s).
Proof.
  unfold open_loan, get_loan. destruct (nth_error (s_loans s) id) as [x|] eqn:E; [|discriminate].
  destruct (l_open x); [|discriminate]. intros H; inversion H; subst. eapply nth_error_In; exact E.
Qed.

Lemma GI_put_loan s l0 paid : GI s -> In l0 (s_loans s) -> GI (put_loan s (close_loan l0 paid)).
Proof.
  intros (Ha & Hl & Hr) Hin. split; [exact Ha|]. split; [|exact Hr].
  intros l Hl2. unfold put_loan in Hl2. cbn [set_loans s_loans] in Hl2. apply In_replace_nth in Hl2.
  destruct Hl2 as [->|Hl2]; [cbn [close_loan l_sym l_amount]; exact (Hl l0 Hin) | exact (Hl l Hl2)].
Qed.

Lemma gp_create_loan s x a : GI s -> gridof x a -> gp (create_loan c s x a).
Proof.
  intros H Ga. unfold create_loan. destruct (Qle_bool a 0); [exact H|].
  destruct (now_of s) as [t|]; cbn [lift obind]; [|exact H].
  destruct (get_cond c x) as [k|]; cbn [lift obind]; [|exact H].
  destruct (outstanding c s _); cbn [lift obind]; [|exact H].
  pose proof (GI_upd s [(x, a)] [] [(x, a)] H (eG_single _ _ Ga) eG_nil (eG_single _ _ Ga)) as H1.
  destruct (upd_acct c s [(x, a)] [] [(x, a)]) as [s1 u|s1 e]; cbn [obind sof] in *; [|exact H1].
  unfold gp. cbn [sof]. destruct H1 as (A1 & L1 & R1). split; [exact A1|]. split; [|exact R1].
  intros l Hin. cbn [set_loans s_loans] in Hin. apply in_app_or in Hin. destruct Hin as [Hin|[<-|[]]]; [exact (L1 l Hin)|].
  cbn [l_sym l_amount]. exact Ga.
Qed.

Lemma gp_repay_loan s id : GI s -> gp (repay_loan c s id).
Proof.
  intros H. unfold repay_loan. destruct (open_loan s id) as [l|] eqn:El; cbn [lift obind]; [|exact H].
  pose proof (open_loan_in s id l El) as Hin.
  destruct (outstanding c s l) as [i|] eqn:Ei; cbn [lift obind]; [|exact H].
  pose proof (outstanding_grid s l i Ei) as Gi.
  assert (Gl : gridof (l_sym l) (l_amount l)) by (destruct H as (_ & Hl & _); exact (Hl l Hin)).
  match goal with |- gp (obind (upd_acct c s ?bu [] ?bo) _) =>
    assert (Gbu : eG bu); [|pose proof (GI_upd s bu [] bo H Gbu eG_nil (eG_single _ _ (gridof_opp _ _ Gl))) as H1;
                            destruct (upd_acct c s bu [] bo) as [s1 u|s1 e] eqn:Eu] end.
  { apply eG_vadd; [apply eG_single; apply gridof_opp; exact Gl|].
    destruct (Qzero i); [apply eG_nil | apply eG_single; apply gridof_opp; exact Gi]. }
  - cbn [obind sof] in *. unfold gp. cbn [sof]. apply GI_put_loan; [exact H1|].
    apply upd_acct_done in Eu. destruct Eu as (a' & _ & ->). exact Hin.
  - exact H1.
Qed.

Lemma gp_cancel_loan s id : GI s -> gp (cancel_loan c s id).
Proof.
  intros H. unfold cancel_loan. destruct (open_loan s id) as [l|] eqn:El; cbn [lift obind]; [|exact H].
  pose proof (open_loan_in s id l El) as Hin.
  destruct (now_of s) as [t|]; cbn [lift obind]; [|exact H].
  destruct (negb (Z.eqb (l_created l) t)); [exact H|].
  assert (Gl : gridof (l_sym l) (l_amount l)) by (destruct H as (_ & Hl & _); exact (Hl l Hin)).
  pose proof (GI_upd s [(l_sym l, - l_amount l)] [] [(l_sym l, - l_amount l)] H
                     (eG_single _ _ (gridof_opp _ _ Gl)) eG_nil (eG_single _ _ (gridof_opp _ _ Gl))) as H1.
  destruct (upd_acct c s _ [] _) as [s1 u|s1 e] eqn:Eu; cbn [obind sof] in *; [|exact H1].
  unfold gp. cbn [sof]. apply GI_put_loan; [exact H1|].
  apply upd_acct_done in Eu. destruct Eu as (a' & _ & ->). exact Hin.
Qed.

Lemma gp_rollback ids : forall s, GI s -> gp (rollback_loans c s ids).
Proof.
  induction ids as [|id r IH]; intros s H; cbn [rollback_loans]; [exact H|].
  apply gp_obind; [apply gp_cancel_loan; exact H | intros s' _ _ H'; apply IH; exact H'].
Qed.

Lemma gp_repay_each ids : forall s done, GI s -> gp (repay_each c s ids done).
Proof.
  induction ids as [|id r IH]; intros s done H; cbn [repay_each]; [exact H|].
  pose proof (gp_repay_loan s id H) as H1.
  destruct (repay_loan c s id) as [s1 u|s1 e]; unfold gp in H1; cbn [sof] in H1; [apply IH; exact H1|].
  destruct e; try exact H1. apply IH; exact H1.
Qed.

(* ---------------------------------------------------------------------------------------------- *)
(* borrowing what is short *)
Lemma eG_flat_map (f : sym * Q -> vmap) m : (forall kv, In kv m -> eG (f kv)) -> eG (flat_map f m).
Proof.
  intros H kv Hin. apply in_flat_map in Hin. destruct Hin as (x & Hx & Hkv). exact (H x Hx kv Hkv).
Qed.

Lemma eG_shorts a req : BG a -> eG req -> eG (shorts_of a req).
Proof.
  intros (Hb & Hh & _) Hr. unfold shorts_of. apply eG_flat_map. intros [k v] Hin. cbn [fst snd].
  destruct (Qltb _ 0); [|apply eG_nil]. apply eG_single. apply gridof_red. apply gridof_opp.
  unfold avail. apply gridof_plus; [apply gridof_plus; [apply Hb | apply gridof_opp; apply Hh] | apply gridof_opp; exact (Hr (k, v) Hin)].
Qed.

Lemma gp_borrow_loop shorts : forall s created, GI s -> eG shorts -> gp (borrow_loop c s shorts created).
Proof.
  induction shorts as [|[x a] r IH]; intros s created H Hs; cbn [borrow_loop]; [exact H|].
  pose proof (gp_create_loan s x a H (Hs (x, a) (or_introl eq_refl))) as H1.
  assert (Hr : eG r) by (intros kv Hin; apply Hs; right; exact Hin).
  destruct (create_loan c s x a) as [s1 id|s1 e]; unfold gp in H1; cbn [sof] in H1; [apply IH; assumption|].
  pose proof (gp_rollback created s1 H1) as H2.
  destruct (rollback_loans c s1 created) as [s2 u|s2 e2]; unfold gp in *; cbn [sof] in *; exact H2.
Qed.

(* ---------------------------------------------------------------------------------------------- *)
(* the account update of a fill or a release, with the reservation that goes with it *)
Lemma eG_holds_get h id : (forall k m, In (k, m) h -> eG m) -> eG (holds_get h id).
Proof.
  induction h as [|[k w] r IH]; intros H; cbn [holds_get]; [apply eG_nil|].
  destruct (Nat.eqb k id); [exact (H k w (or_introl eq_refl))|]. apply IH. intros k' m Hin. apply (H k' m). right. exact Hin.
Qed.

Lemma gp_update_balances s o bu : GI s -> eG bu -> gp (update_balances c s o bu).
Proof.
  intros H Gbu. unfold update_balances.
  set (oh := holds_get (s_holds s) (o_id o)).
  assert (Goh : eG oh) by (destruct H as (_ & _ & Hr); apply eG_holds_get; exact Hr).
  match goal with |- gp (obind (if _ then upd_acct c s bu ?hu0 [] else _) _) => set (hu := hu0); assert (Ghu : eG hu) end.
  { unfold hu. destruct (vnonempty oh); [|apply eG_nil]. destruct (is_open o); [|apply eG_vneg; exact Goh].
    apply eG_flat_map. intros [k v] Hin. cbn [fst snd].
    destruct (Qltb v 0 && existsb (Pos.eqb k) (vkeys oh)); [|apply eG_nil].
    apply eG_single. apply gridof_max; [exact (Gbu (k, v) Hin) | apply gridof_opp; apply eG_vget; exact Goh]. }
  assert (H1 : gp (if vnonempty bu || vnonempty hu then upd_acct c s bu hu [] else Done s tt)).
  { destruct (vnonempty bu || vnonempty hu); [apply GI_upd; try assumption; apply eG_nil | exact H]. }
  assert (Eh : forall s1 u, (if vnonempty bu || vnonempty hu then upd_acct c s bu hu [] else Done s tt) = Done s1 u ->
                            s_holds s1 = s_holds s).
  { intros s1 u E. destruct (vnonempty bu || vnonempty hu).
    - apply upd_acct_done in E. destruct E as (a' & _ & ->). reflexivity.
    - inversion E; reflexivity. }
  destruct (if vnonempty bu || vnonempty hu then upd_acct c s bu hu [] else Done s tt) as [s1 u1|s1 e1] eqn:E1;
    cbn [obind]; [|exact H1].
  unfold gp in H1. cbn [sof] in H1. specialize (Eh s1 u1 eq_refl). destruct H1 as (A1 & L1 & R1).
  destruct (vnonempty oh); [|exact (conj A1 (conj L1 R1))].
  destruct (is_open o); unfold gp; cbn [sof set_holds s_acct s_loans s_holds]; (split; [exact A1|]; split; [exact L1|]).
  - intros k m Hin. apply holds_set_in2 in Hin. destruct Hin as [->|Hin]; [|exact (R1 k m Hin)].
    apply eG_vadd; assumption.
  - intros k m Hin. apply holds_del_in in Hin. exact (R1 k m Hin).
Qed.

Lemma gp_repay_loans s o : GI s -> gp (repay_loans c s o).
Proof.
  intros H. unfold repay_loans. destruct (check_infos c s (s_loans s)); cbn [lift obind]; [|exact H].
  apply gp_obind; [apply gp_repay_each; exact H|]. intros s1 ids _ H1. exact H1.
Qed.

Lemma gp_order_closed s o : GI s -> gp (order_closed c s o).
Proof.
  intros H. unfold order_closed. apply gp_obind; [apply gp_update_balances; [exact H | apply eG_nil]|].
  intros s1 u _ H1. destruct (o_ar o && negb (Qzero (filled o))); [apply gp_repay_loans; exact H1 | exact H1].
Qed.

Lemma gp_close_as s o1 w :
  GI s -> gp (obind (order_closed c (put_order s o1) o1) (fun s o2 => Done (push_update s o2 w) tt)).
Proof.
  intros H. apply gp_obind; [apply gp_order_closed; exact H|]. intros s2 o2 _ H2. apply GI_push. exact H2.
Qed.

Lemma gp_cancel_order s id : GI s -> gp (cancel_order c s id).
Proof.
  intros H. unfold cancel_order. destruct (get_order s id) as [o|]; [|exact H].
  destruct (negb (is_open o)); [exact H|].
  destruct (if o_ar o && negb (Qzero (filled o)) then check_infos c s (s_loans s) else Ok tt); cbn [lift obind]; [|exact H].
  apply gp_close_as. exact H.
Qed.

Lemma gp_order_not_filled s o when : GI s -> gp (order_not_filled c s o when).
Proof.
  intros H. unfold order_not_filled.
  destruct (o_kind o); try exact H; (destruct (negb (is_open o)); [exact H | apply gp_close_as; exact H]).
Qed.

(* no pair is configured with a finer precision than its symbols *)
Definition pairs_fit : Prop :=
  forall p pi, get_pair_info c p = Ok pi ->
    and (forall pb : nat, get_sym_prec c (fst p) = Ok pb -> le (fst pi) pb)
        (forall pq : nat, get_sym_prec c (snd p) = Ok pq -> le (snd pi) pq).

Lemma pair_base_grid p pi v : pairs_fit -> get_pair_info c p = Ok pi -> on_grid (fst pi) v -> gridof (fst p) v.
Proof. intros Hf Hp Hv pb Hpb. destruct (Hf p pi Hp) as [A _]. exact (on_grid_mono _ _ _ (A pb Hpb) Hv). Qed.
Lemma pair_quote_grid p pi v : pairs_fit -> get_pair_info c p = Ok pi -> on_grid (snd pi) v -> gridof (snd p) v.
Proof. intros Hf Hp Hv pq Hpq. destruct (Hf p pi Hp) as [_ B]. exact (on_grid_mono _ _ _ (B pq Hpq) Hv). Qed.

Lemma gp_process_order s l o p when b : pairs_fit -> GI s -> gp (process_order c s l o p when b).
Proof.
  intros Hf H. unfold process_order.
  destruct (balance_updates c l o b) as [[u hit]|]; cbn [lift obind]; [|exact H].
  set (o1 := with_hit o hit). assert (H1 : GI (put_order s o1)) by exact H.
  destruct (get_pair_info c (o_pair o1)) as [pi|] eqn:Epi; cbn [lift obind]; [|exact H1].
  assert (NF : forall s2, GI s2 -> gp (obind (order_not_filled c s2 o1 when) (fun s _ => Done s l))).
  { intros s2 I2. apply gp_obind; [apply gp_order_not_filled; exact I2 | intros s3 u3 _ I3; exact I3]. }
  destruct (match u with Some (bv, qv) => round_bu pi (Some bv) (Some qv) | None => (None, None) end) as [rb rq] eqn:Er.
  destruct rb as [bv|]; [destruct rq as [qv|]|]; try (apply NF; exact H1).
  destruct u as [[b0 q0]|]; [|discriminate Er].
  destruct pi as [bp qp]. destruct (round_bu_on_grid bp qp b0 q0 bv qv Er) as [Gb Gq].
  destruct (calc_fee c (snd (bp, qp)) o1 qv) as [fee|] eqn:Ef; cbn [lift obind]; [|exact H1].
  destruct (fee_charge_nonpos _ _ _ _ _ Ef) as [_ Gfee]. cbn [snd] in Gfee.
  match goal with |- gp (match update_balances c ?s1 o1 ?f with _ => _ end) =>
    assert (Gfin : eG f); [|pose proof (gp_update_balances s1 o1 f H1 Gfin) as H2;
                            destruct (update_balances c s1 o1 f) as [s2 u2|s2 e2]] end.
  { apply eG_app; [apply eG_single; exact (pair_base_grid (o_pair o1) (bp, qp) bv Hf Epi Gb)|].
    destruct (Qzero _); [apply eG_nil|]. apply eG_single.
    apply (pair_quote_grid (o_pair o1) (bp, qp) _ Hf Epi). cbn [snd]. apply on_grid_plus; [exact Gq | exact Gfee]. }
  - unfold gp in H2. cbn [sof] in H2.
    destruct (take_liquidity l (Qabsq bv)); cbn [lift obind]; [|exact H2].
    apply gp_obind.
    + destruct (is_open _); [exact H2 | apply gp_order_closed; exact H2].
    + intros s4 o4 _ H4. apply GI_push. exact H4.
  - unfold gp in H2. cbn [sof] in H2. destruct e2; try exact H2. apply NF. exact H2.
Qed.

Lemma gp_process_all ids p when b : pairs_fit -> forall s l, GI s -> gp (process_all c s l ids p when b).
Proof.
  intros Hf. induction ids as [|h r IH]; intros s l H; cbn [process_all]; [exact H|].
  destruct (get_order s h) as [oh|]; [|apply IH; exact H].
  destruct (is_open oh && pair_eqb (o_pair oh) p); [|apply IH; exact H].
  apply gp_obind; [apply gp_process_order; assumption | intros s1 l1 _ H1; apply IH; exact H1].
Qed.

Lemma gp_on_bar s p when b : pairs_fit -> GI s -> gp (on_bar c s p when b).
Proof.
  intros Hf H. unfold on_bar, bump_reindex. apply gp_obind; [apply gp_process_all; [exact Hf | exact H]|].
  intros s2 l2 _ H2. unfold gp, finish_reindex. cbn [sof]. destruct (Nat.eqb _ 0); exact H2.
Qed.

(* accepting a request: the reservation is rounded like a fill *)
Lemma estimate_grid s o req : pairs_fit -> estimate_required c s o = Ok req -> eG req.
Proof.
  intros Hf. unfold estimate_required. destruct (get_pair_info c (o_pair o)) as [[bp qp]|] eqn:Epi; cbn [rbind]; [|discriminate].
  match goal with |- context [round_bu (bp, qp) (Some ?x) ?qo] => set (x0 := x); set (q0 := qo) end.
  assert (Gr : forall b q, round_bu (bp, qp) (Some x0) q0 = (b, q) ->
                 (forall bv, b = Some bv -> on_grid bp bv) /\ (forall qv, q = Some qv -> on_grid qp qv)).
  { intros b q E. unfold round_bu in E. cbv beta iota zeta in E. injection E as Eb Eq. unfold prune in Eb, Eq. split.
    - intros bv Hb. rewrite Hb in Eb. destruct (Qzero (qtrunc bp x0)); [discriminate Eb|]. inversion Eb. apply qtrunc_on_grid.
    - intros qv Hq. rewrite Hq in Eq.
      match type of Eq with (match option_map (qround qp) ?q1 with _ => _ end) = _ => destruct q1 as [y|]; cbn [option_map] in Eq end;
        [|discriminate Eq].
      destruct (Qzero (qround qp y)); [discriminate Eq|]. inversion Eq. apply qround_on_grid. }
  destruct (round_bu (bp, qp) (Some x0) q0) as [b q] eqn:Er. destruct (Gr b q eq_refl) as [Gb Gq].
  match goal with |- rbind ?r _ = _ -> _ => destruct r as [fee|] eqn:Ef; cbn [rbind]; [|discriminate] end.
  assert (Gfee : forall f, fee = Some f -> on_grid qp f).
  { intros f ->. destruct b as [bv|]; [destruct q as [qv|]|]; try discriminate Ef.
    destruct (fee_charge_nonpos _ _ _ _ _ Ef) as [_ G]. exact G. }
  intros H; inversion H; subst req; clear H. apply eG_app.
  - destruct b as [bv|]; [|apply eG_nil]. destruct (Qltb bv 0); [|apply eG_nil]. apply eG_single.
    apply (pair_base_grid (o_pair o) (bp, qp) _ Hf Epi). apply on_grid_opp. exact (Gb bv eq_refl).
  - match goal with |- eG (match ?qt with _ => _ end) => destruct qt as [qv|] eqn:Eq; [|apply eG_nil] end.
    destruct (Qltb qv 0); [|apply eG_nil]. apply eG_single.
    apply (pair_quote_grid (o_pair o) (bp, qp) _ Hf Epi). apply on_grid_opp. cbn [snd].
    destruct q as [q1|]; destruct fee as [f|]; inversion Eq; subst qv;
      try apply on_grid_plus; try exact (Gq _ eq_refl); try exact (Gfee _ eq_refl).
Qed.

Lemma gp_add_order s o : pairs_fit -> GI s -> gp (add_order c s o).
Proof.
  intros Hf H. unfold add_order. destruct (estimate_required c s o) as [req|] eqn:Ereq; cbn [lift obind]; [|exact H].
  pose proof (estimate_grid s o req Hf Ereq) as Greq.
  apply gp_obind.
  - destruct (vnonempty req); [|exact H].
    apply gp_obind.
    + destruct (o_ab o); [|exact H]. apply gp_borrow_loop; [exact H|]. apply eG_shorts; [apply H | exact Greq].
    + intros s1 lids _ H1. apply gp_obind; [apply GI_upd; try assumption; apply eG_nil|].
      intros s2 u E2 H2. unfold gp. cbn [sof]. destruct H2 as (A2 & L2 & R2). split; [exact A2|]. split; [exact L2|].
      intros k m Hin. cbn [set_holds s_holds] in Hin. apply holds_set_in2 in Hin. destruct Hin as [->|Hin]; [exact Greq | exact (R2 k m Hin)].
  - intros s3 lids _ H3. unfold gp. cbn [sof]. apply GI_push. exact H3.
Qed.

Lemma gp_create_order s k op p amount ab ar : pairs_fit -> GI s -> gp (create_order c s k op p amount ab ar).
Proof.
  intros Hf H. unfold create_order. destruct (get_pair_info c p); cbn [lift obind]; [|exact H].
  destruct (validate _ k amount); cbn [lift obind]; [|exact H]. apply gp_add_order; assumption.
Qed.

(* explicitly requested loans are for amounts on the grid of their symbol *)
Definition op_grid (o : op) : Prop := match o with OLoan x a => gridof x a | _ => True end.

Lemma GI_step s o : pairs_fit -> op_grid o -> GI s -> GI (fst (step c s o)).
Proof.
  intros Hf Ho H. destruct o as [p w b|k opr p amount ab ar|id|x a|id|pp]; cbn [step op_grid] in *.
  - pose proof (gp_on_bar s p w b Hf H) as X. destruct (on_bar c s p w b); exact X.
  - pose proof (gp_create_order s k opr p amount ab ar Hf H) as X. destruct (create_order _ _ _ _ _ _ _ _); exact X.
  - pose proof (gp_cancel_order s id H) as X. destruct (cancel_order c s id); exact X.
  - pose proof (gp_create_loan s x a H Ho) as X. destruct (create_loan c s x a); exact X.
  - pose proof (gp_repay_loan s id H) as X. destruct (repay_loan c s id); exact X.
  - unfold list_open, bump_reindex, finish_reindex. destruct (Nat.eqb _ 0); cbn [fst]; exact H.
Qed.

Theorem run_GI ops : forall s, pairs_fit -> Forall op_grid ops -> GI s -> GI (run c s ops).
Proof.
  unfold run. induction ops as [|o r IH]; intros s Hf Ho H; cbn [fold_left]; [exact H|].
  inversion Ho as [|? ? Ho1 Hor]; subst. apply IH; [exact Hf | exact Hor | apply GI_step; assumption].
Qed.

Lemma GI_init initial : eG initial -> GI (init_st initial).
Proof.
  intros Hi. split; [|split; [intros l [] | intros k m []]]. unfold init_st, init_acct. cbn [s_acct].
  split; [|split]; intros x; cbn [bal hold bor]; apply eG_vget.
  - intros kv Hin. apply filter_In in Hin. exact (Hi kv (proj1 Hin)).
  - apply eG_nil.
  - intros kv Hin. apply in_map_iff in Hin. destruct Hin as ([k v] & <- & Hin). apply filter_In in Hin. cbn [fst snd].
    apply gridof_opp. exact (Hi (k, v) (proj1 Hin)).
Qed.

(* C08: in every reachable state the balance, the amount on hold, the borrowed amount -- and hence the available
   amount -- of every symbol are multiples of the symbol's configured precision *)
Theorem balances_on_grid initial ops x p :
  pairs_fit -> eG initial -> Forall op_grid ops -> get_sym_prec c x = Ok p ->
  let a := s_acct (run c (init_st initial) ops) in
  on_grid p (vget (bal a) x) /\ on_grid p (vget (hold a) x) /\ on_grid p (vget (bor a) x) /\ on_grid p (avail a x).
Proof.
  intros Hf Hi Ho Hp a.
  destruct (run_GI ops (init_st initial) Hf Ho (GI_init initial Hi)) as ((Hb & Hh & Hbo) & _ & _). fold a in Hb, Hh, Hbo.
  split; [exact (Hb x p Hp)|]. split; [exact (Hh x p Hp)|]. split; [exact (Hbo x p Hp)|].
  unfold avail. apply on_grid_plus; [exact (Hb x p Hp) | apply on_grid_opp; exact (Hh x p Hp)].
Qed.
End Grid.

(* a configuration that derives every pair's precisions from those of its symbols fits *)
Lemma pairs_fit_derived c : c_pair_info c = [] -> c_default_pair c = None -> pairs_fit c.
Proof.
  intros E1 E2 p pi H. unfold get_pair_info in H. rewrite E1, E2 in H. cbn [lookup_pair] in H. unfold get_sym_prec.
  destruct (lookup_sym (c_sym_prec c) (fst p)) as [bp|]; [|destruct (lookup_sym (c_sym_prec c) (snd p)); discriminate H].
  destruct (lookup_sym (c_sym_prec c) (snd p)) as [qp|]; [|discriminate H].
  inversion H; subst pi. cbn [fst snd]. split; intros x Hx; inversion Hx; subst; apply le_n.
Qed.
