(* Whole-history invariants of the exchange model, proved against the primitive transactions of
   Prims.v and lifted to every operation sequence by the structural theorem (Structure.v):
   - ledger (C01):  total = initial + sum of the fills of all orders (base, quote) + their fees (<= 0)
                    - interest paid on loans, per symbol, in every reachable state;
   - loans  (C02):  borrowed = sum of the principal of the open loans, per symbol;
   - holds  (C06):  hold = sum of the reservations recorded for orders, per symbol. *)
From Coq Require Import ZArith QArith Qround Lia Lqa List Bool PArith.
From Basana Require Import Num.DecQ Num.DecQProofs Exchange.Model Exchange.AcctProofs Exchange.StepProofs
  Exchange.OpProofs Exchange.HoldProofs Exchange.Prims Exchange.FillBounds Exchange.Structure.
Import ListNotations.
Open Scope Q_scope.

(* ---------------------------------------------------------------------------------------------- *)
(* sums over containers *)
Fixpoint qsum {A} (f : A -> Q) (l : list A) : Q :=
  match l with [] => 0 | a :: r => f a + qsum f r end.

Lemma qsum_snoc {A} (f : A -> Q) l a : qsum f (l ++ [a]) == qsum f l + f a.
Proof. induction l as [|b r IH]; cbn [app qsum]; [lra | rewrite IH; lra]. Qed.

Lemma qsum_replace {A} (f : A -> Q) l n a a' :
  nth_error l n = Some a -> qsum f (replace_nth l n a') == qsum f l - f a + f a'.
Proof.
  revert n. induction l as [|b r IH]; intros [|n]; cbn [nth_error replace_nth qsum]; try discriminate.
  - intros H; inversion H; subst. lra.
  - intros H. rewrite (IH _ H). lra.
Qed.

Definition ocontrib (x : sym) (o : order) : Q :=
  (if Pos.eqb (fst (o_pair o)) x then o_fb o else 0) +
  (if Pos.eqb (snd (o_pair o)) x then o_fq o + o_fee o else 0).
Definition pcontrib (x : sym) (l : loan) : Q := if Pos.eqb (interest_sym (l_cond l)) x then l_paid l else 0.
Definition lcontrib (x : sym) (l : loan) : Q := if l_open l && Pos.eqb (l_sym l) x then l_amount l else 0.
Definition hcontrib (x : sym) (e : nat * vmap) : Q := vsum (snd e) x.

(* what the orders exchanged so far (fills and fees), the interest paid so far, the open principal, the
   reservations *)
Definition osum x (s : st) := qsum (ocontrib x) (s_orders s).
Definition psum x (s : st) := qsum (pcontrib x) (s_loans s).
Definition lsum x (s : st) := qsum (lcontrib x) (s_loans s).
Definition hsum x (s : st) := qsum (hcontrib x) (s_holds s).

Definition ledger_inv (K : sym -> Q) (s : st) : Prop :=
  forall x, total (s_acct s) x - osum x s + psum x s == K x.
Definition loans_inv (s : st) : Prop := forall x, vget (bor (s_acct s)) x == lsum x s.
Definition holds_inv (s : st) : Prop := forall x, vget (hold (s_acct s)) x == hsum x s.

(* ---------------------------------------------------------------------------------------------- *)
(* value maps *)
Lemma vsum_vset m k v x : vsum (vset m k v) x == vsum m x + (if Pos.eqb k x then v - vget m k else 0).
Proof.
  induction m as [|[k0 v0] r IH]; cbn [vset vsum vget].
  - destruct (Pos.eqb k x); lra.
  - destruct (Pos.eqb k0 k) eqn:E; cbn [vsum].
    + apply Pos.eqb_eq in E. subst k0. destruct (Pos.eqb k x); lra.
    + rewrite IH. destruct (Pos.eqb k x); lra.
Qed.

Lemma vsum_vaddk m k d x : vsum (vaddk m k d) x == vsum m x + (if Pos.eqb k x then d else 0).
Proof. unfold vaddk. rewrite vsum_vset. destruct (Pos.eqb k x); [rewrite Qred_correct|]; lra. Qed.

Lemma vsum_vadd a b x : vsum (vadd a b) x == vsum a x + vsum b x.
Proof.
  unfold vadd. revert a. induction b as [|[k v] r IH]; intros a; cbn [fold_left vsum fst snd]; [lra|].
  rewrite IH, vsum_vaddk. destruct (Pos.eqb k x); lra.
Qed.

(* reservations container *)
Lemma hsum_set h id m x :
  qsum (hcontrib x) (holds_set h id m) == qsum (hcontrib x) h - vsum (holds_get h id) x + vsum m x.
Proof.
  induction h as [|[k v] r IH]; cbn [holds_set holds_get qsum].
  - unfold hcontrib. cbn [snd vsum]. lra.
  - destruct (Nat.eqb k id); cbn [qsum]; unfold hcontrib in *; cbn [snd] in *; [lra | rewrite IH; lra].
Qed.

Lemma hsum_del h id x :
  qsum (hcontrib x) (holds_del h id) == qsum (hcontrib x) h - vsum (holds_get h id) x.
Proof.
  induction h as [|[k v] r IH]; cbn [holds_del holds_get qsum].
  - cbn [vsum]. lra.
  - destruct (Nat.eqb k id); cbn [qsum]; unfold hcontrib in *; cbn [snd] in *; [lra | rewrite IH; lra].
Qed.

Lemma holds_get_absent h id : (forall v, ~ In (id, v) h) -> holds_get h id = [].
Proof.
  induction h as [|[k v] r IH]; cbn [holds_get]; intros H; [reflexivity|].
  destruct (Nat.eqb k id) eqn:E.
  - apply Nat.eqb_eq in E. subst. exfalso. apply (H v). left; reflexivity.
  - apply IH. intros v0 Hin. apply (H v0). right; exact Hin.
Qed.

(* ---------------------------------------------------------------------------------------------- *)
(* the account side of update_balances *)
Lemma update_balances_acct c s o bu s' u :
  update_balances c s o bu = Done s' u ->
  let oh := holds_get (s_holds s) (o_id o) in
  let hu := hold_updates o oh bu in
  (forall x, vget (bal (s_acct s')) x == vget (bal (s_acct s)) x + vsum bu x /\
             vget (hold (s_acct s')) x == vget (hold (s_acct s)) x + vsum hu x /\
             vget (bor (s_acct s')) x == vget (bor (s_acct s)) x) /\
  s_holds s' = (if vnonempty oh then
                  if is_open o then holds_set (s_holds s) (o_id o) (vadd oh hu) else holds_del (s_holds s) (o_id o)
                else s_holds s).
Proof.
  intros H. apply update_balances_shape in H. cbn zeta in *. destruct H as (s1 & E1 & ->).
  set (oh := holds_get (s_holds s) (o_id o)) in *. set (hu := hold_updates o oh bu) in *.
  assert (A : (forall x, vget (bal (s_acct s1)) x == vget (bal (s_acct s)) x + vsum bu x /\
                         vget (hold (s_acct s1)) x == vget (hold (s_acct s)) x + vsum hu x /\
                         vget (bor (s_acct s1)) x == vget (bor (s_acct s)) x) /\ s_holds s1 = s_holds s).
  { destruct (vnonempty bu || vnonempty hu) eqn:Ene.
    - apply upd_acct_done in E1. destruct E1 as (a' & Ea & ->). split; [|reflexivity].
      intros x. destruct (acct_update_values _ _ _ _ _ _ Ea x) as (V1 & V2 & V3).
      cbn [set_acct s_acct]. repeat split; [exact V1 | exact V2 | rewrite V3; cbn [vsum]; lra].
    - inversion E1; subst s1. split; [|reflexivity].
      apply orb_false_iff in Ene. destruct Ene as [N1 N2].
      destruct bu; [|discriminate N1]. destruct hu; [|discriminate N2].
      intros x. cbn [vsum]. repeat split; lra. }
  destruct A as [A Eh]. split.
  - intros x. destruct (vnonempty oh); [destruct (is_open o)|]; cbn [set_holds s_acct]; apply A.
  - destruct (vnonempty oh); [destruct (is_open o)|]; cbn [set_holds s_holds]; rewrite ?Eh; reflexivity.
Qed.

(* ---------------------------------------------------------------------------------------------- *)
(* C02: borrowed = open principal *)
Lemma loans_prim c s s' : WF s -> loans_inv s -> prim c s s' -> loans_inv s'.
Proof.
  intros Hw Hi Hp x. specialize (Hi x). unfold lsum in *. destruct Hp.
  - destruct H as (-> & _ & _ & ->). exact Hi.
  - exact Hi.
  - assert (E : vget (bor (s_acct s1)) x == vget (bor (s_acct s)) x /\ s_loans s1 = s_loans s).
    { destruct (vnonempty req).
      - apply upd_acct_done in H. destruct H as (a' & Ea & ->).
        destruct (acct_update_values _ _ _ _ _ _ Ea x) as (_ & _ & V3). cbn [set_acct s_acct s_loans vsum] in *.
        split; [lra | reflexivity].
      - inversion H; subst. split; reflexivity. }
    destruct E as [E1 E2]. destruct (vnonempty req); cbn [set_orders set_holds s_acct s_loans]; rewrite E1, E2; exact Hi.
  - apply create_loan_shape in H. destruct H as (a' & t & k & Ea & _ & ->).
    destruct (acct_update_values _ _ _ _ _ _ Ea x) as (_ & _ & V3).
    cbn [set_loans set_acct s_acct s_loans]. rewrite qsum_snoc, V3, Hi.
    unfold lcontrib. cbn [l_open l_sym l_amount vsum andb]. destruct (Pos.eqb x0 x); lra.
  - apply repay_loan_shape in H. destruct H as (l & i & a' & Eo & _ & Ea & ->).
    apply open_loan_get in Eo. destruct Eo as [Eg Eop].
    destruct (acct_update_values _ _ _ _ _ _ Ea x) as (_ & _ & V3).
    assert (Eid : l_id l = id) by (destruct Hw as (_ & Hl & _); apply (Hl _ _ Eg)).
    unfold put_loan. cbn [set_loans set_acct s_acct s_loans close_loan l_id].
    rewrite (qsum_replace _ _ _ l); [|rewrite Eid; exact Eg].
    rewrite V3, Hi. unfold lcontrib. cbn [close_loan l_open l_sym l_amount vsum andb]. rewrite Eop. cbn [andb].
    destruct (Pos.eqb (l_sym l) x); lra.
  - apply cancel_loan_shape in H. destruct H as (l & a' & Eo & Ea & ->).
    apply open_loan_get in Eo. destruct Eo as [Eg Eop].
    destruct (acct_update_values _ _ _ _ _ _ Ea x) as (_ & _ & V3).
    assert (Eid : l_id l = id) by (destruct Hw as (_ & Hl & _); apply (Hl _ _ Eg)).
    unfold put_loan. cbn [set_loans set_acct s_acct s_loans close_loan l_id].
    rewrite (qsum_replace _ _ _ l); [|rewrite Eid; exact Eg].
    rewrite V3, Hi. unfold lcontrib. cbn [close_loan l_open l_sym l_amount vsum andb]. rewrite Eop. cbn [andb].
    destruct (Pos.eqb (l_sym l) x); lra.
  - destruct (update_balances_orders _ _ _ _ _ _ H) as [_ El].
    destruct (update_balances_acct _ _ _ _ _ _ H) as [A _]. destruct (A x) as (_ & _ & V3).
    rewrite El, V3. exact Hi.
  - destruct (update_balances_orders _ _ _ _ _ _ H0) as [_ El].
    destruct (update_balances_acct _ _ _ _ _ _ H0) as [A _]. destruct (A x) as (_ & _ & V3).
    unfold put_order. cbn [set_orders s_acct s_loans]. rewrite El, V3. exact Hi.
Qed.

(* C06: hold = reservations *)
Lemma holds_prim c s s' : WF s -> holds_inv s -> prim c s s' -> holds_inv s'.
Proof.
  intros Hw Hi Hp x. specialize (Hi x). unfold hsum in *. destruct Hp.
  - destruct H as (-> & _ & -> & _). exact Hi.
  - exact Hi.
  - destruct (vnonempty req) eqn:Ev.
    + apply upd_acct_done in H. destruct H as (a' & Ea & ->).
      destruct (acct_update_values _ _ _ _ _ _ Ea x) as (_ & V2 & _).
      cbn [set_orders set_holds set_acct s_acct s_holds]. rewrite hsum_set, V2, Hi.
      rewrite holds_get_absent; [cbn [vsum]; lra|].
      intros v Hin. destruct Hw as (_ & _ & Hh). apply Hh in Hin. rewrite H0 in Hin. lia.
    + inversion H; subst. exact Hi.
  - apply create_loan_shape in H. destruct H as (a' & t & k & Ea & _ & ->).
    destruct (acct_update_values _ _ _ _ _ _ Ea x) as (_ & V2 & _).
    cbn [set_loans set_acct s_acct s_holds]. rewrite V2, Hi. cbn [vsum]. lra.
  - apply repay_loan_shape in H. destruct H as (l & i & a' & _ & _ & Ea & ->).
    destruct (acct_update_values _ _ _ _ _ _ Ea x) as (_ & V2 & _).
    unfold put_loan. cbn [set_loans set_acct s_acct s_holds]. rewrite V2, Hi. cbn [vsum]. lra.
  - apply cancel_loan_shape in H. destruct H as (l & a' & _ & Ea & ->).
    destruct (acct_update_values _ _ _ _ _ _ Ea x) as (_ & V2 & _).
    unfold put_loan. cbn [set_loans set_acct s_acct s_holds]. rewrite V2, Hi. cbn [vsum]. lra.
  - destruct (update_balances_acct _ _ _ _ _ _ H) as [A Eh]. cbn zeta in *. destruct (A x) as (_ & V2 & _).
    rewrite Eh, V2, Hi. unfold hold_updates.
    destruct (vnonempty (holds_get (s_holds s) (o_id o))); [destruct (is_open o)|].
    + rewrite hsum_set, vsum_vadd. lra.
    + rewrite hsum_del, vsum_vneg. lra.
    + cbn [vsum]. lra.
  - destruct (update_balances_acct _ _ _ _ _ _ H0) as [A Eh]. cbn zeta in *. destruct (A x) as (_ & V2 & _).
    unfold put_order. cbn [set_orders s_acct s_holds].
    rewrite Eh, V2, Hi. unfold hold_updates.
    destruct (vnonempty (holds_get (s_holds s) (o_id o))); [destruct (is_open o)|].
    + rewrite hsum_set, vsum_vadd. lra.
    + rewrite hsum_del, vsum_vneg. lra.
    + cbn [vsum]. lra.
Qed.

(* C01: the ledger *)
Lemma ocontrib_same x a b : same_money a b -> ocontrib x a = ocontrib x b.
Proof. unfold same_money, ocontrib. intros (_ & -> & _ & _ & -> & -> & ->). reflexivity. Qed.

Lemma vsum_fill_updates o bv qv feev x :
  vsum (fill_updates o bv qv feev) x ==
  (if Pos.eqb (fst (o_pair o)) x then bv else 0) + (if Pos.eqb (snd (o_pair o)) x then qv + feev else 0).
Proof.
  unfold fill_updates. cbn [app vsum]. destruct (Qzero (qv + feev)) eqn:E; cbn [vsum].
  - apply Qeq_bool_iff in E. destruct (Pos.eqb (fst (o_pair o)) x), (Pos.eqb (snd (o_pair o)) x); lra.
  - destruct (Pos.eqb (fst (o_pair o)) x), (Pos.eqb (snd (o_pair o)) x); lra.
Qed.

Lemma ledger_prim c K s s' : WF s -> ledger_inv K s -> prim c s s' -> ledger_inv K s'.
Proof.
  intros Hw Hi Hp x. specialize (Hi x). unfold osum, psum, total in *. destruct Hp.
  - destruct H as (-> & -> & _ & ->). exact Hi.
  - unfold put_order. cbn [set_orders s_acct s_orders s_loans].
    rewrite (qsum_replace _ _ _ o0 o' H). rewrite (ocontrib_same x o0 o' H0). lra.
  - assert (E : (vget (bal (s_acct s1)) x == vget (bal (s_acct s)) x /\
                 vget (bor (s_acct s1)) x == vget (bor (s_acct s)) x) /\ s_loans s1 = s_loans s).
    { destruct (vnonempty req).
      - apply upd_acct_done in H. destruct H as (a' & Ea & ->).
        destruct (acct_update_values _ _ _ _ _ _ Ea x) as (V1 & _ & V3). cbn [set_acct s_acct s_loans vsum] in *.
        split; [split; lra | reflexivity].
      - inversion H; subst. split; [split|]; reflexivity. }
    destruct E as [[E1 E3] E2].
    assert (Z : ocontrib x o' == 0).
    { unfold ocontrib. rewrite H1, H2, H3. destruct (Pos.eqb _ x), (Pos.eqb _ x); lra. }
    destruct (vnonempty req); cbn [set_orders set_holds s_acct s_orders s_loans];
      rewrite qsum_snoc, Z, E1, E3, E2; lra.
  - apply create_loan_shape in H. destruct H as (a' & t & k & Ea & _ & ->).
    destruct (acct_update_values _ _ _ _ _ _ Ea x) as (V1 & _ & V3).
    cbn [set_loans set_acct s_acct s_orders s_loans]. rewrite qsum_snoc, V1, V3.
    unfold pcontrib in *. cbn [l_paid l_cond vsum]. destruct (Pos.eqb (interest_sym k) x); lra.
  - apply repay_loan_shape in H. destruct H as (l & i & a' & Eo & _ & Ea & ->).
    apply open_loan_get in Eo. destruct Eo as [Eg Eop].
    destruct (acct_update_values _ _ _ _ _ _ Ea x) as (V1 & _ & V3).
    assert (Eid : l_id l = id) by (destruct Hw as (_ & Hl & _); apply (Hl _ _ Eg)).
    unfold put_loan. cbn [set_loans set_acct s_acct s_orders s_loans close_loan l_id].
    rewrite (qsum_replace _ _ _ l); [|rewrite Eid; exact Eg].
    rewrite V1, V3, vsum_vadd. unfold pcontrib in *. cbn [close_loan l_paid l_cond vsum].
    destruct (Qzero i) eqn:Ez; cbn [vsum].
    + apply Qeq_bool_iff in Ez. destruct (Pos.eqb (l_sym l) x), (Pos.eqb (interest_sym (l_cond l)) x); rewrite ?Qred_correct; lra.
    + destruct (Pos.eqb (l_sym l) x), (Pos.eqb (interest_sym (l_cond l)) x); rewrite ?Qred_correct; lra.
  - apply cancel_loan_shape in H. destruct H as (l & a' & Eo & Ea & ->).
    apply open_loan_get in Eo. destruct Eo as [Eg Eop].
    destruct (acct_update_values _ _ _ _ _ _ Ea x) as (V1 & _ & V3).
    assert (Eid : l_id l = id) by (destruct Hw as (_ & Hl & _); apply (Hl _ _ Eg)).
    unfold put_loan. cbn [set_loans set_acct s_acct s_orders s_loans close_loan l_id].
    rewrite (qsum_replace _ _ _ l); [|rewrite Eid; exact Eg].
    rewrite V1, V3. unfold pcontrib in *. cbn [close_loan l_paid l_cond vsum].
    destruct (Pos.eqb (l_sym l) x), (Pos.eqb (interest_sym (l_cond l)) x); rewrite ?Qred_correct; lra.
  - destruct (update_balances_orders _ _ _ _ _ _ H) as [Eo El].
    destruct (update_balances_acct _ _ _ _ _ _ H) as [A _]. destruct (A x) as (V1 & _ & V3).
    rewrite Eo, El, V1, V3. cbn [vsum]. lra.
  - destruct (update_balances_orders _ _ _ _ _ _ H0) as [Eo El].
    destruct (update_balances_acct _ _ _ _ _ _ H0) as [A _]. destruct (A x) as (V1 & _ & V3).
    unfold put_order. cbn [set_orders s_acct s_orders s_loans].
    rewrite (qsum_replace _ _ _ o); [|rewrite Eo; cbn [add_fill o_id]; exact H].
    rewrite Eo, El, V1, V3, vsum_fill_updates.
    unfold ocontrib in *. cbn [add_fill o_pair o_fb o_fq o_fee].
    destruct (Pos.eqb (fst (o_pair o)) x), (Pos.eqb (snd (o_pair o)) x); rewrite ?Qred_correct; lra.
Qed.

(* ---------------------------------------------------------------------------------------------- *)
(* lifting to every operation sequence *)
Definition all_inv (K : sym -> Q) (s : st) : Prop := ledger_inv K s /\ loans_inv s /\ holds_inv s.

Lemma all_prims c K s s' : WF s -> all_inv K s -> prims c s s' -> all_inv K s'.
Proof.
  intros Hw Hi Hp. induction Hp as [|s1 s2 s3 H12 IH H23]; [exact Hi|].
  pose proof (WF_prims _ _ _ Hw H12) as W2. destruct (IH Hw Hi) as (A & B & C).
  split; [eapply ledger_prim; eauto | split; [eapply loans_prim; eauto | eapply holds_prim; eauto]].
Qed.

Theorem run_invariants c K ops s :
  cfg_ok c -> ops_ok ops -> WF s -> all_inv K s -> WF (run c s ops) /\ all_inv K (run c s ops).
Proof.
  intros Hc Ho Hw Hi. destruct (run_prims c ops s Hc Ho Hw) as (W & P & _).
  split; [exact W | exact (all_prims c K s _ Hw Hi P)].
Qed.

(* from the initial state: the constant of the ledger is the initial total *)
Lemma init_bor_empty initial : (forall kv, In kv initial -> 0 <= snd kv) -> bor (init_acct initial) = [].
Proof.
  intros H. unfold init_acct. cbn [bor].
  induction initial as [|[k v] r IH]; cbn [filter map]; [reflexivity|].
  assert (Hv : 0 <= v) by (apply (H (k, v)); left; reflexivity).
  unfold Qltb at 1. cbn [snd]. assert (E : Qle_bool 0 v = true) by (apply Qle_bool_iff; exact Hv).
  rewrite E. cbn [negb]. apply IH. intros kv Hin. apply H. right; exact Hin.
Qed.

Lemma init_all_inv initial :
  (forall kv, In kv initial -> 0 <= snd kv) ->
  all_inv (fun x => vget (bal (init_acct initial)) x) (init_st initial).
Proof.
  intros Hpos. pose proof (init_bor_empty initial Hpos) as Eb.
  unfold all_inv, ledger_inv, loans_inv, holds_inv, osum, psum, lsum, hsum, init_st, total.
  cbn [s_acct s_orders s_loans s_holds qsum]. rewrite Eb.
  split; [|split]; intros x; cbn [init_acct hold vget]; lra.
Qed.

(* C01, whole history: in every state reachable from non-negative initial balances, for every symbol,
     balance - borrowed = initial balance + (base and quote amounts of all fills) + (fees, <= 0) - interest paid *)
Theorem ledger_reachable c initial ops x :
  cfg_ok c -> ops_ok ops -> (forall kv, In kv initial -> 0 <= snd kv) ->
  let s := run c (init_st initial) ops in
  total (s_acct s) x == vget (bal (init_acct initial)) x + osum x s - psum x s.
Proof.
  intros Hc Ho Hpos s.
  destruct (run_invariants c _ ops (init_st initial) Hc Ho (WF_init initial) (init_all_inv initial Hpos)) as [_ (L & _ & _)].
  specialize (L x). cbv beta in L. fold s in L. lra.
Qed.

(* C02, whole history: borrowed = principal of the open loans *)
Theorem loans_reachable c initial ops x :
  cfg_ok c -> ops_ok ops -> (forall kv, In kv initial -> 0 <= snd kv) ->
  let s := run c (init_st initial) ops in vget (bor (s_acct s)) x == lsum x s.
Proof.
  intros Hc Ho Hpos s.
  destruct (run_invariants c _ ops (init_st initial) Hc Ho (WF_init initial) (init_all_inv initial Hpos)) as [_ (_ & L & _)].
  exact (L x).
Qed.

(* C06, whole history: hold = reservations recorded for orders *)
Theorem holds_reachable c initial ops x :
  cfg_ok c -> ops_ok ops -> (forall kv, In kv initial -> 0 <= snd kv) ->
  let s := run c (init_st initial) ops in vget (hold (s_acct s)) x == hsum x s.
Proof.
  intros Hc Ho Hpos s.
  destruct (run_invariants c _ ops (init_st initial) Hc Ho (WF_init initial) (init_all_inv initial Hpos)) as [_ (_ & _ & L)].
  exact (L x).
Qed.

(* C05, whole history: the filled amount of every order lies between 0 and the ordered amount *)
Theorem filled_reachable c initial ops i o :
  cfg_ok c -> ops_ok ops ->
  nth_error (s_orders (run c (init_st initial) ops)) i = Some o ->
  o_id o = i /\ 0 <= filled o /\ filled o <= o_amount o.
Proof.
  intros Hc Ho Hn.
  destruct (run_prims c ops (init_st initial) Hc Ho (WF_init initial)) as ((W & _) & _ & _).
  destruct (W _ _ Hn) as [Eid [H0 H1]]. split; [exact Eid|].
  unfold filled. rewrite (Qabsq_dir _ _ H0). split; assumption.
Qed.

(* C05, whole history: an order that is closed stays exactly as it is, whatever operations follow *)
Theorem closed_orders_final c ops s i o :
  cfg_ok c -> ops_ok ops -> WF s ->
  nth_error (s_orders s) i = Some o -> is_open o = false -> nth_error (s_orders (run c s ops)) i = Some o.
Proof. intros Hc Ho Hw Hi Hcl. destruct (run_prims c ops s Hc Ho Hw) as (_ & _ & F). apply F; assumption. Qed.

Theorem closed_final_reachable c initial ops1 ops2 i o :
  cfg_ok c -> ops_ok ops1 -> ops_ok ops2 ->
  nth_error (s_orders (run c (init_st initial) ops1)) i = Some o -> is_open o = false ->
  nth_error (s_orders (run c (init_st initial) (ops1 ++ ops2))) i = Some o.
Proof.
  intros Hc H1 H2 Hi Hcl. unfold run. rewrite fold_left_app. fold (run c (init_st initial) ops1).
  apply (closed_orders_final c ops2 (run c (init_st initial) ops1) i o Hc H2); [|exact Hi | exact Hcl].
  apply (run_prims c ops1 (init_st initial) Hc H1 (WF_init initial)).
Qed.
