(* The structural theorem: from a well-formed state, every operation of the exchange model — successful
   or rejected, whatever it does on the way — leads to a well-formed state that is reachable through
   primitive transactions (Prims.v) only. *)
From Coq Require Import ZArith QArith Qround Lia Lqa List Bool PArith.
From Basana Require Import Num.DecQ Num.DecQProofs Exchange.Model Exchange.AcctProofs Exchange.StepProofs
  Exchange.OpProofs Exchange.OrderProofs Exchange.Prims Exchange.FillBounds.
Import ListNotations.
Open Scope Q_scope.

(* ---------------------------------------------------------------------------------------------- *)
(* holds container *)
Lemma holds_set_in h id m k v : In (k, v) (holds_set h id m) -> k = id \/ In (k, v) h.
Proof.
  induction h as [|[k0 v0] r IH]; cbn [holds_set].
  - intros [H|[]]. inversion H. left; reflexivity.
  - destruct (Nat.eqb k0 id) eqn:E.
    + intros [H|H]; [inversion H; subst; left; apply Nat.eqb_eq; exact E | right; right; exact H].
    + intros [H|H]; [right; left; exact H | destruct (IH H) as [->|H']; [left; reflexivity | right; right; exact H']].
Qed.

Lemma holds_del_in h id k v : In (k, v) (holds_del h id) -> In (k, v) h.
Proof.
  induction h as [|[k0 v0] r IH]; cbn [holds_del]; [auto|].
  destruct (Nat.eqb k0 id); intros H; [right; exact H | destruct H as [H|H]; [left; exact H | right; apply IH; exact H]].
Qed.

Lemma holds_get_nonempty_in h id : vnonempty (holds_get h id) = true -> exists v, In (id, v) h.
Proof.
  induction h as [|[k0 v0] r IH]; cbn [holds_get]; [discriminate|].
  destruct (Nat.eqb k0 id) eqn:E; intros H.
  - apply Nat.eqb_eq in E. subst. exists v0. left; reflexivity.
  - destruct (IH H) as [v Hv]. exists v. right; exact Hv.
Qed.

(* ---------------------------------------------------------------------------------------------- *)
Lemma OW_same_money a b : same_money a b -> OW a -> OW b.
Proof. unfold same_money, OW. intros (_ & _ & Eo & Ea & Eb & _) H. rewrite <- Eo, <- Ea, <- Eb. exact H. Qed.

Lemma WF_put_order s o' o0 :
  WF s -> get_order s (o_id o') = Some o0 -> OW o' -> WF (put_order s o').
Proof.
  intros (Ho & Hl & Hh) Hg How. unfold put_order, WF. cbn [set_orders s_orders s_loans s_holds].
  split; [|split; [exact Hl|]].
  - intros i o. rewrite nth_error_replace_nth. destruct (Nat.eqb i (o_id o')) eqn:E.
    + apply Nat.eqb_eq in E. destruct (nth_error (s_orders s) i); [|discriminate].
      intros H; inversion H; subst. split; [reflexivity | exact How].
    + apply Ho.
  - intros k v H. rewrite length_replace_nth. eapply Hh; exact H.
Qed.

Lemma WF_set_acct s a : WF s -> WF (set_acct s a).
Proof. intros H. exact H. Qed.

Lemma WF_put_loan s l : WF s -> WF (put_loan s l).
Proof.
  intros (Ho & Hl & Hh). unfold put_loan, WF. cbn [set_loans s_orders s_loans s_holds].
  split; [exact Ho|]. split; [|exact Hh].
  intros i l0. rewrite nth_error_replace_nth. destruct (Nat.eqb i (l_id l)) eqn:E.
  - apply Nat.eqb_eq in E. destruct (nth_error (s_loans s) i); [|discriminate].
    intros H; inversion H; subst. reflexivity.
  - apply Hl.
Qed.

Lemma WF_update_balances c s o bu s' u : WF s -> update_balances c s o bu = Done s' u -> WF s'.
Proof.
  intros Hw H. apply update_balances_shape in H. cbn zeta in H. destruct H as (s1 & E1 & ->).
  assert (W1 : WF s1 /\ s_holds s1 = s_holds s /\ s_orders s1 = s_orders s).
  { destruct (_ || _).
    - apply upd_acct_done in E1. destruct E1 as (a' & _ & ->). split; [exact Hw | split; reflexivity].
    - inversion E1; subst. split; [exact Hw | split; reflexivity]. }
  destruct W1 as (W1 & Eh & Eo).
  destruct (vnonempty (holds_get (s_holds s) (o_id o))) eqn:Ev; [|exact W1].
  destruct W1 as (Ho & Hl & Hh).
  destruct (is_open o); unfold WF; cbn [set_holds s_orders s_loans s_holds]; (split; [exact Ho|]; split; [exact Hl|]).
  - intros k v Hin. apply holds_set_in in Hin. destruct Hin as [->|Hin]; [|eapply Hh; exact Hin].
    apply holds_get_nonempty_in in Ev. destruct Ev as [v0 Hv0]. rewrite <- Eh in Hv0. eapply Hh; exact Hv0.
  - intros k v Hin. apply holds_del_in in Hin. eapply Hh; exact Hin.
Qed.

Lemma update_balances_orders c s o bu s' u :
  update_balances c s o bu = Done s' u -> s_orders s' = s_orders s /\ s_loans s' = s_loans s.
Proof.
  intros H. apply update_balances_shape in H. cbn zeta in H. destruct H as (s1 & E1 & ->).
  assert (W1 : s_orders s1 = s_orders s /\ s_loans s1 = s_loans s).
  { destruct (_ || _).
    - apply upd_acct_done in E1. destruct E1 as (a' & _ & ->). split; reflexivity.
    - inversion E1; subst. split; reflexivity. }
  destruct (vnonempty (holds_get (s_holds s) (o_id o))); [destruct (is_open o)|]; cbn [set_holds s_orders s_loans]; exact W1.
Qed.

Lemma WF_prim c s s' : WF s -> prim c s s' -> WF s'.
Proof.
  intros Hw Hp. destruct Hp.
  - (* neutral *)
    destruct H as (Ea & Eo & Eh & El). destruct Hw as (Ho & Hl & Hh). unfold WF. rewrite Eo, Eh, El. auto.
  - (* meta *)
    eapply WF_put_order; [exact Hw | exact H |].
    destruct Hw as (Ho & _). destruct (Ho _ _ H) as [_ How]. eapply OW_same_money; eauto.
  - (* accept *)
    assert (W1 : WF s1 /\ s_holds s1 = s_holds s /\ s_orders s1 = s_orders s).
    { destruct (vnonempty req).
      - apply upd_acct_done in H. destruct H as (a' & _ & ->). split; [exact Hw | split; reflexivity].
      - inversion H; subst. split; [exact Hw | split; reflexivity]. }
    destruct W1 as ((Ho & Hl & Hh) & Eh & Eo).
    assert (How : OW o').
    { unfold OW. rewrite H1. split; [|]; setoid_replace (0 * sign_of (o_op o')) with 0 by ring; [lra | exact H4]. }
    unfold WF. split; [|split].
    + intros i o. cbn [set_orders s_orders]. rewrite nth_error_snoc. destruct (Nat.eqb i (length (s_orders s))) eqn:E.
      * apply Nat.eqb_eq in E. intros X; inversion X; subst. split; [exact H0 | exact How].
      * rewrite <- Eo. apply Ho.
    + destruct (vnonempty req); cbn [set_orders set_holds s_loans]; exact Hl.
    + intros k v. cbn [set_orders s_orders]. rewrite app_length. cbn [length].
      destruct (vnonempty req); cbn [set_orders set_holds s_holds]; intros Hin.
      * apply holds_set_in in Hin. destruct Hin as [->|Hin]; [rewrite H0; lia|].
        apply Hh in Hin. rewrite Eo in Hin. lia.
      * apply Hh in Hin. rewrite Eo in Hin. lia.
  - (* create loan *)
    apply create_loan_shape in H. destruct H as (a' & t & k & _ & _ & ->).
    destruct Hw as (Ho & Hl & Hh). unfold WF. cbn [set_loans set_acct s_orders s_loans s_holds].
    split; [exact Ho|]. split; [|exact Hh].
    intros i l. rewrite nth_error_snoc. destruct (Nat.eqb i (length (s_loans s))) eqn:E.
    + apply Nat.eqb_eq in E. intros X; inversion X; subst. reflexivity.
    + apply Hl.
  - apply repay_loan_shape in H. destruct H as (l & i & a' & _ & _ & _ & ->). apply WF_put_loan. exact Hw.
  - apply cancel_loan_shape in H. destruct H as (l & a' & _ & _ & ->). apply WF_put_loan. exact Hw.
  - eapply WF_update_balances; eauto.
  - pose proof (WF_update_balances _ _ _ _ _ _ Hw H0) as W1.
    eapply WF_put_order; [exact W1 | | exact H1].
    unfold get_order. destruct (update_balances_orders _ _ _ _ _ _ H0) as [Eo _]. rewrite Eo. exact H.
Qed.

Lemma WF_prims c s s' : WF s -> prims c s s' -> WF s'.
Proof. intros Hw Hp. induction Hp; [exact Hw | eapply WF_prim; [apply IHHp; exact Hw | exact H]]. Qed.

(* ---------------------------------------------------------------------------------------------- *)
Section Struct.
Variable c : cfg.
Variable s0 : st.

(* orders that were closed in [s0] are still there, unchanged *)
Definition Fin (s : st) : Prop :=
  forall i o, nth_error (s_orders s0) i = Some o -> is_open o = false -> nth_error (s_orders s) i = Some o.
Definition was_open (id : nat) : Prop :=
  forall o, nth_error (s_orders s0) id = Some o -> is_open o = true.

Definition R (s : st) : Prop := WF s /\ prims c s0 s /\ Fin s.
Definition rp {A} (r : outcome A) : Prop := R (sof r).

Lemma R_prim_same s s' : R s -> prim c s s' -> s_orders s' = s_orders s -> R s'.
Proof.
  intros (Hw & Hp & Hf) H E. split; [eapply WF_prim; eauto | split; [eapply prims_snoc; eauto|]].
  unfold Fin. rewrite E. exact Hf.
Qed.

Lemma R_prim_app s s' l : R s -> prim c s s' -> s_orders s' = s_orders s ++ l -> R s'.
Proof.
  intros (Hw & Hp & Hf) H E. split; [eapply WF_prim; eauto | split; [eapply prims_snoc; eauto|]].
  intros i o Hi Ho. rewrite E. specialize (Hf i o Hi Ho). rewrite nth_error_app1; [exact Hf|].
  apply nth_error_Some. rewrite Hf. discriminate.
Qed.

Lemma R_prim_put s s1 o' :
  R s -> prim c s (put_order s1 o') -> s_orders s1 = s_orders s -> was_open (o_id o') -> R (put_order s1 o').
Proof.
  intros (Hw & Hp & Hf) H E Hwo. split; [eapply WF_prim; eauto | split; [eapply prims_snoc; eauto|]].
  intros i o Hi Ho. unfold put_order. cbn [set_orders s_orders]. rewrite nth_error_replace_nth, E.
  destruct (Nat.eqb i (o_id o')) eqn:Ei; [|exact (Hf i o Hi Ho)].
  apply Nat.eqb_eq in Ei. subst i. specialize (Hwo o Hi). congruence.
Qed.

Lemma R_neutral s s' : R s -> neutral s s' -> R s'.
Proof. intros H Hn. eapply R_prim_same; [exact H | apply PNeutral; exact Hn | apply Hn]. Qed.

Lemma R_was_open s id o : R s -> get_order s id = Some o -> is_open o = true -> was_open id.
Proof.
  intros (_ & _ & Hf) Hg Ho o' Hi. destruct (is_open o') eqn:E; [reflexivity|].
  specialize (Hf id o' Hi E). unfold get_order in Hg. congruence.
Qed.

Lemma rp_obind A B (r : outcome A) (f : st -> A -> outcome B) :
  rp r -> (forall s a, R s -> rp (f s a)) -> rp (obind r f).
Proof. destruct r as [s a|s e]; unfold rp; cbn [obind sof]; intros H Hf; [apply Hf; exact H | exact H]. Qed.

Lemma rp_lift A s (r : res A) : R s -> rp (lift s r).
Proof. destruct r; unfold rp; cbn [lift sof]; auto. Qed.

(* loan operations leave orders and reservations alone *)
Definition fr (s s' : st) : Prop := s_orders s' = s_orders s /\ s_holds s' = s_holds s.
Definition rpf {A} (s : st) (r : outcome A) : Prop := R (sof r) /\ fr s (sof r).

Lemma fr_refl s : fr s s. Proof. split; reflexivity. Qed.
Lemma fr_trans s1 s2 s3 : fr s1 s2 -> fr s2 s3 -> fr s1 s3.
Proof. intros [A B] [C D]. split; congruence. Qed.

Lemma rpf_create_loan s x a : R s -> rpf s (create_loan c s x a).
Proof.
  intros H. destruct (create_loan c s x a) as [s' id|s' e] eqn:E; unfold rpf; cbn [sof].
  - pose proof E as E'. apply create_loan_shape in E'. destruct E' as (a' & t & k & _ & _ & E').
    assert (F : fr s s') by (subst s'; split; reflexivity).
    split; [eapply R_prim_same; [exact H | eapply PCreate; exact E | apply F] | exact F].
  - apply create_loan_fail_unchanged in E. subst. split; [exact H | apply fr_refl].
Qed.

Lemma rpf_repay_loan s id : R s -> rpf s (repay_loan c s id).
Proof.
  intros H. destruct (repay_loan c s id) as [s' u|s' e] eqn:E; unfold rpf; cbn [sof].
  - pose proof E as E'. apply repay_loan_shape in E'. destruct E' as (l & i & a' & _ & _ & _ & E').
    assert (F : fr s s') by (subst s'; split; reflexivity).
    split; [eapply R_prim_same; [exact H | eapply PRepay; exact E | apply F] | exact F].
  - apply repay_loan_fail_unchanged in E. subst. split; [exact H | apply fr_refl].
Qed.

Lemma rpf_cancel_loan s id : R s -> rpf s (cancel_loan c s id).
Proof.
  intros H. destruct (cancel_loan c s id) as [s' u|s' e] eqn:E; unfold rpf; cbn [sof].
  - pose proof E as E'. apply cancel_loan_shape in E'. destruct E' as (l & a' & _ & _ & E').
    assert (F : fr s s') by (subst s'; split; reflexivity).
    split; [eapply R_prim_same; [exact H | eapply PCancel; exact E | apply F] | exact F].
  - apply cancel_loan_fail_unchanged in E. subst. split; [exact H | apply fr_refl].
Qed.

Lemma rpf_rollback ids : forall s, R s -> rpf s (rollback_loans c s ids).
Proof.
  induction ids as [|id r IH]; intros s H; cbn [rollback_loans].
  - split; [exact H | apply fr_refl].
  - destruct (rpf_cancel_loan s id H) as [H1 F1].
    destruct (cancel_loan c s id) as [s' u|s' e]; cbn [obind sof] in *.
    + destruct (IH s' H1) as [H2 F2]. split; [exact H2 | eapply fr_trans; eauto].
    + split; assumption.
Qed.

Lemma rpf_borrow_loop shorts : forall s created, R s -> rpf s (borrow_loop c s shorts created).
Proof.
  induction shorts as [|[x a] r IH]; intros s created H; cbn [borrow_loop].
  - split; [exact H | apply fr_refl].
  - destruct (rpf_create_loan s x a H) as [H1 F1].
    destruct (create_loan c s x a) as [s' id|s' e]; cbn [sof] in *.
    + destruct (IH s' (created ++ [id]) H1) as [H2 F2]. split; [exact H2 | eapply fr_trans; eauto].
    + destruct (rpf_rollback created s' H1) as [H2 F2].
      destruct (rollback_loans c s' created) as [s'' u|s'' e']; cbn [sof] in *;
        (split; [exact H2 | eapply fr_trans; eauto]).
Qed.

Lemma rpf_repay_each ids : forall s done, R s -> rpf s (repay_each c s ids done).
Proof.
  induction ids as [|id r IH]; intros s done H; cbn [repay_each].
  - split; [exact H | apply fr_refl].
  - destruct (rpf_repay_loan s id H) as [H1 F1].
    destruct (repay_loan c s id) as [s' u|s' e]; cbn [sof] in *.
    + destruct (IH s' (done ++ [id]) H1) as [H2 F2]. split; [exact H2 | eapply fr_trans; eauto].
    + destruct e; try (split; assumption).
      destruct (IH s' done H1) as [H2 F2]. split; [exact H2 | eapply fr_trans; eauto].
Qed.

(* ---------------------------------------------------------------------------------------------- *)
(* accepting an order *)
Lemma neutral_push_update s o w : neutral s (push_update s o w).
Proof.
  unfold push_update. destruct w as [t|]; [|destruct (s_now s)]; unfold neutral, add_event; cbn; auto.
Qed.

Lemma rp_add_order s o :
  R s -> o_id o = length (s_orders s) -> o_fb o = 0 -> o_fq o = 0 -> o_fee o = 0 -> 0 <= o_amount o ->
  fst (o_pair o) <> snd (o_pair o) ->
  rp (add_order c s o).
Proof.
  intros H Hid Hb Hq Hf Ha Hpd. unfold add_order.
  destruct (estimate_required c s o) as [req|e] eqn:Ereq; cbn [lift obind]; [|exact H].
  pose proof (estimate_req_form _ _ _ _ Ereq) as Hrf.
  destruct (vnonempty req) eqn:Ev.
  - assert (B : rpf s (if o_ab o then borrow_loop c s (shorts_of (s_acct s) req) [] else Done s [])).
    { destruct (o_ab o); [apply rpf_borrow_loop; exact H | split; [exact H | apply fr_refl]]. }
    destruct (if o_ab o then borrow_loop c s (shorts_of (s_acct s) req) [] else Done s []) as [s1 lids|s1 e];
      destruct B as [H1 [Fo Fh]]; cbn [sof obind] in *; [|exact H1].
    destruct (upd_acct c s1 [] req []) as [s2 []|s2 e] eqn:E; cbn [obind].
    + unfold rp. cbn [sof].
      set (o' := mkOrder (o_id o) (o_kind o) (o_op o) (o_pair o) (o_amount o) (o_state o) (o_fb o) (o_fq o)
                         (o_fee o) (o_hit o) (o_ab o) (o_ar o) lids (o_fills o)).
      assert (P : prim c s1 (set_orders (if vnonempty req then set_holds s2 (holds_set (s_holds s2) (o_id o') req) else s2)
                                        (s_orders s1 ++ [o']))).
      { eapply (PAccept c s1 req s2 o' tt); [rewrite Ev; exact E | | | | | | |];
          cbn [o' o_id o_fb o_fq o_fee o_amount o_pair]; try assumption.
        rewrite Fo. exact Hid. }
      rewrite Ev in P. apply upd_acct_done in E. destruct E as (a' & _ & ->).
      pose proof (R_prim_app _ _ [o'] H1 P eq_refl) as H3.
      eapply R_neutral; [exact H3|].
      unfold push_update; cbn; destruct (s_now s1); unfold neutral; cbn; repeat split; reflexivity.
    + apply upd_acct_fail in E. subst. exact H1.
  - cbn [obind]. unfold rp. cbn [sof].
    set (o' := mkOrder (o_id o) (o_kind o) (o_op o) (o_pair o) (o_amount o) (o_state o) (o_fb o) (o_fq o)
                       (o_fee o) (o_hit o) (o_ab o) (o_ar o) [] (o_fills o)).
    assert (P : prim c s (set_orders (if vnonempty req then set_holds s (holds_set (s_holds s) (o_id o') req) else s)
                                     (s_orders s ++ [o']))).
    { eapply (PAccept c s req s o' tt); [rewrite Ev; reflexivity | | | | | | |];
        cbn [o' o_id o_fb o_fq o_fee o_amount o_pair]; assumption. }
    rewrite Ev in P. pose proof (R_prim_app _ _ [o'] H P eq_refl) as H3.
    eapply R_neutral; [exact H3|].
    unfold push_update; cbn; destruct (s_now s); unfold neutral; cbn; repeat split; reflexivity.
Qed.

Lemma validate_pos pi k amount u : validate pi k amount = Ok u -> 0 <= amount.
Proof.
  unfold validate. destruct (Qle_bool amount 0) eqn:E; [discriminate|]. intros _.
  apply Qle_bool_false in E. lra.
Qed.

Lemma rp_create_order s k op p amount ab ar : fst p <> snd p -> R s -> rp (create_order c s k op p amount ab ar).
Proof.
  intros Hpd H. unfold create_order.
  destruct (get_pair_info c p) as [pi|e]; cbn [lift obind]; [|exact H].
  destruct (validate pi k amount) as [u|e] eqn:Ev; cbn [lift obind]; [|exact H].
  apply rp_add_order; cbn [o_id o_fb o_fq o_fee o_amount o_pair]; try reflexivity; [exact H | | exact Hpd].
  eapply validate_pos; exact Ev.
Qed.

(* ---------------------------------------------------------------------------------------------- *)
(* the order record passed around is the stored one, up to non-monetary fields *)
Definition stored (s : st) (o : order) : Prop :=
  exists o0, get_order s (o_id o) = Some o0 /\ same_money o0 o.

Lemma stored_orders s s' o : s_orders s' = s_orders s -> stored s o -> stored s' o.
Proof. unfold stored, get_order. intros ->. auto. Qed.

Lemma same_money_refl o : same_money o o.
Proof. unfold same_money. repeat split; reflexivity. Qed.

Lemma stored_put s o o0 : get_order s (o_id o) = Some o0 -> stored (put_order s o) o.
Proof.
  intros H. exists o. split; [|apply same_money_refl].
  unfold get_order, put_order in *. cbn [set_orders s_orders]. rewrite nth_error_replace_nth.
  rewrite Nat.eqb_refl, H. reflexivity.
Qed.

Lemma rp_repay_loans s o : R s -> stored s o -> was_open (o_id o) -> rp (repay_loans c s o).
Proof.
  intros H Hst Hwo. unfold repay_loans.
  destruct (check_infos c s (s_loans s)) as [u|e]; cbn [lift obind]; [|exact H].
  match goal with |- rp (obind (repay_each c s ?ids []) _) =>
    destruct (rpf_repay_each ids s [] H) as [H1 [Fo _]]; destruct (repay_each c s ids []) as [s1 done|s1 e] end;
    cbn [obind sof] in *; [|exact H1].
  unfold rp. cbn [sof]. destruct (stored_orders _ _ _ Fo Hst) as (o0 & Hg & Hm).
  eapply R_prim_put; [exact H1 | | reflexivity | exact Hwo]. eapply PMeta; [cbn [add_loans o_id]; exact Hg|].
  unfold same_money in *. cbn [add_loans o_id o_pair o_op o_amount o_fb o_fq o_fee]. exact Hm.
Qed.

Lemma rp_order_closed s o : R s -> stored s o -> was_open (o_id o) -> rp (order_closed c s o).
Proof.
  intros H Hst Hwo. unfold order_closed.
  destruct (update_balances c s o []) as [s1 u|s1 e] eqn:E; cbn [obind].
  - destruct (update_balances_orders _ _ _ _ _ _ E) as [Eo _].
    assert (H1 : R s1) by (eapply R_prim_same; [exact H | eapply PRelease; exact E | exact Eo]).
    destruct (o_ar o && negb (Qzero (filled o))); [|exact H1].
    apply rp_repay_loans; [exact H1 | eapply stored_orders; eauto | exact Hwo].
  - apply update_balances_fail in E. subst. exact H.
Qed.

Lemma same_money_state o0 o stt : same_money o0 o -> same_money o0 (with_state o stt).
Proof. unfold same_money. cbn [with_state o_id o_pair o_op o_amount o_fb o_fq o_fee]. auto. Qed.

Lemma same_money_hit o0 o h : same_money o0 o -> same_money o0 (with_hit o h).
Proof. unfold same_money. cbn [with_hit o_id o_pair o_op o_amount o_fb o_fq o_fee]. auto. Qed.

Lemma rp_close_as s o stt w :
  R s -> stored s o -> was_open (o_id o) ->
  rp (obind (order_closed c (put_order s (with_state o stt)) (with_state o stt))
            (fun s o2 => Done (push_update s o2 w) tt)).
Proof.
  intros H (o0 & Hg & Hm) Hwo.
  assert (H1 : R (put_order s (with_state o stt))).
  { eapply R_prim_put; [exact H | | reflexivity | exact Hwo].
    eapply PMeta; [cbn [with_state o_id]; exact Hg | apply same_money_state; exact Hm]. }
  apply rp_obind.
  - apply rp_order_closed; [exact H1 | | exact Hwo]. eapply stored_put. cbn [with_state o_id]. exact Hg.
  - intros s2 o2 H2. unfold rp. cbn [sof]. eapply R_neutral; [exact H2 | apply neutral_push_update].
Qed.

Lemma rp_cancel_order s id : R s -> rp (cancel_order c s id).
Proof.
  intros H. unfold cancel_order. destruct (get_order s id) as [o|] eqn:Eg; [|exact H].
  destruct (negb (is_open o)) eqn:Eop; [exact H|]. apply negb_false_iff in Eop.
  assert (Eid : o_id o = id) by (destruct H as [(Ho & _) _]; destruct (Ho _ _ Eg); assumption).
  destruct (if o_ar o && negb (Qzero (filled o)) then check_infos c s (s_loans s) else Ok tt); cbn [lift obind]; [|exact H].
  apply rp_close_as; [exact H | | rewrite Eid; eapply R_was_open; eauto].
  exists o. rewrite Eid. split; [exact Eg | apply same_money_refl].
Qed.

Lemma rp_order_not_filled s o when : R s -> stored s o -> was_open (o_id o) -> rp (order_not_filled c s o when).
Proof.
  intros H Hst Hwo. unfold order_not_filled.
  destruct (o_kind o); try exact H;
    (destruct (negb (is_open o)); [exact H | apply rp_close_as; assumption]).
Qed.

(* ---------------------------------------------------------------------------------------------- *)
(* processing an order against a bar *)
Definition rpl (r : outcome liq) : Prop :=
  R (sof r) /\ match r with Done _ l => liq_ok l | Fail _ _ => True end.

Lemma rpl_of_rp (r : outcome unit) l : rp r -> liq_ok l -> rpl (obind r (fun s _ => Done s l)).
Proof. destruct r; unfold rp, rpl; cbn [obind sof]; auto. Qed.

Lemma rp_process_order s l o p when b :
  R s -> get_order s (o_id o) = Some o -> was_open (o_id o) -> liq_ok l -> rpl (process_order c s l o p when b).
Proof.
  intros H Hg Hwo Hl. unfold process_order.
  destruct (balance_updates c l o b) as [[u hit]|e] eqn:Ebu; cbn [lift obind]; [|split; [exact H | exact I]].
  set (o1 := with_hit o hit).
  assert (H1 : R (put_order s o1)).
  { eapply R_prim_put; [exact H | | reflexivity | exact Hwo].
    eapply PMeta; [cbn [o1 with_hit o_id]; exact Hg | apply same_money_hit, same_money_refl]. }
  assert (Hg1 : get_order (put_order s o1) (o_id o1) = Some o1).
  { unfold get_order, put_order in *. cbn [set_orders s_orders]. rewrite nth_error_replace_nth.
    rewrite Nat.eqb_refl. cbn [o1 with_hit o_id]. rewrite Hg. reflexivity. }
  assert (Hst1 : stored (put_order s o1) o1) by (exists o1; split; [exact Hg1 | apply same_money_refl]).
  destruct (get_pair_info c (o_pair o1)) as [pi|e]; cbn [lift obind]; [|split; [exact H1 | exact I]].
  destruct (match u with Some (bv, qv) => round_bu pi (Some bv) (Some qv) | None => (None, None) end) as [rb rq] eqn:Er.
  destruct rb as [bv|]; [destruct rq as [qv|]|];
    try (apply rpl_of_rp; [apply rp_order_not_filled; assumption | exact Hl]).
  destruct (calc_fee c (snd pi) o1 qv) as [fee|e]; cbn [lift obind]; [|split; [exact H1 | exact I]].
  set (feev := match fee with Some f => f | None => 0 end).
  change ([(fst (o_pair o1), bv)] ++ (if Qzero (qv + feev) then [] else [(snd (o_pair o1), qv + feev)]))
    with (fill_updates o1 bv qv feev).
  destruct (update_balances c (put_order s o1) o1 (fill_updates o1 bv qv feev)) as [s4 u4|s4 e4] eqn:Eu.
  - (* balances updated: liquidity is there, the fill is recorded *)
    destruct u as [[bv0 qv0]|]; [|inversion Er].
    destruct pi as [bp qp]. destruct (round_bu_some _ _ _ _ _ _ Er) as (Ebv & Enz & _).
    destruct H as [(Ho & _) _]. destruct (Ho _ _ Hg) as [_ How].
    destruct (bu_bounds _ _ _ _ _ _ _ Ebu How Hl) as (B0 & B1 & B2).
    destruct (qtrunc_dir bp bv0 (o_op o) B0) as [T0 T1]. rewrite <- Ebv in T0, T1.
    assert (Habs : Qabsq bv == bv * sign_of (o_op o)) by (apply Qabsq_dir; exact T0).
    assert (Hpos : 0 < Qabsq bv).
    { rewrite Habs. destruct (Qlt_le_dec 0 (bv * sign_of (o_op o))) as [X|X]; [exact X|].
      exfalso. assert (Z0 : bv * sign_of (o_op o) == 0) by lra.
      assert (Zb : bv == 0) by (destruct (o_op o); cbn [sign_of] in Z0; lra).
      rewrite Ebv in Zb. unfold Qzero in Enz. apply Qeq_bool_neq in Enz. apply Enz. exact Zb. }
    destruct (take_liquidity_total l (Qabsq bv) Hl Hpos) as (l' & Et & Hl').
    { intros t u El. rewrite Habs. specialize (B2 t u El). lra. }
    rewrite Et. cbn [lift obind].
    assert (How1 : OW o1) by exact How.
    assert (Pf : prim c (put_order s o1) (put_order s4 (add_fill o1 when bv qv feev))).
    { eapply PFill; [exact Hg1 | exact Eu |]. apply OW_add_fill; [exact How1 | exact T0 |].
      change (bv * sign_of (o_op o) <= pending o). lra. }
    destruct (update_balances_orders _ _ _ _ _ _ Eu) as [Eo4 _].
    pose proof (R_prim_put _ _ _ H1 Pf Eo4 Hwo) as H5.
    split.
    + apply rp_obind.
      * destruct (is_open (add_fill o1 when bv qv feev)); [exact H5|].
        apply rp_order_closed; [exact H5 | | exact Hwo].
        eapply stored_put.
        unfold get_order. rewrite Eo4. cbn [add_fill o_id]. exact Hg1.
      * intros s6 o2 H6. unfold rp. cbn [sof]. eapply R_neutral; [exact H6 | apply neutral_push_update].
    + destruct (if is_open (add_fill o1 when bv qv feev) then _ else _); cbn [obind]; [exact Hl' | exact I].
  - apply update_balances_fail in Eu. subst s4.
    destruct e4; try (split; [exact H1 | exact I]).
    apply rpl_of_rp; [apply rp_order_not_filled; assumption | exact Hl].
Qed.

Lemma rp_process_all ids p when b : forall s l, R s -> liq_ok l -> rpl (process_all c s l ids p when b).
Proof.
  induction ids as [|id r IH]; intros s l H Hl; cbn [process_all].
  - split; [exact H | exact Hl].
  - destruct (get_order s id) as [o|] eqn:Eg; [|apply IH; assumption].
    destruct (is_open o && pair_eqb (o_pair o) p) eqn:Eop; [|apply IH; assumption].
    assert (Eid : o_id o = id) by (destruct H as [(Ho & _) _]; destruct (Ho _ _ Eg); assumption).
    assert (Hg : get_order s (o_id o) = Some o) by (rewrite Eid; exact Eg).
    assert (Hwo : was_open (o_id o)).
    { rewrite Eid. eapply R_was_open; [exact H | exact Eg |]. apply andb_true_iff in Eop. apply Eop. }
    destruct (rp_process_order s l o p when b H Hg Hwo Hl) as [H1 L1].
    destruct (process_order c s l o p when b) as [s1 l1|s1 e]; cbn [obind sof] in *.
    + apply IH; assumption.
    + split; [exact H1 | exact I].
Qed.

Definition cfg_ok : Prop := match c_liq c with VolShare lp _ => 0 <= lp | InfLiq => True end.
Definition op_ok (o : op) : Prop :=
  match o with
  | OBar _ _ b => 0 <= b_volume b
  | OCreate _ _ p _ _ _ => fst p <> snd p          (* a pair trades two different symbols *)
  | _ => True
  end.

Lemma rp_on_bar s p when b : cfg_ok -> 0 <= b_volume b -> R s -> rp (on_bar c s p when b).
Proof.
  intros Hc Hv H. unfold on_bar, bump_reindex.
  match goal with |- rp (obind (process_all c ?s1 ?l0 ?ids p when b) _) =>
    assert (H1 : R s1) by (eapply R_neutral; [exact H | unfold neutral; cbn; repeat split; reflexivity]);
    assert (L0 : liq_ok l0) end.
  { unfold cfg_ok in Hc. destruct (c_liq c) as [|lp ip]; [exact I|]. cbn [liq_ok].
    split; [lra|]. apply Qmult_le_0_compat; [exact Hv|]. apply Qle_shift_div_l; lra. }
  match goal with |- rp (obind (process_all c ?s1 ?l0 ?ids p when b) _) =>
    destruct (rp_process_all ids p when b s1 l0 H1 L0) as [H2 _]; destruct (process_all c s1 l0 ids p when b) as [s2 l2|s2 e] end;
    cbn [obind sof] in *; [|exact H2].
  unfold rp. cbn [sof]. unfold finish_reindex.
  match goal with |- R (if ?x then _ else _) => destruct x end; [|exact H2].
  eapply R_neutral; [exact H2 | unfold neutral; cbn; repeat split; reflexivity].
Qed.

Lemma R_list_open s p : R s -> R (fst (list_open s p)).
Proof.
  intros H. unfold list_open, bump_reindex, finish_reindex.
  match goal with |- context [if ?b then _ else _] => destruct b end; cbn [fst];
    (eapply R_neutral; [exact H | unfold neutral; cbn; repeat split; reflexivity]).
Qed.

Lemma R_step s o : cfg_ok -> op_ok o -> R s -> R (fst (step c s o)).
Proof.
  intros Hc Ho H. destruct o; cbn [step op_ok] in *.
  - pose proof (rp_on_bar s p when b Hc Ho H) as X. destruct (on_bar c s p when b); exact X.
  - pose proof (rp_create_order s k o p amount ab ar Ho H) as X. destruct (create_order _ _ _ _ _ _ _ _); exact X.
  - pose proof (rp_cancel_order s id H) as X. destruct (cancel_order c s id); exact X.
  - destruct (rpf_create_loan s x amount H) as [X _]. destruct (create_loan c s x amount); exact X.
  - destruct (rpf_repay_loan s id H) as [X _]. destruct (repay_loan c s id); exact X.
  - pose proof (R_list_open s p H) as X. destruct (list_open s p). exact X.
Qed.
End Struct.

Definition ops_ok (ops : list op) : Prop := Forall op_ok ops.

(* orders closed in [s] are still there, unchanged, in [s'] *)
Definition frozen (s s' : st) : Prop :=
  forall i o, nth_error (s_orders s) i = Some o -> is_open o = false -> nth_error (s_orders s') i = Some o.

Lemma step_struct c s o :
  cfg_ok c -> op_ok o -> WF s ->
  WF (fst (step c s o)) /\ prims c s (fst (step c s o)) /\ frozen s (fst (step c s o)).
Proof.
  intros Hc Ho Hw. apply (R_step c s s o Hc Ho). split; [exact Hw | split; [apply prims_refl|]].
  intros i x Hi _. exact Hi.
Qed.

(* every operation, successful or not, is a sequence of primitive transactions between well-formed states *)
Theorem step_prims c s o :
  cfg_ok c -> op_ok o -> WF s -> WF (fst (step c s o)) /\ prims c s (fst (step c s o)).
Proof. intros Hc Ho Hw. destruct (step_struct c s o Hc Ho Hw) as (A & B & _). split; assumption. Qed.

(* C05: a closed order never changes again, whatever operation follows *)
Theorem step_closed_final c s o :
  cfg_ok c -> op_ok o -> WF s -> frozen s (fst (step c s o)).
Proof. intros Hc Ho Hw. apply (step_struct c s o Hc Ho Hw). Qed.

Theorem run_prims c ops : forall s,
  cfg_ok c -> ops_ok ops -> WF s -> WF (run c s ops) /\ prims c s (run c s ops) /\ frozen s (run c s ops).
Proof.
  unfold run. induction ops as [|o r IH]; intros s Hc Ho Hw; cbn [fold_left].
  - split; [exact Hw | split; [apply prims_refl | intros i x Hi _; exact Hi]].
  - inversion Ho as [|? ? Ho1 Hor]; subst.
    destruct (step_struct c s o Hc Ho1 Hw) as (W1 & P1 & F1).
    destruct (IH _ Hc Hor W1) as (W2 & P2 & F2). split; [exact W2 | split; [eapply prims_trans; eauto|]].
    intros i x Hi Hx. apply F2; [apply F1; assumption | exact Hx].
Qed.

Lemma WF_init initial : WF (init_st initial).
Proof.
  unfold WF, init_st. cbn [s_orders s_loans s_holds]. split; [|split].
  - intros [|i] o X; discriminate X.
  - intros [|i] l X; discriminate X.
  - intros k v [].
Qed.
