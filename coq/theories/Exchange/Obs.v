(* Observation of the exchange state through its public API, flattened to a vector of rationals, and
   the checksum protocol used by the correspondence check (harness/exchange_driver.py computes the same
   vector from get_balances()/get_orders()/get_loan()/order events of the real exchange). *)
From Coq Require Import ZArith QArith List Bool PArith.
From Basana Require Import Num.DecQ Exchange.Model.
Import ListNotations.
Open Scope Q_scope.

Definition qnat (n : nat) : Q := inject_Z (Z.of_nat n).
Definition qpos (p : positive) : Q := inject_Z (Zpos p).
Definition qbool (b : bool) : Q := if b then 1 else 0.
Definition qopt (o : option Q) : Q := match o with Some v => v | None => -1 end.

Definition err_code (e : err) : Q :=
  match e with ENotEnough => 1 | EError => 2 | ENotFound => 3 | ENoPrice => 4 | EAssert => 5 end.

Fixpoint insert_nat (n : nat) (l : list nat) : list nat :=
  match l with [] => [n] | h :: r => if Nat.leb n h then n :: h :: r else h :: insert_nat n r end.
Definition sort_nat (l : list nat) : list nat := fold_right insert_nat [] l.

Definition obs_reply (r : reply) : list Q :=
  match r with
  | ROk => [0]
  | RId n => [1; qnat n]
  | RIds l => 2 :: qnat (length l) :: map qnat l
  | RErr e => [3; err_code e]
  end.

Definition obs_balances (s : st) (syms : list sym) : list Q :=
  flat_map (fun x => [Qred (avail (s_acct s) x); Qred (vget (hold (s_acct s)) x); Qred (vget (bor (s_acct s)) x)]) syms.

Definition obs_order (o : order) : list Q :=
  [qbool (is_open o); Qred (filled o); Qred (pending o); Qred (qfilled o); Qred (- o_fee o);
   qopt (limit_of (o_kind o)); qopt (stop_of (o_kind o)); qnat (length (o_loans o))]
  ++ map qnat (sort_nat (o_loans o)).

Definition obs_loan (c : cfg) (s : st) (l : loan) : list Q :=
  [qbool (l_open l); qpos (l_sym l); l_amount l;
   (if l_open l then match outstanding c s l with Ok i => Qred i | Err _ => -1 end else 0);
   l_paid l].

Definition obs_state (c : cfg) (s : st) (syms : list sym) : list Q :=
  obs_balances s syms
  ++ qnat (length (s_orders s)) :: flat_map obs_order (s_orders s)
  ++ qnat (length (s_loans s)) :: flat_map (obs_loan c s) (s_loans s).

Definition obs_event (e : Z * order) : list Q :=
  let o := snd e in
  [inject_Z (fst e); qnat (o_id o); qbool (is_open o); Qred (filled o); Qred (qfilled o); Qred (- o_fee o)].

Definition weight (i : nat) : Q :=
  let k := Z.of_nat (S i) in inject_Z (k * k * 31 + k * 17 + 7).

Fixpoint checksum_from (i : nat) (v : list Q) (acc : Q) : Q :=
  match v with
  | [] => acc
  | x :: r => checksum_from (S i) r (Qred (acc + weight i * x))
  end.
Definition checksum (v : list Q) : Q := checksum_from 0 v 0.

Inductive verdict := Agree | Diverge (k : nat) (model : Q).

(* fold the ops, comparing the checksum of (reply ++ state) after every op *)
Fixpoint check_ops (c : cfg) (syms : list sym) (s : st) (k : nat) (ops : list op) (expd : list Q)
  : verdict * st :=
  match ops, expd with
  | [], _ => (Agree, s)
  | o :: r, e :: er =>
    let '(s', rep) := step c s o in
    let m := checksum (obs_reply rep ++ obs_state c s' syms) in
    if Qeq_bool m e then check_ops c syms s' (S k) r er else (Diverge k m, s')
  | _ :: _, [] => (Diverge k (-1), s)
  end.

(* [expd] = one checksum per op, followed by the checksum of all order events *)
Definition check_case (c : cfg) (syms : list sym) (initial : vmap) (ops : list op) (expd : list Q) : verdict :=
  let n := length ops in
  match check_ops c syms (init_st initial) 0 ops (firstn n expd) with
  | (Agree, s) =>
    let m := checksum (flat_map obs_event (s_events s)) in
    match skipn n expd with
    | [e] => if Qeq_bool m e then Agree else Diverge n m
    | _ => Diverge n (-2)
    end
  | (d, _) => d
  end.

(* debugging aid: the model's full observation after the first [k+1] ops (k = length ops for events) *)
Definition trace_case (c : cfg) (syms : list sym) (initial : vmap) (ops : list op) (k : nat) : list Q :=
  if Nat.leb (length ops) k then flat_map obs_event (s_events (run c (init_st initial) ops))
  else
    let s := run c (init_st initial) (firstn k ops) in
    match nth_error ops k with
    | Some o => let '(s', rep) := step c s o in obs_reply rep ++ obs_state c s' syms
    | None => []
    end.
