(* What a fill can be: the base amount of the balance updates an order asks for is, in the direction of
   the order, between 0 and the pending amount and never more than the liquidity left; truncation only
   shrinks it; so taking liquidity never fails after the balances were updated, and the filled amount
   of an order never exceeds the ordered amount. *)
From Coq Require Import ZArith QArith Qround Lia Lqa List Bool PArith.
From Basana Require Import Num.DecQ Num.DecQProofs Exchange.Model Exchange.AcctProofs Exchange.StepProofs
  Exchange.OpProofs Exchange.OrderProofs Exchange.FeeProofs Exchange.Prims.
Import ListNotations.
Open Scope Q_scope.

Ltac brk := repeat match goal with
  | H : rbind ?r _ = Ok _ |- _ => destruct r eqn:?; cbn [rbind] in H; [|discriminate H]
  | H : (if ?b then _ else _) = Ok _ |- _ => destruct b eqn:?; try discriminate H
  | H : Ok _ = Ok _ |- _ => inversion H; clear H; subst
  | H : (if ?b then _ else _) = Some _ |- _ => destruct b eqn:?; try discriminate H
  | H : match ?x with Some _ => _ | None => _ end = _ |- _ => destruct x eqn:?; try discriminate H
  | H : Some _ = Some _ |- _ => inversion H; clear H; subst
  | H : Err _ = Ok _ |- _ => discriminate H
  | H : None = Some _ |- _ => discriminate H
  end.

Lemma bu_form c l o b bv0 qv0 hit :
  balance_updates c l o b = Ok (Some (bv0, qv0), hit) ->
  (bv0 = pending o * sign_of (o_op o) /\ gt_avail (pending o) l = false) \/
  (bv0 = min_avail (pending o) l * sign_of (o_op o)).
Proof.
  unfold balance_updates, limit_updates, mk_updates.
  destruct (o_kind o); destruct (o_op o); cbn zeta;
  repeat match goal with
  | |- context [if ?b then _ else _] => destruct b eqn:?
  | |- context [rbind ?r _] => destruct r eqn:?; cbn [rbind]
  | |- context [let '(_, _) := ?x in _] => destruct x eqn:?
  | |- context [match ?x with Some _ => _ | None => _ end] => destruct x eqn:?
  end;
  intros H; try discriminate H; inversion H; subst; auto; try (exfalso; congruence); brk; auto; try (right; reflexivity); try (left; split; [reflexivity | assumption]).
Qed.

Lemma sg_cases op : sign_of op = 1 \/ sign_of op = -1.
Proof. destruct op; [left | right]; reflexivity. Qed.

Lemma sg_sq op : sign_of op * sign_of op == 1.
Proof. destruct op; cbn [sign_of]; ring. Qed.

Lemma Qabsq_dir x op : 0 <= x * sign_of op -> Qabsq x == x * sign_of op.
Proof.
  intros H. unfold Qabsq. destruct (Qle_bool 0 x) eqn:E.
  - apply Qle_bool_iff in E. destruct op; cbn [sign_of] in *; lra.
  - apply Qle_bool_false in E. destruct op; cbn [sign_of] in *; lra.
Qed.

Lemma OW_pending o : OW o -> 0 <= pending o /\ pending o == o_amount o - o_fb o * sign_of (o_op o).
Proof.
  intros [H0 H1]. unfold pending, filled. rewrite (Qabsq_dir _ _ H0). split; lra.
Qed.

Lemma bu_bounds c l o b bv0 qv0 hit :
  balance_updates c l o b = Ok (Some (bv0, qv0), hit) -> OW o -> liq_ok l ->
  0 <= bv0 * sign_of (o_op o) /\ bv0 * sign_of (o_op o) <= pending o /\
  (forall t u, l = Some (t, u) -> bv0 * sign_of (o_op o) <= t - u).
Proof.
  intros H How Hl. destruct (OW_pending o How) as [Hp _].
  pose proof (sg_sq (o_op o)) as Hs.
  destruct (bu_form _ _ _ _ _ _ _ H) as [[-> Hg] | ->].
  - assert (E : pending o * sign_of (o_op o) * sign_of (o_op o) == pending o).
    { rewrite <- Qmult_assoc, Hs. ring. }
    rewrite E. split; [exact Hp|]. split; [lra|].
    intros t u El. rewrite ?E. eapply gt_avail_false_le; eauto.
  - assert (E : min_avail (pending o) l * sign_of (o_op o) * sign_of (o_op o) == min_avail (pending o) l).
    { rewrite <- Qmult_assoc, Hs. ring. }
    rewrite E. split; [|split].
    + unfold min_avail, liq_avail. destruct l as [[t u]|]; [|exact Hp].
      cbn [liq_ok] in Hl. apply Qminq_glb; lra.
    + unfold min_avail. destruct (liq_avail l); [apply Qminq_le_l | lra].
    + intros t u El. rewrite ?E. eapply min_avail_le; eauto.
Qed.

Lemma qtrunc_dir p x op :
  0 <= x * sign_of op -> 0 <= qtrunc p x * sign_of op /\ qtrunc p x * sign_of op <= x * sign_of op.
Proof.
  destruct op; cbn [sign_of]; intros H.
  - assert (Hx : 0 <= x) by lra. destruct (qtrunc_nonneg p x Hx). split; lra.
  - assert (Hx : x <= 0) by lra. destruct (qtrunc_nonpos p x Hx). split; lra.
Qed.

Lemma take_liquidity_total l a :
  liq_ok l -> 0 < a -> (forall t u, l = Some (t, u) -> a <= t - u) ->
  exists l', take_liquidity l a = Ok l' /\ liq_ok l'.
Proof.
  intros Hl Ha Hb. destruct l as [[t u]|]; cbn [take_liquidity].
  - specialize (Hb t u eq_refl). unfold Qltb. 
    assert (E : Qle_bool a (t - u) = true) by (apply Qle_bool_iff; exact Hb). rewrite E. cbn [negb].
    eexists. split; [reflexivity|]. cbn [liq_ok] in *. rewrite Qred_correct. lra.
  - unfold Qltb. destruct (Qle_bool a 0) eqn:E; [apply Qle_bool_iff in E; lra|]. cbn [negb].
    exists None. split; [reflexivity | exact I].
Qed.

Lemma OW_add_fill o w bv qv f :
  OW o -> 0 <= bv * sign_of (o_op o) -> bv * sign_of (o_op o) <= pending o -> OW (add_fill o w bv qv f).
Proof.
  intros How H0 H1. destruct (OW_pending o How) as [_ Ep]. destruct How as [Ha Hb].
  unfold OW, add_fill. cbn [o_fb o_op o_amount]. rewrite Qred_correct. split; lra.
Qed.
